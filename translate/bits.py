#!/usr/bin/env python3
"""Translator for C12: regenerates lean/BoaVerif/Gen/Bits.lean from
/repo/core/engine/src/value/inner/nan_boxed.rs (`mod bits` + the tag dispatch
tables of NanBoxedValue). Strict: anything it cannot read is an error (exit 3),
never skipped."""
import os
import re
import sys

REPO = os.environ.get("BOA_REPO", "/repo")
SRC = os.path.join(REPO, "core/engine/src/value/inner/nan_boxed.rs")


class TErr(Exception):
    pass


def strip_comments(s):
    s = re.sub(r"/\*.*?\*/", "", s, flags=re.S)
    return re.sub(r"//[^\n]*", "", s)


def block_after(text, start):
    """text[start] is '{' ; return (body, end_index_after_closing_brace)"""
    assert text[start] == "{"
    depth = 0
    for i in range(start, len(text)):
        if text[i] == "{":
            depth += 1
        elif text[i] == "}":
            depth -= 1
            if depth == 0:
                return text[start + 1:i], i + 1
    raise TErr("unbalanced braces")


# ----------------------------------------------------------------- expressions
TOK = re.compile(r"\s*(0x[0-9A-Fa-f_]+|\d[\d_]*(?:f64|u64|i32)?|[A-Za-z_][A-Za-z0-9_]*(?:::[A-Za-z_][A-Za-z0-9_]*)*|==|!=|\|\||&&|[()&|.!\-])")


def tokenize(s):
    out, i = [], 0
    s = s.strip()
    while i < len(s):
        m = TOK.match(s, i)
        if not m:
            raise TErr("cannot tokenize expression: %r at %r" % (s, s[i:i + 20]))
        out.append(m.group(1))
        i = m.end()
    return out


class P:
    """Pratt parser for the tiny expression language of `mod bits`.
    Produces (lean_term, type) with type in {'u64','i32','bool','f64','usize'}."""

    def __init__(self, toks, env):
        self.t, self.i, self.env = toks, 0, env

    def peek(self):
        return self.t[self.i] if self.i < len(self.t) else None

    def eat(self, x=None):
        v = self.peek()
        if v is None or (x is not None and v != x):
            raise TErr("expected %r, found %r in %r" % (x, v, self.t))
        self.i += 1
        return v

    # precedence (low → high): || , && , ==/!= , | , & , as , postfix
    def expr(self):
        l = self.andand()
        while self.peek() == "||":
            self.eat()
            r = self.andand()
            self.need(l, "bool"), self.need(r, "bool")
            l = ("(%s || %s)" % (l[0], r[0]), "bool")
        return l

    def andand(self):
        l = self.cmp()
        while self.peek() == "&&":
            self.eat()
            r = self.cmp()
            self.need(l, "bool"), self.need(r, "bool")
            l = ("(%s && %s)" % (l[0], r[0]), "bool")
        return l

    def cmp(self):
        l = self.bor()
        if self.peek() in ("==", "!="):
            op = self.eat()
            r = self.bor()
            if l[1] != r[1]:
                raise TErr("comparison of %s with %s" % (l[1], r[1]))
            l = ("(%s %s %s)" % (l[0], op, r[0]), "bool")
        return l

    def bor(self):
        l = self.band()
        while self.peek() == "|":
            self.eat()
            r = self.band()
            self.same(l, r)
            l = ("(%s ||| %s)" % (l[0], r[0]), l[1])
        return l

    def band(self):
        l = self.cast()
        while self.peek() == "&":
            self.eat()
            r = self.cast()
            self.same(l, r)
            l = ("(%s &&& %s)" % (l[0], r[0]), l[1])
        return l

    def cast(self):
        l = self.postfix()
        while self.peek() == "as":
            self.eat()
            ty = self.eat()
            l = self.do_cast(l, ty)
        return l

    def do_cast(self, l, ty):
        src = l[1]
        if src == "i32" and ty == "u64":
            return ("(BitVec.signExtend 64 %s)" % l[0], "u64")
        if src == "bool" and ty == "u64":
            return ("(bif %s then 1#64 else 0#64)" % l[0], "u64")
        if src == "u64" and ty == "i32":
            return ("(BitVec.setWidth 32 %s)" % l[0], "i32")
        if src == "u64" and ty == "usize":
            return (l[0], "u64")   # 64-bit target: identity (documented in the generated header)
        if src == "usize" and ty == "u64":
            return (l[0], "u64")
        raise TErr("unsupported cast %s as %s" % (src, ty))

    def postfix(self):
        l = self.atom()
        while self.peek() == ".":
            self.eat()
            name = self.eat()
            self.eat("(")
            self.eat(")")
            if name == "is_nan" and l[1] == "f64":
                l = ("(isNaNBits %s)" % l[0], "bool")
            elif name == "to_bits" and l[1] == "f64":
                l = (l[0], "u64")
            elif name == "get" and l[1] == "usize":
                l = (l[0], "usize")
            elif name == "addr" and l[1] == "ptr":
                l = (l[0], "usize")
            else:
                raise TErr("unsupported method .%s() on %s" % (name, l[1]))
        return l

    def atom(self):
        v = self.eat()
        if v == "(":
            e = self.expr()
            self.eat(")")
            return e
        if v == "-":
            nxt = self.eat()
            if re.fullmatch(r"0(\.0)?f64", nxt):
                return ("0x8000000000000000#64", "f64")
            raise TErr("unsupported negation of %r" % nxt)
        if v.startswith("0x"):
            return ("0x%s#64" % v[2:].replace("_", ""), "u64")
        if re.fullmatch(r"\d[\d_]*(u64)?", v):
            return ("%s#64" % v.replace("_", "").replace("u64", ""), "u64")
        if v == "f64::NAN":
            return ("0x7FF8000000000000#64", "f64")
        if v in self.env:
            return (v, self.env[v])
        raise TErr("unknown identifier %r" % v)

    def need(self, e, ty):
        if e[1] != ty:
            raise TErr("expected %s, got %s in %r" % (ty, e[1], self.t))

    def same(self, l, r):
        if l[1] != r[1] or l[1] not in ("u64",):
            raise TErr("bit operation on %s and %s" % (l[1], r[1]))


def parse_expr(s, env):
    p = P(tokenize(s), env)
    e = p.expr()
    if p.peek() is not None:
        raise TErr("trailing tokens in %r" % s)
    return e


LTYPE = {"u64": "BitVec 64", "i32": "BitVec 32", "bool": "Bool", "f64": "BitVec 64", "usize": "BitVec 64"}


def translate_bits(body):
    env = {}
    lines = []
    # constants
    consts = re.findall(r"(?:pub\(super\)\s+)?const\s+([A-Z0-9_]+)\s*:\s*(\w+)\s*=\s*([^;]+);", body)
    if not consts:
        raise TErr("no constants found in mod bits")
    for name, ty, ex in consts:
        if ty != "u64":
            raise TErr("constant %s has type %s" % (name, ty))
        term, t = parse_expr(ex, env)
        if t not in ("u64",):
            raise TErr("constant %s: expression of type %s" % (name, t))
        env[name] = "u64"
        lines.append("def %s : BitVec 64 := %s" % (name, term))
    # functions
    pos = 0
    fns = []
    seen_items = set()
    for m in re.finditer(r"(?:pub\(super\)\s+)?(const\s+)?fn\s+(\w+)\s*(<[^>]*>)?\s*\(([^)]*)\)\s*(?:->\s*(\w+))?\s*\{", body):
        name = m.group(2)
        if m.start() < pos:
            continue  # nested fn inside a body that was already consumed
        fbody, end = block_after(body, m.end() - 1)
        pos = end
        params = []
        for prm in [x.strip() for x in m.group(4).split(",") if x.strip()]:
            pn, pt = [x.strip() for x in prm.split(":")]
            if pt.startswith("NonNull<"):
                pt = "ptr"
            params.append((pn, pt))
        fns.append((name, params, m.group(5), fbody))
        seen_items.add(name)
    if not fns:
        raise TErr("no functions found in mod bits")
    for name, params, ret, fbody in fns:
        fenv = dict(env)
        for pn, pt in params:
            if pt not in ("u64", "i32", "bool", "f64", "ptr"):
                raise TErr("fn %s: unsupported parameter type %s" % (name, pt))
            fenv[pn] = pt
        sig = " ".join("(%s : %s)" % (pn, "BitVec 64" if pt == "ptr" else LTYPE[pt]) for pn, pt in params)
        fb = fbody.strip()
        if name == "tag_pointer":
            term, rt = translate_tag_pointer(fb, fenv)
            lines.append("/-- `none` = the `unsupported_platform()` panic branch -/")
            lines.append("def %s %s : Option (BitVec 64) := %s" % (name, sig, term))
            continue
        mif = re.fullmatch(r"if\s+(.+?)\s*\{\s*(.+?)\s*\}\s*else\s*\{\s*(.+?)\s*\}", fb, flags=re.S)
        if mif:
            c = parse_expr(mif.group(1), fenv)
            a = parse_expr(mif.group(2), fenv)
            b = parse_expr(mif.group(3), fenv)
            if c[1] != "bool" or a[1] != b[1]:
                raise TErr("fn %s: ill-typed if" % name)
            term, rt = "(bif %s then %s else %s)" % (c[0], a[0], b[0]), a[1]
        else:
            if ";" in fb or "{" in fb:
                raise TErr("fn %s: body is not a single expression: %r" % (name, fb[:80]))
            term, rt = parse_expr(fb, fenv)
        want = {"u64": "u64", "i32": "i32", "bool": "bool", "usize": "u64"}.get(ret)
        if want is None or rt != want:
            raise TErr("fn %s: return type %s vs expression type %s" % (name, ret, rt))
        lines.append("def %s %s : %s := %s" % (name, sig, LTYPE[rt], term))
    # refuse unknown items: everything that is not a const, fn, use or attribute
    return lines, [c[0] for c in consts], [f[0] for f in fns]


def translate_tag_pointer(fb, fenv):
    # drop the nested cold fn
    m = re.search(r"fn\s+unsupported_platform\s*\(\)\s*\{", fb)
    if not m:
        raise TErr("tag_pointer: nested unsupported_platform() not found")
    _, end = block_after(fb, m.end() - 1)
    rest = re.sub(r"#\[[^\]]*\]", "", fb[:m.start()]) + fb[end:]
    mg = re.search(r"if\s+([^{}]+?)\s*\{\s*unsupported_platform\(\)\s*;?\s*\}", rest)
    if not mg:
        raise TErr("tag_pointer: guard calling unsupported_platform() not found")
    before, after = rest[:mg.start()], rest[mg.end():]
    env = dict(fenv)
    lets = []
    final = None

    def do_lets(chunk):
        for s in [x.strip() for x in chunk.split(";") if x.strip()]:
            ml = re.fullmatch(r"let\s+(\w+)\s*(?::\s*\w+)?\s*=\s*(.+)", s, flags=re.S)
            if not ml:
                return s
            e = parse_expr(ml.group(2), env)
            env[ml.group(1)] = e[1]
            lets.append((ml.group(1), e[0]))
        return None
    if do_lets(before) is not None:
        raise TErr("tag_pointer: unexpected statement before the guard")
    guard = parse_expr(mg.group(1), env)
    tail = do_lets(after)
    if tail is None:
        raise TErr("tag_pointer: no result expression")
    final = parse_expr(tail, env)
    if guard is None or final is None:
        raise TErr("tag_pointer: unexpected body shape")
    term = "".join("let %s := %s; " % (n, t) for n, t in lets)
    term += "bif %s then none else some %s" % (guard[0], final[0])
    return "(" + term + ")", "opt"


KINDS = {"Object": "object", "String": "string", "Symbol": "symbol", "BigInt": "bigint", "Integer32": "int32",
         "Boolean": "boolean", "Null": "null", "Undefined": "undefined", "Float64": "float", "Number": "float"}


def match_arms(text, fn_pat, what):
    """arms of `match self.value() & bits::MASK_KIND { ... }` inside the first fn matching fn_pat"""
    m = re.search(fn_pat, text)
    if not m:
        raise TErr("%s: function not found" % what)
    mm = re.compile(r"match\s+self\.value\(\)\s*&\s*bits::MASK_KIND\s*\{").search(text, m.end())
    if not mm or mm.start() - m.end() > 1500:
        raise TErr("%s: tag match not found" % what)
    body, _ = block_after(text, mm.end() - 1)
    # split top-level arms
    arms, depth, cur = [], 0, ""
    for ch in body:
        if ch in "{(":
            depth += 1
        elif ch in "})":
            depth -= 1
        cur += ch
        if depth == 0 and ch in ",}":
            if cur.strip().strip(","):
                arms.append(cur.strip().rstrip(","))
            cur = ""
    if cur.strip():
        arms.append(cur.strip())
    out = []
    for a in arms:
        if "=>" not in a:
            raise TErr("%s: cannot read arm %r" % (what, a[:60]))
        pat, rhs = a.split("=>", 1)
        out.append((pat.strip(), rhs.strip()))
    return out


def variant_table(text, fn_pat, what, ctor_re):
    rows = []
    default = None
    for pat, rhs in match_arms(text, fn_pat, what):
        m = re.fullmatch(r"bits::(MASK_\w+)", pat)
        if pat == "_":
            k = re.findall(ctor_re, rhs)
            if len(k) != 1:
                raise TErr("%s: default arm %r" % (what, rhs[:60]))
            default = KINDS[k[0]]
            continue
        if not m:
            raise TErr("%s: pattern %r" % (what, pat))
        if m.group(1) == "MASK_OTHER":
            inner = re.search(r"match\s+self\.value\(\)\s*\{(.*)\}", rhs, flags=re.S)
            if not inner:
                raise TErr("%s: MASK_OTHER arm has no inner match" % what)
            ia = re.findall(r"(bits::VALUE_\w+|_)\s*=>\s*(?:\w+::)?(\w+)", inner.group(1))
            if [x[0] for x in ia] != ["bits::VALUE_NULL", "_"]:
                raise TErr("%s: inner match shape %r" % (what, ia))
            rows.append(("MASK_OTHER", "other:%s:%s" % (KINDS[ia[0][1]], KINDS[ia[1][1]])))
            continue
        k = re.findall(ctor_re, rhs)
        if len(k) < 1 or any(x != k[0] for x in k):
            raise TErr("%s: arm %s => %r" % (what, pat, rhs[:60]))
        rows.append((m.group(1), KINDS[k[0]]))
    if default is None:
        raise TErr("%s: no default arm" % what)
    return rows, default


def refcount_arms(text, fn_pat, what):
    rows = []
    for pat, rhs in match_arms(text, fn_pat, what):
        if pat == "_":
            continue
        m = re.fullmatch(r"bits::(MASK_\w+)", pat)
        if not m:
            raise TErr("%s: pattern %r" % (what, pat))
        k = re.findall(r"as_(\w+)_unchecked", rhs)
        if len(k) != 1:
            raise TErr("%s: arm %s does not touch exactly one pointer kind" % (what, pat))
        rows.append((m.group(1), k[0]))
    return rows


def generate():
    raw = open(SRC).read()
    text = strip_comments(raw)
    m = re.search(r"\bmod\s+bits\s*\{", text)
    if not m:
        raise TErr("mod bits not found")
    body, _ = block_after(text, m.end() - 1)
    lines, consts, fns = translate_bits(body)
    av, av_def = variant_table(text, r"fn\s+as_variant\s*\(", "as_variant", r"JsVariant::(\w+)")
    gt, gt_def = variant_table(text, r"fn\s+get_type\s*\(", "get_type", r"Type::(\w+)")
    cl = refcount_arms(text, r"impl\s+Clone\s+for\s+NanBoxedValue", "Clone")
    dr = refcount_arms(text, r"impl\s+Drop\s+for\s+NanBoxedValue", "Drop")
    # the simple accessors outside mod bits
    def acc(name, pat):
        mm = re.search(r"fn\s+%s\s*\(&self\)\s*->\s*bool\s*\{\s*(.+?)\s*\}" % name, text, flags=re.S)
        if not mm:
            raise TErr("accessor %s not found" % name)
        e = mm.group(1).replace("self.value()", "v").replace("bits::", "")
        return parse_expr(e, {**{c: "u64" for c in consts}, "v": "u64"})
    out = []
    out.append("/- GENERATED by /verif/translate/bits.py from core/engine/src/value/inner/nan_boxed.rs — do not edit.")
    out.append("   f64 parameters are their IEEE-754 bit patterns (BitVec 64); `usize` is 64 bits (x86_64 target). -/")
    out.append("import BoaVerif.C12.Kind")
    out.append("namespace BoaVerif.Gen.Bits")
    out.append("open BoaVerif.C12")
    out.append("/-- f64::is_nan on the bit pattern -/")
    out.append("def isNaNBits (b : BitVec 64) : Bool := ((b &&& 0x7FF0000000000000#64) == 0x7FF0000000000000#64) && ((b &&& 0x000FFFFFFFFFFFFF#64) != 0#64)")
    out += lines
    for nm in ("is_undefined", "is_null", "is_null_or_undefined"):
        e = acc(nm, None)
        out.append("def nb_%s (v : BitVec 64) : Bool := %s" % (nm, e[0]))

    def tbl(name, rows, default):
        out.append("def %s : List (BitVec 64 × Arm) := [" % name + ", ".join(
            "(%s, %s)" % (mk, ("Arm.other Kind.%s Kind.%s" % tuple(k.split(":")[1:])) if k.startswith("other:") else "Arm.kind Kind.%s" % k)
            for mk, k in rows) + "]")
        out.append("def %s_default : Kind := Kind.%s" % (name, default))
    tbl("as_variant_arms", av, av_def)
    tbl("get_type_arms", gt, gt_def)
    out.append("def clone_arms : List (BitVec 64 × Kind) := [" + ", ".join("(%s, Kind.%s)" % (mk, k) for mk, k in cl) + "]")
    out.append("def drop_arms : List (BitVec 64 × Kind) := [" + ", ".join("(%s, Kind.%s)" % (mk, k) for mk, k in dr) + "]")
    out.append("end BoaVerif.Gen.Bits")
    return "\n".join(out) + "\n", {"constants": len(consts), "functions": fns}


if __name__ == "__main__":
    dest = sys.argv[1] if len(sys.argv) > 1 else os.path.join(os.path.dirname(os.path.dirname(os.path.abspath(__file__))), "lean/BoaVerif/Gen/Bits.lean")
    try:
        txt, info = generate()
    except TErr as e:
        print("TRANSLATOR-ERROR: %s" % e)
        sys.exit(3)
    old = open(dest).read() if os.path.exists(dest) else None
    if old != txt:
        os.makedirs(os.path.dirname(dest), exist_ok=True)
        open(dest, "w").write(txt)
        print("changed")
    else:
        print("unchanged")
