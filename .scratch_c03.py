import sys, subprocess, collections
sys.path.insert(0,'/verif/check')
import lib, jsgen, bytecode
seed=int(sys.argv[1]) if len(sys.argv)>1 else 7
N=int(sys.argv[2]) if len(sys.argv)>2 else 300
r=lib.rng(seed)
progs=[jsgen.gen_program(r, 4, strict=(i%4==0)) for i in range(N)]
src="\n".join("//// p%d run=1\n%s" % (i,p) for i,p in enumerate(progs))
p=subprocess.run(['/verif/.target/debug/dump'],input=src,capture_output=True,text=True)
d=bytecode.parse_dump(p.stdout)
def drv(reqs):
    q=subprocess.run(['/verif/lean/.lake/build/bin/drv-c03'],input="\n".join(reqs)+"\n",capture_output=True,text=True)
    return q.stdout.splitlines()
def parse_ann(a):
    ann={}
    if a.startswith('ok') or a.startswith('merge'):
        toks=a.split()[3:] if a.startswith('ok') else a.split('|',1)[1].split()
        for t in toks:
            pc,x,e,bb=map(int,t.split(':')); ann.setdefault(pc,set()).add((x,e,bb))
    return ann
meta=[]
for k,v in d.items():
    for b in v['blocks']: meta.append((k,b,v))
ans1=drv([bytecode.block_request(b) for k,b,v in meta])
# fp propagation
for (k,b,v),a in zip(meta,ans1): b['ann1']=parse_ann(a)
for k,v in d.items():
    bl=v['blocks']
    pos=[0]
    def build(i,fp):
        b=bl[i]; b['fp']=fp
        sites={}
        for pc,op,text in b['instrs']:
            if op=='GetFunction':
                regs,idx,addrs,names=bytecode.parse_operands(text,op)
                ci=dict(idx)['index']
                sites.setdefault(ci,set())
                for st in b['ann1'].get(pc,()): sites[ci].add(st[1])
        for ci in b['fnconsts']:
            pos[0]+=1
            es=sites.get(ci,{0} if i==0 else set())
            build(pos[0], None if (fp is None or len(es)!=1) else fp+min(es))
    if bl: build(0,0)
ans=drv([bytecode.block_request(b,b.get('fp')) for k,b,v in meta])
c=collections.Counter(a.split()[0] for a in ans); print(c)
rej=collections.Counter()
ex={}
pm=collections.Counter()
nobs=0
for a,(k,b,v) in zip(ans,meta):
    if a.startswith('merge'):
        key=' '.join(a.split('|')[0].split()[2:])
        key=key.split('pc=')[0]+' '.join(key.split()[2:])
        rej['merge '+key]+=1; ex.setdefault('merge '+key,(k,b['name'],a[:100]))
    if not (a.startswith('ok') or a.startswith('merge')):
        key=' '.join(x for x in a.split()[2:] if not x.startswith('pc='))[:90]
        rej[key]+=1; ex.setdefault(key,(k,b['name'],a))
    else:
        ann=parse_ann(a)
        ops={pc:op for pc,op,_ in b['instrs']}
        for (bid,pc),obs in v['probe'].items():
            if bid!=b['id']: continue
            if pc not in ann: pm[('unannotated',ops.get(pc))]+=1; continue
            for o in obs:
                nobs+=1
                if o[:3] not in ann[pc]: pm[(ops.get(pc),'model',ann[pc],'obs',o)]+=1; ex.setdefault(('pm',ops.get(pc)),(k,b['name'],pc))
                if o[3]!=b.get('fp'): pm[('fp',b.get('fp'),o[3])]+=1; ex.setdefault(('pm','fp'),(k,b['name'],pc))
for k,v in rej.most_common(30): print(v,k, ex[k][:2])
print('probe mismatches',sum(pm.values()),'of',nobs)
for k,v in pm.most_common(30): print(v,k, ex.get(('pm',k[0])))
