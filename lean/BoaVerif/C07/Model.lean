/-
  C07 model: call frames and the value stack of the VM (core/engine/src/vm/mod.rs after the fixes
  f62b161 / eff1d8e): push_frame, handle_return, handle_throw, handle_exception_at, the uncatchable branch
  of handle_error, and the host entries JsObject::call / Script::evaluate around them.
  The value stack is represented by its length; what the code of a frame does is a behaviour tree.
  Import-free.
-/
namespace BoaVerif.C07

structure Frame where
  fp : Nat            -- index of `this`
  rp : Nat            -- first register
  regs : Nat          -- code_block.register_count
  exitEarly : Bool
  deriving Repr, DecidableEq

structure Vm where
  frames : List Frame     -- innermost first (the dummy frame is not represented)
  stackLen : Nat
  deriving Repr, DecidableEq

/-- what the bytecode of one activation does, as far as frames and the value stack are concerned -/
inductive Beh
  | ret                      -- `Return`
  | throwHere (pushed : Nat) (covered : Bool) (handler : Beh)
      -- an instruction throws a catchable error after `pushed` temporaries were pushed (e.g. evaluated call
      -- arguments); if this frame has a handler covering that pc (`covered`), execution continues with `handler`
  | limitHere (pushed : Nat)  -- an instruction raises an uncatchable RuntimeLimitError
  | call (argc regs : Nat) (callee : Beh) (onReturn : Beh) (covered : Bool) (handler : Beh)
      -- push this, function, `argc` arguments; run `callee` in a new frame with `regs` registers; continue
      -- with `onReturn` (the result is consumed), or with `handler` if the callee throws and this frame covers the call
  | callRefused (argc : Nat) (covered : Bool) (handler : Beh)
      -- `[[Call]]` fails with a catchable error before a frame exists (e.g. not callable); the refused-by-limit
      -- case is `limitHere (argc + 2)`
  deriving Repr

inductive Out | returned | thrown | limited
  deriving Repr, DecidableEq

/-- `Vm::push_frame` after the caller pushed this, function and the arguments -/
def pushFrame (vm : Vm) (argc regs : Nat) (exitEarly : Bool) : Vm :=
  let fp := vm.stackLen - argc - 2
  { frames := { fp := fp, rp := vm.stackLen, regs := regs, exitEarly := exitEarly } :: vm.frames,
    stackLen := vm.stackLen + regs }

/-- how an activation is left when nothing in it handles the completion: an exit-early frame stays (its
    host entry pops it) with the stack truncated to it; any other frame is popped and the stack left as is -/
def leaveFrame (f : Frame) (rest : List Frame) (len : Nat) (o : Out) : Vm × Out :=
  if f.exitEarly then ({ frames := f :: rest, stackLen := f.fp }, o)
  else ({ frames := rest, stackLen := len }, o)

/-- run the behaviour of the innermost frame `f` (callers `rest`, value-stack length `len`).
    Result: the machine when control leaves that activation, and how it left. -/
def exec : Beh → Frame → List Frame → Nat → Vm × Out
  | .ret, f, rest, _ =>
    -- handle_return: truncate_to_frame; exit-early → Break(Return); else push the result and pop the frame
    if f.exitEarly then ({ frames := f :: rest, stackLen := f.fp }, .returned)
    else ({ frames := rest, stackLen := f.fp + 1 }, .returned)
  | .throwHere pushed covered h, f, rest, len =>
    -- handle_exception_at: go to the handler, truncate the value stack to the register file;
    -- otherwise handle_throw: exit-early → truncate to the frame and Break(Throw); else pop and let the caller look
    if covered then exec h f rest (min (len + pushed) (f.rp + f.regs))
    else leaveFrame f rest (len + pushed) .thrown
  | .limitHere pushed, f, rest, len =>
    -- handle_error, uncatchable: pop frames up to the exit-early one, truncate to it
    leaveFrame f rest (len + pushed) .limited
  | .call argc regs callee onReturn covered h, f, rest, len =>
    -- push this, function, arguments; push_frame: fp = len, rp = len + argc + 2
    let r := exec callee { fp := len, rp := len + argc + 2, regs := regs, exitEarly := false } (f :: rest) (len + argc + 2 + regs)
    if r.2 = .returned then
      -- the callee pushed its result; the caller's instruction stores it in a register (pop)
      exec onReturn f rest (r.1.stackLen - 1)
    else if r.2 = .thrown ∧ covered = true then exec h f rest (min r.1.stackLen (f.rp + f.regs))
    else leaveFrame f rest r.1.stackLen r.2
  | .callRefused argc covered h, f, rest, len =>
    -- this, function, arguments are on the stack when `[[Call]]` reports the error
    if covered then exec h f rest (min (len + argc + 2) (f.rp + f.regs))
    else leaveFrame f rest (len + argc + 2) .thrown

/-- a host entry (`JsObject::call`, `Script::evaluate`, …): push the prologue, create an exit-early frame,
    run, pop the frame -/
def hostEntry (vm : Vm) (argc regs : Nat) (b : Beh) : Vm × Out :=
  -- push_frame after the prologue: fp = the old length
  let r := exec b { fp := vm.stackLen, rp := vm.stackLen + argc + 2, regs := regs, exitEarly := true } vm.frames
    (vm.stackLen + argc + 2 + regs)
  ({ r.1 with frames := r.1.frames.tail }, r.2)

/-- a host entry whose `[[Call]]` is refused before a frame exists (e.g. the recursion limit) -/
def hostEntryRefused (vm : Vm) (argc : Nat) : Vm × Out :=
  let pushed := { vm with stackLen := vm.stackLen + argc + 2 }
  -- the fix: truncate to the length recorded before the prologue
  ({ pushed with stackLen := min pushed.stackLen vm.stackLen }, .limited)

/-- well-formed frame chain: each frame's registers start right after its arguments, the next frame starts
    above the previous frame's registers, and the stack covers the innermost register file -/
def wfFrames : List Frame → Nat → Bool
  | [], _ => true
  | f :: rest, top =>
    f.fp + 2 ≤ f.rp && f.rp + f.regs ≤ top && wfFrames rest f.fp

def Vm.wf (vm : Vm) : Bool := wfFrames vm.frames vm.stackLen

end BoaVerif.C07
