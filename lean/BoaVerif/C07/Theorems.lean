/- C07 — every host entry leaves the VM balanced. Property theorems (with their proofs). -/
import BoaVerif.C07.Model
namespace BoaVerif.C07

/-- what `exec` guarantees about the activation it runs -/
def Spec (f : Frame) (rest : List Frame) (r : Vm × Out) : Prop :=
  (f.exitEarly = true → r.1.frames = f :: rest ∧ r.1.stackLen = f.fp) ∧
  (f.exitEarly = false → r.1.frames = rest ∧ (r.2 = .returned → r.1.stackLen = f.fp + 1) ∧
      (r.2 ≠ .returned → f.fp ≤ r.1.stackLen))

theorem leave (f : Frame) (rest : List Frame) (len : Nat) (o : Out) (ho : o ≠ .returned) (hge : f.fp ≤ len) :
    Spec f rest (leaveFrame f rest len o) := by
  unfold Spec leaveFrame
  cases he : f.exitEarly <;> simp [ho, hge]

/-- the invariant of the interpreter loop, for every behaviour tree -/
theorem exec_spec (b : Beh) : ∀ (f : Frame) (rest : List Frame) (len : Nat),
    f.fp + 2 ≤ f.rp → f.rp + f.regs ≤ len → Spec f rest (exec b f rest len) := by
  induction b with
  | ret =>
    intro f rest len _ _
    unfold exec Spec
    cases he : f.exitEarly <;> simp
  | throwHere pushed covered h ih =>
    intro f rest len h1 h2
    unfold exec
    cases covered with
    | false => exact leave f rest _ .thrown (by decide) (by omega)
    | true =>
      have hm : min (len + pushed) (f.rp + f.regs) = f.rp + f.regs := by omega
      simp only [↓reduceIte, hm]
      exact ih f rest (f.rp + f.regs) h1 (Nat.le_refl _)
  | limitHere pushed =>
    intro f rest len h1 h2
    unfold exec; exact leave f rest _ .limited (by decide) (by omega)
  | callRefused argc covered h ih =>
    intro f rest len h1 h2
    unfold exec
    cases covered with
    | false => exact leave f rest _ .thrown (by decide) (by omega)
    | true =>
      have hm : min (len + argc + 2) (f.rp + f.regs) = f.rp + f.regs := by omega
      simp only [↓reduceIte, hm]
      exact ih f rest (f.rp + f.regs) h1 (Nat.le_refl _)
  | call argc regs callee onReturn covered h ihc ihr ihh =>
    intro f rest len h1 h2
    unfold exec
    simp only
    have hc := ihc ⟨len, len + argc + 2, regs, false⟩ (f :: rest) (len + argc + 2 + regs) (by dsimp only; omega) (by dsimp only; omega)
    generalize exec callee ⟨len, len + argc + 2, regs, false⟩ (f :: rest) (len + argc + 2 + regs) = res at hc
    obtain ⟨vm2, out⟩ := res
    obtain ⟨_, hne⟩ := hc
    obtain ⟨hfr, hret, hnret⟩ := hne rfl
    simp only at hfr hret hnret ⊢
    cases out with
    | returned =>
      have hl := hret rfl
      have : vm2.stackLen - 1 = len := by omega
      simp only [↓reduceIte, this]
      exact ihr f rest len h1 h2
    | thrown =>
      have hl := hnret (by decide)
      cases covered with
      | true =>
        have hm : min vm2.stackLen (f.rp + f.regs) = f.rp + f.regs := by omega
        simp [hm]
        exact ihh f rest (f.rp + f.regs) h1 (Nat.le_refl _)
      | false =>
        simp
        exact leave f rest _ .thrown (by decide) (by omega)
    | limited =>
      have hl := hnret (by decide)
      simp
      exact leave f rest _ .limited (by decide) (by omega)

/-- BALANCE: whatever the entered code does — returns, throws (caught at any depth or not at all), is cut
    off by a runtime limit at any depth, with any number of pending temporaries — the host entry leaves the
    frame chain and the value-stack depth exactly as it found them -/
theorem balanced (vm : Vm) (argc regs : Nat) (b : Beh) :
    (hostEntry vm argc regs b).1.frames = vm.frames ∧ (hostEntry vm argc regs b).1.stackLen = vm.stackLen := by
  unfold hostEntry
  simp only
  have hs := exec_spec b { fp := vm.stackLen, rp := vm.stackLen + argc + 2, regs := regs, exitEarly := true } vm.frames
    (vm.stackLen + argc + 2 + regs) (by dsimp only; omega) (by dsimp only; omega)
  obtain ⟨he, _⟩ := hs
  obtain ⟨h1, h2⟩ := he rfl
  simp only at h1 h2
  exact ⟨by simp only [h1, List.tail_cons], h2⟩

/-- the same for an entry that is refused before a frame exists (recursion / stack-size limit at `[[Call]]`) -/
theorem balanced_refused (vm : Vm) (argc : Nat) :
    (hostEntryRefused vm argc).1.frames = vm.frames ∧ (hostEntryRefused vm argc).1.stackLen = vm.stackLen := by
  unfold hostEntryRefused; simp; omega

/-- CONTEXT REUSE: any sequence of host entries, successful or not, leaves the VM where it started -/
theorem reusable (vm : Vm) (entries : List (Nat × Nat × Beh)) :
    (entries.foldl (fun v e => (hostEntry v e.1 e.2.1 e.2.2).1) vm).frames = vm.frames ∧
    (entries.foldl (fun v e => (hostEntry v e.1 e.2.1 e.2.2).1) vm).stackLen = vm.stackLen := by
  induction entries generalizing vm with
  | nil => exact ⟨rfl, rfl⟩
  | cons e es ih =>
    simp only [List.foldl_cons]
    have hb := balanced vm e.1 e.2.1 e.2.2
    have := ih (hostEntry vm e.1 e.2.1 e.2.2).1
    exact ⟨this.1.trans hb.1, this.2.trans hb.2⟩

-- a concrete instance: a nested call whose argument evaluation throws with three temporaries pending, caught
-- two frames up by a handler that then hits a limit
example : (hostEntry { frames := [], stackLen := 0 } 1 4
    (.call 2 3 (.call 0 2 (.throwHere 3 false .ret) .ret false .ret) .ret true (.limitHere 1))).1 = { frames := [], stackLen := 0 } := by
  have h := balanced { frames := [], stackLen := 0 } 1 4
    (.call 2 3 (.call 0 2 (.throwHere 3 false .ret) .ret false .ret) .ret true (.limitHere 1))
  generalize (hostEntry { frames := [], stackLen := 0 } 1 4 _).1 = r at h
  cases r; simp at h ⊢; exact h

end BoaVerif.C07
