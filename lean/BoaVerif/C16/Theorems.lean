/- C16 — promise jobs run in FIFO order; results do not depend on scheduling. Property theorems (with their proofs). -/
import BoaVerif.C16.Model
namespace BoaVerif.C16

/-- the host may stop and restart its job loop anywhere: `a + b` turns are `a` turns followed by `b` turns -/
theorem drain_add (bodies : List Body) : ∀ (a b : Nat) (s : St), drain bodies (a + b) s = drain bodies b (drain bodies a s) := by
  intro a
  induction a with
  | zero => intro b s; simp [drain]
  | succ a ih => intro b s; rw [Nat.succ_add]; simp only [drain]; exact ih b _

/-- a turn with nothing queued does nothing -/
theorem drain_idle (bodies : List Body) : ∀ (n : Nat) (s : St), s.queue = [] → drain bodies n s = s := by
  intro n
  induction n with
  | zero => intro s _; rfl
  | succ n ih =>
    intro s h
    have hs : stepQueue bodies s = s := by unfold stepQueue; rw [h]
    simp only [drain, hs]; exact ih s h

/-- draining in several calls is draining once with the total number of turns -/
theorem drain_chunks (bodies : List Body) : ∀ (ks : List Nat) (s : St),
    ks.foldl (fun st k => drain bodies k st) s = drain bodies (ks.foldl (· + ·) 0) s := by
  intro ks
  have gen : ∀ (ks : List Nat) (acc : Nat) (s0 s : St), s = drain bodies acc s0 →
      ks.foldl (fun st k => drain bodies k st) s = drain bodies (ks.foldl (· + ·) acc) s0 := by
    intro ks
    induction ks with
    | nil => intro acc s0 s h; simpa using h
    | cons k ks ih =>
      intro acc s0 s h
      simp only [List.foldl_cons]
      apply ih (acc + k) s0
      rw [h, drain_add]
  intro s
  exact gen ks 0 s s (by simp [drain])

/-- SCHEDULING-INDEPENDENCE OF THE RESULT: if `n` turns empty the queue, then ANY way of splitting the host's job loop
    into calls whose turns add up to at least `n` ends in the same state — same trace, same promise states -/
theorem drain_split_complete (bodies : List Body) (s : St) (n : Nat) (hq : (drain bodies n s).queue = [])
    (ks : List Nat) (hsum : n ≤ ks.foldl (· + ·) 0) :
    ks.foldl (fun st k => drain bodies k st) s = drain bodies n s := by
  rw [drain_chunks]
  obtain ⟨extra, he⟩ : ∃ extra, ks.foldl (· + ·) 0 = n + extra := ⟨ks.foldl (· + ·) 0 - n, by omega⟩
  rw [he, drain_add, drain_idle bodies extra _ hq]

/-- JOBS RUN AFTER THE CURRENT SYNCHRONOUS CODE, IN ENQUEUE ORDER: scheduling only ever appends to the queue, and the
    loop only ever takes the head -/
theorem enqueue_appends (s : St) (j : Job) : (enqueue s j).queue = s.queue ++ [j] := rfl

theorem stepQueue_takes_head (bodies : List Body) (s : St) (j : Job) (rest : List Job) (h : s.queue = j :: rest) :
    stepQueue bodies s = runJob bodies { s with queue := rest } j := by
  unfold stepQueue; rw [h]

/-- A SETTLED PROMISE NEVER CHANGES, and never schedules anything again -/
theorem settle_settled (s : St) (id : Nat) (fulfil : Bool) (v : Val) (p : Prom) (hp : s.proms[id]? = some p)
    (hs : ∀ rs, p.st ≠ .pending rs) : settle s id fulfil v = s := by
  unfold settle
  rw [hp]
  cases p with
  | mk st locked =>
    cases st with
    | pending rs => exact absurd rfl (hs rs)
    | fulfilled w => rfl
    | rejected w => rfl

/-- the resolving functions of a promise act once: after the first call both are inert -/
theorem resolve_latched (s : St) (id : Nat) (v : Val) (p : Prom) (hp : s.proms[id]? = some p) (hl : p.locked = true) :
    callResolve s id v = s ∧ callReject s id v = s := by
  unfold callResolve callReject
  rw [hp]
  simp [hl]

-- a concrete program: p.then(f) registered before and after resolution, resolution with a promise (two extra turns)
def demoBodies : List Body := [
  { tag := 0, res := .ret (.num 0), ops := [.newP 0, .thenP 0 (some 1) none 1, .resolved 2 (.num 7), .resolve 0 (.var 2), .thenP 2 (some 2) none 3, .print 9] },
  { tag := 1, ops := [], res := .ret (.num 0) },
  { tag := 2, ops := [], res := .ret (.num 0) } ]

example : ((drain demoBodies 10 (evalMain demoBodies)).trace.reverse.map (·.1)) = [9, 2, 1] := by decide
example : (drain demoBodies 10 (evalMain demoBodies)).queue.length = 0 := by decide
example : ([1, 1, 2, 3, 5].foldl (fun st k => drain demoBodies k st) (evalMain demoBodies)).trace = (drain demoBodies 10 (evalMain demoBodies)).trace := by decide

end BoaVerif.C16
