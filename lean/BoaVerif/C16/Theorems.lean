/- C16 — promise jobs run in FIFO order; results do not depend on scheduling. Property theorems (with their proofs). -/
import BoaVerif.C16.Model
namespace BoaVerif.C16

/-- the host may stop and restart its job loop anywhere: `a + b` turns are `a` turns followed by `b` turns -/
theorem drain_add (bodies : List Body) : ∀ (a b : Nat) (s : St), drain bodies (a + b) s = drain bodies b (drain bodies a s) := by
  intro a
  induction a with
  | zero => intro b s; simp [drain]
  | succ a ih => intro b s; rw [Nat.succ_add]; simp only [drain]; exact ih b _

/-- a turn with nothing queued does nothing -/
theorem drain_idle (bodies : List Body) : ∀ (n : Nat) (s : St), s.queue = [] → drain bodies n s = s := by
  intro n
  induction n with
  | zero => intro s _; rfl
  | succ n ih =>
    intro s h
    have hs : stepQueue bodies s = s := by unfold stepQueue; rw [h]
    simp only [drain, hs]; exact ih s h

/-- draining in several calls is draining once with the total number of turns -/
theorem drain_chunks (bodies : List Body) : ∀ (ks : List Nat) (s : St),
    ks.foldl (fun st k => drain bodies k st) s = drain bodies (ks.foldl (· + ·) 0) s := by
  intro ks
  have gen : ∀ (ks : List Nat) (acc : Nat) (s0 s : St), s = drain bodies acc s0 →
      ks.foldl (fun st k => drain bodies k st) s = drain bodies (ks.foldl (· + ·) acc) s0 := by
    intro ks
    induction ks with
    | nil => intro acc s0 s h; simpa using h
    | cons k ks ih =>
      intro acc s0 s h
      simp only [List.foldl_cons]
      apply ih (acc + k) s0
      rw [h, drain_add]
  intro s
  exact gen ks 0 s s (by simp [drain])

/-- SCHEDULING-INDEPENDENCE OF THE RESULT: if `n` turns empty the queue, then ANY way of splitting the host's job loop
    into calls whose turns add up to at least `n` ends in the same state — same trace, same promise states -/
theorem drain_split_complete (bodies : List Body) (s : St) (n : Nat) (hq : (drain bodies n s).queue = [])
    (ks : List Nat) (hsum : n ≤ ks.foldl (· + ·) 0) :
    ks.foldl (fun st k => drain bodies k st) s = drain bodies n s := by
  rw [drain_chunks]
  obtain ⟨extra, he⟩ : ∃ extra, ks.foldl (· + ·) 0 = n + extra := ⟨ks.foldl (· + ·) 0 - n, by omega⟩
  rw [he, drain_add, drain_idle bodies extra _ hq]

/-- JOBS RUN AFTER THE CURRENT SYNCHRONOUS CODE, IN ENQUEUE ORDER: scheduling only ever appends to the queue, and the
    loop only ever takes the head -/
theorem enqueue_appends (s : St) (j : Job) : (enqueue s j).queue = s.queue ++ [j] := rfl

theorem stepQueue_takes_head (bodies : List Body) (s : St) (j : Job) (rest : List Job) (h : s.queue = j :: rest) :
    stepQueue bodies s = runJob bodies { s with queue := rest } j := by
  unfold stepQueue; rw [h]

/-- A SETTLED PROMISE NEVER CHANGES, and never schedules anything again -/
theorem settle_settled (s : St) (id : Nat) (fulfil : Bool) (v : Val) (p : Prom) (hp : s.proms[id]? = some p)
    (hs : ∀ rs, p.st ≠ .pending rs) : settle s id fulfil v = s := by
  unfold settle
  rw [hp]
  cases p with
  | mk st locked =>
    cases st with
    | pending rs => exact absurd rfl (hs rs)
    | fulfilled w => rfl
    | rejected w => rfl

/-- the resolving functions of a promise act once: after the first call both are inert -/
theorem resolve_latched (s : St) (id : Nat) (v : Val) (p : Prom) (hp : s.proms[id]? = some p) (hl : p.locked = true) :
    callResolve s id v = s ∧ callReject s id v = s := by
  unfold callResolve callReject
  rw [hp]
  simp [hl]


/-! ### each reaction is scheduled exactly once -/

theorem foldl_enqueue_queue (rs : List Reaction) (fulfil : Bool) (v : Val) : ∀ (s : St),
    (rs.foldl (fun acc r => enqueue acc (.reaction r fulfil v)) s).queue = s.queue ++ rs.map (fun r => Job.reaction r fulfil v) ∧
    (rs.foldl (fun acc r => enqueue acc (.reaction r fulfil v)) s).proms = s.proms := by
  induction rs with
  | nil => intro s; simp
  | cons r rs ih =>
    intro s
    simp only [List.foldl_cons, List.map_cons]
    obtain ⟨h1, h2⟩ := ih (enqueue s (.reaction r fulfil v))
    exact ⟨by rw [h1, enqueue_appends]; simp, by rw [h2]; rfl⟩

/-- SETTLING SCHEDULES EVERY STORED REACTION EXACTLY ONCE, IN REGISTRATION ORDER, and empties the list: the promise is
    settled afterwards, so by `settle_settled` nothing is ever scheduled from it again -/
theorem settle_schedules_each_once (s : St) (id : Nat) (fulfil : Bool) (v : Val) (rs : List Reaction) (l : Bool)
    (hp : s.proms[id]? = some { st := .pending rs, locked := l }) :
    (settle s id fulfil v).queue = s.queue ++ rs.map (fun r => Job.reaction r fulfil v) ∧
    (settle s id fulfil v).proms[id]? = some { st := if fulfil then .fulfilled v else .rejected v, locked := l } := by
  unfold settle
  rw [hp]
  simp only
  obtain ⟨h1, h2⟩ := foldl_enqueue_queue rs fulfil v
    (setProm s id { st := if fulfil then .fulfilled v else .rejected v, locked := l })
  refine ⟨by rw [h1]; rfl, ?_⟩
  rw [h2]
  unfold setProm
  have hlt : id < s.proms.length := (List.getElem?_eq_some_iff.mp hp).1
  simp [hlt]

/-- `then` on a pending promise stores the reaction and schedules nothing -/
theorem performThen_pending (s : St) (id : Nat) (r : Reaction) (rs : List Reaction) (l : Bool)
    (hp : s.proms[id]? = some { st := .pending rs, locked := l }) :
    (performThen s id r).queue = s.queue ∧
    (performThen s id r).proms[id]? = some { st := .pending (rs ++ [r]), locked := l } := by
  unfold performThen
  rw [hp]
  simp only
  unfold setProm
  have hlt : id < s.proms.length := (List.getElem?_eq_some_iff.mp hp).1
  exact ⟨rfl, by simp [hlt]⟩

/-- `then` on a settled promise schedules exactly one job for the reaction, behind everything already queued, and
    stores nothing (so no later event can schedule it a second time) -/
theorem performThen_settled (s : St) (id : Nat) (r : Reaction) (p : Prom) (hp : s.proms[id]? = some p)
    (hs : ∀ rs, p.st ≠ .pending rs) :
    (∃ fulfil v, (performThen s id r).queue = s.queue ++ [Job.reaction r fulfil v]) ∧ (performThen s id r).proms = s.proms := by
  unfold performThen
  rw [hp]
  cases p with
  | mk st locked =>
    cases st with
    | pending rs => exact absurd rfl (hs rs)
    | fulfilled w => exact ⟨⟨true, w, rfl⟩, rfl⟩
    | rejected w => exact ⟨⟨false, w, rfl⟩, rfl⟩

/-- the job loop consumes a job when it runs it: the queue after a turn is the tail plus whatever the job scheduled -/
theorem stepQueue_consumes (bodies : List Body) (s : St) (j : Job) (rest : List Job) (h : s.queue = j :: rest) :
    stepQueue bodies s = runJob bodies { s with queue := rest } j ∧ ({ s with queue := rest } : St).queue = rest :=
  ⟨stepQueue_takes_head bodies s j rest h, rfl⟩


/-! ### the request queue of an async generator (ECMA-262 27.6.3): why the FIFO oracle of the check is the specification

`AsyncGeneratorEnqueue` appends a request to [[AsyncGeneratorQueue]]; `AsyncGeneratorCompleteStep` removes the FIRST
element and settles its promise; nothing else touches the queue. Whatever the generator body does in between — and
however requests and completions interleave — the promises therefore settle in request order. -/

inductive AgOp | request (id : Nat) | complete
  deriving Repr, DecidableEq

structure AgSt where
  queue : List Nat := []       -- [[AsyncGeneratorQueue]], head first
  requested : List Nat := []   -- every request ever made, in order
  settled : List Nat := []     -- requests whose promise was settled, in order
  deriving Repr

def agStep (s : AgSt) : AgOp → AgSt
  | .request id => { s with queue := s.queue ++ [id], requested := s.requested ++ [id] }
  | .complete =>
    match s.queue with
    | [] => s                                   -- AsyncGeneratorCompleteStep asserts a non-empty queue: never called then
    | id :: rest => { s with queue := rest, settled := s.settled ++ [id] }

/-- for EVERY interleaving of requests and completions: what has settled, followed by what is still queued, is exactly
    what was requested, in order — so the settled promises are a prefix of the requests -/
theorem agen_fifo (ops : List AgOp) :
    (ops.foldl agStep {}).settled ++ (ops.foldl agStep {}).queue = (ops.foldl agStep {}).requested := by
  have gen : ∀ (ops : List AgOp) (s : AgSt), s.settled ++ s.queue = s.requested →
      (ops.foldl agStep s).settled ++ (ops.foldl agStep s).queue = (ops.foldl agStep s).requested := by
    intro ops
    induction ops with
    | nil => intro s h; exact h
    | cons op ops ih =>
      intro s h
      apply ih
      cases op with
      | request id => simp only [agStep]; rw [← List.append_assoc, h]
      | complete =>
        simp only [agStep]
        cases hq : s.queue with
        | nil => simp only; rw [hq] at h; exact hq ▸ h
        | cons id rest => simp only; rw [hq] at h; rw [List.append_assoc]; exact h
  exact gen ops {} rfl

theorem agen_settles_in_request_order (ops : List AgOp) :
    (ops.foldl agStep {}).settled <+: (ops.foldl agStep {}).requested :=
  ⟨(ops.foldl agStep {}).queue, agen_fifo ops⟩

example : ([AgOp.request 0, .request 1, .complete, .request 2, .complete].foldl agStep {}).settled = [0, 1] := by decide

-- a concrete program: p.then(f) registered before and after resolution, resolution with a promise (two extra turns)
def demoBodies : List Body := [
  { tag := 0, res := .ret (.num 0), ops := [.newP 0, .thenP 0 (some 1) none 1, .resolved 2 (.num 7), .resolve 0 (.var 2), .thenP 2 (some 2) none 3, .print 9] },
  { tag := 1, ops := [], res := .ret (.num 0) },
  { tag := 2, ops := [], res := .ret (.num 0) } ]

example : ((drain demoBodies 10 (evalMain demoBodies)).trace.reverse.map (·.1)) = [9, 2, 1] := by decide
example : (drain demoBodies 10 (evalMain demoBodies)).queue.length = 0 := by decide
example : ([1, 1, 2, 3, 5].foldl (fun st k => drain demoBodies k st) (evalMain demoBodies)).trace = (drain demoBodies 10 (evalMain demoBodies)).trace := by decide

end BoaVerif.C16
