/-
  C16 model: ECMAScript promise jobs (ECMA-262 27.2 and 27.7): promise records with their reaction lists, the
  resolving functions' alreadyResolved latch, PerformPromiseThen, NewPromiseReactionJob, NewPromiseResolveThenableJob,
  Await, and the host's FIFO job queue (`SimpleJobExecutor::promise_jobs`). Scripts are straight-line programs over a
  table of code bodies (handlers and async functions refer to bodies by index, so no nested inductive is needed).
  Import-free.
-/
namespace BoaVerif.C16

inductive Val
  | num (n : Nat)
  | prom (id : Nat)          -- a promise object (only ever used as a resolution value)
  | err                      -- the TypeError of a self-resolution
  deriving Repr, DecidableEq, Inhabited

/-- a value written in a program: a number, the promise held by variable `P[i]`, or the callback's argument -/
inductive VExp | num (n : Nat) | var (i : Nat) | arg
  deriving Repr, DecidableEq

/-- how a body ends -/
inductive Res
  | ret (v : VExp)
  | thr (v : VExp)
  | awaitThen (v : VExp) (next : Nat)     -- only in async bodies: `await v`, then continue with body `next`
  deriving Repr, DecidableEq

inductive Op
  | print (t : Nat)
  | newP (i : Nat)                                   -- P[i] = new Promise(...), resolvers kept
  | resolve (i : Nat) (v : VExp)                     -- res[i](v)
  | reject (i : Nat) (v : VExp)                      -- rej[i](v)
  | thenP (i : Nat) (onF onR : Option Nat) (j : Nat) -- P[j] = P[i].then(body onF, body onR)
  | resolved (j : Nat) (v : VExp)                    -- P[j] = Promise.resolve(v)
  | rejected (j : Nat) (v : VExp)                    -- P[j] = Promise.reject(v)
  | callAsync (body : Nat) (j : Nat)                 -- P[j] = (async function whose first segment is `body`)()
  deriving Repr, DecidableEq

structure Body where
  tag : Nat
  ops : List Op
  res : Res
  deriving Repr

/-- what to do when the promise settles -/
inductive Reaction
  | handlers (onF onR : Option Nat) (derived : Nat)          -- from `then`
  | resolveFns (target : Nat)                                 -- from a thenable job: the target's resolving functions
  | awaitCont (next : Nat) (result : Nat)                     -- from `await`: resume the async function (result promise id)
  deriving Repr, DecidableEq

inductive PState
  | pending (rs : List Reaction)
  | fulfilled (v : Val)
  | rejected (v : Val)
  deriving Repr

structure Prom where
  st : PState
  locked : Bool           -- alreadyResolved of the promise's own resolving functions
  deriving Repr

inductive Job
  | reaction (r : Reaction) (fulfil : Bool) (arg : Val)
  | thenable (target : Nat) (thenable : Nat)
  deriving Repr

structure St where
  proms : List Prom          -- promise id = index
  vars : List (Nat × Nat)    -- script variable -> promise id (latest binding first)
  queue : List Job           -- FIFO: head runs next
  trace : List (Nat × Val)   -- printed (tag, value) pairs, most recent first
  deriving Repr

def St.init : St := { proms := [], vars := [], queue := [], trace := [] }

def lookupVar (s : St) (i : Nat) : Option Nat := (s.vars.find? (fun p => p.1 == i)).map (·.2)

def evalV (s : St) (arg : Val) : VExp → Val
  | .num n => .num n
  | .var i => match lookupVar s i with | some id => .prom id | none => .num 0
  | .arg => arg

def newProm (s : St) : St × Nat :=
  ({ s with proms := s.proms ++ [{ st := .pending [], locked := false }] }, s.proms.length)

def setProm (s : St) (id : Nat) (p : Prom) : St := { s with proms := s.proms.set id p }

def enqueue (s : St) (j : Job) : St := { s with queue := s.queue ++ [j] }

/-- FulfillPromise / RejectPromise: settle and schedule the stored reactions, in order -/
def settle (s : St) (id : Nat) (fulfil : Bool) (v : Val) : St :=
  match s.proms[id]? with
  | some { st := .pending rs, locked := l } =>
    let s1 := setProm s id { st := if fulfil then .fulfilled v else .rejected v, locked := l }
    rs.foldl (fun acc r => enqueue acc (.reaction r fulfil v)) s1
  | _ => s

/-- the body of a promise resolve function (27.2.1.3.2) once the alreadyResolved latch has been passed -/
def resolveWith (s : St) (id : Nat) (v : Val) : St :=
  match v with
  | .prom q => if q == id then settle s id false .err else enqueue s (.thenable id q)
  | _ => settle s id true v

/-- calling the promise's own resolve / reject function -/
def callResolve (s : St) (id : Nat) (v : Val) : St :=
  match s.proms[id]? with
  | some p => if p.locked then s else resolveWith (setProm s id { p with locked := true }) id v
  | none => s

def callReject (s : St) (id : Nat) (v : Val) : St :=
  match s.proms[id]? with
  | some p => if p.locked then s else settle (setProm s id { p with locked := true }) id false v
  | none => s

/-- PerformPromiseThen -/
def performThen (s : St) (id : Nat) (r : Reaction) : St :=
  match s.proms[id]? with
  | some { st := .pending rs, locked := l } => setProm s id { st := .pending (rs ++ [r]), locked := l }
  | some { st := .fulfilled v, .. } => enqueue s (.reaction r true v)
  | some { st := .rejected v, .. } => enqueue s (.reaction r false v)
  | none => s

/-- PromiseResolve(%Promise%, v): a promise is returned as it is, anything else is wrapped -/
def promiseResolve (s : St) (v : Val) : St × Nat :=
  match v with
  | .prom q => (s, q)
  | _ => let (s1, id) := newProm s; (callResolve s1 id v, id)

def bind (s : St) (i id : Nat) : St := { s with vars := (i, id) :: s.vars }

mutual
  /-- run straight-line code (fuel bounds the nesting of synchronous async-function starts) -/
  def runOps (bodies : List Body) : Nat → St → Val → List Op → St
    | 0, s, _, _ => s
    | _ + 1, s, _, [] => s
    | fuel + 1, s, arg, op :: rest =>
      let s' : St := match op with
        | .print t => { s with trace := (t, .num 0) :: s.trace }
        | .newP i => let (s1, id) := newProm s; bind s1 i id
        | .resolve i v => (match lookupVar s i with | some id => callResolve s id (evalV s arg v) | none => s)
        | .reject i v => (match lookupVar s i with | some id => callReject s id (evalV s arg v) | none => s)
        | .thenP i f r j =>
          (match lookupVar s i with
           | some id => let (s1, d) := newProm s; bind (performThen s1 id (.handlers f r d)) j d
           | none => s)
        | .resolved j v => let (s1, id) := promiseResolve s (evalV s arg v); bind s1 j id
        | .rejected j v => let (s1, id) := newProm s; bind (callReject s1 id (evalV s arg v)) j id
        | .callAsync b j =>
          let (s1, resultP) := newProm s
          bind (runSegment bodies fuel s1 b (.num 0) false resultP) j resultP
      runOps bodies fuel s' arg rest
  /-- run one segment of an async function: its code, then await / return / throw -/
  def runSegment (bodies : List Body) : Nat → St → Nat → Val → Bool → Nat → St
    | 0, s, _, _, _, _ => s
    | fuel + 1, s, b, arg, thrown, resultP =>
      if thrown then callReject s resultP arg     -- an await that rejects, with no try/catch in these bodies
      else
        match bodies[b]? with
        | none => s
        | some body =>
          let s1 := { s with trace := (body.tag, arg) :: s.trace }
          let s2 := runOps bodies fuel s1 arg body.ops
          match body.res with
          | .ret v => callResolve s2 resultP (evalV s2 arg v)
          | .thr v => callReject s2 resultP (evalV s2 arg v)
          | .awaitThen v next =>
            let (s3, p) := promiseResolve s2 (evalV s2 arg v)
            performThen s3 p (.awaitCont next resultP)
end

/-- NewPromiseReactionJob / NewPromiseResolveThenableJob: run the job at the head of the queue -/
def runJob (bodies : List Body) (s : St) (j : Job) : St :=
  match j with
  | .thenable target q => performThen s q (.resolveFns target)     -- q.then(resolve_target, reject_target)
  | .reaction (.resolveFns target) fulfil v =>
    if fulfil then resolveWithLatch s target v else settleLatch s target v
  | .reaction (.awaitCont next resultP) fulfil v => runSegment bodies 4096 s next v (!fulfil) resultP
  | .reaction (.handlers onF onR d) fulfil v =>
    match (if fulfil then onF else onR) with
    | none => if fulfil then callResolve s d v else callReject s d v
    | some b =>
      match bodies[b]? with
      | none => s
      | some body =>
        let s1 := { s with trace := (body.tag, v) :: s.trace }
        let s2 := runOps bodies 4096 s1 v body.ops
        match body.res with
        | .ret r => callResolve s2 d (evalV s2 v r)
        | .thr r => callReject s2 d (evalV s2 v r)
        | .awaitThen _ _ => s2
where
  /-- the fresh resolving functions a thenable job hands to `then` have their own latch, which is still open -/
  resolveWithLatch (s : St) (target : Nat) (v : Val) : St := resolveWith s target v
  settleLatch (s : St) (target : Nat) (v : Val) : St := settle s target false v

/-- one turn of the host's job loop -/
def stepQueue (bodies : List Body) (s : St) : St :=
  match s.queue with
  | [] => s
  | j :: rest => runJob bodies { s with queue := rest } j

/-- `run_jobs`, limited to `n` turns (a turn on an empty queue does nothing) -/
def drain (bodies : List Body) : Nat → St → St
  | 0, s => s
  | n + 1, s => drain bodies n (stepQueue bodies s)

/-- evaluate the main body (index 0) -/
def evalMain (bodies : List Body) : St :=
  match bodies[0]? with
  | some b => runOps bodies 4096 St.init (.num 0) b.ops
  | none => St.init

end BoaVerif.C16
