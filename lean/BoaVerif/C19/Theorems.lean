/- C19 — printing an AST and re-parsing it is the identity: the string-literal part. Property theorems. -/
import BoaVerif.C19.Model
namespace BoaVerif.C19

theorem hexUp_roundtrip : ∀ d, d < 16 → hexVal (hexUp d) = some d := by decide

/-- one step of the lexer undoes one step of the printer, for every code unit -/
theorem lex_unit (c : Nat) (hc : c < 65536) (ph nl : Bool) (tail : List Nat) (fuel : Nat) :
    lexStrBody (fuel + 1) (escUnit ph c nl ++ tail) = (lexStrBody fuel tail).map (fun p => (c :: p.1, p.2)) := by
  by_cases h22 : c = 0x22
  · subst h22; simp [escUnit, lexStrBody]
  by_cases h5C : c = 0x5C
  · subst h5C; simp [escUnit, lexStrBody]
  by_cases h0A : c = 0x0A
  · subst h0A; simp [escUnit, lexStrBody]
  by_cases h0D : c = 0x0D
  · subst h0D; simp [escUnit, lexStrBody]
  by_cases h09 : c = 0x09
  · subst h09; simp [escUnit, lexStrBody]
  have e1 : (c == 0x22) = false := by simpa using h22
  have e2 : (c == 0x5C) = false := by simpa using h5C
  have e3 : (c == 0x0A) = false := by simpa using h0A
  have e4 : (c == 0x0D) = false := by simpa using h0D
  have e5 : (c == 0x09) = false := by simpa using h09
  unfold escUnit
  simp only [e1, e2, e3, e4, e5, Bool.false_eq_true, ↓reduceIte]
  split
  · -- \xHH
    rename_i hx
    have hlt : c < 256 := by
      simp only [Bool.or_eq_true, decide_eq_true_eq, beq_iff_eq] at hx
      omega
    have d1 : c / 16 % 16 < 16 := by omega
    have d2 : c % 16 < 16 := by omega
    have hsum : c / 16 % 16 * 16 + c % 16 = c := by omega
    simp [lexStrBody, hexUp_roundtrip _ d1, hexUp_roundtrip _ d2, hsum]
  · split
    · -- \uHHHH
      have d1 : c / 4096 < 16 := by omega
      have d2 : c / 256 % 16 < 16 := by omega
      have d3 : c / 16 % 16 < 16 := by omega
      have d4 : c % 16 < 16 := by omega
      have hsum : c / 4096 * 4096 + c / 256 % 16 * 256 + c / 16 % 16 * 16 + c % 16 = c := by omega
      simp [lexStrBody, hexUp_roundtrip _ d1, hexUp_roundtrip _ d2, hexUp_roundtrip _ d3, hexUp_roundtrip _ d4, hsum]
    · -- the code unit itself: not a quote, a backslash or a line terminator
      rename_i h1 h2
      have n28 : (c == 0x2028) = false := by
        cases hb : c == 0x2028 with
        | false => rfl
        | true => exfalso; apply h2; simp [hb]
      have n29 : (c == 0x2029) = false := by
        cases hb : c == 0x2029 with
        | false => rfl
        | true => exfalso; apply h2; simp [hb]
      simp [lexStrBody, e1, e2, e3, e4, n28, n29]

/-- STRING LITERALS ROUND-TRIP THROUGH PRINT AND LEX: for every string value — quotes, backslashes, line terminators,
    control characters, U+2028/9, lone surrogates anywhere — lexing the printed literal gives the value back -/
theorem string_print_lex : ∀ (s : List Nat) (ph : Bool) (rest : List Nat) (fuel : Nat), (∀ c ∈ s, c < 65536) → s.length < fuel →
    lexStrBody fuel (escBody ph s ++ 0x22 :: rest) = some (s, rest) := by
  intro s
  induction s with
  | nil =>
    intro ph rest fuel _ hf
    cases fuel with
    | zero => omega
    | succ f => simp [escBody, lexStrBody]
  | cons c cs ih =>
    intro ph rest fuel hs hf
    cases fuel with
    | zero => omega
    | succ f =>
      have hc : c < 65536 := hs c (by simp)
      simp only [escBody, List.append_assoc]
      rw [lex_unit c hc]
      rw [ih _ rest f (fun x hx => hs x (by simp [hx])) (by simp at hf; omega)]
      rfl

/-- the printed literal never contains a raw line terminator or control character: it stays on one line -/
theorem escUnit_one_line (c : Nat) (hc : c < 65536) (ph nl : Bool) : ∀ u ∈ escUnit ph c nl, 0x20 ≤ u ∧ u ≠ 0x2028 ∧ u ≠ 0x2029 := by
  intro u hu
  unfold escUnit at hu
  split at hu
  · simp at hu; omega
  split at hu
  · simp at hu; omega
  split at hu
  · simp at hu; omega
  split at hu
  · simp at hu; omega
  split at hu
  · simp at hu; omega
  split at hu
  · simp only [List.mem_cons, List.mem_nil_iff, or_false] at hu
    unfold hexUp at hu
    rcases hu with h | h | h | h <;> (try omega) <;> (split at h <;> omega)
  split at hu
  · simp only [List.mem_cons, List.mem_nil_iff, or_false] at hu
    unfold hexUp at hu
    rcases hu with h | h | h | h | h | h <;> (try omega) <;> (split at h <;> omega)
  · rename_i h1 h2 h3 h4 h5 h6 h7
    simp only [List.mem_singleton] at hu
    subst hu
    simp only [Bool.or_eq_true, decide_eq_true_eq, beq_iff_eq, not_or] at h6 h7
    omega

example : lexStrBody 100 (escBody false [0x61, 0x22, 0x5C, 0x0A, 0x2028, 0xD800, 0x00, 0xD83D, 0xDE00] ++ [0x22, 0x3B])
    = some ([0x61, 0x22, 0x5C, 0x0A, 0x2028, 0xD800, 0x00, 0xD83D, 0xDE00], [0x3B]) := by decide

end BoaVerif.C19
