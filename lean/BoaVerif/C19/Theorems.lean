/- C19 — printing an AST and re-parsing it is the identity: the string-literal part. Property theorems. -/
import BoaVerif.C19.Model
import BoaVerif.C19.Prec
namespace BoaVerif.C19

theorem hexUp_roundtrip : ∀ d, d < 16 → hexVal (hexUp d) = some d := by decide

/-- one step of the lexer undoes one step of the printer, for every code unit -/
theorem lex_unit (c : Nat) (hc : c < 65536) (ph nl : Bool) (tail : List Nat) (fuel : Nat) :
    lexStrBody (fuel + 1) (escUnit ph c nl ++ tail) = (lexStrBody fuel tail).map (fun p => (c :: p.1, p.2)) := by
  by_cases h22 : c = 0x22
  · subst h22; simp [escUnit, lexStrBody]
  by_cases h5C : c = 0x5C
  · subst h5C; simp [escUnit, lexStrBody]
  by_cases h0A : c = 0x0A
  · subst h0A; simp [escUnit, lexStrBody]
  by_cases h0D : c = 0x0D
  · subst h0D; simp [escUnit, lexStrBody]
  by_cases h09 : c = 0x09
  · subst h09; simp [escUnit, lexStrBody]
  have e1 : (c == 0x22) = false := by simpa using h22
  have e2 : (c == 0x5C) = false := by simpa using h5C
  have e3 : (c == 0x0A) = false := by simpa using h0A
  have e4 : (c == 0x0D) = false := by simpa using h0D
  have e5 : (c == 0x09) = false := by simpa using h09
  unfold escUnit
  simp only [e1, e2, e3, e4, e5, Bool.false_eq_true, ↓reduceIte]
  split
  · -- \xHH
    rename_i hx
    have hlt : c < 256 := by
      simp only [Bool.or_eq_true, decide_eq_true_eq, beq_iff_eq] at hx
      omega
    have d1 : c / 16 % 16 < 16 := by omega
    have d2 : c % 16 < 16 := by omega
    have hsum : c / 16 % 16 * 16 + c % 16 = c := by omega
    simp [lexStrBody, hexUp_roundtrip _ d1, hexUp_roundtrip _ d2, hsum]
  · split
    · -- \uHHHH
      have d1 : c / 4096 < 16 := by omega
      have d2 : c / 256 % 16 < 16 := by omega
      have d3 : c / 16 % 16 < 16 := by omega
      have d4 : c % 16 < 16 := by omega
      have hsum : c / 4096 * 4096 + c / 256 % 16 * 256 + c / 16 % 16 * 16 + c % 16 = c := by omega
      simp [lexStrBody, hexUp_roundtrip _ d1, hexUp_roundtrip _ d2, hexUp_roundtrip _ d3, hexUp_roundtrip _ d4, hsum]
    · -- the code unit itself: not a quote, a backslash or a line terminator
      rename_i h1 h2
      have n28 : (c == 0x2028) = false := by
        cases hb : c == 0x2028 with
        | false => rfl
        | true => exfalso; apply h2; simp [hb]
      have n29 : (c == 0x2029) = false := by
        cases hb : c == 0x2029 with
        | false => rfl
        | true => exfalso; apply h2; simp [hb]
      simp [lexStrBody, e1, e2, e3, e4, n28, n29]

/-- STRING LITERALS ROUND-TRIP THROUGH PRINT AND LEX: for every string value — quotes, backslashes, line terminators,
    control characters, U+2028/9, lone surrogates anywhere — lexing the printed literal gives the value back -/
theorem string_print_lex : ∀ (s : List Nat) (ph : Bool) (rest : List Nat) (fuel : Nat), (∀ c ∈ s, c < 65536) → s.length < fuel →
    lexStrBody fuel (escBody ph s ++ 0x22 :: rest) = some (s, rest) := by
  intro s
  induction s with
  | nil =>
    intro ph rest fuel _ hf
    cases fuel with
    | zero => omega
    | succ f => simp [escBody, lexStrBody]
  | cons c cs ih =>
    intro ph rest fuel hs hf
    cases fuel with
    | zero => omega
    | succ f =>
      have hc : c < 65536 := hs c (by simp)
      simp only [escBody, List.append_assoc]
      rw [lex_unit c hc]
      rw [ih _ rest f (fun x hx => hs x (by simp [hx])) (by simp at hf; omega)]
      rfl

/-- the printed literal never contains a raw line terminator or control character: it stays on one line -/
theorem escUnit_one_line (c : Nat) (hc : c < 65536) (ph nl : Bool) : ∀ u ∈ escUnit ph c nl, 0x20 ≤ u ∧ u ≠ 0x2028 ∧ u ≠ 0x2029 := by
  intro u hu
  unfold escUnit at hu
  split at hu
  · simp at hu; omega
  split at hu
  · simp at hu; omega
  split at hu
  · simp at hu; omega
  split at hu
  · simp at hu; omega
  split at hu
  · simp at hu; omega
  split at hu
  · simp only [List.mem_cons, List.mem_nil_iff, or_false] at hu
    unfold hexUp at hu
    rcases hu with h | h | h | h <;> (try omega) <;> (split at h <;> omega)
  split at hu
  · simp only [List.mem_cons, List.mem_nil_iff, or_false] at hu
    unfold hexUp at hu
    rcases hu with h | h | h | h | h | h <;> (try omega) <;> (split at h <;> omega)
  · rename_i h1 h2 h3 h4 h5 h6 h7
    simp only [List.mem_singleton] at hu
    subst hu
    simp only [Bool.or_eq_true, decide_eq_true_eq, beq_iff_eq, not_or] at h6 h7
    omega

example : lexStrBody 100 (escBody false [0x61, 0x22, 0x5C, 0x0A, 0x2028, 0xD800, 0x00, 0xD83D, 0xDE00] ++ [0x22, 0x3B])
    = some ([0x61, 0x22, 0x5C, 0x0A, 0x2028, 0xD800, 0x00, 0xD83D, 0xDE00], [0x3B]) := by decide

end BoaVerif.C19

-- ------------------------------------------------------------------ precedence, parentheses and the parse/print pair
namespace BoaVerif.C19.Prec

def need : E → Nat
  | .num _ => 4
  | .neg e => need e + 1
  | .paren e => need e + 4
  | .bin _ l r => need l + need r + 5

def c1 : E → Nat
  | .bin o l _ => if o.prec = 1 then c1 l + 1 else 0
  | _ => 0
def c0 : E → Nat
  | .bin o l _ => if o.prec = 0 then c0 l + 1 else 0
  | _ => 0

theorem need_ge (e : E) : 4 ≤ need e := by
  induction e with
  | num n => simp [need]
  | neg e ih => simp only [need]; omega
  | paren e ih => simp only [need]; omega
  | bin o l r ihl ihr => simp only [need]; omega

theorem c1_le (e : E) : c1 e + 3 ≤ need e := by
  induction e with
  | bin o l r ihl _ => simp only [c1, need]; split <;> omega
  | num n => simp [c1, need]
  | neg e _ => have := need_ge e; simp [c1, need]; omega
  | paren e _ => simp [c1, need]
theorem c0_le (e : E) : c0 e + 3 ≤ need e := by
  induction e with
  | bin o l r ihl _ => simp only [c0, need]; split <;> omega
  | num n => simp [c0, need]
  | neg e _ => have := need_ge e; simp [c0, need]; omega
  | paren e _ => simp [c0, need]

def stop1 (rest : List Tok) : Prop := ∀ r, rest ≠ .op .mul :: r ∧ rest ≠ .op .div :: r
def stop0 (rest : List Tok) : Prop := stop1 rest ∧ ∀ r, rest ≠ .op .add :: r ∧ rest ≠ .op .sub :: r

theorem mulLoop_stop (f : Nat) (acc : E) (rest : List Tok) (h : stop1 rest) : mulLoop (f + 1) acc rest = some (acc, rest) := by
  match rest with
  | [] => simp [mulLoop]
  | .num _ :: _ => simp [mulLoop]
  | .lp :: _ => simp [mulLoop]
  | .rp :: _ => simp [mulLoop]
  | .op .add :: _ => simp [mulLoop]
  | .op .sub :: _ => simp [mulLoop]
  | .op .mul :: r => exact absurd rfl (h r).1
  | .op .div :: r => exact absurd rfl (h r).2

theorem addLoop_stop (f : Nat) (acc : E) (rest : List Tok) (h : stop0 rest) : addLoop (f + 1) acc rest = some (acc, rest) := by
  match rest with
  | [] => simp [addLoop]
  | .num _ :: _ => simp [addLoop]
  | .lp :: _ => simp [addLoop]
  | .rp :: _ => simp [addLoop]
  | .op .mul :: _ => simp [addLoop]
  | .op .div :: _ => simp [addLoop]
  | .op .add :: r => exact absurd rfl (h.2 r).1
  | .op .sub :: r => exact absurd rfl (h.2 r).2

structure Good (e : E) : Prop where
  atom : e.level = 3 → ∀ f rest, need e ≤ f + 3 → parseAtom f (pr e ++ rest) = some (e, rest)
  un : 2 ≤ e.level → ∀ f rest, need e ≤ f + 2 → parseUn f (pr e ++ rest) = some (e, rest)
  mul : 1 ≤ e.level → ∀ f rest, need e ≤ f + 1 → parseMul f (pr e ++ rest) = mulLoop (f - 1 - c1 e) e rest
  add : ∀ f rest, stop1 rest → need e ≤ f → parseAdd f (pr e ++ rest) = addLoop (f - 1 - c0 e) e rest

theorem parseMul_done {e : E} (g : Good e) (h1 : 1 ≤ e.level) (f : Nat) (rest : List Tok) (hs : stop1 rest) (hf : need e ≤ f + 1) :
    parseMul f (pr e ++ rest) = some (e, rest) := by
  rw [g.mul h1 f rest hf]
  have := c1_le e
  obtain ⟨k, hk⟩ : ∃ k, f - 1 - c1 e = k + 1 := ⟨f - 1 - c1 e - 1, by omega⟩
  rw [hk]; exact mulLoop_stop k e rest hs

theorem parseAdd_done {e : E} (g : Good e) (f : Nat) (rest : List Tok) (hs : stop0 rest) (hf : need e ≤ f) :
    parseAdd f (pr e ++ rest) = some (e, rest) := by
  rw [g.add f rest hs.1 hf]
  have := c0_le e
  obtain ⟨k, hk⟩ : ∃ k, f - 1 - c0 e = k + 1 := ⟨f - 1 - c0 e - 1, by omega⟩
  rw [hk]; exact addLoop_stop k e rest hs

theorem stop0_rp (r : List Tok) : stop0 (.rp :: r) :=
  ⟨fun _ => ⟨by simp, by simp⟩, fun _ => ⟨by simp, by simp⟩⟩
theorem stop1_addop (o : Op) (h : o.prec = 0) (r : List Tok) : stop1 (.op o :: r) := by
  intro r2; cases o <;> simp_all [Op.prec]

/-- a unary-level expression is parsed by the multiplicative and additive parsers as a chain of length one -/
theorem lift_un {e : E} (hlev : 2 ≤ e.level) (hc1 : c1 e = 0) (hc0 : c0 e = 0)
    (hun : ∀ f rest, need e ≤ f + 2 → parseUn f (pr e ++ rest) = some (e, rest)) :
    (∀ f rest, need e ≤ f + 1 → parseMul f (pr e ++ rest) = mulLoop (f - 1 - c1 e) e rest) ∧
    (∀ f rest, stop1 rest → need e ≤ f → parseAdd f (pr e ++ rest) = addLoop (f - 1 - c0 e) e rest) := by
  have hm : ∀ f rest, need e ≤ f + 1 → parseMul f (pr e ++ rest) = mulLoop (f - 1 - c1 e) e rest := by
    intro f rest hf
    have := need_ge e
    obtain ⟨k, rfl⟩ : ∃ k, f = k + 1 := ⟨f - 1, by omega⟩
    simp only [parseMul, hun k rest (by omega), hc1]
    simp
  refine ⟨hm, ?_⟩
  intro f rest hs hf
  have := need_ge e
  have hc := c1_le e
  obtain ⟨k, rfl⟩ : ∃ k, f = k + 1 := ⟨f - 1, by omega⟩
  have hmd : parseMul k (pr e ++ rest) = some (e, rest) := by
    rw [hm k rest (by omega)]
    obtain ⟨j, hj⟩ : ∃ j, k - 1 - c1 e = j + 1 := ⟨k - 1 - c1 e - 1, by omega⟩
    rw [hj]; exact mulLoop_stop j e rest hs
  simp only [parseAdd, hmd, hc0]
  simp

theorem good (e : E) (hw : WF e) : Good e := by
  induction e with
  | num n =>
    have hun : ∀ f rest, need (.num n) ≤ f + 2 → parseUn f (pr (.num n) ++ rest) = some (.num n, rest) := by
      intro f rest hf
      obtain ⟨k, rfl⟩ : ∃ k, f = k + 2 := ⟨f - 2, by simp [need] at hf; omega⟩
      simp [pr, parseUn, parseAtom]
    obtain ⟨hm, ha⟩ := lift_un (e := .num n) (by simp [E.level]) rfl rfl hun
    refine ⟨?_, fun _ => hun, fun _ => hm, ha⟩
    intro _ f rest hf
    obtain ⟨k, rfl⟩ : ∃ k, f = k + 1 := ⟨f - 1, by simp [need] at hf; omega⟩
    simp [pr, parseAtom]
  | neg e ih =>
    obtain ⟨hwe, hl⟩ := hw
    have g := ih hwe
    have hun : ∀ f rest, need (.neg e) ≤ f + 2 → parseUn f (pr (.neg e) ++ rest) = some (.neg e, rest) := by
      intro f rest hf
      have := need_ge e
      obtain ⟨k, rfl⟩ : ∃ k, f = k + 1 := ⟨f - 1, by simp [need] at hf; omega⟩
      simp only [pr, List.cons_append, parseUn, g.un hl k rest (by simp [need] at hf; omega)]
      rfl
    obtain ⟨hm, ha⟩ := lift_un (e := .neg e) (by simp [E.level]) rfl rfl hun
    exact ⟨fun h => by simp [E.level] at h, fun _ => hun, fun _ => hm, ha⟩
  | paren e ih =>
    have g := ih hw
    have hat : ∀ f rest, need (.paren e) ≤ f + 3 → parseAtom f (pr (.paren e) ++ rest) = some (.paren e, rest) := by
      intro f rest hf
      have := need_ge e
      obtain ⟨k, rfl⟩ : ∃ k, f = k + 1 := ⟨f - 1, by simp [need] at hf; omega⟩
      have hp := parseAdd_done g k (.rp :: rest) (stop0_rp rest) (by simp [need] at hf; omega)
      simp only [pr, List.cons_append, List.append_assoc, List.singleton_append, List.nil_append] at hp ⊢
      simp only [parseAtom, hp]
    have hun : ∀ f rest, need (.paren e) ≤ f + 2 → parseUn f (pr (.paren e) ++ rest) = some (.paren e, rest) := by
      intro f rest hf
      have := need_ge e
      obtain ⟨k, rfl⟩ : ∃ k, f = k + 1 := ⟨f - 1, by simp [need] at hf; omega⟩
      have := hat k rest (by omega)
      simp only [pr, List.cons_append] at this ⊢
      simp only [parseUn, this]
    obtain ⟨hm, ha⟩ := lift_un (e := .paren e) (by simp [E.level]) rfl rfl hun
    exact ⟨fun _ => hat, fun _ => hun, fun _ => hm, ha⟩
  | bin o l r ihl ihr =>
    obtain ⟨hwl, hwr, hll, hlr⟩ := hw
    have gl := ihl hwl
    have gr := ihr hwr
    have nl := need_ge l
    have nr := need_ge r
    have cl1 := c1_le l
    have cl0 := c0_le l
    have cr1 := c1_le r
    have hmulB : 1 ≤ (E.bin o l r).level → ∀ f rest, need (.bin o l r) ≤ f + 1 →
        parseMul f (pr (.bin o l r) ++ rest) = mulLoop (f - 1 - c1 (.bin o l r)) (.bin o l r) rest := by
      intro hlev f rest hf
      have hp : o.prec = 1 := by cases o <;> simp_all [E.level, Op.prec]
      have hrl : 2 ≤ r.level := by omega
      have hl1 : 1 ≤ l.level := by omega
      simp only [pr, List.append_assoc, List.cons_append]
      rw [gl.mul hl1 f (.op o :: (pr r ++ rest)) (by simp [need] at hf; omega)]
      obtain ⟨j, hj⟩ : ∃ j, f - 1 - c1 l = j + 1 := ⟨f - 1 - c1 l - 1, by simp [need] at hf; omega⟩
      have hur := gr.un hrl j rest (by simp [need] at hf; omega)
      have htarget : f - 1 - c1 (.bin o l r) = j := by simp only [c1, hp, ↓reduceIte]; omega
      rw [hj, htarget]
      cases o with
      | mul => simp only [mulLoop, hur]
      | div => simp only [mulLoop, hur]
      | add => simp [Op.prec] at hp
      | sub => simp [Op.prec] at hp
    refine ⟨fun h => by cases o <;> simp [E.level, Op.prec] at h, fun h => by cases o <;> simp [E.level, Op.prec] at h, hmulB, ?_⟩
    · -- additive chain (or a multiplicative expression seen from the additive parser)
      intro f rest hs hf
      by_cases hp : o.prec = 0
      · have hr1 : 1 ≤ r.level := by omega
        simp only [pr, List.append_assoc, List.cons_append]
        rw [gl.add f (.op o :: (pr r ++ rest)) (stop1_addop o hp _) (by simp [need] at hf; omega)]
        obtain ⟨j, hj⟩ : ∃ j, f - 1 - c0 l = j + 1 := ⟨f - 1 - c0 l - 1, by simp [need] at hf; omega⟩
        have hmr := parseMul_done gr hr1 j rest hs (by simp [need] at hf; omega)
        have htarget : f - 1 - c0 (.bin o l r) = j := by simp only [c0, hp, ↓reduceIte]; omega
        rw [hj, htarget]
        cases o with
        | add => simp only [addLoop, hmr]
        | sub => simp only [addLoop, hmr]
        | mul => simp [Op.prec] at hp
        | div => simp [Op.prec] at hp
      · -- o is multiplicative: one operand of the additive parser
        have hp1 : o.prec = 1 := by cases o <;> simp_all [Op.prec]
        have hlev : 1 ≤ (E.bin o l r).level := by simp [E.level, hp1]
        have hc0 : c0 (.bin o l r) = 0 := by simp [c0, hp]
        have hcb := c1_le (.bin o l r)
        obtain ⟨k, rfl⟩ : ∃ k, f = k + 1 := ⟨f - 1, by omega⟩
        have hmd : parseMul k (pr (.bin o l r) ++ rest) = some (.bin o l r, rest) := by
          rw [hmulB hlev k rest (by omega)]
          obtain ⟨j, hj⟩ : ∃ j, k - 1 - c1 (.bin o l r) = j + 1 := ⟨k - 1 - c1 (.bin o l r) - 1, by omega⟩
          rw [hj]; exact mulLoop_stop j _ rest hs
        simp only [parseAdd, hmd, hc0]
        simp


theorem need_le (e : E) : need e ≤ 6 * (pr e).length := by
  induction e with
  | num n => simp [need, pr]
  | neg e ih => simp only [need, pr, List.length_cons]; omega
  | paren e ih => simp only [need, pr, List.length_cons, List.length_append, List.length_nil]; omega
  | bin o l r ihl ihr => simp only [need, pr, List.length_cons, List.length_append]; omega

/-- PRINT THEN PARSE IS THE IDENTITY on every well-formed tree, whatever its depth and width -/
theorem parse_print (e : E) (hw : WF e) : parse (pr e) = some e := by
  have h := parseAdd_done (good e hw) (6 * (pr e).length + 6) [] ⟨fun _ => ⟨by simp, by simp⟩, fun _ => ⟨by simp, by simp⟩⟩
    (by have := need_le e; omega)
  simp only [List.append_nil] at h
  simp [parse, h]

/-- what the parser builds is well-formed -/
structure Built (f : Nat) : Prop where
  atom : ∀ ts e r, parseAtom f ts = some (e, r) → WF e ∧ e.level = 3
  un : ∀ ts e r, parseUn f ts = some (e, r) → WF e ∧ 2 ≤ e.level
  mulL : ∀ acc ts e r, mulLoop f acc ts = some (e, r) → WF acc → 1 ≤ acc.level → WF e ∧ 1 ≤ e.level
  mul : ∀ ts e r, parseMul f ts = some (e, r) → WF e ∧ 1 ≤ e.level
  addL : ∀ acc ts e r, addLoop f acc ts = some (e, r) → WF acc → WF e
  add : ∀ ts e r, parseAdd f ts = some (e, r) → WF e

theorem built : ∀ f, Built f := by
  intro f
  induction f with
  | zero =>
    exact ⟨fun _ _ _ h => by simp [parseAtom] at h, fun _ _ _ h => by simp [parseUn] at h, fun _ _ _ _ h => by simp [mulLoop] at h,
           fun _ _ _ h => by simp [parseMul] at h, fun _ _ _ _ h => by simp [addLoop] at h, fun _ _ _ h => by simp [parseAdd] at h⟩
  | succ f ih =>
    refine ⟨?_, ?_, ?_, ?_, ?_, ?_⟩
    · intro ts e r h
      match ts with
      | [] => simp [parseAtom] at h
      | .num n :: t => simp [parseAtom] at h; obtain ⟨rfl, _⟩ := h; exact ⟨trivial, rfl⟩
      | .lp :: t =>
        simp only [parseAtom] at h
        split at h
        · rename_i e' r2 heq
          cases h
          exact ⟨ih.add t e' (.rp :: r) heq, rfl⟩
        · cases h
      | .rp :: t => simp [parseAtom] at h
      | .op o :: t => simp [parseAtom] at h
    · intro ts e r h
      match ts with
      | .op .sub :: t =>
        simp only [parseUn] at h
        cases hp : parseUn f t with
        | none => simp [hp] at h
        | some p =>
          simp [hp] at h
          obtain ⟨rfl, _⟩ := h
          have := ih.un t p.1 p.2 (by simp [hp])
          exact ⟨⟨this.1, this.2⟩, by simp [E.level]⟩
      | [] => simp only [parseUn] at h; have := ih.atom _ _ _ h; exact ⟨this.1, by omega⟩
      | .num n :: t => simp only [parseUn] at h; have := ih.atom _ _ _ h; exact ⟨this.1, by omega⟩
      | .lp :: t => simp only [parseUn] at h; have := ih.atom _ _ _ h; exact ⟨this.1, by omega⟩
      | .rp :: t => simp only [parseUn] at h; have := ih.atom _ _ _ h; exact ⟨this.1, by omega⟩
      | .op .add :: t => simp only [parseUn] at h; have := ih.atom _ _ _ h; exact ⟨this.1, by omega⟩
      | .op .mul :: t => simp only [parseUn] at h; have := ih.atom _ _ _ h; exact ⟨this.1, by omega⟩
      | .op .div :: t => simp only [parseUn] at h; have := ih.atom _ _ _ h; exact ⟨this.1, by omega⟩
    · intro acc ts e r h hwa hla
      have step : ∀ (o : Op), o.prec = 1 → ∀ t, (match parseUn f t with | some (u, r2) => mulLoop f (.bin o acc u) r2 | none => none) = some (e, r) →
          WF e ∧ 1 ≤ e.level := by
        intro o ho t h
        cases hp : parseUn f t with
        | none => simp [hp] at h
        | some p =>
          obtain ⟨u, r2⟩ := p
          simp only [hp] at h
          have hu := ih.un t u r2 hp
          exact ih.mulL _ _ _ _ h ⟨hwa, hu.1, by omega, by omega⟩ (by simp [E.level, ho])
      match ts with
      | .op .mul :: t => simp only [mulLoop] at h; exact step .mul rfl t h
      | .op .div :: t => simp only [mulLoop] at h; exact step .div rfl t h
      | [] => simp [mulLoop] at h; obtain ⟨rfl, _⟩ := h; exact ⟨hwa, hla⟩
      | .num n :: t => simp [mulLoop] at h; obtain ⟨rfl, _⟩ := h; exact ⟨hwa, hla⟩
      | .lp :: t => simp [mulLoop] at h; obtain ⟨rfl, _⟩ := h; exact ⟨hwa, hla⟩
      | .rp :: t => simp [mulLoop] at h; obtain ⟨rfl, _⟩ := h; exact ⟨hwa, hla⟩
      | .op .add :: t => simp [mulLoop] at h; obtain ⟨rfl, _⟩ := h; exact ⟨hwa, hla⟩
      | .op .sub :: t => simp [mulLoop] at h; obtain ⟨rfl, _⟩ := h; exact ⟨hwa, hla⟩
    · intro ts e r h
      simp only [parseMul] at h
      cases hp : parseUn f ts with
      | none => simp [hp] at h
      | some p =>
        obtain ⟨u, r2⟩ := p
        simp only [hp] at h
        have hu := ih.un ts u r2 hp
        exact ih.mulL _ _ _ _ h hu.1 (by omega)
    · intro acc ts e r h hwa
      have step : ∀ (o : Op), o.prec = 0 → ∀ t, (match parseMul f t with | some (m, r2) => addLoop f (.bin o acc m) r2 | none => none) = some (e, r) → WF e := by
        intro o ho t h
        cases hp : parseMul f t with
        | none => simp [hp] at h
        | some p =>
          obtain ⟨m, r2⟩ := p
          simp only [hp] at h
          have hm := ih.mul t m r2 hp
          exact ih.addL _ _ _ _ h ⟨hwa, hm.1, by omega, by omega⟩
      match ts with
      | .op .add :: t => simp only [addLoop] at h; exact step .add rfl t h
      | .op .sub :: t => simp only [addLoop] at h; exact step .sub rfl t h
      | [] => simp [addLoop] at h; obtain ⟨rfl, _⟩ := h; exact hwa
      | .num n :: t => simp [addLoop] at h; obtain ⟨rfl, _⟩ := h; exact hwa
      | .lp :: t => simp [addLoop] at h; obtain ⟨rfl, _⟩ := h; exact hwa
      | .rp :: t => simp [addLoop] at h; obtain ⟨rfl, _⟩ := h; exact hwa
      | .op .mul :: t => simp [addLoop] at h; obtain ⟨rfl, _⟩ := h; exact hwa
      | .op .div :: t => simp [addLoop] at h; obtain ⟨rfl, _⟩ := h; exact hwa
    · intro ts e r h
      simp only [parseAdd] at h
      cases hp : parseMul f ts with
      | none => simp [hp] at h
      | some p =>
        obtain ⟨m, r2⟩ := p
        simp only [hp] at h
        exact ih.addL _ _ _ _ h (ih.mul ts m r2 hp).1

theorem parse_wf (ts : List Tok) (e : E) (h : parse ts = some e) : WF e := by
  unfold parse at h
  split at h
  · rename_i e' heq; cases h; exact (built _).add _ _ _ heq
  · cases h

/-- PARSE ∘ PRINT IS IDEMPOTENT FROM THE FIRST PARSE ON: whatever token sequence was accepted, printing the tree and
    parsing again gives the same tree (so printing again gives the same tokens) -/
theorem parse_print_parse (ts : List Tok) (e : E) (h : parse ts = some e) : parse (pr e) = some e :=
  parse_print e (parse_wf ts e h)

-- the hypothesis of parse_print is needed: a tree the parser cannot build does not come back
example : parse (pr (.bin .mul (.bin .add (.num 1) (.num 2)) (.num 3))) = some (.bin .add (.num 1) (.bin .mul (.num 2) (.num 3))) := by decide
example : parse (pr (.bin .mul (.paren (.bin .add (.num 1) (.num 2))) (.num 3))) = some (.bin .mul (.paren (.bin .add (.num 1) (.num 2))) (.num 3)) := by decide

end BoaVerif.C19.Prec
