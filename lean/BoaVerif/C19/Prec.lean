/-
  C19, second model: a precedence grammar with explicit parenthesis nodes (boa's AST keeps `Expression::Parenthesized`),
  the printer that writes the nodes in order, and the recursive-descent parser with one loop per precedence level.
  Import-free.
-/
namespace BoaVerif.C19.Prec

inductive Op | add | sub | mul | div
  deriving Repr, DecidableEq

def Op.prec : Op → Nat | .add => 0 | .sub => 0 | .mul => 1 | .div => 1

inductive Tok | num (n : Nat) | op (o : Op) | lp | rp
  deriving Repr, DecidableEq

/-- the AST keeps explicit parentheses, as boa's does (`Expression::Parenthesized`) -/
inductive E | num (n : Nat) | neg (e : E) | bin (o : Op) (l r : E) | paren (e : E)
  deriving Repr, DecidableEq

/-- the printer adds nothing: it writes the nodes in order -/
def pr : E → List Tok
  | .num n => [.num n]
  | .neg e => .op .sub :: pr e
  | .bin o l r => pr l ++ .op o :: pr r
  | .paren e => .lp :: pr e ++ [.rp]

def E.level : E → Nat
  | .num _ => 3 | .paren _ => 3 | .neg _ => 2 | .bin o _ _ => o.prec

/-- the shape of the trees the parser builds: operands of an operator bind at least as tightly on the left (left
    associativity) and strictly tighter on the right; the operand of a unary minus is unary or an atom -/
def WF : E → Prop
  | .num _ => True
  | .paren e => WF e
  | .neg e => WF e ∧ 2 ≤ e.level
  | .bin o l r => WF l ∧ WF r ∧ o.prec ≤ l.level ∧ o.prec < r.level

-- ------------------------------------------------------------------ the parser (recursive descent; fuel bounds the nesting)
mutual
  def parseAtom : Nat → List Tok → Option (E × List Tok)
    | 0, _ => none
    | _ + 1, .num n :: r => some (.num n, r)
    | f + 1, .lp :: r =>
      (match parseAdd f r with
       | some (e, .rp :: r2) => some (.paren e, r2)
       | _ => none)
    | _ + 1, _ => none
  def parseUn : Nat → List Tok → Option (E × List Tok)
    | 0, _ => none
    | f + 1, .op .sub :: r => (parseUn f r).map (fun p => (.neg p.1, p.2))
    | f + 1, ts => parseAtom f ts
  /-- `acc (*|/) unary …` -/
  def mulLoop : Nat → E → List Tok → Option (E × List Tok)
    | 0, _, _ => none
    | f + 1, acc, .op .mul :: r => (match parseUn f r with | some (u, r2) => mulLoop f (.bin .mul acc u) r2 | none => none)
    | f + 1, acc, .op .div :: r => (match parseUn f r with | some (u, r2) => mulLoop f (.bin .div acc u) r2 | none => none)
    | _ + 1, acc, ts => some (acc, ts)
  def parseMul : Nat → List Tok → Option (E × List Tok)
    | 0, _ => none
    | f + 1, ts => (match parseUn f ts with | some (u, r) => mulLoop f u r | none => none)
  def addLoop : Nat → E → List Tok → Option (E × List Tok)
    | 0, _, _ => none
    | f + 1, acc, .op .add :: r => (match parseMul f r with | some (m, r2) => addLoop f (.bin .add acc m) r2 | none => none)
    | f + 1, acc, .op .sub :: r => (match parseMul f r with | some (m, r2) => addLoop f (.bin .sub acc m) r2 | none => none)
    | _ + 1, acc, ts => some (acc, ts)
  def parseAdd : Nat → List Tok → Option (E × List Tok)
    | 0, _ => none
    | f + 1, ts => (match parseMul f ts with | some (m, r) => addLoop f m r | none => none)
end

def parse (ts : List Tok) : Option E :=
  match parseAdd (6 * ts.length + 6) ts with
  | some (e, []) => some e
  | _ => none

end BoaVerif.C19.Prec
