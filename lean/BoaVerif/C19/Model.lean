/-
  C19 model (the part of the printer/parser pair that carries data rather than structure): how the AST printer writes the
  value of a string literal (`push_escaped` in core/ast/src/expression/literal/mod.rs, quote = `"`) and how the lexer
  reads a double-quoted string literal back (the escapes the printer can emit). Strings are lists of UTF-16 code units.
  Import-free.
-/
namespace BoaVerif.C19

def isHigh (c : Nat) : Bool := 0xD800 ≤ c && c ≤ 0xDBFF
def isLow (c : Nat) : Bool := 0xDC00 ≤ c && c ≤ 0xDFFF
def isSurrogate (c : Nat) : Bool := 0xD800 ≤ c && c ≤ 0xDFFF

def hexUp (d : Nat) : Nat := if d < 10 then 0x30 + d else 0x41 + (d - 10)
def hexVal (c : Nat) : Option Nat :=
  if 0x30 ≤ c && c ≤ 0x39 then some (c - 0x30)
  else if 0x61 ≤ c && c ≤ 0x66 then some (c - 0x61 + 10)
  else if 0x41 ≤ c && c ≤ 0x46 then some (c - 0x41 + 10)
  else none

/-- one code unit of the value; `prevHigh`: it completes a surrogate pair; `nextLow`: it starts one -/
def escUnit (prevHigh : Bool) (c : Nat) (nextLow : Bool) : List Nat :=
  if c == 0x22 then [0x5C, 0x22] else if c == 0x5C then [0x5C, 0x5C]
  else if c == 0x0A then [0x5C, 0x6E] else if c == 0x0D then [0x5C, 0x72] else if c == 0x09 then [0x5C, 0x74]
  else if c < 0x20 || c == 0x7F then [0x5C, 0x78, hexUp (c / 16 % 16), hexUp (c % 16)]
  else if c == 0x2028 || c == 0x2029 || (isSurrogate c && !((isHigh c && nextLow) || (isLow c && prevHigh))) then
    [0x5C, 0x75, hexUp (c / 4096), hexUp (c / 256 % 16), hexUp (c / 16 % 16), hexUp (c % 16)]
  else [c]

def escBody : Bool → List Nat → List Nat
  | _, [] => []
  | prevHigh, c :: cs =>
    let nextLow := match cs.head? with | some n => isLow n | none => false
    escUnit prevHigh c nextLow ++ escBody (isHigh c && nextLow) cs

/-- the printed literal -/
def printString (s : List Nat) : List Nat := 0x22 :: escBody false s ++ [0x22]

/-- the lexer on the characters after the opening quote: (string value, rest after the closing quote).
    Line terminators may not appear raw; every escape the printer uses is understood. -/
def lexStrBody : Nat → List Nat → Option (List Nat × List Nat)
  | 0, _ => none
  | _ + 1, [] => none
  | fuel + 1, c :: cs =>
    if c == 0x22 then some ([], cs)
    else if c == 0x0A || c == 0x0D || c == 0x2028 || c == 0x2029 then none
    else if c == 0x5C then
      match cs with
      | [] => none
      | e :: r =>
        let simple : Option Nat :=
          if e == 0x22 then some 0x22 else if e == 0x5C then some 0x5C else if e == 0x27 then some 0x27
          else if e == 0x6E then some 0x0A else if e == 0x72 then some 0x0D else if e == 0x74 then some 0x09
          else if e == 0x62 then some 0x08 else if e == 0x66 then some 0x0C else if e == 0x76 then some 0x0B else none
        match simple with
        | some u => (lexStrBody fuel r).map (fun p => (u :: p.1, p.2))
        | none =>
          if e == 0x78 then
            match r with
            | a :: b :: r2 =>
              (match hexVal a, hexVal b with
               | some x1, some x2 => (lexStrBody fuel r2).map (fun p => ((x1 * 16 + x2) :: p.1, p.2))
               | _, _ => none)
            | _ => none
          else if e == 0x75 then
            match r with
            | a :: b :: c2 :: d :: r2 =>
              (match hexVal a, hexVal b, hexVal c2, hexVal d with
               | some x1, some x2, some x3, some x4 =>
                 (lexStrBody fuel r2).map (fun p => ((x1 * 4096 + x2 * 256 + x3 * 16 + x4) :: p.1, p.2))
               | _, _, _, _ => none)
            | _ => none
          else none
    else (lexStrBody fuel cs).map (fun p => (c :: p.1, p.2))

end BoaVerif.C19
