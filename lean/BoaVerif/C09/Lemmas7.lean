import BoaVerif.C09.Lemmas6
namespace BoaVerif.C09

/-- handles stored in live heap values, in the order `trace_non_roots` visits them -/
def heapTargets (h : Heap) : List Nat := (h.nodes.filter (·.alive)).flatMap (·.edges)

theorem traceNonRoots_flat (h : Heap) (he : h.ephs = []) :
    traceNonRoots h = (heapTargets h).foldl (fun a t => modNode a t incNonRoot) h := by
  unfold traceNonRoots heapTargets
  simp only [he, List.foldl_nil]
  have key : ∀ (l : List Node) (acc : Heap), acc.ephs = [] →
      l.foldl (fun acc n =>
        if n.alive then
          let acc := n.edges.foldl (fun a t => modNode a t incNonRoot) acc
          n.ephHandles.foldl (fun a t => modEph a t incNonRootE) acc
        else acc) acc
      = ((l.filter (·.alive)).flatMap (·.edges)).foldl (fun a t => modNode a t incNonRoot) acc := by
    intro l
    induction l with
    | nil => intro acc _; rfl
    | cons n ns ih =>
      intro acc hacc
      simp only [List.foldl_cons]
      by_cases ha : n.alive = true
      · simp only [ha, ↓reduceIte, List.filter_cons, List.flatMap_cons, List.foldl_append]
        have r1 := foldl_modNode_rel PTnr.refl PTnr.trans incNonRoot incNonRoot_PTnr n.edges acc
        have he1 : (n.edges.foldl (fun a t => modNode a t incNonRoot) acc).ephs = [] := by rw [r1.2.1]; exact hacc
        rw [modEph_eq_of_noEph he1]
        exact ih _ he1
      · simp only [ha, Bool.false_eq_true, ↓reduceIte, List.filter_cons]
        exact ih acc hacc
  exact key h.nodes h he

def nonRootOf (h : Heap) (i : Nat) : Nat := match h.nodes[i]? with | some n => n.nonRoot | none => 0
def refCountOf (h : Heap) (i : Nat) : Nat := match h.nodes[i]? with | some n => n.refCount | none => 0

theorem incNonRoot_fold (ts : List Nat) : ∀ (h : Heap) (i : Nat), i < h.nodes.length → nonRootOf h i ≤ refCountOf h i →
    nonRootOf (ts.foldl (fun a t => modNode a t incNonRoot) h) i = min (refCountOf h i) (nonRootOf h i + ts.count i) ∧
    refCountOf (ts.foldl (fun a t => modNode a t incNonRoot) h) i = refCountOf h i := by
  induction ts with
  | nil => intro h i _ hle; simp; omega
  | cons t ts ih =>
    intro h i hi hle
    simp only [List.foldl_cons]
    have hlen : (modNode h t incNonRoot).nodes.length = h.nodes.length := modNode_length _ _ _
    obtain ⟨n, hn⟩ : ∃ n, h.nodes[i]? = some n := ⟨h.nodes[i], by simp [hi]⟩
    have hnr0 : nonRootOf h i = n.nonRoot := by unfold nonRootOf; rw [hn]
    have hrc0 : refCountOf h i = n.refCount := by unfold refCountOf; rw [hn]
    by_cases hti : t = i
    · subst hti
      have hget : (modNode h t incNonRoot).nodes[t]? = some (incNonRoot n) := by rw [modNode_nodes_get]; simp [hn]
      have hnr1 : nonRootOf (modNode h t incNonRoot) t = (incNonRoot n).nonRoot := by unfold nonRootOf; rw [hget]
      have hircc : (incNonRoot n).refCount = n.refCount := by unfold incNonRoot; split <;> rfl
      have hrc1 : refCountOf (modNode h t incNonRoot) t = n.refCount := by
        unfold refCountOf; rw [hget]; exact hircc
      have hinc : (incNonRoot n).nonRoot = min n.refCount (n.nonRoot + 1) := by
        unfold incNonRoot; rw [hnr0, hrc0] at hle
        split
        · show n.nonRoot + 1 = min n.refCount (n.nonRoot + 1); omega
        · omega
      obtain ⟨i1, i2⟩ := ih (modNode h t incNonRoot) t (by rw [hlen]; exact hi) (by rw [hnr1, hrc1, hinc]; omega)
      rw [i1, i2, hnr1, hrc1, hinc, hnr0, hrc0]
      simp [List.count_cons]; omega
    · have hget : (modNode h t incNonRoot).nodes[i]? = some n := by rw [modNode_nodes_get]; simp [hti, hn]
      have hnr1 : nonRootOf (modNode h t incNonRoot) i = n.nonRoot := by unfold nonRootOf; rw [hget]
      have hrc1 : refCountOf (modNode h t incNonRoot) i = n.refCount := by unfold refCountOf; rw [hget]
      obtain ⟨i1, i2⟩ := ih (modNode h t incNonRoot) i (by rw [hlen]; exact hi) (by rw [hnr1, hrc1, ← hnr0, ← hrc0]; exact hle)
      rw [i1, i2, hnr1, hrc1, hnr0, hrc0]
      have : (t :: ts).count i = ts.count i := by simp [List.count_cons, hti]
      rw [this]; exact ⟨rfl, rfl⟩

/-- The reference-count invariant: a live node's count is the number of external handles to it plus the
    number of handles to it stored in live heap values; between collections non-root counts are zero. -/
def RC (h : Heap) : Prop :=
  ∀ (i : Nat) (n : Node), h.nodes[i]? = some n → n.alive = true →
    n.refCount = h.ext.count i + (heapTargets h).count i ∧ n.nonRoot = 0

theorem roots_exact_aux (h : Heap) (he : h.ephs = []) (hrc : RC h) (i : Nat) (n : Node)
    (hn : h.nodes[i]? = some n) (ha : n.alive = true) :
    rootedAt (traceNonRoots h) i ↔ 0 < h.ext.count i := by
  have hflat := traceNonRoots_flat h he
  have hi : i < h.nodes.length := (List.getElem?_eq_some_iff.mp hn).1
  obtain ⟨hcnt, hz⟩ := hrc i n hn ha
  have hnr0 : nonRootOf h i = 0 := by unfold nonRootOf; simp only [hn]; exact hz
  have hrc0 : refCountOf h i = n.refCount := by unfold refCountOf; simp only [hn]
  obtain ⟨f1, f2⟩ := incNonRoot_fold (heapTargets h) h i hi (by rw [hnr0]; omega)
  rw [← hflat] at f1 f2
  rw [hnr0, hrc0] at f1
  rw [hrc0] at f2
  have hlt : i < (traceNonRoots h).nodes.length := by rw [(traceNonRoots_rel h he).1]; exact hi
  have e1 : nonRootOf (traceNonRoots h) i = ((traceNonRoots h).nodes[i]).nonRoot := by unfold nonRootOf; simp [hlt]
  have e2 : refCountOf (traceNonRoots h) i = ((traceNonRoots h).nodes[i]).refCount := by unfold refCountOf; simp [hlt]
  rw [e1] at f1; rw [e2] at f2
  unfold rootedAt
  constructor
  · rintro ⟨x, hx, hr⟩
    have hxe : x = (traceNonRoots h).nodes[i] := by
      have : (traceNonRoots h).nodes[i]? = some ((traceNonRoots h).nodes[i]) := by simp [hlt]
      rw [this] at hx; cases hx; rfl
    subst hxe
    unfold Node.rooted at hr
    simp only [decide_eq_true_eq] at hr
    omega
  · intro hpos
    refine ⟨(traceNonRoots h).nodes[i], by simp [hlt], ?_⟩
    unfold Node.rooted
    simp only [decide_eq_true_eq]
    omega

/-- `trace_non_roots` finds exactly the externally held nodes: after it, a live node is rooted iff the
    mutator holds a handle to it -/
theorem roots_exact (h : Heap) (he : h.ephs = []) (hrc : RC h) (i : Nat) (n : Node)
    (hn : h.nodes[i]? = some n) (ha : n.alive = true) :
    rootedAt (traceNonRoots { h with collections := h.collections + 1 }) i ↔ 0 < h.ext.count i :=
  roots_exact_aux { h with collections := h.collections + 1 } he hrc i n hn ha

end BoaVerif.C09
