import BoaVerif.C09.Model
namespace BoaVerif.C09

/-! ## basic facts about `modNode` / `modEph` -/

theorem modNode_nodes_get (h : Heap) (i j : Nat) (f : Node → Node) :
    (modNode h i f).nodes[j]? = if i = j then (h.nodes[j]?).map f else h.nodes[j]? := by
  unfold modNode
  cases hi : h.nodes[i]? with
  | none =>
    by_cases hij : i = j
    · subst hij; simp [hi]
    · simp [hij]
  | some n =>
    simp only [List.getElem?_set]
    by_cases hij : i = j
    · subst hij
      have hlt : i < h.nodes.length := (List.getElem?_eq_some_iff.mp hi).1
      rw [if_pos rfl, if_pos hlt, hi]; simp
    · simp [hij]

theorem modNode_ephs (h : Heap) (i : Nat) (f : Node → Node) : (modNode h i f).ephs = h.ephs := by
  unfold modNode; split <;> rfl

theorem modNode_length (h : Heap) (i : Nat) (f : Node → Node) : (modNode h i f).nodes.length = h.nodes.length := by
  unfold modNode; split <;> simp

theorem modEph_nodes (h : Heap) (i : Nat) (f : Eph → Eph) : (modEph h i f).nodes = h.nodes := by
  unfold modEph; split <;> rfl

theorem foldl_modEph_nodes (l : List Nat) (f : Eph → Eph) (h : Heap) :
    (l.foldl (fun a t => modEph a t f) h).nodes = h.nodes := by
  induction l generalizing h with
  | nil => rfl
  | cons x xs ih => simp only [List.foldl_cons]; rw [ih, modEph_nodes]

/-! ## the strong graph and its marks -/

def edgesOf (h : Heap) (i : Nat) : List Nat := match h.nodes[i]? with | some n => n.edges | none => []
def validId (h : Heap) (i : Nat) : Prop := i < h.nodes.length
/-- marked and a real node -/
def M (h : Heap) (i : Nat) : Prop := ∃ n, h.nodes[i]? = some n ∧ n.marked = true

/-- two heaps with the same strong graph (edges, liveness, counters) — only marks may differ -/
def SameGraph (h h' : Heap) : Prop :=
  h'.nodes.length = h.nodes.length ∧
  ∀ (i : Nat) (n : Node), h.nodes[i]? = some n → ∃ n' : Node, h'.nodes[i]? = some n' ∧ n'.edges = n.edges ∧ n'.alive = n.alive ∧
    n'.refCount = n.refCount ∧ n'.nonRoot = n.nonRoot ∧ n'.ephHandles = n.ephHandles ∧
    n'.finalized = n.finalized ∧ n'.dropped = n.dropped ∧ (n.marked = true → n'.marked = true)

theorem SameGraph.refl (h : Heap) : SameGraph h h := ⟨rfl, fun _ n hn => ⟨n, hn, rfl, rfl, rfl, rfl, rfl, rfl, rfl, fun x => x⟩⟩

theorem SameGraph.trans {a b c : Heap} (h1 : SameGraph a b) (h2 : SameGraph b c) : SameGraph a c := by
  refine ⟨h2.1.trans h1.1, fun i n hn => ?_⟩
  obtain ⟨n', hn', e1, e2, e3, e4, e5, e6, e7, e8⟩ := h1.2 i n hn
  obtain ⟨n'', hn'', f1, f2, f3, f4, f5, f6, f7, f8⟩ := h2.2 i n' hn'
  exact ⟨n'', hn'', f1.trans e1, f2.trans e2, f3.trans e3, f4.trans e4, f5.trans e5, f6.trans e6, f7.trans e7,
    fun x => f8 (e8 x)⟩

theorem SameGraph.edgesOf {h h' : Heap} (s : SameGraph h h') (i : Nat) : edgesOf h' i = edgesOf h i := by
  unfold BoaVerif.C09.edgesOf
  cases hi : h.nodes[i]? with
  | none =>
    have : h'.nodes[i]? = none := by
      rw [List.getElem?_eq_none_iff] at hi ⊢; rw [s.1]; exact hi
    rw [this]
  | some n =>
    obtain ⟨n', hn', e, _⟩ := s.2 i n hi
    rw [hn']; exact e

theorem SameGraph.M_mono {h h' : Heap} (s : SameGraph h h') {i : Nat} (hm : M h i) : M h' i := by
  obtain ⟨n, hn, hmk⟩ := hm
  obtain ⟨n', hn', _, _, _, _, _, _, _, hk⟩ := s.2 i n hn
  exact ⟨n', hn', hk hmk⟩

/-- marking one node (and the ephemeron boxes it holds) keeps the graph -/
def markStep (h : Heap) (n : Nat) (nd : Node) : Heap :=
  nd.ephHandles.foldl (fun a t => modEph a t (fun e => { e with marked := true }))
    (modNode h n (fun x => { x with marked := true }))

theorem markStep_nodes_get (h : Heap) (n : Nat) (nd : Node) (j : Nat) :
    (markStep h n nd).nodes[j]? = if n = j then (h.nodes[j]?).map (fun x => { x with marked := true }) else h.nodes[j]? := by
  unfold markStep
  rw [foldl_modEph_nodes, modNode_nodes_get]

theorem markStep_sameGraph (h : Heap) (n : Nat) (nd : Node) : SameGraph h (markStep h n nd) := by
  refine ⟨?_, fun i x hx => ?_⟩
  · unfold markStep; rw [foldl_modEph_nodes, modNode_length]
  · rw [markStep_nodes_get]
    by_cases hni : n = i
    · subst hni; simp only [↓reduceIte, hx, Option.map_some]
      exact ⟨_, rfl, rfl, rfl, rfl, rfl, rfl, rfl, rfl, fun _ => rfl⟩
    · simp only [hni, ↓reduceIte]
      exact ⟨x, hx, rfl, rfl, rfl, rfl, rfl, rfl, rfl, fun y => y⟩

theorem markStep_M (h : Heap) (n : Nat) (nd : Node) (hn : h.nodes[n]? = some nd) (i : Nat) :
    M (markStep h n nd) i ↔ (i = n ∨ M h i) := by
  unfold M
  rw [markStep_nodes_get]
  by_cases hni : n = i
  · subst hni
    simp only [↓reduceIte, hn, Option.map_some, Option.some.injEq, exists_eq_left', true_or]
  · simp only [hni, ↓reduceIte]
    constructor
    · intro hh; exact Or.inr hh
    · intro hh; rcases hh with hh | hh
      · exact absurd hh.symm hni
      · exact hh

theorem isMarked_false_iff (h : Heap) (n : Nat) : isMarked h n = false ↔ ∃ nd, h.nodes[n]? = some nd ∧ nd.marked = false := by
  unfold isMarked
  cases h.nodes[n]? with
  | none => simp
  | some nd => simp

/-- `traceUntilEmpty` unfolded with `markStep` -/
theorem traceUntilEmpty_succ_cons (fuel n : Nat) (q : List Nat) (h : Heap) :
    traceUntilEmpty (fuel + 1) (n :: q) h =
      if isMarked h n then traceUntilEmpty fuel q h
      else match h.nodes[n]? with
        | none => traceUntilEmpty fuel q h
        | some nd => traceUntilEmpty fuel (q ++ nd.edges) (markStep h n nd) := by
  rfl

/-! ## reachability -/

/-- `Reach h S i`: node `i` is reachable from the set `S` along edges of real nodes -/
inductive Reach (h : Heap) (S : Nat → Prop) : Nat → Prop
  | base {i} : S i → validId h i → Reach h S i
  | step {i t} : Reach h S i → t ∈ edgesOf h i → validId h t → Reach h S t

theorem Reach.mono {h : Heap} {S T : Nat → Prop} (hst : ∀ i, S i → T i) {i : Nat} (r : Reach h S i) : Reach h T i := by
  induction r with
  | base hs hv => exact .base (hst _ hs) hv
  | step _ he hv ih => exact .step ih he hv

theorem Reach.sameGraph {h h' : Heap} (s : SameGraph h h') {S : Nat → Prop} {i : Nat} (r : Reach h S i) : Reach h' S i := by
  induction r with
  | base hs hv => exact .base hs (by unfold validId at *; rw [s.1]; exact hv)
  | step _ he hv ih => exact .step ih (by rw [s.edgesOf]; exact he) (by unfold validId at *; rw [s.1]; exact hv)

theorem Reach.validId {h : Heap} {S : Nat → Prop} {i : Nat} (r : Reach h S i) : validId h i := by
  cases r with
  | base _ hv => exact hv
  | step _ _ hv => exact hv

/-- the three-part invariant of the worklist loop, relative to the start heap `h0` and start queue `q0`:
    (1) everything marked now was marked before or is reachable from `q0`;
    (2) everything queued is reachable from `q0` (or is not a node);
    (3) edges of newly marked nodes lead to marked or queued nodes. -/
structure TraceInv (h0 : Heap) (q0 : List Nat) (h : Heap) (q : List Nat) : Prop where
  same : SameGraph h0 h
  sound : ∀ i, M h i → M h0 i ∨ Reach h0 (· ∈ q0) i
  queued : ∀ i, i ∈ q → validId h0 i → Reach h0 (· ∈ q0) i
  closed : ∀ i, M h i → ¬ M h0 i → ∀ t ∈ edgesOf h0 i, validId h0 t → M h t ∨ t ∈ q
  start : ∀ i, i ∈ q0 → validId h0 i → M h i ∨ i ∈ q

theorem TraceInv.init (h0 : Heap) (q0 : List Nat) : TraceInv h0 q0 h0 q0 :=
  ⟨SameGraph.refl _, fun _ hm => Or.inl hm, fun _ hi hv => .base hi hv, fun _ hm hnm => absurd hm hnm,
   fun _ hi _ => Or.inr hi⟩

theorem traceUntilEmpty_inv (h0 : Heap) (q0 : List Nat) :
    ∀ (fuel : Nat) (q : List Nat) (h : Heap), TraceInv h0 q0 h q →
      TraceInv h0 q0 (traceUntilEmpty fuel q h).1 (traceUntilEmpty fuel q h).2 := by
  intro fuel
  induction fuel with
  | zero => intro q h inv; exact inv
  | succ fuel ih =>
    intro q h inv
    cases q with
    | nil => exact inv
    | cons n q =>
      rw [traceUntilEmpty_succ_cons]
      by_cases hmk : isMarked h n = true
      · rw [if_pos hmk]
        apply ih
        -- popping an already marked (or non-existent) entry
        refine ⟨inv.same, inv.sound, fun i hi hv => inv.queued i (List.mem_cons_of_mem _ hi) hv, ?_, ?_⟩
        · intro i hm hnm t ht hv
          rcases inv.closed i hm hnm t ht hv with hh | hh
          · exact Or.inl hh
          · cases hh with
            | head =>
              left
              unfold isMarked at hmk
              cases hx : h.nodes[n]? with
              | none =>
                exfalso
                have : validId h n := by unfold validId at *; rw [inv.same.1]; exact hv
                unfold validId at this
                rw [List.getElem?_eq_none_iff] at hx; omega
              | some nd => rw [hx] at hmk; exact ⟨nd, hx, hmk⟩
            | tail _ hh' => exact Or.inr hh'
        · intro i hi hv
          rcases inv.start i hi hv with hh | hh
          · exact Or.inl hh
          · cases hh with
            | head =>
              left
              unfold isMarked at hmk
              cases hx : h.nodes[n]? with
              | none =>
                exfalso
                have : validId h n := by unfold validId at *; rw [inv.same.1]; exact hv
                unfold validId at this
                rw [List.getElem?_eq_none_iff] at hx; omega
              | some nd => rw [hx] at hmk; exact ⟨nd, hx, hmk⟩
            | tail _ hh' => exact Or.inr hh'
      · have hmk' : isMarked h n = false := by simpa using hmk
        rw [if_neg hmk]
        obtain ⟨nd, hnd, hndm⟩ := (isMarked_false_iff h n).mp hmk'
        rw [hnd]
        apply ih
        have hsg := markStep_sameGraph h n nd
        have hvn : validId h0 n := by
          unfold validId; rw [← inv.same.1]; exact (List.getElem?_eq_some_iff.mp hnd).1
        have hreach_n : Reach h0 (· ∈ q0) n := inv.queued n (List.mem_cons_self) hvn
        have hedges : nd.edges = edgesOf h0 n := by
          have := inv.same.edgesOf n
          unfold edgesOf at this; rw [hnd] at this; exact this
        refine ⟨inv.same.trans hsg, ?_, ?_, ?_, ?_⟩
        · intro i hm
          rcases (markStep_M h n nd hnd i).mp hm with rfl | hh
          · exact Or.inr hreach_n
          · exact inv.sound i hh
        · intro i hi hv
          rcases List.mem_append.mp hi with hh | hh
          · exact inv.queued i (List.mem_cons_of_mem _ hh) hv
          · exact .step hreach_n (by rw [← hedges]; exact hh) hv
        · intro i hm hnm t ht hv
          rcases (markStep_M h n nd hnd i).mp hm with rfl | hh
          · right; exact List.mem_append.mpr (Or.inr (by rw [hedges]; exact ht))
          · rcases inv.closed i hh hnm t ht hv with h1 | h1
            · exact Or.inl ((markStep_M h n nd hnd t).mpr (Or.inr h1))
            · cases h1 with
              | head => exact Or.inl ((markStep_M h n nd hnd _).mpr (Or.inl rfl))
              | tail _ h2 => exact Or.inr (List.mem_append.mpr (Or.inl h2))
        · intro i hi hv
          rcases inv.start i hi hv with h1 | h1
          · exact Or.inl ((markStep_M h n nd hnd i).mpr (Or.inr h1))
          · cases h1 with
            | head => exact Or.inl ((markStep_M h n nd hnd _).mpr (Or.inl rfl))
            | tail _ h2 => exact Or.inr (List.mem_append.mpr (Or.inl h2))

end BoaVerif.C09
