import BoaVerif.C09.Lemmas2
namespace BoaVerif.C09

theorem Reach.transfer {h h' : Heap} (hl : h'.nodes.length = h.nodes.length) (he : ∀ i, edgesOf h' i = edgesOf h i)
    {S : Nat → Prop} {i : Nat} (r : Reach h S i) : Reach h' S i := by
  induction r with
  | base hs hv => exact .base hs (by unfold BoaVerif.C09.validId at *; rw [hl]; exact hv)
  | step _ he' hv ih => exact .step ih (by rw [he]; exact he') (by unfold BoaVerif.C09.validId at *; rw [hl]; exact hv)

theorem Reach.sameGraph_iff {h h' : Heap} (s : SameGraph h h') {S : Nat → Prop} {i : Nat} :
    Reach h' S i ↔ Reach h S i :=
  ⟨fun r => r.transfer s.1.symm (fun i => (s.edgesOf i).symm), fun r => r.transfer s.1 s.edgesOf⟩

theorem Reach.union {h : Heap} {S T : Nat → Prop} {i : Nat} :
    Reach h (fun x => S x ∨ T x) i ↔ Reach h S i ∨ Reach h T i := by
  constructor
  · intro r
    induction r with
    | base hs hv => rcases hs with hs | hs; exact Or.inl (.base hs hv); exact Or.inr (.base hs hv)
    | step _ he hv ih => rcases ih with ih | ih; exact Or.inl (.step ih he hv); exact Or.inr (.step ih he hv)
  · intro r
    rcases r with r | r
    · exact r.mono (fun _ hx => Or.inl hx)
    · exact r.mono (fun _ hx => Or.inr hx)

def rootedAt (h : Heap) (r : Nat) : Prop := ∃ n, h.nodes[r]? = some n ∧ n.rooted = true

theorem SameGraph.rootedAt_iff {h h' : Heap} (s : SameGraph h h') (r : Nat) : rootedAt h' r ↔ rootedAt h r := by
  unfold rootedAt
  constructor
  · rintro ⟨n', hn', hr⟩
    have hlt : r < h.nodes.length := by rw [← s.1]; exact (List.getElem?_eq_some_iff.mp hn').1
    obtain ⟨n, hn⟩ : ∃ n, h.nodes[r]? = some n := ⟨h.nodes[r], by simp [hlt]⟩
    obtain ⟨n'', hn'', _, _, e3, e4, _⟩ := s.2 r n hn
    rw [hn'] at hn''; cases hn''
    exact ⟨n, hn, by unfold Node.rooted at *; rw [← e3, ← e4]; exact hr⟩
  · rintro ⟨n, hn, hr⟩
    obtain ⟨n', hn', _, _, e3, e4, _⟩ := s.2 r n hn
    exact ⟨n', hn', by unfold Node.rooted at *; rw [e3, e4]; exact hr⟩

theorem strongPhase_cons (i : Nat) (ids : List Nat) (acc : Heap × List Nat) :
    strongPhase (i :: ids) acc = strongPhase ids
      (match acc.1.nodes[i]? with
       | none => acc
       | some n => if n.rooted then (traceFrom acc.1 [i], acc.2)
                   else if !n.marked then (acc.1, acc.2 ++ [i]) else acc) := rfl

theorem traceFrom_single (h : Heap) (i : Nat) (hc : Closed h) :
    SameGraph h (traceFrom h [i]) ∧ (∀ j, M (traceFrom h [i]) j ↔ (M h j ∨ Reach h (· ∈ [i]) j)) ∧ Closed (traceFrom h [i]) :=
  trace_complete h [i] (traceFuel h) hc (traceFrom_single_done h i)

/-- marks after step 0 of mark_heap: previously marked ∪ reachable from the rooted nodes in `ids` -/
theorem strongPhase_marks : ∀ (ids : List Nat) (h : Heap) (dead : List Nat), Closed h →
    let r := strongPhase ids (h, dead)
    SameGraph h r.1 ∧ Closed r.1 ∧
    (∀ j, M r.1 j ↔ (M h j ∨ Reach h (fun x => x ∈ ids ∧ rootedAt h x) j)) := by
  intro ids
  induction ids with
  | nil =>
    intro h dead hc
    refine ⟨SameGraph.refl _, hc, fun j => ⟨fun hm => Or.inl hm, fun hh => ?_⟩⟩
    rcases hh with hh | hh
    · exact hh
    · exfalso
      have : ∀ j, Reach h (fun x => x ∈ ([] : List Nat) ∧ rootedAt h x) j → False := by
        intro j r
        induction r with
        | base hs _ => simp at hs
        | step _ _ _ ih => exact ih
      exact this j hh
  | cons i ids ih =>
    intro h dead hc
    rw [strongPhase_cons]
    cases hi : h.nodes[i]? with
    | none =>
      simp only [hi]
      obtain ⟨s, c, m⟩ := ih h dead hc
      refine ⟨s, c, fun j => ?_⟩
      rw [m j]
      have : ∀ x, (x ∈ i :: ids ∧ rootedAt h x) ↔ (x ∈ ids ∧ rootedAt h x) := by
        intro x
        constructor
        · rintro ⟨hx, hr⟩
          cases hx with
          | head => obtain ⟨n, hn, _⟩ := hr; rw [hi] at hn; cases hn
          | tail _ hx' => exact ⟨hx', hr⟩
        · rintro ⟨hx, hr⟩; exact ⟨List.mem_cons_of_mem _ hx, hr⟩
      constructor
      · rintro (hh | hh); exact Or.inl hh; exact Or.inr (hh.mono (fun x hx => (this x).mpr hx))
      · rintro (hh | hh); exact Or.inl hh; exact Or.inr (hh.mono (fun x hx => (this x).mp hx))
    | some n =>
      simp only [hi]
      by_cases hr : n.rooted = true
      · simp only [hr, ↓reduceIte]
        obtain ⟨s1, m1, c1⟩ := traceFrom_single h i hc
        obtain ⟨s, c, m⟩ := ih (traceFrom h [i]) dead c1
        refine ⟨s1.trans s, c, fun j => ?_⟩
        rw [m j, m1 j]
        have hroot : ∀ x, rootedAt (traceFrom h [i]) x ↔ rootedAt h x := s1.rootedAt_iff
        constructor
        · rintro ((hh | hh) | hh)
          · exact Or.inl hh
          · exact Or.inr (hh.mono (fun x hx => by
              simp only [List.mem_singleton] at hx; subst hx
              exact ⟨List.mem_cons_self, n, hi, hr⟩))
          · right
            have := (Reach.sameGraph_iff s1).mp hh
            exact this.mono (fun x hx => ⟨List.mem_cons_of_mem _ hx.1, (hroot x).mp hx.2⟩)
        · rintro (hh | hh)
          · exact Or.inl (Or.inl hh)
          · have hsplit : Reach h (fun x => x ∈ [i] ∨ (x ∈ ids ∧ rootedAt h x)) j :=
              hh.mono (fun x hx => by
                rcases hx with ⟨hx, hrx⟩
                cases hx with
                | head => exact Or.inl (List.mem_singleton.mpr rfl)
                | tail _ hx' => exact Or.inr ⟨hx', hrx⟩)
            rcases Reach.union.mp hsplit with h1 | h1
            · exact Or.inl (Or.inr h1)
            · right
              apply (Reach.sameGraph_iff s1).mpr
              exact h1.mono (fun x hx => ⟨hx.1, (hroot x).mpr hx.2⟩)
      · have hr' : n.rooted = false := by simpa using hr
        have hnot : ¬ rootedAt h i := by
          rintro ⟨n', hn', hr''⟩; rw [hi] at hn'; cases hn'; rw [hr'] at hr''; cases hr''
        have hset : ∀ x, (x ∈ i :: ids ∧ rootedAt h x) ↔ (x ∈ ids ∧ rootedAt h x) := by
          intro x
          constructor
          · rintro ⟨hx, hrx⟩
            cases hx with
            | head => exact absurd hrx hnot
            | tail _ hx' => exact ⟨hx', hrx⟩
          · rintro ⟨hx, hrx⟩; exact ⟨List.mem_cons_of_mem _ hx, hrx⟩
        have key : ∀ dead', let r := strongPhase ids (h, dead')
            SameGraph h r.1 ∧ Closed r.1 ∧ (∀ j, M r.1 j ↔ (M h j ∨ Reach h (fun x => x ∈ i :: ids ∧ rootedAt h x) j)) := by
          intro dead'
          obtain ⟨s, c, m⟩ := ih h dead' hc
          refine ⟨s, c, fun j => ?_⟩
          rw [m j]
          constructor
          · rintro (hh | hh); exact Or.inl hh; exact Or.inr (hh.mono (fun x hx => (hset x).mpr hx))
          · rintro (hh | hh); exact Or.inl hh; exact Or.inr (hh.mono (fun x hx => (hset x).mp hx))
        simp only [hr', Bool.false_eq_true, ↓reduceIte]
        split
        · exact key _
        · exact key _

end BoaVerif.C09
