import BoaVerif.C09.Lemmas
namespace BoaVerif.C09

/-- marks are closed under edges -/
def Closed (h : Heap) : Prop := ∀ i, M h i → ∀ t ∈ edgesOf h i, validId h t → M h t

/-- worklist marking computes reachability: if the loop ran to completion (leftover queue empty) from a
    heap whose marks are closed under edges, the marked nodes are exactly the previously marked ones plus
    everything reachable from the start queue; the graph is untouched and the marks are closed again -/
theorem trace_complete (h0 : Heap) (q0 : List Nat) (fuel : Nat) (hc : Closed h0)
    (hdone : (traceUntilEmpty fuel q0 h0).2 = []) :
    let h' := (traceUntilEmpty fuel q0 h0).1
    SameGraph h0 h' ∧ (∀ i, M h' i ↔ (M h0 i ∨ Reach h0 (· ∈ q0) i)) ∧ Closed h' := by
  intro h'
  have inv := traceUntilEmpty_inv h0 q0 fuel q0 h0 (TraceInv.init h0 q0)
  rw [hdone] at inv
  have hback : ∀ i, Reach h0 (· ∈ q0) i → M h' i := by
    intro i r
    induction r with
    | base hs hv =>
      rcases inv.start _ hs hv with hh | hh
      · exact hh
      · cases hh
    | step r he hv ih =>
      rename_i a t
      by_cases hm0 : M h0 a
      · exact inv.same.M_mono (hc a hm0 t he hv)
      · rcases inv.closed a ih hm0 t he hv with hh | hh
        · exact hh
        · cases hh
  refine ⟨inv.same, fun i => ⟨inv.sound i, fun hh => ?_⟩, ?_⟩
  · rcases hh with hh | hh
    · exact inv.same.M_mono hh
    · exact hback i hh
  · intro i hm t ht hv
    rw [inv.same.edgesOf] at ht
    have hv0 : validId h0 t := by unfold validId at *; rw [← inv.same.1]; exact hv
    rcases inv.sound i hm with hh | hh
    · exact inv.same.M_mono (hc i hh t ht hv0)
    · exact hback t (.step hh ht hv0)

/-! ## fuel -/

def weight (n : Node) : Nat := if n.marked then 0 else n.edges.length + 1
def unmarkedWeight (h : Heap) : Nat := (h.nodes.map weight).sum

theorem sum_map_set (l : List Node) (i : Nat) (v x : Node) (hx : l[i]? = some x) :
    ((l.set i v).map weight).sum + weight x = (l.map weight).sum + weight v := by
  induction l generalizing i with
  | nil => simp at hx
  | cons a as ih =>
    cases i with
    | zero => simp at hx; subst hx; simp; omega
    | succ j =>
      simp at hx
      have := ih j hx
      simp only [List.set_cons_succ, List.map_cons, List.sum_cons]
      omega

theorem markStep_weight (h : Heap) (n : Nat) (nd : Node) (hn : h.nodes[n]? = some nd) (hm : nd.marked = false) :
    unmarkedWeight (markStep h n nd) + (nd.edges.length + 1) = unmarkedWeight h := by
  unfold unmarkedWeight markStep
  rw [foldl_modEph_nodes]
  unfold modNode
  rw [hn]
  have := sum_map_set h.nodes n { nd with marked := true } nd hn
  have w1 : weight nd = nd.edges.length + 1 := by simp [weight, hm]
  have w2 : weight { nd with marked := true } = 0 := by simp [weight]
  rw [w1, w2] at this
  omega

theorem trace_fuel (fuel : Nat) : ∀ (q : List Nat) (h : Heap), q.length + unmarkedWeight h ≤ fuel →
    (traceUntilEmpty fuel q h).2 = [] := by
  induction fuel with
  | zero =>
    intro q h hle
    have : q = [] := by cases q with | nil => rfl | cons _ _ => simp at hle
    subst this; rfl
  | succ fuel ih =>
    intro q h hle
    cases q with
    | nil => rfl
    | cons n q =>
      rw [traceUntilEmpty_succ_cons]
      by_cases hmk : isMarked h n = true
      · rw [if_pos hmk]; apply ih; simp at hle; omega
      · rw [if_neg hmk]
        have hmk' : isMarked h n = false := by simpa using hmk
        obtain ⟨nd, hnd, hndm⟩ := (isMarked_false_iff h n).mp hmk'
        rw [hnd]
        apply ih
        have := markStep_weight h n nd hnd hndm
        simp at hle ⊢
        omega

theorem foldl_add_ge (l : List Node) (f : Node → Nat) (a : Nat) :
    l.foldl (fun acc n => acc + f n) a = a + (l.map f).sum := by
  induction l generalizing a with
  | nil => simp
  | cons x xs ih => simp [ih]; omega

theorem weight_le (n : Node) : weight n ≤ n.edges.length + 1 := by unfold weight; split <;> omega

theorem sum_weight_le (l : List Node) : (l.map weight).sum ≤ (l.map (fun n => n.edges.length + 1)).sum := by
  induction l with
  | nil => simp
  | cons x xs ih => simp only [List.map_cons, List.sum_cons]; have := weight_le x; omega

theorem traceFuel_ge (h : Heap) : unmarkedWeight h + 2 ≤ traceFuel h := by
  unfold traceFuel unmarkedWeight
  have h1 := foldl_add_ge h.nodes (fun n => n.edges.length + 1) 0
  have h2 : (h.nodes.foldl (fun acc n => acc + n.edges.length + 1) 0)
      = (h.nodes.foldl (fun acc n => acc + (n.edges.length + 1)) 0) := by
    congr 1
  rw [h2, h1]
  have := sum_weight_le h.nodes
  omega

/-- tracing from a single node always runs to completion with the fuel the model provides -/
theorem traceFrom_single_done (h : Heap) (i : Nat) : (traceUntilEmpty (traceFuel h) [i] h).2 = [] := by
  apply trace_fuel
  have := traceFuel_ge h
  simp; omega

end BoaVerif.C09
