import BoaVerif.C09.Lemmas5
namespace BoaVerif.C09

theorem traceFrom_marked (h : Heap) (i : Nat) (hm : isMarked h i = true) : traceFrom h [i] = h := by
  unfold traceFrom
  have : traceFuel h = (traceFuel h - 1) + 1 := by unfold traceFuel; omega
  rw [this, traceUntilEmpty_succ_cons, if_pos hm]
  cases (traceFuel h - 1) <;> rfl

theorem strongPhase_noop : ∀ (ids : List Nat) (h : Heap) (dead : List Nat),
    (∀ i ∈ ids, ∀ n, h.nodes[i]? = some n → n.rooted = true → n.marked = true) →
    (strongPhase ids (h, dead)).1 = h := by
  intro ids
  induction ids with
  | nil => intro h dead _; rfl
  | cons i ids ih =>
    intro h dead hyp
    rw [strongPhase_cons]
    have hyp' : ∀ j ∈ ids, ∀ n, h.nodes[j]? = some n → n.rooted = true → n.marked = true :=
      fun j hj => hyp j (List.mem_cons_of_mem _ hj)
    cases hi : h.nodes[i]? with
    | none => simp only [hi]; exact ih h dead hyp'
    | some n =>
      simp only [hi]
      by_cases hr : n.rooted = true
      · simp only [hr, ↓reduceIte]
        have hm : isMarked h i = true := by unfold isMarked; rw [hi]; exact hyp i List.mem_cons_self n hi hr
        rw [traceFrom_marked h i hm]; exact ih h dead hyp'
      · simp only [hr, Bool.false_eq_true, ↓reduceIte]
        split
        · exact ih h _ hyp'
        · exact ih h dead hyp'

theorem markHeap_noop (h : Heap) (he : h.ephs = [])
    (hyp : ∀ i ∈ aliveIds h.nodes, ∀ n, h.nodes[i]? = some n → n.rooted = true → n.marked = true) :
    (markHeap h).1 = h := by
  have h1 := strongPhase_noop (aliveIds h.nodes) h [] hyp
  unfold markHeap
  simp only [h1, he, aliveEphIds, List.length_nil, List.range_zero, List.filter_nil, List.isEmpty_nil, ↓reduceIte]

theorem mem_aliveIds (l : List Node) (i : Nat) : i ∈ aliveIds l ↔ ∃ n, l[i]? = some n ∧ n.alive = true := by
  unfold aliveIds
  simp only [List.mem_filter, List.mem_range]
  constructor
  · rintro ⟨hlt, hh⟩
    cases hi : l[i]? with
    | none => rw [hi] at hh; cases hh
    | some n => rw [hi] at hh; exact ⟨n, rfl, hh⟩
  · rintro ⟨n, hn, ha⟩
    exact ⟨(List.getElem?_eq_some_iff.mp hn).1, by rw [hn]; exact ha⟩

theorem aliveIds_nodup (l : List Node) : (aliveIds l).Nodup := by
  unfold aliveIds; exact List.Nodup.sublist List.filter_sublist List.nodup_range

theorem modNode_mapBoxes (h : Heap) (i : Nat) (f : Node → Node) : (modNode h i f).mapBoxes = h.mapBoxes := by
  unfold modNode; split <;> rfl

theorem markStep_mapBoxes (h : Heap) (n : Nat) (nd : Node) (he : h.ephs = []) : (markStep h n nd).mapBoxes = h.mapBoxes := by
  unfold markStep
  rw [foldl_modEph_noEph _ _ _ (by rw [modNode_ephs]; exact he), modNode_mapBoxes]

theorem traceUntilEmpty_mapBoxes : ∀ (fuel : Nat) (q : List Nat) (h : Heap), h.ephs = [] →
    (traceUntilEmpty fuel q h).1.mapBoxes = h.mapBoxes := by
  intro fuel
  induction fuel with
  | zero => intro q h _; rfl
  | succ fuel ih =>
    intro q h he
    cases q with
    | nil => rfl
    | cons n q =>
      rw [traceUntilEmpty_succ_cons]
      split
      · exact ih q h he
      · split
        · exact ih q h he
        · rw [ih _ _ (markStep_ephs h n _ he), markStep_mapBoxes h n _ he]

theorem strongPhase_mapBoxes : ∀ (ids : List Nat) (h : Heap) (dead : List Nat), h.ephs = [] →
    (strongPhase ids (h, dead)).1.mapBoxes = h.mapBoxes := by
  intro ids
  induction ids with
  | nil => intro h dead _; rfl
  | cons i ids ih =>
    intro h dead he
    rw [strongPhase_cons]
    cases hi : h.nodes[i]? with
    | none => simp only [hi]; exact ih h dead he
    | some n =>
      simp only [hi]
      split
      · have := ih (traceFrom h [i]) dead (by unfold traceFrom; exact traceUntilEmpty_ephs _ _ h he)
        rw [this]; unfold traceFrom; exact traceUntilEmpty_mapBoxes _ _ h he
      · split
        · exact ih _ _ he
        · exact ih _ _ he

theorem markHeap_noEph_aux (h : Heap) (he : h.ephs = []) :
    (markHeap h).1.ephs = [] ∧ (markHeap h).1.mapBoxes = h.mapBoxes := by
  have h1 := strongPhase_ephs (aliveIds h.nodes) h [] he
  have h2 := strongPhase_mapBoxes (aliveIds h.nodes) h [] he
  have hmk : markHeap h = ((strongPhase (aliveIds h.nodes) (h, [])).1,
      (strongPhase (aliveIds h.nodes) (h, [])).2.filter (fun i => !isMarked (strongPhase (aliveIds h.nodes) (h, [])).1 i), []) := by
    unfold markHeap
    simp only [h1, aliveEphIds, List.length_nil, List.range_zero, List.filter_nil, List.isEmpty_nil, ↓reduceIte]
  rw [hmk]; exact ⟨h1, h2⟩

theorem weakMapCleanup_noBoxes (h : Heap) (hb : h.mapBoxes = []) : weakMapCleanup h = h := by
  unfold weakMapCleanup; rw [hb]; rfl

def sweepNode (n : Node) : Node :=
  if !n.alive then n
  else if n.marked then { n with marked := false, nonRoot := 0 }
  else { n with alive := false, dropped := n.dropped + 1 }

theorem sweep_nodes_get (h : Heap) (i : Nat) : (sweep h).nodes[i]? = (h.nodes[i]?).map sweepNode := by
  unfold sweep sweepNode; simp

theorem sweepNode_dead (n : Node) (h : n.alive = false) : sweepNode n = n := by simp [sweepNode, h]
theorem sweepNode_marked (n : Node) (h : n.alive = true) (hm : n.marked = true) :
    sweepNode n = { n with marked := false, nonRoot := 0 } := by simp [sweepNode, h, hm]
theorem sweepNode_unmarked (n : Node) (h : n.alive = true) (hm : n.marked = false) :
    sweepNode n = { n with alive := false, dropped := n.dropped + 1 } := by simp [sweepNode, h, hm]
theorem sweepNode_edges (n : Node) : (sweepNode n).edges = n.edges ∧ (sweepNode n).ephHandles = n.ephHandles := by
  unfold sweepNode; split
  · exact ⟨rfl, rfl⟩
  · split <;> exact ⟨rfl, rfl⟩

/-- what one collection does to every node of a heap without ephemerons, in terms of the roots the
    collector computed (`g` = the heap after `trace_non_roots`) -/
theorem collect_noEph (h : Heap) (he : h.ephs = []) (hb : h.mapBoxes = []) (hnm : NoMarks h) :
    let g := traceNonRoots { h with collections := h.collections + 1 }
    let Roots := fun x => x ∈ aliveIds g.nodes ∧ rootedAt g x
    ∀ (i : Nat) (n : Node), h.nodes[i]? = some n →
      ∃ n' : Node, (collect h).nodes[i]? = some n' ∧ n'.edges = n.edges ∧ n'.ephHandles = n.ephHandles ∧
        (n.alive = false → n'.alive = false ∧ n'.dropped = n.dropped ∧ n'.finalized = n.finalized) ∧
        (n.alive = true → Reach g Roots i →
            n'.alive = true ∧ n'.dropped = n.dropped ∧ n'.finalized = n.finalized ∧ n'.marked = false ∧ n'.nonRoot = 0) ∧
        (n.alive = true → ¬ Reach g Roots i →
            n'.alive = false ∧ n'.dropped = n.dropped + 1 ∧ n'.finalized = n.finalized + 1) := by
  intro g Roots i n hn
  let h0 : Heap := { h with collections := h.collections + 1 }
  have he0 : h0.ephs = [] := he
  have rg : NodesRel PTnr h0 g := traceNonRoots_rel h0 he0
  have heg : g.ephs = [] := by rw [rg.2.1]; exact he0
  have hbg : g.mapBoxes = [] := by rw [rg.2.2.1]; exact hb
  -- g has no marks
  have hnmg : NoMarks g := by
    rintro j ⟨x, hx, hxm⟩
    have hlt : j < h0.nodes.length := by rw [← rg.1]; exact (List.getElem?_eq_some_iff.mp hx).1
    obtain ⟨y, hy⟩ : ∃ y, h0.nodes[j]? = some y := ⟨h0.nodes[j], by simp [hlt]⟩
    obtain ⟨x', hx', p⟩ := rg.2.2.2 j y hy
    rw [hx] at hx'; cases hx'
    exact hnm j ⟨y, hy, by rw [← p.2.2.1]; exact hxm⟩
  obtain ⟨s1, c1, m1, d1, w1⟩ := markHeap_noEph g heg hnmg.closed
  -- node i in g and in h1
  obtain ⟨ng, hng, pg⟩ := rg.2.2.2 i n hn
  obtain ⟨n1, hn1, e1, a1, rc1, nr1, eh1, f1, dr1, mk1⟩ := s1.2 i ng hng
  -- shape of collect
  have hcollect : collect h = weakMapCleanup (sweep (
      if (!(markHeap g).2.1.isEmpty || !(markHeap g).2.2.isEmpty) = true
      then (markHeap (finalize (markHeap g).1 (markHeap g).2.1 (markHeap g).2.2)).1 else (markHeap g).1)) := rfl
  obtain ⟨he1, hb1⟩ := markHeap_noEph_aux g heg
  rw [hbg] at hb1
  -- H2 : the heap that is swept
  have hH2 : ∃ H2 : Heap, collect h = weakMapCleanup (sweep H2) ∧ NodesRel PFin (markHeap g).1 H2 ∧
      finOf H2 i = finOf (markHeap g).1 i + (markHeap g).2.1.count i := by
    rw [hcollect]
    by_cases hd : (!(markHeap g).2.1.isEmpty || !(markHeap g).2.2.isEmpty) = true
    · rw [if_pos hd, w1]
      have rF := finalize_rel (markHeap g).1 he1 (markHeap g).2.1
      have heF : (finalize (markHeap g).1 (markHeap g).2.1 []).ephs = [] := by rw [rF.2.1]; exact he1
      have hno : (markHeap (finalize (markHeap g).1 (markHeap g).2.1 [])).1 = finalize (markHeap g).1 (markHeap g).2.1 [] := by
        apply markHeap_noop _ heF
        intro j hj nF hnF hrF
        have hltj : j < (markHeap g).1.nodes.length := by rw [← rF.1]; exact (List.getElem?_eq_some_iff.mp hnF).1
        obtain ⟨y, hy⟩ : ∃ y, (markHeap g).1.nodes[j]? = some y := ⟨(markHeap g).1.nodes[j], by simp [hltj]⟩
        obtain ⟨nF', hnF', p⟩ := rF.2.2.2 j y hy
        rw [hnF] at hnF'; cases hnF'
        obtain ⟨pa, prc, pnr, pmk, _⟩ := p
        have hry : y.rooted = true := by
          unfold Node.rooted at *
          simp only [decide_eq_true_eq] at hrF ⊢
          omega
        have halive : nF.alive = true := by
          obtain ⟨x, hx, hxa⟩ := (mem_aliveIds _ j).mp hj
          rw [hnF] at hx; cases hx; exact hxa
        -- j is a root of g, hence marked in h1
        have hltg : j < g.nodes.length := by rw [← s1.1]; exact hltj
        obtain ⟨z, hz⟩ : ∃ z, g.nodes[j]? = some z := ⟨g.nodes[j], by simp [hltg]⟩
        obtain ⟨y', hy', _, za, zrc, znr, _⟩ := s1.2 j z hz
        rw [hy] at hy'; cases hy'
        have hroot : Roots j := ⟨(mem_aliveIds _ j).mpr ⟨z, hz, by rw [← za, ← pa]; exact halive⟩,
          z, hz, by unfold Node.rooted at *; rw [← zrc, ← znr]; exact hry⟩
        have hM : M (markHeap g).1 j := (m1 j).mpr (Or.inr (.base hroot hltg))
        obtain ⟨y'', hy'', hym⟩ := hM
        rw [hy] at hy''; cases hy''
        rw [pmk]; exact hym
      rw [hno]
      exact ⟨_, rfl, rF, finalize_finOf _ he1 _ i (by rw [s1.1, rg.1]; exact (List.getElem?_eq_some_iff.mp hn).1)⟩
    · rw [if_neg hd]
      refine ⟨_, rfl, NodesRel.refl PFin.refl _, ?_⟩
      have : (markHeap g).2.1 = [] := by
        simp only [Bool.or_eq_true, Bool.not_eq_true', not_or, Bool.not_eq_false] at hd
        exact List.isEmpty_iff.mp hd.1
      rw [this]; simp
  obtain ⟨H2, hc2, r2, f2⟩ := hH2
  have hb2 : (sweep H2).mapBoxes = [] := by
    show H2.mapBoxes = []
    rw [r2.2.2.1]; exact hb1
  rw [hc2, weakMapCleanup_noBoxes _ hb2, sweep_nodes_get]
  obtain ⟨n2, hn2, pa2, _, pnr2, pmk2, pe2, peh2, _, pdr2⟩ := r2.2.2.2 i n1 hn1
  rw [hn2]
  have hfin2 : n2.finalized = n1.finalized + (markHeap g).2.1.count i := by
    unfold finOf at f2; rw [hn2, hn1] at f2; exact f2
  obtain ⟨ga, _, gmk, ge, geh, gf, gd⟩ := pg
  -- membership in the dead list
  have hdead_mem : ∀ j, j ∈ (markHeap g).2.1 → j ∈ aliveIds g.nodes ∧ isMarked (markHeap g).1 j = false := by
    intro j hj
    rw [d1] at hj
    have := List.mem_filter.mp hj
    simp only [Bool.and_eq_true, Bool.not_eq_true'] at this
    exact ⟨this.1, this.2.2⟩
  have hcount_le : (markHeap g).2.1.count i = if i ∈ (markHeap g).2.1 then 1 else 0 := by
    apply List.Nodup.count
    rw [d1]; exact List.Nodup.sublist List.filter_sublist (aliveIds_nodup _)
  simp only [Option.map_some, Option.some.injEq, exists_eq_left']
  have halive_chain : n2.alive = n.alive := by rw [pa2, a1, ga]
  refine ⟨?_, ?_, ?_, ?_, ?_⟩
  · rw [(sweepNode_edges n2).1, pe2, e1, ge]
  · rw [(sweepNode_edges n2).2, peh2, eh1, geh]
  · intro hna
    have hn2a : n2.alive = false := by rw [halive_chain]; exact hna
    rw [sweepNode_dead n2 hn2a]
    have hnot : i ∉ (markHeap g).2.1 := by
      intro hmem
      obtain ⟨hal, _⟩ := hdead_mem i hmem
      obtain ⟨x, hx, hxa⟩ := (mem_aliveIds _ i).mp hal
      rw [hng] at hx; cases hx
      rw [ga, hna] at hxa; cases hxa
    rw [hcount_le, if_neg hnot] at hfin2
    exact ⟨hn2a, by rw [pdr2, dr1, gd], by rw [hfin2, f1, gf]; rfl⟩
  · intro hna hreach
    have hn2a : n2.alive = true := by rw [halive_chain]; exact hna
    have hM : M (markHeap g).1 i := (m1 i).mpr (Or.inr hreach)
    obtain ⟨x, hx, hxm⟩ := hM
    rw [hn1] at hx; cases hx
    have hn2m : n2.marked = true := by rw [pmk2]; exact hxm
    rw [sweepNode_marked n2 hn2a hn2m]
    have hnot : i ∉ (markHeap g).2.1 := by
      intro hmem
      obtain ⟨_, hum⟩ := hdead_mem i hmem
      simp only [isMarked, hn1, hxm] at hum
      cases hum
    rw [hcount_le, if_neg hnot] at hfin2
    exact ⟨hn2a, by show n2.dropped = n.dropped; rw [pdr2, dr1, gd],
      by show n2.finalized = n.finalized; rw [hfin2, f1, gf]; rfl, rfl, rfl⟩
  · intro hna hnreach
    have hn2a : n2.alive = true := by rw [halive_chain]; exact hna
    have hnM : ¬ M (markHeap g).1 i := by
      intro hM
      rcases (m1 i).mp hM with hh | hh
      · exact hnmg i hh
      · exact hnreach hh
    have hn1m : n1.marked = false := by
      cases hmk : n1.marked with
      | false => rfl
      | true => exact absurd ⟨n1, hn1, hmk⟩ hnM
    have hn2m : n2.marked = false := by rw [pmk2]; exact hn1m
    rw [sweepNode_unmarked n2 hn2a hn2m]
    have hltg : i < g.nodes.length := (List.getElem?_eq_some_iff.mp hng).1
    have hmem : i ∈ (markHeap g).2.1 := by
      rw [d1]
      apply List.mem_filter.mpr
      refine ⟨(mem_aliveIds _ i).mpr ⟨ng, hng, by rw [ga]; exact hna⟩, ?_⟩
      simp only [Bool.and_eq_true, Bool.not_eq_true']
      constructor
      · simp only [unrootedB, hng]
        cases hr : ng.rooted with
        | false => rfl
        | true =>
          exfalso
          exact hnreach (.base ⟨(mem_aliveIds _ i).mpr ⟨ng, hng, by rw [ga]; exact hna⟩, ng, hng, hr⟩ hltg)
      · simp only [isMarked, hn1]; exact hn1m
    rw [hcount_le, if_pos hmem] at hfin2
    exact ⟨rfl, by show n2.dropped + 1 = n.dropped + 1; rw [pdr2, dr1, gd],
      by show n2.finalized = n.finalized + 1; rw [hfin2, f1, gf]⟩

end BoaVerif.C09
