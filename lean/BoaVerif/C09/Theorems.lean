/- C09 — the collector frees exactly the unreachable objects, exactly once.
   Property theorems only (proofs in Lemmas*.lean). The model (Model.lean) follows
   `Collector::collect` step by step; finalizers create no handles (`NoResurrect`, see DESIGN.md
   for the recorded resurrection finding).  Proved here for heaps without ephemerons — the early-return
   path of `mark_heap`; the ephemeron fix-point is covered by the executable model and the
   correspondence run only, and the full statement is kept below as `C09_full`. -/
import BoaVerif.C09.Lemmas7
namespace BoaVerif.C09

/-- worklist marking (`Tracer::trace_until_empty`) computes reachability, for every heap and every queue -/
theorem mark_is_reachability (h0 : Heap) (q0 : List Nat) (fuel : Nat) (hc : Closed h0)
    (hdone : (traceUntilEmpty fuel q0 h0).2 = []) :
    SameGraph h0 (traceUntilEmpty fuel q0 h0).1 ∧
    (∀ i, M (traceUntilEmpty fuel q0 h0).1 i ↔ (M h0 i ∨ Reach h0 (· ∈ q0) i)) ∧
    Closed (traceUntilEmpty fuel q0 h0).1 :=
  trace_complete h0 q0 fuel hc hdone

/-- the loop always runs to completion: the fuel bound is never the reason it stops -/
theorem trace_terminates (fuel : Nat) (q : List Nat) (h : Heap) (hf : q.length + unmarkedWeight h ≤ fuel) :
    (traceUntilEmpty fuel q h).2 = [] :=
  trace_fuel fuel q h hf

/-- `mark_heap` (no ephemerons): marked = reachable from the rooted live nodes; the list handed to the
    finalizers is exactly the live unrooted unmarked nodes -/
theorem mark_heap_is_reachability (h : Heap) (he : h.ephs = []) (hc : Closed h) :
    SameGraph h (markHeap h).1 ∧ Closed (markHeap h).1 ∧
    (∀ j, M (markHeap h).1 j ↔ (M h j ∨ Reach h (fun x => x ∈ aliveIds h.nodes ∧ rootedAt h x) j)) ∧
    (markHeap h).2.1 = (aliveIds h.nodes).filter (fun i => unrootedB h i && !isMarked (markHeap h).1 i) ∧
    (markHeap h).2.2 = [] :=
  markHeap_noEph h he hc

/-- `trace_non_roots` + the reference-count invariant: the collector's roots are exactly the nodes the
    mutator holds a handle to -/
theorem roots_are_external_handles (h : Heap) (he : h.ephs = []) (hrc : RC h) (i : Nat) (n : Node)
    (hn : h.nodes[i]? = some n) (ha : n.alive = true) :
    rootedAt (traceNonRoots { h with collections := h.collections + 1 }) i ↔ 0 < h.ext.count i :=
  roots_exact h he hrc i n hn ha

/-- nodes reachable from an external handle -/
def ExtReach (h : Heap) (i : Nat) : Prop := Reach h (fun x => x ∈ aliveIds h.nodes ∧ 0 < h.ext.count x) i

theorem extReach_iff (h : Heap) (he : h.ephs = []) (hrc : RC h) (i : Nat) :
    ExtReach h i ↔ Reach (traceNonRoots { h with collections := h.collections + 1 })
      (fun x => x ∈ aliveIds (traceNonRoots { h with collections := h.collections + 1 }).nodes ∧
                rootedAt (traceNonRoots { h with collections := h.collections + 1 }) x) i := by
  have rg := traceNonRoots_rel { h with collections := h.collections + 1 } he
  have hlen : (traceNonRoots { h with collections := h.collections + 1 }).nodes.length = h.nodes.length := rg.1
  have hedges : ∀ j, edgesOf (traceNonRoots { h with collections := h.collections + 1 }) j = edgesOf h j := by
    intro j
    unfold edgesOf
    cases hj : h.nodes[j]? with
    | none =>
      have : (traceNonRoots { h with collections := h.collections + 1 }).nodes[j]? = none := by
        rw [List.getElem?_eq_none_iff] at hj ⊢; rw [hlen]; exact hj
      rw [this]
    | some n =>
      obtain ⟨n', hn', p⟩ := rg.2.2.2 j n hj
      rw [hn']; exact p.2.2.2.1
  have halive : ∀ x, x ∈ aliveIds (traceNonRoots { h with collections := h.collections + 1 }).nodes ↔ x ∈ aliveIds h.nodes := by
    intro x
    rw [mem_aliveIds, mem_aliveIds]
    constructor
    · rintro ⟨n', hn', ha'⟩
      have hlt : x < h.nodes.length := by rw [← hlen]; exact (List.getElem?_eq_some_iff.mp hn').1
      obtain ⟨n, hn⟩ : ∃ n, h.nodes[x]? = some n := ⟨h.nodes[x], by simp [hlt]⟩
      obtain ⟨n'', hn'', p⟩ := rg.2.2.2 x n hn
      rw [hn'] at hn''; cases hn''
      exact ⟨n, hn, by rw [← p.1]; exact ha'⟩
    · rintro ⟨n, hn, ha⟩
      obtain ⟨n', hn', p⟩ := rg.2.2.2 x n hn
      exact ⟨n', hn', by rw [p.1]; exact ha⟩
  have hroots : ∀ x, (x ∈ aliveIds (traceNonRoots { h with collections := h.collections + 1 }).nodes ∧
      rootedAt (traceNonRoots { h with collections := h.collections + 1 }) x) ↔ (x ∈ aliveIds h.nodes ∧ 0 < h.ext.count x) := by
    intro x
    constructor
    · rintro ⟨hx, hr⟩
      have hx' := (halive x).mp hx
      obtain ⟨n, hn, ha⟩ := (mem_aliveIds _ x).mp hx'
      exact ⟨hx', (roots_exact h he hrc x n hn ha).mp hr⟩
    · rintro ⟨hx, hp⟩
      obtain ⟨n, hn, ha⟩ := (mem_aliveIds _ x).mp hx
      exact ⟨(halive x).mpr hx, (roots_exact h he hrc x n hn ha).mpr hp⟩
  unfold ExtReach
  constructor
  · intro r
    exact (r.mono (fun x hx => (hroots x).mpr hx)).transfer hlen hedges
  · intro r
    exact (r.mono (fun x hx => (hroots x).mp hx)).transfer hlen.symm (fun j => (hedges j).symm)

/-- SAFETY: a node reachable from a live handle is neither finalized nor freed by a collection -/
theorem safety (h : Heap) (he : h.ephs = []) (hb : h.mapBoxes = []) (hnm : NoMarks h) (hrc : RC h)
    (i : Nat) (n : Node) (hn : h.nodes[i]? = some n) (ha : n.alive = true) (hr : ExtReach h i) :
    ∃ n' : Node, (collect h).nodes[i]? = some n' ∧ n'.alive = true ∧ n'.dropped = n.dropped ∧
      n'.finalized = n.finalized ∧ n'.edges = n.edges ∧ n'.marked = false ∧ n'.nonRoot = 0 := by
  obtain ⟨n', hn', e, _, _, hlive, _⟩ := collect_noEph h he hb hnm i n hn
  obtain ⟨a, d, f, m, z⟩ := hlive ha ((extReach_iff h he hrc i).mp hr)
  exact ⟨n', hn', a, d, f, e, m, z⟩

/-- COMPLETENESS, EXACTLY ONCE: a live node that is unreachable at a collection is finalized once and
    freed once by that collection; nodes freed earlier are not touched again -/
theorem completeness (h : Heap) (he : h.ephs = []) (hb : h.mapBoxes = []) (hnm : NoMarks h) (hrc : RC h)
    (i : Nat) (n : Node) (hn : h.nodes[i]? = some n) :
    ∃ n' : Node, (collect h).nodes[i]? = some n' ∧
      (n.alive = true → ¬ ExtReach h i → n'.alive = false ∧ n'.dropped = n.dropped + 1 ∧ n'.finalized = n.finalized + 1) ∧
      (n.alive = false → n'.alive = false ∧ n'.dropped = n.dropped ∧ n'.finalized = n.finalized) := by
  obtain ⟨n', hn', _, _, hdead, _, hfree⟩ := collect_noEph h he hb hnm i n hn
  exact ⟨n', hn', fun ha hnr => hfree ha (fun r => hnr ((extReach_iff h he hrc i).mpr r)), hdead⟩

/-- The statement at full strength (all histories, ephemerons, weak maps), not proved:
    after every history the set of live payloads is exactly the set reachable under the ephemeron rule. -/
def C09_full : Prop :=
  ∀ ops : List Op, ∀ (i : Nat) (n : Node), (run (ops ++ [Op.collect])).nodes[i]? = some n →
    (n.alive = true ↔ ExtReach (run (ops ++ [Op.collect])) i) ∧ n.dropped ≤ 1 ∧ n.finalized ≤ 1

/-! ### non-vacuity: a concrete heap with a cycle, a chain and garbage meets every hypothesis -/

def rcB (h : Heap) : Bool :=
  (List.range h.nodes.length).all (fun i => match h.nodes[i]? with
    | some n => !n.alive || (n.refCount == h.ext.count i + (heapTargets h).count i && n.nonRoot == 0)
    | none => true)

theorem rcB_sound (h : Heap) (hb : rcB h = true) : RC h := by
  intro i n hn ha
  unfold rcB at hb
  have := List.all_eq_true.mp hb i (List.mem_range.mpr (List.getElem?_eq_some_iff.mp hn).1)
  rw [hn] at this
  simp [ha] at this
  exact this

def noMarksB (h : Heap) : Bool := h.nodes.all (fun n => !n.marked)

theorem noMarksB_sound (h : Heap) (hb : noMarksB h = true) : NoMarks h := by
  rintro i ⟨n, hn, hm⟩
  have := List.all_eq_true.mp hb n (List.mem_of_getElem? hn)
  rw [hm] at this; cases this

/-- 0 ⇄ 1 is a cycle kept by a handle to 0; 2 → 3 is garbage; 4 has a self loop and is garbage -/
def exampleHeap : Heap :=
  run [.alloc, .alloc, .link 0 1, .link 1 0, .drop 1, .alloc, .alloc, .link 2 3, .drop 2, .drop 3, .alloc, .link 4 4, .drop 4]

example : exampleHeap.ephs = [] ∧ exampleHeap.mapBoxes = [] ∧ rcB exampleHeap = true ∧ noMarksB exampleHeap = true := by decide
example : ((collect exampleHeap).nodes.map (fun n => (n.alive, n.finalized, n.dropped)))
    = [(true, 0, 0), (true, 0, 0), (false, 1, 1), (false, 1, 1), (false, 1, 1)] := by decide
example : rcB (collect exampleHeap) = true := by decide

end BoaVerif.C09
