/-
  C09 model of boa_gc (core/gc/src/lib.rs, internals/*, pointers/*): nodes (GcBox) with a
  reference count, a non-root count and a mark bit; ephemeron boxes; weak-map boxes; the
  collector exactly as `Collector::collect` runs it:
    trace_non_roots → mark_heap → finalize → mark_heap → sweep → weak-map cleanup.
  Ids are allocation indices into `nodes` / `ephs` (freed boxes stay as tombstones with
  `alive := false`, which preserves the order of `gc.strongs` / `gc.weaks`).  Import-free.
-/
namespace BoaVerif.C09

structure Node where
  alive : Bool := true
  refCount : Nat := 1
  nonRoot : Nat := 0
  marked : Bool := false
  edges : List Nat := []       -- `Gc` handles stored inside the value
  ephHandles : List Nat := []  -- `Ephemeron`/`WeakGc` handles stored inside the value
  finalized : Nat := 0         -- how many times the finalizer ran (observable)
  dropped : Nat := 0           -- how many times the value was dropped (observable)
  deriving Repr, DecidableEq

structure Eph where
  alive : Bool := true
  refCount : Nat := 1
  nonRoot : Nat := 0
  marked : Bool := false
  data : Option (Nat × List Nat) := none   -- (key pointer, `Gc` handles inside the value)
  deriving Repr, DecidableEq

structure Heap where
  nodes : List Node := []
  ephs : List Eph := []
  ext : List Nat := []        -- external `Gc` handles (a multiset of node ids)
  extE : List Nat := []       -- external ephemeron / weak handles
  mapBoxes : List (Nat × Nat) := []  -- WeakMapBox: (its WeakGc's ephemeron id, the map node id)
  collections : Nat := 0
  deriving Repr, DecidableEq

def modNode (h : Heap) (i : Nat) (f : Node → Node) : Heap :=
  match h.nodes[i]? with
  | some n => { h with nodes := h.nodes.set i (f n) }
  | none => h

def modEph (h : Heap) (i : Nat) (f : Eph → Eph) : Heap :=
  match h.ephs[i]? with
  | some e => { h with ephs := h.ephs.set i (f e) }
  | none => h

/-- `GcHeader::inc_non_root_count` (saturating at ref_count) -/
def incNonRoot (n : Node) : Node := if n.nonRoot < n.refCount then { n with nonRoot := n.nonRoot + 1 } else n
def incNonRootE (e : Eph) : Eph := if e.nonRoot < e.refCount then { e with nonRoot := e.nonRoot + 1 } else e

def Node.rooted (n : Node) : Bool := n.nonRoot < n.refCount
def Eph.rooted (e : Eph) : Bool := e.nonRoot < e.refCount

/-- `Collector::trace_non_roots` -/
def traceNonRoots (h : Heap) : Heap :=
  let h1 := h.nodes.foldl (fun acc n =>
    if n.alive then
      let acc := n.edges.foldl (fun a t => modNode a t incNonRoot) acc
      n.ephHandles.foldl (fun a t => modEph a t incNonRootE) acc
    else acc) h
  h.ephs.foldl (fun acc e =>
    if e.alive then
      match e.data with
      | some (_, vs) => vs.foldl (fun a t => modNode a t incNonRoot) acc
      | none => acc
    else acc) h1

def isMarked (h : Heap) (i : Nat) : Bool := match h.nodes[i]? with | some n => n.marked | none => true
def isMarkedE (h : Heap) (i : Nat) : Bool := match h.ephs[i]? with | some e => e.marked | none => true

/-- `Tracer::trace_until_empty`: pop front; skip if marked; else mark, run the node's trace_fn
    (enqueue its `Gc` fields, mark the boxes of its `Ephemeron` fields). Returns the leftover queue. -/
def traceUntilEmpty : Nat → List Nat → Heap → Heap × List Nat
  | 0, q, h => (h, q)
  | _ + 1, [], h => (h, [])
  | fuel + 1, n :: q, h =>
    if isMarked h n then traceUntilEmpty fuel q h
    else
      match h.nodes[n]? with
      | none => traceUntilEmpty fuel q h
      | some nd =>
        let h := modNode h n (fun x => { x with marked := true })
        let h := nd.ephHandles.foldl (fun a t => modEph a t (fun e => { e with marked := true })) h
        traceUntilEmpty fuel (q ++ nd.edges) h

def traceFuel (h : Heap) : Nat :=
  (h.nodes.foldl (fun acc n => acc + n.edges.length + 1) 0) +
  (h.ephs.foldl (fun acc e => acc + (match e.data with | some (_, vs) => vs.length | none => 0) + 1) 0) + 2

def traceFrom (h : Heap) (q : List Nat) : Heap := (traceUntilEmpty (traceFuel h) q h).1

/-- `ErasedEphemeronBox::trace`: returns (heap, is_key_marked-or-done) -/
def ephTrace (h : Heap) (i : Nat) : Heap × Bool :=
  match h.ephs[i]? with
  | none => (h, true)
  | some e =>
    if !e.marked then (h, false)
    else match e.data with
      | none => (h, true)
      | some (k, vs) =>
        if isMarked h k then (traceFrom h vs, true) else (h, false)

def aliveIds (l : List Node) : List Nat :=
  (List.range l.length).filter (fun i => match l[i]? with | some n => n.alive | none => false)
def aliveEphIds (l : List Eph) : List Nat :=
  (List.range l.length).filter (fun i => match l[i]? with | some e => e.alive | none => false)

/-- step 3 of mark_heap: retry pending ephemerons until the list stops shrinking -/
def pendingLoop : Nat → Heap → List Nat → Heap × List Nat
  | 0, h, p => (h, p)
  | fuel + 1, h, p =>
    let (h', p') := p.foldl (fun (acc : Heap × List Nat) e =>
      let (hh, ok) := ephTrace acc.1 e
      (hh, if ok then acc.2 else acc.2 ++ [e])) (h, [])
    if p'.length == p.length then (h', p') else pendingLoop fuel h' p'

/-- step 0 of mark_heap: rooted nodes are traced; unrooted and not yet marked ones are candidates -/
def strongPhase (ids : List Nat) (acc : Heap × List Nat) : Heap × List Nat :=
  ids.foldl (fun (acc : Heap × List Nat) i =>
    match acc.1.nodes[i]? with
    | none => acc
    | some n =>
      if n.rooted then (traceFrom acc.1 [i], acc.2)
      else if !n.marked then (acc.1, acc.2 ++ [i]) else acc) acc

/-- `Collector::mark_heap`: returns the heap with marks and (strong unreachables, weak unreachables) -/
def markHeap (h : Heap) : Heap × List Nat × List Nat :=
  let (h, dead) := strongPhase (aliveIds h.nodes) (h, [])
  let weaks := aliveEphIds h.ephs
  if weaks.isEmpty then
    (h, dead.filter (fun i => !isMarked h i), [])
  else
    -- 1. rooted ephemerons are marked; every ephemeron is traced once
    let (h, pending) := weaks.foldl (fun (acc : Heap × List Nat) i =>
      let h0 := match acc.1.ephs[i]? with
        | some e => if e.rooted then modEph acc.1 i (fun x => { x with marked := true }) else acc.1
        | none => acc.1
      let (h1, ok) := ephTrace h0 i
      (h1, if ok then acc.2 else acc.2 ++ [i])) (h, [])
    -- 2. weak-map boxes: a live map's own weak pointer is traced (marks its ephemeron box)
    let h := h.mapBoxes.foldl (fun a (w, _) =>
      match a.ephs[w]? with
      | some e => if e.data.isSome then modEph a w (fun x => { x with marked := true }) else a
      | none => a) h
    -- 3. fix-point over the pending ephemerons
    let (h, pending) := pendingLoop (pending.length + 1) h pending
    -- 4.
    (h, dead.filter (fun i => !isMarked h i), pending)

def decRef (n : Node) : Node := { n with refCount := n.refCount - 1 }
def decRefE (e : Eph) : Eph := { e with refCount := e.refCount - 1 }

/-- `Collector::finalize` with finalizers that create no handles (`NoResurrect`):
    run_finalizer on a node = its Finalize::finalize, then `dec_ref_count` for every handle stored in it;
    `finalize_and_clear` on an ephemeron drops its data (the value's handles are dropped, i.e. decremented) -/
def finalize (h : Heap) (deadS deadW : List Nat) : Heap :=
  let h := deadS.foldl (fun a i =>
    match a.nodes[i]? with
    | none => a
    | some n =>
      let a := modNode a i (fun x => { x with finalized := x.finalized + 1 })
      let a := n.edges.foldl (fun b t => modNode b t decRef) a
      n.ephHandles.foldl (fun b t => modEph b t decRefE) a) h
  deadW.foldl (fun a i =>
    match a.ephs[i]? with
    | none => a
    | some e =>
      let a := modEph a i (fun x => { x with data := none })
      match e.data with
      | some (_, vs) => vs.foldl (fun b t => modNode b t decRef) a
      | none => a) h

/-- `Collector::sweep` -/
def sweep (h : Heap) : Heap :=
  { h with
    nodes := h.nodes.map (fun n =>
      if !n.alive then n
      else if n.marked then { n with marked := false, nonRoot := 0 }
      else { n with alive := false, dropped := n.dropped + 1 }),
    ephs := h.ephs.map (fun e =>
      if !e.alive then e
      else if e.marked then { e with marked := false, nonRoot := 0 }
      else { e with alive := false }) }

def ephHasValue (h : Heap) (i : Nat) : Bool :=
  match h.ephs[i]? with | some e => e.data.isSome | none => false

/-- after the sweep: live weak maps drop their expired entries, dead weak-map boxes are freed -/
def weakMapCleanup (h : Heap) : Heap :=
  h.mapBoxes.foldl (fun a (w, m) =>
    if ephHasValue a w then
      match a.nodes[m]? with
      | none => a
      | some mn =>
        let expired := mn.ephHandles.filter (fun e => !ephHasValue a e)
        let a := modNode a m (fun x => { x with ephHandles := x.ephHandles.filter (fun e => ephHasValue a e) })
        expired.foldl (fun b e => modEph b e decRefE) a
    else
      let a := modEph a w decRefE
      { a with extE := a.extE.erase w, mapBoxes := a.mapBoxes.filter (fun p => p.1 != w) }) h

/-- `Collector::collect` -/
def collect (h : Heap) : Heap :=
  let h := { h with collections := h.collections + 1 }
  let h := traceNonRoots h
  let (h, deadS, deadW) := markHeap h
  let h := if !deadS.isEmpty || !deadW.isEmpty then
      let h := finalize h deadS deadW
      (markHeap h).1
    else h
  let h := sweep h
  weakMapCleanup h

/-! ### mutator operations -/

/-- `Gc::new`: new box with one (external) handle -/
def alloc (h : Heap) : Heap × Nat :=
  ({ h with nodes := h.nodes ++ [{}], ext := h.ext ++ [h.nodes.length] }, h.nodes.length)

/-- is `n` a live node for which the mutator holds at least one external handle -/
def holds (h : Heap) (n : Nat) : Bool := h.ext.contains n
def holdsE (h : Heap) (e : Nat) : Bool := h.extE.contains e

inductive Op
  | alloc
  | clone (n : Nat)            -- clone an external handle
  | drop (n : Nat)             -- drop an external handle
  | link (a b : Nat)           -- store a clone of a handle to b inside a
  | unlink (a b : Nat)         -- remove (and drop) one handle to b stored inside a
  | ephNew (k : Nat) (v : Option Nat)   -- Ephemeron::new(&k, value holding a handle to v) / WeakGc::new(&k) when v = none
  | ephClone (e : Nat)
  | ephDrop (e : Nat)
  | ephStore (a e : Nat)       -- store a clone of an ephemeron handle inside node a
  | ephUnstore (a e : Nat)
  | collect
  | collectBorrowed (a : Nat)   -- a collection that runs while node a's `GcRefCell` of edges is mutably borrowed
  deriving Repr, DecidableEq

/-- one mutator step; operations whose precondition does not hold (no such handle) are no-ops
    — the harness only emits executable operations and both sides skip the others identically -/
def step (h : Heap) : Op → Heap
  | .alloc => (alloc h).1
  | .clone n => if holds h n then { modNode h n (fun x => { x with refCount := x.refCount + 1 }) with ext := h.ext ++ [n] } else h
  | .drop n => if holds h n then { modNode h n decRef with ext := h.ext.erase n } else h
  | .link a b =>
    if holds h a && holds h b then
      modNode (modNode h b (fun x => { x with refCount := x.refCount + 1 })) a (fun x => { x with edges := x.edges ++ [b] })
    else h
  | .unlink a b =>
    match h.nodes[a]? with
    | some na => if holds h a && na.edges.contains b then
        modNode (modNode h a (fun x => { x with edges := x.edges.erase b })) b decRef
      else h
    | none => h
  | .ephNew k v =>
    if holds h k && (match v with | some x => holds h x | none => true) then
      let id := h.ephs.length
      let vs := match v with | some x => [x] | none => []
      let h := match v with | some x => modNode h x (fun n => { n with refCount := n.refCount + 1 }) | none => h
      { h with ephs := h.ephs ++ [{ data := some (k, vs) }], extE := h.extE ++ [id] }
    else h
  | .ephClone e => if holdsE h e then { modEph h e (fun x => { x with refCount := x.refCount + 1 }) with extE := h.extE ++ [e] } else h
  | .ephDrop e => if holdsE h e then { modEph h e decRefE with extE := h.extE.erase e } else h
  | .ephStore a e =>
    if holds h a && holdsE h e then
      modNode (modEph h e (fun x => { x with refCount := x.refCount + 1 })) a (fun x => { x with ephHandles := x.ephHandles ++ [e] })
    else h
  | .ephUnstore a e =>
    match h.nodes[a]? with
    | some na => if holds h a && na.ephHandles.contains e then
        modEph (modNode h a (fun x => { x with ephHandles := x.ephHandles.erase e })) e decRefE
      else h
    | none => h
  | .collect => collect h
  | .collectBorrowed a =>
    -- `GcRefCell::trace` / `trace_non_roots` skip a cell that is mutably borrowed: its handles are neither
    -- counted as non-roots nor traced, so their targets stay rooted — as if the mutator held them
    match h.nodes[a]? with
    | some na =>
      if holds h a then
        let h1 := { modNode h a (fun x => { x with edges := [] }) with ext := h.ext ++ na.edges }
        let h2 := collect h1
        { modNode h2 a (fun x => { x with edges := na.edges }) with ext := na.edges.foldl (fun l t => l.erase t) h2.ext }
      else h
    | none => h

def run (ops : List Op) : Heap := ops.foldl step {}

end BoaVerif.C09
