import BoaVerif.C09.Lemmas3
namespace BoaVerif.C09

def unrootedB (h : Heap) (i : Nat) : Bool := match h.nodes[i]? with | some n => !n.rooted | none => false

theorem SameGraph.unrootedB {h h' : Heap} (s : SameGraph h h') (i : Nat) : unrootedB h' i = unrootedB h i := by
  unfold BoaVerif.C09.unrootedB
  cases hi : h.nodes[i]? with
  | none =>
    have : h'.nodes[i]? = none := by rw [List.getElem?_eq_none_iff] at hi ⊢; rw [s.1]; exact hi
    rw [this]
  | some n =>
    obtain ⟨n', hn', _, _, e3, e4, _⟩ := s.2 i n hi
    rw [hn']; simp only [Node.rooted, e3, e4]

theorem SameGraph.isMarked_mono {h h' : Heap} (s : SameGraph h h') (i : Nat) (hm : isMarked h i = true) :
    isMarked h' i = true := by
  unfold isMarked at *
  cases hi : h.nodes[i]? with
  | none =>
    have : h'.nodes[i]? = none := by rw [List.getElem?_eq_none_iff] at hi ⊢; rw [s.1]; exact hi
    rw [this]
  | some n =>
    rw [hi] at hm
    obtain ⟨n', hn', _, _, _, _, _, _, _, hk⟩ := s.2 i n hi
    rw [hn']; exact hk hm

/-- the candidate list of step 0, after the final `retain(!is_marked)` against any later heap `hF` -/
theorem strongPhase_dead : ∀ (ids : List Nat) (h : Heap) (dead : List Nat) (hF : Heap), Closed h →
    SameGraph (strongPhase ids (h, dead)).1 hF →
    (strongPhase ids (h, dead)).2.filter (fun i => !isMarked hF i)
      = dead.filter (fun i => !isMarked hF i) ++ ids.filter (fun i => unrootedB h i && !isMarked hF i) := by
  intro ids
  induction ids with
  | nil => intro h dead hF _ _; simp [strongPhase]
  | cons i ids ih =>
    intro h dead hF hc hs
    rw [strongPhase_cons] at hs ⊢
    cases hi : h.nodes[i]? with
    | none =>
      simp only [hi] at hs ⊢
      rw [ih h dead hF hc hs]
      have : unrootedB h i = false := by unfold unrootedB; rw [hi]
      simp [List.filter_cons, this]
    | some n =>
      simp only [hi] at hs ⊢
      by_cases hr : n.rooted = true
      · simp only [hr, ↓reduceIte] at hs ⊢
        obtain ⟨s1, _, c1⟩ := traceFrom_single h i hc
        rw [ih (traceFrom h [i]) dead hF c1 hs]
        have hu : unrootedB h i = false := by unfold unrootedB; rw [hi]; simp [hr]
        have : ∀ x, unrootedB (traceFrom h [i]) x = unrootedB h x := s1.unrootedB
        simp [List.filter_cons, hu, this]
      · have hr' : n.rooted = false := by simpa using hr
        have hu : unrootedB h i = true := by unfold unrootedB; rw [hi]; simp [hr']
        simp only [hr', Bool.false_eq_true, ↓reduceIte] at hs ⊢
        by_cases hm : n.marked = true
        · simp only [hm, Bool.not_true, Bool.false_eq_true, ↓reduceIte] at hs ⊢
          rw [ih h dead hF hc hs]
          obtain ⟨s0, _, _⟩ := strongPhase_marks ids h dead hc
          have : isMarked hF i = true := (s0.trans hs).isMarked_mono i (by unfold isMarked; rw [hi]; exact hm)
          simp [List.filter_cons, hu, this]
        · have hm' : n.marked = false := by simpa using hm
          simp only [hm', Bool.not_false, ↓reduceIte] at hs ⊢
          rw [ih h (dead ++ [i]) hF hc hs]
          simp [List.filter_cons, List.filter_append, hu]
          split <;> simp

/-- nothing is marked -/
def NoMarks (h : Heap) : Prop := ∀ i, ¬ M h i

theorem NoMarks.closed {h : Heap} (hn : NoMarks h) : Closed h := fun i hm => absurd hm (hn i)

/-! ### heaps without ephemerons stay without ephemerons while marking -/

theorem modEph_noEph (h : Heap) (he : h.ephs = []) (i : Nat) (f : Eph → Eph) : modEph h i f = h := by
  unfold modEph; rw [he]; rfl

theorem foldl_modEph_noEph (l : List Nat) (f : Eph → Eph) (h : Heap) (he : h.ephs = []) :
    l.foldl (fun a t => modEph a t f) h = h := by
  induction l with
  | nil => rfl
  | cons x xs ih => simp only [List.foldl_cons]; rw [modEph_noEph h he]; exact ih

theorem markStep_ephs (h : Heap) (n : Nat) (nd : Node) (he : h.ephs = []) : (markStep h n nd).ephs = [] := by
  unfold markStep
  rw [foldl_modEph_noEph _ _ _ (by rw [modNode_ephs]; exact he), modNode_ephs]; exact he

theorem traceUntilEmpty_ephs : ∀ (fuel : Nat) (q : List Nat) (h : Heap), h.ephs = [] →
    (traceUntilEmpty fuel q h).1.ephs = [] := by
  intro fuel
  induction fuel with
  | zero => intro q h he; exact he
  | succ fuel ih =>
    intro q h he
    cases q with
    | nil => exact he
    | cons n q =>
      rw [traceUntilEmpty_succ_cons]
      split
      · exact ih q h he
      · split
        · exact ih q h he
        · exact ih _ _ (markStep_ephs h n _ he)

theorem strongPhase_ephs : ∀ (ids : List Nat) (h : Heap) (dead : List Nat), h.ephs = [] →
    (strongPhase ids (h, dead)).1.ephs = [] := by
  intro ids
  induction ids with
  | nil => intro h dead he; exact he
  | cons i ids ih =>
    intro h dead he
    rw [strongPhase_cons]
    cases hi : h.nodes[i]? with
    | none => simp only [hi]; exact ih h dead he
    | some n =>
      simp only [hi]
      split
      · exact ih _ _ (traceUntilEmpty_ephs _ _ h he)
      · split
        · exact ih _ _ he
        · exact ih _ _ he

/-- `mark_heap` on a heap without ephemerons (the early-return path) -/
theorem markHeap_noEph (h : Heap) (he : h.ephs = []) (hc : Closed h) :
    SameGraph h (markHeap h).1 ∧ Closed (markHeap h).1 ∧
    (∀ j, M (markHeap h).1 j ↔ (M h j ∨ Reach h (fun x => x ∈ aliveIds h.nodes ∧ rootedAt h x) j)) ∧
    (markHeap h).2.1 = (aliveIds h.nodes).filter (fun i => unrootedB h i && !isMarked (markHeap h).1 i) ∧
    (markHeap h).2.2 = [] := by
  obtain ⟨s, c, m⟩ := strongPhase_marks (aliveIds h.nodes) h [] hc
  have hephs := strongPhase_ephs (aliveIds h.nodes) h [] he
  have hd := strongPhase_dead (aliveIds h.nodes) h [] (strongPhase (aliveIds h.nodes) (h, [])).1 hc (SameGraph.refl _)
  have hmk : markHeap h = ((strongPhase (aliveIds h.nodes) (h, [])).1,
      (strongPhase (aliveIds h.nodes) (h, [])).2.filter (fun i => !isMarked (strongPhase (aliveIds h.nodes) (h, [])).1 i), []) := by
    unfold markHeap
    simp only [hephs, aliveEphIds, List.length_nil, List.range_zero, List.filter_nil, List.isEmpty_nil, ↓reduceIte]
  rw [hmk]
  refine ⟨s, c, m, ?_, rfl⟩
  simp only
  rw [hd]; simp

end BoaVerif.C09
