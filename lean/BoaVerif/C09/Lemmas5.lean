import BoaVerif.C09.Lemmas4
namespace BoaVerif.C09

/-- node-wise relation between two heaps -/
def NodesRel (P : Node → Node → Prop) (h h' : Heap) : Prop :=
  h'.nodes.length = h.nodes.length ∧ h'.ephs = h.ephs ∧ h'.mapBoxes = h.mapBoxes ∧
  ∀ (i : Nat) (n : Node), h.nodes[i]? = some n → ∃ n' : Node, h'.nodes[i]? = some n' ∧ P n n'

theorem NodesRel.refl {P : Node → Node → Prop} (hr : ∀ x, P x x) (h : Heap) : NodesRel P h h :=
  ⟨rfl, rfl, rfl, fun _ n hn => ⟨n, hn, hr n⟩⟩

theorem NodesRel.trans {P : Node → Node → Prop} (ht : ∀ x y z, P x y → P y z → P x z) {a b c : Heap}
    (h1 : NodesRel P a b) (h2 : NodesRel P b c) : NodesRel P a c := by
  refine ⟨h2.1.trans h1.1, h2.2.1.trans h1.2.1, h2.2.2.1.trans h1.2.2.1, fun i n hn => ?_⟩
  obtain ⟨n', hn', p1⟩ := h1.2.2.2 i n hn
  obtain ⟨n'', hn'', p2⟩ := h2.2.2.2 i n' hn'
  exact ⟨n'', hn'', ht _ _ _ p1 p2⟩

theorem modNode_rel {P : Node → Node → Prop} (hr : ∀ x, P x x) (f : Node → Node) (hf : ∀ x, P x (f x))
    (h : Heap) (i : Nat) : NodesRel P h (modNode h i f) := by
  refine ⟨modNode_length h i f, modNode_ephs h i f, ?_, fun j n hn => ?_⟩
  · unfold modNode; split <;> rfl
  · rw [modNode_nodes_get]
    by_cases hij : i = j
    · subst hij; simp only [↓reduceIte, hn, Option.map_some]; exact ⟨_, rfl, hf n⟩
    · simp only [hij, ↓reduceIte]; exact ⟨n, hn, hr n⟩

theorem foldl_modNode_rel {P : Node → Node → Prop} (hr : ∀ x, P x x) (ht : ∀ x y z, P x y → P y z → P x z)
    (f : Node → Node) (hf : ∀ x, P x (f x)) (l : List Nat) (h : Heap) :
    NodesRel P h (l.foldl (fun a t => modNode a t f) h) := by
  induction l generalizing h with
  | nil => exact NodesRel.refl hr h
  | cons x xs ih => exact NodesRel.trans ht (modNode_rel hr f hf h x) (ih _)

theorem modEph_eq_of_noEph {h : Heap} (he : h.ephs = []) (l : List Nat) (f : Eph → Eph) :
    l.foldl (fun a t => modEph a t f) h = h := foldl_modEph_noEph l f h he

/-! ### trace_non_roots only changes non-root counts -/

def PTnr (a b : Node) : Prop :=
  b.alive = a.alive ∧ b.refCount = a.refCount ∧ b.marked = a.marked ∧ b.edges = a.edges ∧
  b.ephHandles = a.ephHandles ∧ b.finalized = a.finalized ∧ b.dropped = a.dropped

theorem PTnr.refl (x : Node) : PTnr x x := ⟨rfl, rfl, rfl, rfl, rfl, rfl, rfl⟩
theorem PTnr.trans (x y z : Node) (h1 : PTnr x y) (h2 : PTnr y z) : PTnr x z := by
  obtain ⟨a1, a2, a3, a4, a5, a6, a7⟩ := h1
  obtain ⟨b1, b2, b3, b4, b5, b6, b7⟩ := h2
  exact ⟨b1.trans a1, b2.trans a2, b3.trans a3, b4.trans a4, b5.trans a5, b6.trans a6, b7.trans a7⟩

theorem incNonRoot_PTnr (x : Node) : PTnr x (incNonRoot x) := by
  unfold incNonRoot; split <;> exact ⟨rfl, rfl, rfl, rfl, rfl, rfl, rfl⟩

theorem traceNonRoots_rel (h : Heap) (he : h.ephs = []) : NodesRel PTnr h (traceNonRoots h) := by
  unfold traceNonRoots
  simp only [he, List.foldl_nil]
  -- outer fold over the nodes
  have key : ∀ (l : List Node) (acc : Heap), acc.ephs = [] → NodesRel PTnr acc
      (l.foldl (fun acc n =>
        if n.alive then
          let acc := n.edges.foldl (fun a t => modNode a t incNonRoot) acc
          n.ephHandles.foldl (fun a t => modEph a t incNonRootE) acc
        else acc) acc) := by
    intro l
    induction l with
    | nil => intro acc _; exact NodesRel.refl PTnr.refl acc
    | cons n ns ih =>
      intro acc hacc
      simp only [List.foldl_cons]
      by_cases ha : n.alive = true
      · simp only [ha, ↓reduceIte]
        have r1 := foldl_modNode_rel PTnr.refl PTnr.trans incNonRoot incNonRoot_PTnr n.edges acc
        have he1 : (n.edges.foldl (fun a t => modNode a t incNonRoot) acc).ephs = [] := by rw [r1.2.1]; exact hacc
        rw [modEph_eq_of_noEph he1]
        exact NodesRel.trans PTnr.trans r1 (ih _ he1)
      · simp only [ha, Bool.false_eq_true, ↓reduceIte]; exact ih acc hacc
  exact key h.nodes h he

/-! ### finalize (no ephemerons) only lowers reference counts and bumps finalize counters -/

def PFin (a b : Node) : Prop :=
  b.alive = a.alive ∧ b.refCount ≤ a.refCount ∧ b.nonRoot = a.nonRoot ∧ b.marked = a.marked ∧ b.edges = a.edges ∧
  b.ephHandles = a.ephHandles ∧ a.finalized ≤ b.finalized ∧ b.dropped = a.dropped

theorem PFin.refl (x : Node) : PFin x x := ⟨rfl, Nat.le_refl _, rfl, rfl, rfl, rfl, Nat.le_refl _, rfl⟩
theorem PFin.trans (x y z : Node) (h1 : PFin x y) (h2 : PFin y z) : PFin x z := by
  obtain ⟨a1, a2, a3, a4, a5, a6, a7, a8⟩ := h1
  obtain ⟨b1, b2, b3, b4, b5, b6, b7, b8⟩ := h2
  exact ⟨b1.trans a1, Nat.le_trans b2 a2, b3.trans a3, b4.trans a4, b5.trans a5, b6.trans a6, Nat.le_trans a7 b7, b8.trans a8⟩

theorem decRef_PFin (x : Node) : PFin x (decRef x) :=
  ⟨rfl, Nat.sub_le _ _, rfl, rfl, rfl, rfl, Nat.le_refl _, rfl⟩

theorem finalize_rel (h : Heap) (he : h.ephs = []) (dead : List Nat) : NodesRel PFin h (finalize h dead []) := by
  unfold finalize
  simp only [List.foldl_nil]
  induction dead generalizing h with
  | nil => exact NodesRel.refl PFin.refl h
  | cons d ds ih =>
    simp only [List.foldl_cons]
    cases hd : h.nodes[d]? with
    | none => simp only; exact ih h he
    | some n =>
      simp only
      have r0 := modNode_rel PFin.refl (fun x => { x with finalized := x.finalized + 1 })
        (fun x => ⟨rfl, Nat.le_refl _, rfl, rfl, rfl, rfl, Nat.le_succ _, rfl⟩) h d
      have r1 := foldl_modNode_rel PFin.refl PFin.trans decRef decRef_PFin n.edges
        (modNode h d (fun x => { x with finalized := x.finalized + 1 }))
      have he1 : (n.edges.foldl (fun b t => modNode b t decRef)
          (modNode h d (fun x => { x with finalized := x.finalized + 1 }))).ephs = [] := by
        rw [r1.2.1, r0.2.1]; exact he
      rw [modEph_eq_of_noEph he1]
      exact NodesRel.trans PFin.trans (NodesRel.trans PFin.trans r0 r1) (ih _ he1)

/-- the finalizer of node `i` runs once for every occurrence of `i` in the dead list -/
def finOf (h : Heap) (i : Nat) : Nat := match h.nodes[i]? with | some n => n.finalized | none => 0

theorem modNode_finOf_other (h : Heap) (j i : Nat) (f : Node → Node) (hf : ∀ x, (f x).finalized = x.finalized) :
    finOf (modNode h j f) i = finOf h i := by
  unfold finOf; rw [modNode_nodes_get]
  by_cases hji : j = i
  · subst hji; simp only [↓reduceIte]; cases h.nodes[j]? <;> simp [hf]
  · simp [hji]

theorem foldl_decRef_finOf (l : List Nat) (h : Heap) (i : Nat) :
    finOf (l.foldl (fun b t => modNode b t decRef) h) i = finOf h i := by
  induction l generalizing h with
  | nil => rfl
  | cons x xs ih => simp only [List.foldl_cons]; rw [ih]; exact modNode_finOf_other h x i decRef (fun _ => rfl)

theorem finalize_finOf (h : Heap) (he : h.ephs = []) (dead : List Nat) (i : Nat) (hi : i < h.nodes.length) :
    finOf (finalize h dead []) i = finOf h i + dead.count i := by
  unfold finalize
  simp only [List.foldl_nil]
  induction dead generalizing h with
  | nil => simp
  | cons d ds ih =>
    simp only [List.foldl_cons]
    cases hd : h.nodes[d]? with
    | none =>
      simp only
      rw [ih h he hi]
      have : d ≠ i := by
        intro hdi; subst hdi
        rw [List.getElem?_eq_none_iff] at hd; omega
      simp [List.count_cons, this]
    | some n =>
      simp only
      have r0 := modNode_rel PFin.refl (fun x => { x with finalized := x.finalized + 1 })
        (fun x => ⟨rfl, Nat.le_refl _, rfl, rfl, rfl, rfl, Nat.le_succ _, rfl⟩) h d
      have r1 := foldl_modNode_rel PFin.refl PFin.trans decRef decRef_PFin n.edges
        (modNode h d (fun x => { x with finalized := x.finalized + 1 }))
      have he1 : (n.edges.foldl (fun b t => modNode b t decRef)
          (modNode h d (fun x => { x with finalized := x.finalized + 1 }))).ephs = [] := by
        rw [r1.2.1, r0.2.1]; exact he
      rw [modEph_eq_of_noEph he1]
      rw [ih _ he1 (by rw [r1.1, r0.1]; exact hi), foldl_decRef_finOf]
      unfold finOf
      rw [modNode_nodes_get]
      by_cases hdi : d = i
      · subst hdi; simp [hd, List.count_cons]; omega
      · simp [hdi, List.count_cons]

end BoaVerif.C09
