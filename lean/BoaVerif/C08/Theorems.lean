/- C08 — runtime limits stop runaway scripts and cannot be intercepted. Property theorems (with their proofs). -/
import BoaVerif.C08.Model
namespace BoaVerif.C08
open BoaVerif.C03

-- ------------------------------------------------------------------ static: the counter is on every cycle

/-- a control-flow path through a block: consecutive addresses related by the successor relation -/
inductive Path (b : Block) : List Nat → Prop
  | single (pc : Nat) : Path b [pc]
  | cons {pc pc' : Nat} {rest : List Nat} (i : Instr) :
      instrAt b pc = some i → pc' ∈ succPcs b i → Path b (pc' :: rest) → Path b (pc :: pc' :: rest)

def counterAt (b : Block) (pc : Nat) : Bool :=
  match instrAt b pc with
  | some i => isCounter i
  | none => false

/-- how many executions of `IncrementLoopIteration` a path contains -/
def counters (b : Block) (p : List Nat) : Nat := (p.filter (counterAt b)).length

theorem instrAt_mem {b : Block} {pc : Nat} {i : Instr} (h : instrAt b pc = some i) : i ∈ b.instrs ∧ i.pc = pc := by
  unfold instrAt at h
  have hm := List.mem_of_find?_eq_some h
  have hp := List.find?_some h
  exact ⟨hm, by simpa using hp⟩

theorem rank_drops {b : Block} {rk : Rank} (h : rankOk b rk = true) {pc pc' : Nat} {i : Instr}
    (hi : instrAt b pc = some i) (hc : isCounter i = false) (hs : pc' ∈ succPcs b i) : rankOf rk pc' < rankOf rk pc := by
  obtain ⟨hm, hpc⟩ := instrAt_mem hi
  unfold rankOk at h
  simp only [List.all_eq_true, Bool.or_eq_true, decide_eq_true_eq] at h
  rcases h i hm with h1 | h2
  · rw [hc] at h1; exact absurd h1 (by simp)
  · rw [← hpc]; exact h2 pc' hs

/-- THE COUNTER IS ON EVERY CYCLE, quantitatively: with a valid ranking bounded by `R`, a path of any length
    has at most `rank(start) + 1 + counters * (R + 1)` instructions — between two executions of the loop
    counter an activation executes at most `R + 1` instructions of its own -/
theorem steps_bounded (b : Block) (rk : Rank) (R : Nat) (h : rankOk b rk = true) (hR : ∀ pc, rankOf rk pc ≤ R) :
    ∀ (p : List Nat) (pc : Nat), Path b (pc :: p) →
      (pc :: p).length ≤ rankOf rk pc + 1 + counters b (pc :: p) * (R + 1) := by
  intro p
  induction p with
  | nil => intro pc _; exact Nat.le_trans (Nat.le_add_left 1 _) (Nat.le_add_right _ _)
  | cons pc' rest ih =>
    intro pc hp
    cases hp with
    | cons i hi hs hrest =>
      have ih' := ih pc' hrest
      have hlen : (pc :: pc' :: rest).length = (pc' :: rest).length + 1 := by simp
      cases hc : isCounter i with
      | false =>
        have hd := rank_drops h hi hc hs
        have hcnt : counters b (pc :: pc' :: rest) = counters b (pc' :: rest) := by
          unfold counters
          have : counterAt b pc = false := by unfold counterAt; rw [hi]; exact hc
          rw [List.filter_cons]; simp [this]
        rw [hlen, hcnt]; omega
      | true =>
        have hcnt : counters b (pc :: pc' :: rest) = counters b (pc' :: rest) + 1 := by
          unfold counters
          have : counterAt b pc = true := by unfold counterAt; rw [hi]; exact hc
          rw [List.filter_cons]; simp [this]
        have hr := hR pc'
        rw [hlen, hcnt, Nat.add_mul]; omega

/-- ... hence the work of one activation between calls is bounded by the loop-iteration limit: a path that passes
    the counter at most `L + 2` times (the last one raises the error) has at most `(L + 3) * (R + 1)` instructions -/
theorem work_bounded (b : Block) (rk : Rank) (R L : Nat) (h : rankOk b rk = true) (hR : ∀ pc, rankOf rk pc ≤ R)
    (p : List Nat) (pc : Nat) (hp : Path b (pc :: p)) (hc : counters b (pc :: p) ≤ L + 2) :
    (pc :: p).length ≤ (L + 3) * (R + 1) := by
  have h1 := steps_bounded b rk R h hR p pc hp
  have h2 := hR pc
  have h3 : counters b (pc :: p) * (R + 1) ≤ (L + 2) * (R + 1) := Nat.mul_le_mul_right _ hc
  have h4 : (L + 3) * (R + 1) = (L + 2) * (R + 1) + (R + 1) := by rw [show L + 3 = (L + 2) + 1 from rfl, Nat.add_mul]; simp
  omega

-- ------------------------------------------------------------------ the loop counter

/-- exactly `limit + 1` executions of the counter succeed in one activation -/
theorem counterRun_spec (limit : Nat) : ∀ (k count : Nat),
    counterRun limit k count = if k = 0 ∨ count + k ≤ limit + 1 then some (count + k) else none := by
  intro k
  induction k with
  | zero => intro count; simp [counterRun]
  | succ k ih =>
    intro count
    unfold counterRun counterStep
    by_cases hgt : count > limit
    · simp [hgt]; omega
    · simp only [hgt, ↓reduceIte]
      rw [ih (count + 1)]
      by_cases hk : k = 0
      · subst hk; simp; omega
      · simp only [hk, false_or, Nat.add_eq_zero_iff, Nat.succ_ne_self, and_false]
        have : (count + 1 + k ≤ limit + 1) ↔ (count + (k + 1) ≤ limit + 1) := by omega
        by_cases hle : count + 1 + k ≤ limit + 1
        · simp [hle, this.mp hle]; omega
        · have := mt this.mpr hle
          simp [hle, this]

/-- SCRIPTS UNDER THE LIMIT ARE UNAFFECTED (test-first loops): all `n` bodies run -/
theorem loop_unaffected_pre (limit : Nat) : ∀ (n count : Nat), count + n ≤ limit →
    runLoop limit .preTest n count = (n, count + n + 1, .completed) := by
  intro n
  induction n with
  | zero =>
    intro count h
    have hc : ¬ count > limit := by omega
    simp [runLoop, counterStep, hc]
  | succ n ih =>
    intro count h
    have hc : ¬ count > limit := by omega
    simp only [runLoop, counterStep, hc, ↓reduceIte]
    rw [ih (count + 1) (by omega)]
    simp; omega

/-- A LOOP THAT WOULD EXCEED THE LIMIT IS STOPPED (test-first loops) -/
theorem loop_stopped_pre (limit : Nat) : ∀ (n count : Nat), limit < count + n →
    (runLoop limit .preTest n count).2.2 = .limited := by
  intro n
  induction n with
  | zero => intro count h; have : count > limit := by omega
            simp [runLoop, counterStep, this]
  | succ n ih =>
    intro count h
    by_cases hc : count > limit
    · simp [runLoop, counterStep, hc]
    · simp only [runLoop, counterStep, hc, ↓reduceIte]
      exact ih (count + 1) (by omega)

theorem loop_unaffected_post (limit : Nat) : ∀ (n count : Nat), 0 < n → count + n ≤ limit + 1 →
    runLoop limit .postTest n count = (n, count + n, .completed) := by
  intro n
  induction n with
  | zero => intro count h; omega
  | succ n ih =>
    intro count _ h
    have hc : ¬ count > limit := by omega
    simp only [runLoop, counterStep, hc, ↓reduceIte]
    by_cases hn : n = 0
    · subst hn; simp
    · simp only [hn, ↓reduceIte]
      rw [ih (count + 1) (by omega) (by omega)]
      simp; omega

theorem loop_stopped_post (limit : Nat) : ∀ (n count : Nat), 0 < n → limit + 1 < count + n →
    (runLoop limit .postTest n count).2.2 = .limited := by
  intro n
  induction n with
  | zero => intro count h; omega
  | succ n ih =>
    intro count _ h
    by_cases hc : count > limit
    · simp [runLoop, counterStep, hc]
    · simp only [runLoop, counterStep, hc, ↓reduceIte]
      by_cases hn : n = 0
      · subst hn; omega
      · simp only [hn, ↓reduceIte]
        exact ih (count + 1) (by omega) (by omega)

/-- THE WORK OF A LOOP IS BOUNDED BY THE LIMIT, whatever the loop wanted to do -/
theorem loop_work_bounded (limit : Nat) (f : LoopForm) : ∀ (n count : Nat), (runLoop limit f n count).1 ≤ limit + 2 - min count (limit + 1) := by
  intro n
  induction n with
  | zero =>
    intro count
    cases f with
    | preTest =>
      by_cases hc : count > limit
      · simp [runLoop, counterStep, hc]
      · simp [runLoop, counterStep, hc]
    | postTest => simp [runLoop]
  | succ n ih =>
    intro count
    cases f with
    | preTest =>
      by_cases hc : count > limit
      · simp [runLoop, counterStep, hc]
      · simp only [runLoop, counterStep, hc, ↓reduceIte]
        have := ih (count + 1)
        omega
    | postTest =>
      by_cases hc : count > limit
      · simp [runLoop, counterStep, hc]; omega
      · simp only [runLoop, counterStep, hc, ↓reduceIte]
        by_cases hn : n = 0
        · simp [hn]; omega
        · simp only [hn, ↓reduceIte]
          have := ih (count + 1)
          omega

-- ------------------------------------------------------------------ the error cannot be intercepted

/-- effects that happened before the point of interest, outermost first -/
def emits (ls : List Layer) : List Nat :=
  (ls.filterMap (fun l => match l with | .afterEmit t => some t | _ => none)).reverse

/-- UNCATCHABLE AT EVERY LEVEL: if the innermost code ends with a RuntimeLimitError then, whatever encloses it —
    any number of call levels by any route, catch blocks, finally blocks, statements that follow — the whole
    evaluation ends with that error and performs no effect after it: no handler, no finally block and no
    continuation contributes anything -/
theorem limit_unstoppable (ls : List Layer) : ∀ (b : Beh), (run b).2 = .limited →
    run (wrap b ls) = (emits ls ++ (run b).1, .limited) := by
  induction ls with
  | nil => intro b h; simp [wrap, emits, ← h]
  | cons l ls ih =>
    intro b h
    cases l with
    | callThen k =>
      have h1 : run (.call b k) = run b := by simp [run, h]
      have := ih (.call b k) (by rw [h1]; exact h)
      simp only [wrap, this, h1, emits, List.filterMap_cons]
    | inTry hd k =>
      have h1 : run (.tryCatch b hd k) = run b := by simp [run, h]
      have := ih (.tryCatch b hd k) (by rw [h1]; exact h)
      simp only [wrap, this, h1, emits, List.filterMap_cons]
    | inTryFinally f k =>
      have h1 : run (.tryFinally b f k) = run b := by simp [run, h]
      have := ih (.tryFinally b f k) (by rw [h1]; exact h)
      simp only [wrap, this, h1, emits, List.filterMap_cons]
    | afterEmit t =>
      have h1 : run (.emit t b) = (t :: (run b).1, .limited) := by simp [run, h]
      have := ih (.emit t b) (by rw [h1])
      simp only [wrap, this, h1, emits, List.filterMap_cons, List.reverse_cons, List.append_assoc, List.singleton_append]

/-- non-vacuity / contrast: an ordinary exception at the same point does run the handler and what follows -/
example : run (wrap .throwHere [.inTry (.emit 1 .done) (.emit 2 .done)]) = ([1, 2], .normal) := by decide
example : run (wrap .limitHere [.inTry (.emit 1 .done) (.emit 2 .done), .inTryFinally (.emit 3 .done) .done, .callThen (.emit 4 .done), .afterEmit 0])
    = ([0], .limited) := by decide

-- ------------------------------------------------------------------ recursion depth

def totalCost (rs : List Route) : Nat := (rs.map cost).foldl (· + ·) 0

theorem foldl_add (xs : List Nat) (a : Nat) : xs.foldl (· + ·) a = a + xs.foldl (· + ·) 0 := by
  induction xs generalizing a with
  | nil => simp
  | cons x xs ih => simp only [List.foldl_cons]; rw [ih (a + x), ih (0 + x)]; omega

/-- NESTING UNDER THE LIMIT IS UNAFFECTED: a chain of calls whose accumulated depth stays within the limit is
    never refused, and ends at the accumulated depth -/
theorem nest_unaffected (limit : Nat) : ∀ (rs : List Route) (d : Depth), d.frames + d.host + totalCost rs ≤ limit →
    ∃ d', nest limit d rs = some d' ∧ d'.frames + d'.host = d.frames + d.host + totalCost rs := by
  intro rs
  induction rs with
  | nil => intro d _; exact ⟨d, rfl, by simp [totalCost]⟩
  | cons r rs ih =>
    intro d h
    have hc : totalCost (r :: rs) = cost r + totalCost rs := by
      unfold totalCost; simp only [List.map_cons, List.foldl_cons]; rw [foldl_add]; omega
    rw [hc] at h
    have hpos : 0 < cost r := by cases r <;> simp [cost]
    have ha : allowed limit d = true := by unfold allowed; simp; omega
    cases r with
    | direct =>
      simp only [nest, enter, ha, ↓reduceIte]
      obtain ⟨d', h1, h2⟩ := ih { d with frames := d.frames + 1 } (by simp [cost] at h ⊢; omega)
      exact ⟨d', h1, by rw [h2, hc]; simp [cost]; omega⟩
    | viaNative =>
      simp only [nest, enter, ha, ↓reduceIte]
      obtain ⟨d', h1, h2⟩ := ih { frames := d.frames + 1, host := d.host + 1 } (by simp [cost] at h ⊢; omega)
      exact ⟨d', h1, by rw [h2, hc]; simp [cost]; omega⟩

/-- RUNAWAY RECURSION IS STOPPED, by whatever mixture of routes: no chain of more than `limit` nested entries exists -/
theorem nest_stopped (limit : Nat) : ∀ (rs : List Route) (d : Depth), limit < d.frames + d.host + rs.length →
    0 < rs.length → nest limit d rs = none := by
  intro rs
  induction rs with
  | nil => intro d _ h; simp at h
  | cons r rs ih =>
    intro d h _
    by_cases ha : allowed limit d = true
    · have hlt : d.frames + d.host < limit := by unfold allowed at ha; simpa using ha
      have hrs : 0 < rs.length := by simp only [List.length_cons] at h; omega
      cases r with
      | direct =>
        simp only [nest, enter, ha, ↓reduceIte]
        exact ih _ (by simp only [List.length_cons] at h ⊢; omega) hrs
      | viaNative =>
        simp only [nest, enter, ha, ↓reduceIte]
        exact ih _ (by simp only [List.length_cons] at h ⊢; omega) hrs
    · cases r <;> simp [nest, enter, ha]

/-- THE BUDGET IS RETURNED: leaving an activation restores the depth it was entered at, so one evaluation's calls
    (completed, thrown or cut off) take nothing from the next -/
theorem leave_enter (limit : Nat) (d d' : Depth) (r : Route) (h : enter limit d r = some d') : leave d' r = d := by
  cases r <;> simp only [enter] at h <;> split at h <;> simp at h <;> subst h <;> simp [leave]

end BoaVerif.C08
