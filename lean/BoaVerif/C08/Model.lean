/-
  C08 model.
  Static part: every cycle of a code block's control-flow graph passes through an `IncrementLoopIteration`.
  The certificate is a ranking of the instructions that strictly decreases along every edge that does not
  leave a counter instruction (`rankOk`); Theorems.lean shows that it bounds the number of instructions an
  activation can execute between two executions of the counter.
  Dynamic part: the per-frame loop counter (`IncrementLoopIteration::operation`), the shapes loops are lowered
  to, how a RuntimeLimitError travels through an activation chain (`Context::handle_error`, uncatchable branch)
  and the recursion-depth accounting of `check_runtime_limits`.
  Import-free apart from the C03 block model.
-/
import BoaVerif.C03.Model
namespace BoaVerif.C08
open BoaVerif.C03

/-- control-flow successors (ordinary and exceptional), ignoring depths -/
def succPcs (b : Block) (i : Instr) : List Nat :=
  let e := effect i
  let ord := match e.flow with
    | .next => [i.next]
    | .jump => i.addrs
    | .cond => i.next :: i.addrs
    | .stop => []
  let exc := if e.throws then (match findHandler b.handlers i.pc with | some h => [h.target] | none => []) else []
  ord ++ exc

def isCounter (i : Instr) : Bool := i.op == "IncrementLoopIteration"

abbrev Rank := List (Nat × Nat)

def rankOf (rk : Rank) (pc : Nat) : Nat := ((rk.find? (fun p => p.1 == pc)).map (·.2)).getD 0

/-- THE STATIC CHECK: along every edge out of an instruction that is not the loop counter the rank drops -/
def rankOk (b : Block) (rk : Rank) : Bool :=
  b.instrs.all (fun i => isCounter i || (succPcs b i).all (fun s => rankOf rk s < rankOf rk i.pc))

/-- the largest rank in use -/
def maxRank (rk : Rank) : Nat := rk.foldl (fun m p => max m p.2) 0

-- ---------------------------------------------------------------- the loop counter

inductive Outcome | completed | limited
  deriving Repr, DecidableEq

/-- `IncrementLoopIteration::operation`: fails when the count it finds already exceeds the limit -/
def counterStep (limit count : Nat) : Option Nat :=
  if count > limit then none else some (count + 1)

/-- `k` executions of the counter in one activation, starting from `count` -/
def counterRun (limit : Nat) : Nat → Nat → Option Nat
  | 0, count => some count
  | k + 1, count =>
    match counterStep limit count with
    | none => none
    | some c => counterRun limit k c

/-- the two shapes loops are lowered to: the counter sits in front of the test that is evaluated before each
    iteration (while, for-in, for-of, for-await), or it is passed after each body, on the way to the next test
    (do-while: in front of its trailing test; for(;;): in front of the update expression, the first test is not counted) -/
inductive LoopForm | preTest | postTest
  deriving Repr, DecidableEq

/-- a loop whose body wants to run `n` times, in a frame whose counter stands at `count`:
    (bodies actually run, counter afterwards, outcome) -/
def runLoop (limit : Nat) : LoopForm → Nat → Nat → Nat × Nat × Outcome
  | .preTest, 0, count =>
    -- the final, failing test still passes the counter
    (match counterStep limit count with
     | none => (0, count, .limited)
     | some c => (0, c, .completed))
  | .preTest, n + 1, count =>
    (match counterStep limit count with
     | none => (0, count, .limited)
     | some c => let r := runLoop limit .preTest n c; (r.1 + 1, r.2.1, r.2.2))
  | .postTest, 0, count => (0, count, .completed)       -- (a do-while body runs at least once: n ≥ 1 below)
  | .postTest, n + 1, count =>
    -- body, then counter + test
    (match counterStep limit count with
     | none => (1, count, .limited)
     | some c =>
       if n = 0 then (1, c, .completed)
       else let r := runLoop limit .postTest n c; (r.1 + 1, r.2.1, r.2.2))

-- ---------------------------------------------------------------- propagation of the error

/-- what an activation does, as far as observable output and completions are concerned -/
inductive Beh
  | done                                           -- returns normally
  | emit (tag : Nat) (k : Beh)                     -- an observable effect (print), then `k`
  | throwHere                                      -- raises an ordinary (catchable) exception
  | limitHere                                      -- a runtime limit is hit
  | call (callee : Beh) (k : Beh)                  -- run `callee` in a new activation (any re-entry route), then `k`
  | tryCatch (body handler : Beh) (k : Beh)        -- try { body } catch { handler }; k
  | tryFinally (body fin : Beh) (k : Beh)          -- try { body } finally { fin }; k
  deriving Repr

inductive Res | normal | thrown | limited
  deriving Repr, DecidableEq

/-- the trace of effects and the completion. `handle_error`: a catchable exception runs the innermost handler
    and finally blocks on its way; an uncatchable RuntimeLimitError skips all of them in every frame. -/
def run : Beh → List Nat × Res
  | .done => ([], .normal)
  | .emit t k => let r := run k; (t :: r.1, r.2)
  | .throwHere => ([], .thrown)
  | .limitHere => ([], .limited)
  | .call callee k =>
    let r := run callee
    if r.2 = .normal then let r2 := run k; (r.1 ++ r2.1, r2.2) else r
  | .tryCatch body handler k =>
    let r := run body
    if r.2 = .normal then let r2 := run k; (r.1 ++ r2.1, r2.2)
    else if r.2 = .thrown then
      let rh := run handler
      if rh.2 = .normal then let r2 := run k; (r.1 ++ rh.1 ++ r2.1, r2.2) else (r.1 ++ rh.1, rh.2)
    else r
  | .tryFinally body fin k =>
    let r := run body
    if r.2 = .limited then r
    else
      let rf := run fin
      if rf.2 ≠ .normal then (r.1 ++ rf.1, rf.2)
      else if r.2 = .normal then let r2 := run k; (r.1 ++ rf.1 ++ r2.1, r2.2)
      else (r.1 ++ rf.1, r.2)

/-- one level of surrounding code: what encloses the point where something runs -/
inductive Layer
  | callThen (k : Beh)                 -- we are the callee of a call followed by `k`
  | inTry (handler k : Beh)            -- we are the body of try/catch
  | inTryFinally (fin k : Beh)         -- we are the body of try/finally
  | afterEmit (tag : Nat)              -- an effect happened just before us
  deriving Repr

def wrap (b : Beh) : List Layer → Beh
  | [] => b
  | .callThen k :: ls => wrap (.call b k) ls
  | .inTry h k :: ls => wrap (.tryCatch b h k) ls
  | .inTryFinally f k :: ls => wrap (.tryFinally b f k) ls
  | .afterEmit t :: ls => wrap (.emit t b) ls

-- ---------------------------------------------------------------- recursion depth

/-- the routes by which running code enters another bytecode activation -/
inductive Route
  | direct          -- Call / New: `function_call` checks the limits and pushes a frame
  | viaNative       -- a native function (`Array.prototype.forEach`, an accessor, `Reflect.apply`, …) re-enters through
                    -- `JsObject::call`: the native's own call is checked, the callee's frame is pushed and the nested
                    -- `Context::run` is counted in `host_call_depth`
  deriving Repr, DecidableEq

structure Depth where
  frames : Nat      -- bytecode activations (the script's own frame included, the dummy frame excluded)
  host : Nat        -- `host_call_depth`
  deriving Repr, DecidableEq

/-- `check_runtime_limits`, recursion part -/
def allowed (limit : Nat) (d : Depth) : Bool := d.frames + d.host < limit

/-- entering a callee by a route: `none` = refused with a RuntimeLimitError -/
def enter (limit : Nat) (d : Depth) : Route → Option Depth
  | .direct => if allowed limit d then some { d with frames := d.frames + 1 } else none
  | .viaNative => if allowed limit d then some { frames := d.frames + 1, host := d.host + 1 } else none

/-- leaving it again (return, throw or limit error: `JsObject::call` restores `host_call_depth` on every path) -/
def leave (d : Depth) : Route → Depth
  | .direct => { d with frames := d.frames - 1 }
  | .viaNative => { frames := d.frames - 1, host := d.host - 1 }

/-- nest calls along `routes`; `none` as soon as one is refused -/
def nest (limit : Nat) (d : Depth) : List Route → Option Depth
  | [] => some d
  | r :: rs => match enter limit d r with
    | none => none
    | some d' => nest limit d' rs

def cost : Route → Nat
  | .direct => 1
  | .viaNative => 2

end BoaVerif.C08
