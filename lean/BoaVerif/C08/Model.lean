/-
  C08 model, static part: every cycle of a code block's control-flow graph passes through an
  `IncrementLoopIteration`. `loopGuarded` removes the counter instructions and tests the remaining graph for
  acyclicity by a depth-first search (fuelled).  Import-free apart from the C03 block model.
-/
import BoaVerif.C03.Model
namespace BoaVerif.C08
open BoaVerif.C03

/-- control-flow successors (ordinary and exceptional), ignoring depths -/
def succPcs (b : Block) (i : Instr) : List Nat :=
  let e := effect i
  let ord := match e.flow with
    | .next => [i.next]
    | .jump => i.addrs
    | .cond => i.next :: i.addrs
    | .stop => []
  let exc := if e.throws then (match findHandler b.handlers i.pc with | some h => [h.target] | none => []) else []
  ord ++ exc

def isCounter (i : Instr) : Bool := i.op == "IncrementLoopIteration"

/-- depth-first search for a cycle that avoids counter instructions.
    `path` = pcs on the current DFS stack, `done` = pcs fully explored without finding a cycle.
    Returns `none` if a cycle (or fuel exhaustion) was found, else the updated `done` set. -/
def dfs (b : Block) : Nat → List Nat → List Nat → Nat → Option (List Nat)
  | 0, _, _, _ => none
  | fuel + 1, path, done, pc =>
    if done.contains pc then some done
    else if path.contains pc then none
    else
      match instrAt b pc with
      | none => some (pc :: done)
      | some i =>
        if isCounter i then some done      -- paths through a counter are cut here (its successors are explored from their own roots)
        else
          let r := (succPcs b i).foldl (fun acc s => match acc with
            | none => none
            | some d => dfs b fuel (pc :: path) d s) (some done)
          r.map (fun d => pc :: d)

/-- no cycle avoids the loop counter: search from every instruction -/
def loopGuarded (b : Block) : Bool :=
  let fuel := b.instrs.length + 2
  ((b.instrs.foldl (fun acc i => match acc with
    | none => none
    | some d => if isCounter i then
        -- explore what follows the counter
        (succPcs b i).foldl (fun a s => match a with | none => none | some d2 => dfs b fuel [] d2 s) (some d)
      else dfs b fuel [] d i.pc) (some []))).isSome

end BoaVerif.C08
