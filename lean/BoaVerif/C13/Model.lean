/-
  C13 model: exact arithmetic for IEEE-754 binary64 magnitudes and decimal numerals.
  Every finite double and +∞ is identified by its bit pattern with the sign cleared, `b ≤ INF`.
  `N b` is the magnitude in units of 2^-1074 (an exact natural number), `M b = N b + N (b+1)` the midpoint
  between `b` and its successor in units of 2^-1075. A decimal `d × 10^k` is compared with these by
  cross-multiplication (`scale`). Nothing here uses floating point. Import-free.
-/
namespace BoaVerif.C13

/-- bit pattern of +∞ -/
def INF : Nat := 0x7FF0000000000000

/-- magnitude of the double with (sign-cleared) bit pattern `b`, in units of 2^-1074. For `b = INF` the same
    formula gives 2^2098 = (largest finite) + one ulp: the value that the overflow threshold is computed from -/
def N (b : Nat) : Nat :=
  if b / 4503599627370496 = 0 then b % 4503599627370496
  else (4503599627370496 + b % 4503599627370496) * 2 ^ (b / 4503599627370496 - 1)

/-- midpoint between `b` and `b + 1`, in units of 2^-1075 -/
def M (b : Nat) : Nat := N b + N (b + 1)

/-- the decimal `d × 10^k` as a fraction `L / T` of 2^-1075 -/
def scale (d : Nat) (k : Int) : Nat × Nat :=
  if 0 ≤ k then (d * 10 ^ k.toNat * 2 ^ 1075, 1) else (d * 2 ^ 1075, 10 ^ (-k).toNat)

/-- ROUNDING RELATION (IEEE round-to-nearest, ties to even; ECMAScript "the Number value for"): the real `L / T`
    (units of 2^-1075) rounds to the double `b`. Below: above the midpoint under `b`, or on it if `b` is even;
    above: symmetrically. `0` has no lower neighbour, `INF` no upper one. -/
def accepts (L T b : Nat) : Bool :=
  b ≤ INF &&
  (b == 0 || M (b - 1) * T < L || (M (b - 1) * T == L && b % 2 == 0)) &&
  (b == INF || L < M b * T || (L == M b * T && b % 2 == 0))

def acceptsDec (d : Nat) (k : Int) (b : Nat) : Bool := accepts (scale d k).1 (scale d k).2 b

/-- distance, in units of `2^-1075 / T`, between `L / T` and the double `b` -/
def dist (L T b : Nat) : Nat := if L ≤ 2 * N b * T then 2 * N b * T - L else L - 2 * N b * T

/-- number of decimal digits of `s` (0 for 0) -/
def ndigits : Nat → Nat → Nat
  | 0, _ => 0
  | fuel + 1, s => if s = 0 then 0 else 1 + ndigits fuel (s / 10)

/-- THE CHECK for Number::toString (ECMA-262 6.1.6.1.20 step 5): `s × 10^(n-k)` with `k` digits is a decimal that
    converts back to `b`, no decimal with fewer digits does, and among the `k`-digit ones it is the closest to `b`.
    (`k ≥ 1`, `10^(k-1) ≤ s < 10^k`.) The neighbours tested are the only candidates — see Theorems.lean. -/
def shortestOk (b s : Nat) (n : Int) (k : Nat) : Bool :=
  let e : Int := n - k
  let LT := scale s e
  let lo := scale (s / 10) (e + 1)
  let hi := scale (s / 10 + 1) (e + 1)
  1 ≤ k && ndigits 400 s == k &&
  accepts LT.1 LT.2 b &&
  -- nothing with k-1 digits: the two multiples of 10^(e+1) around the value
  (k == 1 || (!(accepts lo.1 lo.2 b) && !(accepts hi.1 hi.2 b))) &&
  -- closest among the k-digit candidates: s-1 and s+1 (same scale) must not be accepted and strictly closer
  (let dn := scale (s - 1) e; let up := scale (s + 1) e
   (!(accepts dn.1 dn.2 b) || dist LT.1 LT.2 b ≤ dist dn.1 dn.2 b) &&
   (!(accepts up.1 up.2 b) || dist LT.1 LT.2 b ≤ dist up.1 up.2 b))

/-- THE CHECK for toFixed / toExponential / toPrecision digit selection: `n / S` (S = 10^f as a scale) is as close
    to the double as any integer multiple, ties to the larger `n`: with X / Y the exact value of the double times
    the scale, `2·|n·Y − X| ≤ Y` and on a tie `n·Y > X`. Here X = N b × num, Y = 2^1074 × den. -/
def closestOk (b n num den : Nat) : Bool :=
  let X := N b * num
  let Y := 2 ^ 1074 * den
  if n * Y ≥ X then 2 * (n * Y - X) ≤ Y else 2 * (X - n * Y) < Y

-- ------------------------------------------------------------------ radix conversion of integers

/-- digits of `n` in base `r`, most significant first -/
def digitsFuel (r : Nat) : Nat → Nat → List Nat
  | 0, _ => []
  | fuel + 1, n => if n < r then [n] else digitsFuel r fuel (n / r) ++ [n % r]

def toDigits (r n : Nat) : List Nat := digitsFuel r (n + 1) n

def ofDigits (r : Nat) (ds : List Nat) : Nat := ds.foldl (fun a d => a * r + d) 0

def digitChar (d : Nat) : Char := if d < 10 then Char.ofNat (48 + d) else Char.ofNat (87 + d)

def charDigit (c : Char) : Option Nat :=
  if '0' ≤ c ∧ c ≤ '9' then some (c.toNat - 48)
  else if 'a' ≤ c ∧ c ≤ 'z' then some (c.toNat - 87)
  else if 'A' ≤ c ∧ c ≤ 'Z' then some (c.toNat - 55)
  else none

end BoaVerif.C13
