/- C13 — number <-> text conversions are exact. Property theorems (with their proofs). -/
import BoaVerif.C13.Model
namespace BoaVerif.C13

-- ------------------------------------------------------------------ the doubles are ordered like their bit patterns

theorem two_pow_pos (n : Nat) : 0 < 2 ^ n := Nat.two_pow_pos n

/-- the successor bit pattern is the next larger magnitude (across exponent boundaries, from the subnormals up to +∞) -/
theorem N_step (b : Nat) : N b < N (b + 1) := by
  unfold N
  by_cases hf : b % 4503599627370496 + 1 < 4503599627370496
  · -- same exponent field
    have h1 : (b + 1) / 4503599627370496 = b / 4503599627370496 := by omega
    have h2 : (b + 1) % 4503599627370496 = b % 4503599627370496 + 1 := by omega
    rw [h1, h2]
    by_cases he : b / 4503599627370496 = 0
    · simp [he]
    · simp only [he, ↓reduceIte]
      exact Nat.mul_lt_mul_of_pos_right (by omega) (two_pow_pos _)
  · -- the fraction wraps: exponent field + 1, fraction 0
    have h1 : (b + 1) / 4503599627370496 = b / 4503599627370496 + 1 := by omega
    have h2 : (b + 1) % 4503599627370496 = 0 := by omega
    have h3 : b % 4503599627370496 = 4503599627370495 := by omega
    rw [h1, h2, h3]
    by_cases he : b / 4503599627370496 = 0
    · simp [he]
    · simp only [he, ↓reduceIte, Nat.add_one_ne_zero, Nat.add_sub_cancel, Nat.add_zero]
      obtain ⟨e, hee⟩ : ∃ e, b / 4503599627370496 = e + 1 := ⟨b / 4503599627370496 - 1, by omega⟩
      rw [hee, Nat.add_sub_cancel, Nat.pow_succ]
      have := two_pow_pos e
      generalize 2 ^ e = p at this ⊢
      omega

theorem N_mono {a b : Nat} (h : a < b) : N a < N b := by
  induction b with
  | zero => omega
  | succ b ih =>
    by_cases hab : a = b
    · subst hab; exact N_step a
    · exact Nat.lt_trans (ih (by omega)) (N_step b)

theorem M_strict {a b : Nat} (h : a < b) : M a < M b := by
  unfold M
  have h1 := N_mono h
  have h2 : N (a + 1) < N (b + 1) := N_mono (by omega)
  omega

theorem M_le {a b : Nat} (h : a ≤ b) : M a ≤ M b := by
  by_cases hab : a = b
  · subst hab; exact Nat.le_refl _
  · exact Nat.le_of_lt (M_strict (by omega))

-- ------------------------------------------------------------------ correct rounding is a function

/-- CORRECT ROUNDING IS UNIQUE: a real (here `L / T` in units of 2^-1075, e.g. any decimal numeral) rounds to at most
    one double. Hence if the text produced for `x` passes the check `accepts _ _ x` and the number produced for that
    text passes the check for the same text, the two are the same double: Number(String(x)) = x. -/
theorem rounding_unique (L T b b' : Nat) (hT : 0 < T) (h : accepts L T b = true) (h' : accepts L T b' = true) : b = b' := by
  -- wlog b < b'
  have key : ∀ a c, a < c → accepts L T a = true → accepts L T c = true → False := by
    intro a c hac ha hc
    unfold accepts at ha hc
    simp only [Bool.and_eq_true, Bool.or_eq_true, decide_eq_true_eq, beq_iff_eq] at ha hc
    obtain ⟨⟨_, _⟩, hau⟩ := ha
    obtain ⟨⟨hcle, hcl⟩, _⟩ := hc
    have hmono : M a * T ≤ M (c - 1) * T := Nat.mul_le_mul_right T (M_le (by omega))
    have ha_ne : a ≠ INF := by omega
    have hc_ne : c ≠ 0 := by omega
    rcases hau with (h1 | h1) | h1
    · exact ha_ne h1
    · -- L < M a * T ≤ M (c-1) * T, but the lower side of c needs M (c-1) * T ≤ L
      rcases hcl with (h2 | h2) | h2
      · exact hc_ne h2
      · omega
      · omega
    · obtain ⟨hLeq, haeven⟩ := h1
      rcases hcl with (h2 | h2) | h2
      · exact hc_ne h2
      · omega
      · obtain ⟨heq, hceven⟩ := h2
        -- M (c-1) * T = L = M a * T, so c - 1 = a, and a, a+1 cannot both be even
        have hM : M (c - 1) = M a := Nat.eq_of_mul_eq_mul_right hT (by omega)
        have hca : c - 1 = a := by
          by_cases hlt : a < c - 1
          · have := M_strict hlt; omega
          · omega
        omega
  by_cases hlt : b < b'
  · exact absurd (key b b' hlt h h') id
  · by_cases hgt : b' < b
    · exact absurd (key b' b hgt h' h) id
    · omega

/-- the set of reals that round to a given double is an interval -/
theorem accepts_convex (L1 L2 L3 T b : Nat) (h12 : L1 ≤ L2) (h23 : L2 ≤ L3)
    (h1 : accepts L1 T b = true) (h3 : accepts L3 T b = true) : accepts L2 T b = true := by
  unfold accepts at h1 h3 ⊢
  simp only [Bool.and_eq_true, Bool.or_eq_true, decide_eq_true_eq, beq_iff_eq] at h1 h3 ⊢
  obtain ⟨⟨hb, hl1⟩, _⟩ := h1
  obtain ⟨_, hu3⟩ := h3
  refine ⟨⟨hb, ?_⟩, ?_⟩
  · rcases hl1 with (h | h) | h
    · exact Or.inl (Or.inl h)
    · exact Or.inl (Or.inr (by omega))
    · by_cases he : L1 = L2
      · exact Or.inr ⟨by omega, h.2⟩
      · exact Or.inl (Or.inr (by omega))
  · rcases hu3 with (h | h) | h
    · exact Or.inl (Or.inl h)
    · exact Or.inl (Or.inr (by omega))
    · by_cases he : L2 = L3
      · exact Or.inr ⟨by omega, h.2⟩
      · exact Or.inl (Or.inr (by omega))

/-- NO SHORTER NUMERAL: if the value `L` rounds to `b` and neither of the two multiples of the coarser unit `G`
    around `L` does, then no multiple of `G` rounds to `b`. (With `G` the weight of the last-but-one digit, the multiples
    of `G` include every numeral with fewer significant digits in the same decade and the decade's own power of ten —
    the only shorter candidates, since the accepted set is an interval.) -/
theorem no_coarser_on_grid (L T b G : Nat) (hG : 0 < G) (h : accepts L T b = true)
    (hlo : accepts (L / G * G) T b = false) (hhi : accepts ((L / G + 1) * G) T b = false) :
    ∀ j, accepts (j * G) T b = false := by
  intro j
  cases hj : accepts (j * G) T b with
  | false => rfl
  | true =>
    exfalso
    by_cases hle : j * G ≤ L
    · -- j ≤ L / G, so j*G ≤ (L/G)*G ≤ L
      have hjq : j ≤ L / G := (Nat.le_div_iff_mul_le hG).mpr hle
      have h1 : j * G ≤ L / G * G := Nat.mul_le_mul_right G hjq
      have h2 : L / G * G ≤ L := Nat.div_mul_le_self L G
      have := accepts_convex (j * G) (L / G * G) L T b h1 h2 hj h
      rw [hlo] at this; exact absurd this (by simp)
    · have hlt : L < j * G := by omega
      have hjq : L / G < j := (Nat.div_lt_iff_lt_mul hG).mpr hlt
      have h1 : (L / G + 1) * G ≤ j * G := Nat.mul_le_mul_right G hjq
      have h2 : L ≤ (L / G + 1) * G := by
        have := Nat.lt_succ_iff.mp (Nat.lt_succ_of_le (Nat.le_of_lt ((Nat.div_lt_iff_lt_mul hG).mp (Nat.lt_succ_self (L / G)))))
        exact this
      have := accepts_convex L ((L / G + 1) * G) (j * G) T b h2 h1 h hj
      rw [hhi] at this; exact absurd this (by simp)

-- ------------------------------------------------------------------ integers in any radix

theorem ofDigits_append (r : Nat) (xs : List Nat) (d : Nat) : ofDigits r (xs ++ [d]) = ofDigits r xs * r + d := by
  unfold ofDigits; simp [List.foldl_append]

/-- parseInt(n.toString(r), r) = n for every natural number and every radix -/
theorem radix_roundtrip (r : Nat) (hr : 2 ≤ r) : ∀ (fuel n : Nat), n < fuel → ofDigits r (digitsFuel r fuel n) = n := by
  intro fuel
  induction fuel with
  | zero => intro n h; omega
  | succ fuel ih =>
    intro n h
    unfold digitsFuel
    by_cases hn : n < r
    · simp [hn, ofDigits]
    · simp only [hn, ↓reduceIte]
      rw [ofDigits_append]
      have hlt : n / r < n := Nat.div_lt_self (by omega) (by omega)
      rw [ih (n / r) (by omega)]
      exact Nat.div_add_mod' n r

theorem radix_roundtrip_toDigits (r n : Nat) (hr : 2 ≤ r) : ofDigits r (toDigits r n) = n :=
  radix_roundtrip r hr (n + 1) n (by omega)

/-- every digit produced is a digit of the radix -/
theorem digits_lt (r : Nat) (hr : 2 ≤ r) : ∀ (fuel n : Nat), ∀ d ∈ digitsFuel r fuel n, d < r := by
  intro fuel
  induction fuel with
  | zero => intro n d h; simp [digitsFuel] at h
  | succ fuel ih =>
    intro n d h
    unfold digitsFuel at h
    by_cases hn : n < r
    · simp [hn] at h; omega
    · simp only [hn, ↓reduceIte, List.mem_append, List.mem_singleton] at h
      rcases h with h | h
      · exact ih _ d h
      · rw [h]; exact Nat.mod_lt _ (by omega)

-- non-vacuity: 0.1 and its neighbours, the halfway case 2^53 + 1, the largest finite double and the overflow threshold
example : acceptsDec 1 (-1) 0x3FB999999999999A = true := by decide +kernel
example : acceptsDec 1 (-1) 0x3FB9999999999999 = false := by decide +kernel
example : acceptsDec 9007199254740993 0 0x4340000000000000 = true := by decide +kernel      -- tie -> even mantissa
example : acceptsDec 9007199254740993 0 0x4340000000000001 = false := by decide +kernel
example : acceptsDec 17976931348623157 292 0x7FEFFFFFFFFFFFFF = true := by decide +kernel
example : acceptsDec 179769313486231580793728971405303415079934132710037826936173778980444968292764750946649017977587207096330286416692887910946555547851940402630657488671505820681908902000708383676273854845817711531764475730270069855571366959622842914819860834936475292719074168444365510704342711559699508093042880177904174497792 0 INF = true := by decide +kernel
example : shortestOk 0x3FB999999999999A 1 0 1 = true := by decide +kernel                 -- 0.1 -> "1" × 10^(0-1)
example : shortestOk 0x3FD3333333333334 30000000000000004 0 17 = true := by decide +kernel  -- 0.1 + 0.2

end BoaVerif.C13
