/- C03 — every compiled code block is well-formed on all of its paths. Property theorems (with their proofs).

   The model (Model.lean) gives an abstract machine over a dumped code block: a state is (address, depths)
   and a step follows the opcode's effect table, the jump operands and the exception table. `check` is a
   finite, executable test of an annotation; the theorems below show that an accepted annotation speaks for
   EVERY path of the abstract machine, of any length. -/
import BoaVerif.C03.Model
namespace BoaVerif.C03

/-- one step of the abstract machine: decode the instruction at the address, apply its effect, go to any of
    its successors (fall-through, jump targets, the innermost handler when it can throw) -/
def Step (b : Block) (p q : Nat × Sigma) : Prop :=
  ∃ i succs, instrAt b p.1 = some i ∧ successors b i p.2 = some succs ∧ q ∈ succs

/-- the states some control-flow path reaches, of any length, starting from the block's entry -/
inductive Reach (b : Block) : Nat × Sigma → Prop
  | entry : Reach b (0, entry b)
  | step {p q : Nat × Sigma} : Reach b p → Step b p q → Reach b q

/-- what "well-formed at a state" means -/
structure WellFormedAt (b : Block) (p : Nat × Sigma) : Prop where
  /-- the address is the start of an instruction of this block -/
  decodes : ∃ i, instrAt b p.1 = some i ∧
    /- its operands are inside their tables and are the operands the opcode table declares -/
    operandsOk b i = true ∧
    /- environment-chain binding locators name an environment that exists here -/
    locatorsOk b i p.2 = true ∧
    /- no depth goes negative and the handler's environment count does not exceed the chain -/
    (successors b i p.2).isSome = true

theorem mem_of_contains {annot : Annot} {p : Nat × Sigma} (h : annot.contains p = true) : p ∈ annot := by
  simpa using h

theorem pointOk_of_mem {b : Block} {annot : Annot} (h : checkRel b annot = true) {p : Nat × Sigma} (hp : p ∈ annot) :
    pointOk b annot p = true := by
  unfold checkRel at h
  simp only [Bool.and_eq_true, List.all_eq_true] at h
  exact h.2 p hp

/-- SOUNDNESS OF THE CHECK: an annotation accepted by `checkRel` contains every reachable state, and every
    reachable state is locally consistent -/
theorem check_sound (b : Block) (annot : Annot) (h : checkRel b annot = true) :
    ∀ p, Reach b p → p ∈ annot ∧ pointOk b annot p = true := by
  intro p hr
  induction hr with
  | entry =>
    have hc : annot.contains (0, entry b) = true := by
      unfold checkRel at h
      simp only [Bool.and_eq_true] at h
      exact h.1.1
    have hm := mem_of_contains hc
    exact ⟨hm, pointOk_of_mem h hm⟩
  | @step p q _ hs ih =>
    obtain ⟨i, succs, hi, hsucc, hq⟩ := hs
    have hp := ih.2
    unfold pointOk at hp
    rw [hi] at hp
    simp only [hsucc, Bool.and_eq_true, List.all_eq_true] at hp
    have hm := mem_of_contains (hp.2 q hq)
    exact ⟨hm, pointOk_of_mem h hm⟩

/-- WELL-FORMED ON ALL PATHS: along every path of an accepted block each instruction decodes, its operands are
    in range, its locators are valid and no depth underflows -/
theorem wellformed_everywhere (b : Block) (annot : Annot) (h : checkRel b annot = true) (p : Nat × Sigma)
    (hr : Reach b p) : WellFormedAt b p := by
  have hp := (check_sound b annot h p hr).2
  unfold pointOk at hp
  cases hi : instrAt b p.1 with
  | none => rw [hi] at hp; exact absurd hp (by simp)
  | some i =>
    rw [hi] at hp
    simp only at hp
    cases hs : successors b i p.2 with
    | none => rw [hs] at hp; simp at hp
    | some succs =>
      rw [hs] at hp
      simp only [Bool.and_eq_true] at hp
      exact ⟨⟨i, hi, hp.1.1, hp.1.2, by simp [hs]⟩⟩

/-- the abstract machine never gets stuck in an accepted block: every reachable state can take its step or is
    a `Return`/`Throw` without successors -/
theorem never_stuck (b : Block) (annot : Annot) (h : checkRel b annot = true) (p : Nat × Sigma) (hr : Reach b p) :
    ∃ i succs, instrAt b p.1 = some i ∧ successors b i p.2 = some succs := by
  obtain ⟨⟨i, hi, _, _, hs⟩⟩ := wellformed_everywhere b annot h p hr
  cases hsucc : successors b i p.2 with
  | none => rw [hsucc] at hs; simp at hs
  | some succs => exact ⟨i, succs, hi, hsucc⟩

/-- DEPTHS AGREE WHERE PATHS MERGE: in a block accepted by the full `check`, two paths that reach the same
    address reach it with the same value-stack, environment-chain and binding-reference depths -/
theorem depths_agree (b : Block) (annot : Annot) (h : check b annot = true) (p q : Nat × Sigma)
    (hp : Reach b p) (hq : Reach b q) (hpc : p.1 = q.1) :
    p.2.arg = q.2.arg ∧ p.2.env = q.2.env ∧ p.2.bind = q.2.bind := by
  unfold check at h
  simp only [Bool.and_eq_true] at h
  have mp := (check_sound b annot h.1.1 p hp).1
  have mq := (check_sound b annot h.1.1 q hq).1
  have hf := h.1.2
  unfold functional at hf
  simp only [List.all_eq_true] at hf
  have := hf p mp q mq
  simp only [Bool.or_eq_true, Bool.and_eq_true, bne_iff_ne, ne_eq, beq_iff_eq] at this
  rcases this with h1 | h2
  · exact absurd hpc h1
  · exact ⟨h2.1.1, h2.1.2, h2.2⟩

/-- the same for the refined check: the environment and binding depths agree at every merge, and the
    value-stack depth is determined by the address together with the dispatch-register constants -/
theorem depths_agree_disp (b : Block) (annot : Annot) (h : checkDisp b annot = true) (p q : Nat × Sigma)
    (hp : Reach b p) (hq : Reach b q) (hpc : p.1 = q.1) :
    p.2.env = q.2.env ∧ p.2.bind = q.2.bind ∧ (p.2.disp = q.2.disp → p.2.arg = q.2.arg) := by
  unfold checkDisp at h
  simp only [Bool.and_eq_true] at h
  have mp := (check_sound b annot h.1.1 p hp).1
  have mq := (check_sound b annot h.1.1 q hq).1
  have he := h.1.2
  have hd := h.2
  unfold envBindFunctional at he
  unfold functionalDisp at hd
  simp only [List.all_eq_true] at he hd
  have e1 := he p mp q mq
  have d1 := hd p mp q mq
  simp only [Bool.or_eq_true, Bool.and_eq_true, bne_iff_ne, ne_eq, beq_iff_eq] at e1 d1
  refine ⟨?_, ?_, ?_⟩
  · rcases e1 with h1 | h2
    · exact absurd hpc h1
    · exact h2.1
  · rcases e1 with h1 | h2
    · exact absurd hpc h1
    · exact h2.2
  · intro hdisp
    rcases d1 with (h1 | h2) | h3
    · exact absurd hpc h1
    · exact absurd hdisp h2
    · rw [h3]

/-- what `operandsOk` gives the VM: every register operand is inside the register file `push_frame` allocates,
    every jump target is the start of an instruction of the same block, every table index is inside its table -/
theorem operands_in_range (b : Block) (i : Instr) (h : operandsOk b i = true) :
    (∀ r ∈ i.regs, r < b.regCount) ∧ (∀ a ∈ i.addrs, (instrAt b a).isSome = true) ∧
    (∀ p ∈ i.idx, (p.1 = "binding_index" → p.2 < b.binds.length) ∧ (p.1 = "ic_index" → p.2 < b.nIC) ∧
      (p.1 = "scope_index" → b.consts[p.2]? = some .scope) ∧ (p.1 = "name_index" → b.consts[p.2]? = some .str)) := by
  unfold operandsOk at h
  simp only [Bool.and_eq_true, List.all_eq_true, decide_eq_true_eq] at h
  obtain ⟨⟨⟨hr, ha⟩, hi⟩, _⟩ := h
  refine ⟨hr, ha, ?_⟩
  intro p hp
  have := hi p hp
  refine ⟨?_, ?_, ?_, ?_⟩ <;> intro hn <;> rw [hn] at this <;> simpa using this

/-- what a valid locator gives the VM: a binding operand that lives in the environment chain names an
    environment below the chain's current length (env_fp + depth) -/
theorem locator_in_chain (b : Block) (i : Instr) (s : Sigma) (fp : Nat) (hfp : b.envFp = some fp)
    (h : locatorsOk b i s = true) (k n : Nat) (hk : ("binding_index", k) ∈ i.idx) (hb : b.binds[k]? = some (.stack n)) :
    n < fp + s.env := by
  unfold locatorsOk at h
  rw [hfp] at h
  simp only [List.all_eq_true] at h
  have := h ("binding_index", k) hk
  simp only [beq_self_eq_true, ↓reduceIte, hb, decide_eq_true_eq] at this
  exact this

/-- HANDLERS GET WHAT THEY ASSUME: in an accepted block, every instruction that can throw inside a handler's range is
    reached, on every path, with at least the environment depth that `handle_exception_at` restores for that handler -/
theorem handlers_assume_right (b : Block) (annot : Annot) (h : check b annot = true) (p : Nat × Sigma) (hr : Reach b p)
    (i : Instr) (hd : Handler) (hi : instrAt b p.1 = some i) (ht : (effect i).throws = true)
    (hh : findHandler b.handlers i.pc = some hd) : hd.envCount ≤ p.2.env := by
  unfold check at h
  simp only [Bool.and_eq_true, List.all_eq_true] at h
  have hm := (check_sound b annot h.1.1 p hr).1
  have := h.2 p hm
  unfold handlerDepthOk at this
  rw [hi] at this
  simp only [ht, ↓reduceIte, hh, decide_eq_true_eq] at this
  exact this

/-- the exception edge of the abstract machine: the handler's target is a successor, entered with an empty value stack,
    no pending binding reference, and the handler's environment count (or the shallower chain, which
    `handlers_assume_right` excludes in accepted blocks) -/
theorem handler_edge (b : Block) (i : Instr) (s : Sigma) (succs : List (Nat × Sigma)) (h : Handler)
    (hs : successors b i s = some succs) (ht : (effect i).throws = true) (hh : findHandler b.handlers i.pc = some h) :
    ∃ d, (h.target, { arg := 0, env := min s.env h.envCount, bind := 0, disp := d }) ∈ succs := by
  unfold successors at hs
  cases ha : applyEff b i s (effect i) with
  | none => rw [ha] at hs; simp at hs
  | some s' =>
    rw [ha] at hs
    simp only [ht, ↓reduceIte, hh, Option.some.injEq] at hs
    refine ⟨s'.disp, ?_⟩
    rw [← hs]
    simp

-- the hypotheses are satisfiable: a block with a loop, a call, an environment push and a handler is accepted,
-- and its inferred annotation is the one the check accepts
def demo : Block :=
  { instrs := [
      { pc := 0, next := 5, op := "PushScope", regs := [], idx := [("scope_index", 0)], addrs := [], names := ["scope_index"] },
      { pc := 5, next := 10, op := "PushFromRegister", regs := [0], idx := [], addrs := [], names := ["src"] },
      { pc := 10, next := 15, op := "PushFromRegister", regs := [1], idx := [], addrs := [], names := ["src"] },
      { pc := 15, next := 20, op := "Call", regs := [], idx := [("argument_count", 0)], addrs := [], names := ["argument_count"] },
      { pc := 20, next := 21, op := "Pop", regs := [], idx := [], addrs := [], names := [] },
      { pc := 21, next := 30, op := "JumpIfTrue", regs := [1], idx := [], addrs := [5], names := ["value", "address"] },
      { pc := 30, next := 31, op := "PopEnvironment", regs := [], idx := [], addrs := [], names := [] },
      { pc := 31, next := 32, op := "Return", regs := [], idx := [], addrs := [], names := [] },
      { pc := 32, next := 37, op := "Exception", regs := [1], idx := [], addrs := [], names := ["dst"] },
      { pc := 37, next := 38, op := "Return", regs := [], idx := [], addrs := [], names := [] } ],
    regCount := 2, consts := [.scope], binds := [], nIC := 0,
    handlers := [{ start := 5, stop := 30, target := 32, envCount := 0 }], entryEnv := 0, envFp := some 0 }

example : check demo (inferBlock demo) = true := by decide
-- ... and a block whose loop body leaks a temporary is not: no annotation makes it pass
example : checkRel { demo with instrs := demo.instrs.filter (fun i => i.pc != 20) } (inferBlock { demo with instrs := demo.instrs.filter (fun i => i.pc != 20) }) = false := by decide

end BoaVerif.C03
