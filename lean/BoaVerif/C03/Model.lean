/-
  C03 model: compiled code blocks (as dumped by the boa_verif hook), the effect of every opcode on the depths
  the VM keeps per frame — temporaries on the value stack above the register file ("arg"), the environment chain
  above env_fp ("env"), pending binding references ("bind") — control-flow successors incl. exception edges as
  `Vm::handle_exception_at` behaves after the fixes (env := handler.environment_count, arg := 0, bind := 0),
  an annotation inference (untrusted) and the local consistency CHECK (trusted, proved sound in Theorems.lean).
  Import-free apart from the generated opcode table.
-/
import BoaVerif.Gen.Opcodes
namespace BoaVerif.C03

structure Instr where
  pc : Nat
  next : Nat                        -- start of the following instruction
  op : String
  regs : List Nat                   -- every register operand
  idx : List (String × Nat)         -- index operands, by field name
  addrs : List Nat                  -- every address operand
  names : List String               -- operand field names in dump order (tied to the generated table)
  deriving Repr

structure Handler where
  start : Nat
  stop : Nat
  target : Nat
  envCount : Nat
  deriving Repr

inductive CKind | str | bigint | func | scope
  deriving Repr, DecidableEq

/-- where a binding of the block's binding table lives: on the global object / in the global declarative
    environment, or in the frame's environment chain at an absolute index (`BindingLocatorScope`) -/
inductive BScope | global | stack (index : Nat)
  deriving Repr, DecidableEq

structure Block where
  instrs : List Instr
  regCount : Nat
  consts : List CKind
  binds : List BScope               -- the binding table
  nIC : Nat
  handlers : List Handler
  entryEnv : Nat                    -- environments the call pushes before the first instruction (function scope, binding identifier)
  envFp : Option Nat                -- environments captured by the closure (`env_fp`); `none` = not supplied, locator check skipped
  deriving Repr

/-- abstract state before an instruction: the three depths, plus the constants known to be held by the registers
    the block dispatches on with `JumpTable` (the compiler parks a `return` value on the value stack while a
    `finally` block runs and records that fact in such a register, so depths are only determined together with it) -/
structure Sigma where
  arg : Nat
  env : Nat
  bind : Nat
  disp : List (Nat × Nat) := []     -- (register, constant), sorted by register, at most one entry per register
  deriving Repr, DecidableEq

inductive Flow
  | next                 -- falls through
  | jump                 -- unconditional: addrs only
  | cond                 -- addrs or fall through
  | stop                 -- Return / Throw / ReThrow: no ordinary successor
  deriving Repr, DecidableEq

structure Eff where
  pop : Nat := 0         -- temporaries consumed
  push : Nat := 0        -- temporaries produced
  envPop : Nat := 0
  envPush : Nat := 0
  bindPop : Nat := 0
  bindPush : Nat := 0
  flow : Flow := .next
  throws : Bool := true  -- may raise a catchable exception
  deriving Repr

def idxOf (i : Instr) (name : String) : Nat := ((i.idx.find? (fun p => p.1 == name)).map (·.2)).getD 0

/-- the hand-written effect table (everything not listed only touches registers) -/
def effect (i : Instr) : Eff :=
  let argc := idxOf i "argument_count"
  match i.op with
  | "PushFromRegister" => { push := 1, throws := false }
  | "PopIntoRegister" => { pop := 1, throws := false }
  | "Pop" => { pop := 1, throws := false }
  | "Call" => { pop := argc + 2, push := 1 }
  | "CallEval" => { pop := argc + 2, push := 1 }
  | "CallSpread" => { pop := 3, push := 1 }
  | "CallEvalSpread" => { pop := 3, push := 1 }
  | "New" => { pop := argc + 2, push := 1 }
  | "NewSpread" => { pop := 3, push := 1 }
  | "SuperCall" => { pop := argc + 2, push := 1 }
  | "SuperCallSpread" => { pop := 3, push := 1 }
  | "SuperCallDerived" => { push := 1 }
  -- suspension points: the resumer pushes (value, resume kind); a sync generator's first resume pushes the kind only
  | "Await" | "GeneratorYield" | "AsyncGeneratorYield" | "AsyncGenerator" => { push := 2 }
  | "Generator" => { push := 1 }
  | "PushScope" => { envPush := 1, throws := false }
  | "PushObjectEnvironment" => { envPush := 1 }
  | "PopEnvironment" => { envPop := 1, throws := false }
  | "GetLocator" => { bindPush := 1 }
  | "GetNameAndLocator" => { bindPush := 1 }
  | "SetNameByLocator" => { bindPop := 1 }
  | "PopLocator" => { bindPop := 1, throws := false }
  | "Jump" => { flow := .jump, throws := false }
  | "JumpIfTrue" | "JumpIfFalse" | "JumpIfNotUndefined" | "JumpIfNullOrUndefined" => { flow := .cond, throws := false }
  | "JumpIfNotLessThan" | "JumpIfNotLessThanOrEqual" | "JumpIfNotGreaterThan" | "JumpIfNotGreaterThanOrEqual"
  | "JumpIfNotEqual" => { flow := .cond }
  | "LogicalAnd" | "LogicalOr" | "Coalesce" => { flow := .cond, throws := false }
  | "JumpTable" => { flow := .cond, throws := false }
  | "TemplateLookup" => { flow := .cond, throws := false }
  | "Case" => { flow := .cond, throws := false }
  | "Return" => { flow := .stop, throws := false }
  -- the TypeError of a derived constructor that returns a primitive goes through `Context::handle_throw`: it unwinds the
  -- frame and is never delivered to a handler of this block
  | "CheckReturn" => { throws := false }
  | "Throw" | "ReThrow" | "ThrowNewTypeError" | "ThrowNewReferenceError" | "ThrowMutateImmutable" | "DeleteSuperThrow" => { flow := .stop }
  | "Move" | "StoreZero" | "StoreOne" | "StoreInt8" | "StoreInt16" | "StoreInt32" | "StoreFloat" | "StoreDouble" | "StoreNan"
  | "StorePositiveInfinity" | "StoreNegativeInfinity" | "StoreNull" | "StoreTrue" | "StoreFalse" | "StoreUndefined"
  | "SetAccumulator" | "SetRegisterFromAccumulator" => { throws := false }
  -- `Exception` re-throws when there is no pending exception (generator `return()` running the finally blocks)
  | _ => { }

/-- innermost handler covering `pc`: the LAST table entry whose range contains it (`CodeBlock::find_handler`) -/
def findHandler (hs : List Handler) (pc : Nat) : Option Handler :=
  hs.reverse.find? (fun h => h.start ≤ pc && pc < h.stop)

/-- registers used as a `JumpTable` index somewhere in the block -/
def tracked (b : Block) : List Nat :=
  (b.instrs.filter (fun i => i.op == "JumpTable")).flatMap (·.regs)

def dispErase (d : List (Nat × Nat)) (r : Nat) : List (Nat × Nat) := d.filter (fun p => p.1 != r)

def dispSet (d : List (Nat × Nat)) (r v : Nat) : List (Nat × Nat) :=
  let d' := dispErase d r
  d'.filter (fun p => p.1 < r) ++ (r, v) :: d'.filter (fun p => r < p.1)

/-- what the instruction does to the known constants: a constant store records it, `JumpTable` only reads,
    anything else that names a tracked register forgets it -/
def dispEffect (b : Block) (i : Instr) (d : List (Nat × Nat)) : List (Nat × Nat) :=
  (i.regs.filter (fun r => (tracked b).contains r)).foldl (fun d r =>
    match i.op with
    | "StoreZero" => dispSet d r 0
    | "StoreOne" => dispSet d r 1
    | "StoreInt8" | "StoreInt16" | "StoreInt32" =>
      (match i.idx.find? (fun p => p.1 == "value") with
       | some p => dispSet d r p.2
       | none => dispErase d r)
    | "JumpTable" => d
    | _ => dispErase d r) d

def applyEff (b : Block) (i : Instr) (s : Sigma) (e : Eff) : Option Sigma :=
  if s.arg < e.pop || s.env < e.envPop || s.bind < e.bindPop then none
  else some { arg := s.arg - e.pop + e.push, env := s.env - e.envPop + e.envPush, bind := s.bind - e.bindPop + e.bindPush,
              disp := dispEffect b i s.disp }

/-- successors of instruction `i` entered in state `s`: `none` = a depth would go negative -/
def successors (b : Block) (i : Instr) (s : Sigma) : Option (List (Nat × Sigma)) :=
  match applyEff b i s (effect i) with
  | none => none
  | some s' =>
    let e := effect i
    let known : Option Nat :=
      if i.op == "JumpTable" then
        match i.regs.head? with
        | some r => (s.disp.find? (fun p => p.1 == r)).map (·.2)
        | none => none
      else none
    let ord : List (Nat × Sigma) :=
      match e.flow with
      | .next => [(i.next, s')]
      | .jump => i.addrs.map (fun a => (a, s'))
      | .cond =>
        (match known with
         | some k => (match i.addrs[k]? with | some a => [(a, s')] | none => [(i.next, s')])
         | none => (i.next, s') :: i.addrs.map (fun a => (a, s')))
      | .stop => []
    if e.throws then
      match findHandler b.handlers i.pc with
      | some h =>
        -- `handle_exception_at` truncates the environment chain to env_fp + h.envCount (a shorter chain stays as it is:
        -- `handlerDepthOk` below is the check that this never happens), the value stack and the binding references
        some (ord ++ [(h.target, { arg := 0, env := min s.env h.envCount, bind := 0, disp := s'.disp })])
      | none => some ord
    else some ord

def instrAt (b : Block) (pc : Nat) : Option Instr := b.instrs.find? (fun i => i.pc == pc)

/-- static operand checks for one instruction -/
def operandsOk (b : Block) (i : Instr) : Bool :=
  i.regs.all (· < b.regCount) &&
  i.addrs.all (fun a => (instrAt b a).isSome) &&
  i.idx.all (fun p =>
    match p.1 with
    | "binding_index" => p.2 < b.binds.length
    | "ic_index" => p.2 < b.nIC
    | "scope_index" => b.consts[p.2]? == some .scope
    | "name_index" => b.consts[p.2]? == some .str
    | _ => true) &&
  (match Gen.Opcodes.table.find? (fun r => r.1 == i.op) with
   | some r =>       -- the dump decodes exactly the operands the opcode table declares (in any order)
     r.2.length == i.names.length && r.2.all (fun f => i.names.contains f.1) && i.names.all (fun n => r.2.any (fun f => f.1 == n))
   | none => false)

/-- a binding operand that names an environment-chain slot must name an environment that exists when the
    instruction runs: absolute index < env_fp + current depth -/
def locatorsOk (b : Block) (i : Instr) (s : Sigma) : Bool :=
  match b.envFp with
  | none => true
  | some fp =>
    i.idx.all (fun p =>
      if p.1 == "binding_index" then
        match b.binds[p.2]? with
        | some (.stack n) => n < fp + s.env
        | _ => true
      else true)

def entry (b : Block) : Sigma := { arg := 0, env := b.entryEnv, bind := 0 }

/-- an annotation is a finite relation between instruction addresses and depth states -/
abbrev Annot := List (Nat × Sigma)

/-- local consistency of one annotated point: the instruction exists, its operands and locators are valid, none of
    its depths goes negative, and every successor (incl. the exception edge) is annotated with the computed state -/
def pointOk (b : Block) (annot : Annot) (p : Nat × Sigma) : Bool :=
  match instrAt b p.1 with
  | none => false
  | some i =>
    operandsOk b i && locatorsOk b i p.2 &&
    (match successors b i p.2 with
     | none => false
     | some succs => succs.all (fun q => annot.contains q))

/-- THE RELAXED CHECK: the annotation contains the entry state and is closed under the step relation -/
def checkRel (b : Block) (annot : Annot) : Bool :=
  annot.contains (0, entry b) &&
  b.handlers.all (fun h => (instrAt b h.target).isSome) &&
  annot.all (pointOk b annot)

/-- depths agree wherever paths merge: one depth triple per address -/
def functional (annot : Annot) : Bool :=
  annot.all (fun p => annot.all (fun q => p.1 != q.1 || (p.2.arg == q.2.arg && p.2.env == q.2.env && p.2.bind == q.2.bind)))

/-- the refined form: one depth triple per address and per valuation of the dispatch registers -/
def functionalDisp (annot : Annot) : Bool :=
  annot.all (fun p => annot.all (fun q => p.1 != q.1 || p.2.disp != q.2.disp || p.2 == q.2))

/-- environment-chain and binding-reference depths agree wherever paths merge (the value-stack depth may differ) -/
def envBindFunctional (annot : Annot) : Bool :=
  annot.all (fun p => annot.all (fun q => p.1 != q.1 || (p.2.env == q.2.env && p.2.bind == q.2.bind)))

/-- what the handler assumes: an instruction that can throw inside a handler's range runs with at least the
    environment depth the handler restores -/
def handlerDepthOk (b : Block) (p : Nat × Sigma) : Bool :=
  match instrAt b p.1 with
  | none => true
  | some i =>
    if (effect i).throws then
      match findHandler b.handlers i.pc with
      | some h => h.envCount ≤ p.2.env
      | none => true
    else true

/-- THE CHECK (the property as stated) -/
def check (b : Block) (annot : Annot) : Bool := checkRel b annot && functional annot && annot.all (handlerDepthOk b)

/-- the check the tree passes everywhere: closure, env/bind agreement at every merge, value-stack depth
    determined by address and dispatch registers -/
def checkDisp (b : Block) (annot : Annot) : Bool := checkRel b annot && envBindFunctional annot && functionalDisp annot

/-- annotation inference (untrusted): the states reachable from the entry, by a worklist with fuel -/
def infer : Nat → Block → List (Nat × Sigma) → Annot → Annot
  | 0, _, _, annot => annot
  | _ + 1, _, [], annot => annot
  | fuel + 1, b, p :: work, annot =>
    if annot.contains p then infer fuel b work annot
    else
      match instrAt b p.1 with
      | none => infer fuel b work (p :: annot)
      | some i =>
        match successors b i p.2 with
        | none => infer fuel b work (p :: annot)
        | some succs => infer fuel b (succs ++ work) (p :: annot)

def inferBlock (b : Block) : Annot :=
  infer (b.instrs.length * 64 + 256) b [(0, entry b)] []

end BoaVerif.C03
