/- C04 — binding placement never changes program behaviour. Property theorems (with their proofs). -/
import BoaVerif.C04.Model
namespace BoaVerif.C04

/-- the simulation relation: the reference store is the merged view of the split state -/
def Sim (p : Placement) (s : Store) (m : Split) : Prop := ∀ x, s x = m.get p x

theorem sim_put {p : Placement} {s : Store} {m : Split} (h : Sim p s m) (x : Name) (v : Int) : Sim p (s.set x v) (m.put p x v) := by
  intro y
  unfold Store.set Split.put Split.get
  by_cases hy : y = x
  · subst hy
    cases hp : p y <;> simp [hp, Store.set]
  · have := h y
    unfold Split.get at this
    cases hpx : p x <;> cases hpy : p y <;> simp [hpx, hpy, hy, Store.set] <;> simp [hpy] at this <;> exact this

theorem eval_sim (out : Outside) (p : Placement) (hr : Respects out p) : ∀ (e : Expr) (s : Store) (m : Split), Sim p s m →
    (evalRef out e s).2 = (evalOpt out p e m).2 ∧ Sim p (evalRef out e s).1 (evalOpt out p e m).1 := by
  intro e
  induction e with
  | lit n => intro s m h; exact ⟨rfl, h⟩
  | var x => intro s m h; exact ⟨h x, h⟩
  | add a b iha ihb =>
    intro s m h
    obtain ⟨ha1, ha2⟩ := iha s m h
    obtain ⟨hb1, hb2⟩ := ihb _ _ ha2
    simp only [evalRef, evalOpt]
    exact ⟨by rw [ha1, hb1], hb2⟩
  | mul a b iha ihb =>
    intro s m h
    obtain ⟨ha1, ha2⟩ := iha s m h
    obtain ⟨hb1, hb2⟩ := ihb _ _ ha2
    simp only [evalRef, evalOpt]
    exact ⟨by rw [ha1, hb1], hb2⟩
  | lt a b iha ihb =>
    intro s m h
    obtain ⟨ha1, ha2⟩ := iha s m h
    obtain ⟨hb1, hb2⟩ := ihb _ _ ha2
    simp only [evalRef, evalOpt]
    exact ⟨by rw [ha1, hb1], hb2⟩
  | callOut k a iha =>
    intro s m h
    obtain ⟨ha1, ha2⟩ := iha s m h
    simp only [evalRef, evalOpt]
    generalize evalRef out a s = r1 at ha1 ha2
    generalize evalOpt out p a m = r2 at ha1 ha2
    obtain ⟨s1, v1⟩ := r1
    obtain ⟨m1, v2⟩ := r2
    simp only at ha1 ha2
    subst ha1
    -- the two environments agree on every variable that is not in a register
    have hagree : ∀ x, p x = false → s1 x = m1.env x := by
      intro x hx
      have := ha2 x
      unfold Split.get at this
      simpa [hx] using this
    obtain ⟨hv, henv, hloc⟩ := hr k s1 m1.env v1 hagree
    refine ⟨hv, ?_⟩
    intro x
    unfold Split.get
    cases hx : p x with
    | false => simpa [hx] using henv x hx
    | true =>
      have h1 := hloc x hx
      have h2 := ha2 x
      unfold Split.get at h2
      simp [hx] at h2 ⊢
      rw [h1]; exact h2

/-- PLACEMENT IS UNOBSERVABLE: if outside code respects the placement (no variable kept in a register escapes), the
    optimised machine prints exactly what the reference machine prints, for every program, every placement and every
    behaviour of the outside code — and the two states stay related, so this holds for any continuation -/
theorem exec_sim (out : Outside) (p : Placement) (hr : Respects out p) : ∀ (st : Stmt) (s : Store) (m : Split) (tr : List Int), Sim p s m →
    (execRef out st (s, tr)).2 = (execOpt out p st (m, tr)).2 ∧ Sim p (execRef out st (s, tr)).1 (execOpt out p st (m, tr)).1 := by
  intro st
  induction st with
  | assign x e =>
    intro s m tr h
    obtain ⟨h1, h2⟩ := eval_sim out p hr e s m h
    simp only [execRef, execOpt]
    generalize evalRef out e s = r1 at h1 h2
    generalize evalOpt out p e m = r2 at h1 h2
    obtain ⟨s1, v1⟩ := r1
    obtain ⟨m1, v2⟩ := r2
    simp only at h1 h2 ⊢
    subst h1
    exact ⟨by simp, sim_put h2 x v1⟩
  | print e =>
    intro s m tr h
    obtain ⟨h1, h2⟩ := eval_sim out p hr e s m h
    simp only [execRef, execOpt]
    generalize evalRef out e s = r1 at h1 h2
    generalize evalOpt out p e m = r2 at h1 h2
    obtain ⟨s1, v1⟩ := r1
    obtain ⟨m1, v2⟩ := r2
    simp only at h1 h2 ⊢
    subst h1
    exact ⟨by simp, h2⟩
  | seq a b iha ihb =>
    intro s m tr h
    obtain ⟨h1, h2⟩ := iha s m tr h
    simp only [execRef, execOpt]
    generalize execRef out a (s, tr) = r1 at h1 h2
    generalize execOpt out p a (m, tr) = r2 at h1 h2
    obtain ⟨s1, t1⟩ := r1
    obtain ⟨m1, t2⟩ := r2
    simp only at h1 h2
    subst h1
    exact ihb s1 m1 t1 h2
  | ite c t e iht ihe =>
    intro s m tr h
    obtain ⟨h1, h2⟩ := eval_sim out p hr c s m h
    simp only [execRef, execOpt]
    generalize evalRef out c s = r1 at h1 h2
    generalize evalOpt out p c m = r2 at h1 h2
    obtain ⟨s1, v1⟩ := r1
    obtain ⟨m1, v2⟩ := r2
    simp only at h1 h2 ⊢
    subst h1
    by_cases hv : v1 ≠ 0
    · rw [if_pos hv, if_pos hv]; exact iht s1 m1 tr h2
    · rw [if_neg hv, if_neg hv]; exact ihe s1 m1 tr h2
  | loop n c body ihb =>
    intro s m tr h
    induction n generalizing s m tr with
    | zero => simp only [execRef, execOpt]; exact ⟨trivial, h⟩
    | succ n ihn =>
      obtain ⟨h1, h2⟩ := eval_sim out p hr c s m h
      simp only [execRef, execOpt]
      generalize evalRef out c s = r1 at h1 h2
      generalize evalOpt out p c m = r2 at h1 h2
      obtain ⟨s1, v1⟩ := r1
      obtain ⟨m1, v2⟩ := r2
      simp only at h1 h2 ⊢
      subst h1
      by_cases hv : v1 ≠ 0
      · rw [if_pos hv, if_pos hv]
        obtain ⟨hb1, hb2⟩ := ihb s1 m1 tr h2
        generalize execRef out body (s1, tr) = q1 at hb1 hb2
        generalize execOpt out p body (m1, tr) = q2 at hb1 hb2
        obtain ⟨s2, t1⟩ := q1
        obtain ⟨m2, t2⟩ := q2
        simp only at hb1 hb2
        subst hb1
        exact ihn s2 m2 t1 hb2
      · rw [if_neg hv, if_neg hv]; exact ⟨rfl, h2⟩

/-- the statement for whole activations started from the same initial values -/
theorem placement_unobservable (out : Outside) (p : Placement) (hr : Respects out p) (st : Stmt) (init : Store) :
    (execRef out st (init, [])).2 = (execOpt out p st ({ regs := init, env := init }, [])).2 :=
  (exec_sim out p hr st init { regs := init, env := init } [] (by intro x; unfold Split.get; cases p x <;> rfl)).1

/-- A CONSTANT BINDING MAY BE SERVED FROM A REGISTER COPY: if nothing assigns to `x` (the compiler rejects assignments
    to a const, outside code respects it too), a copy taken after initialisation equals every later read -/
theorem const_cache_valid (out : Outside) (hconst : ∀ k s a, (out k s a).1 x = s x) :
    ∀ (e : Expr) (s : Store), (evalRef out e s).1 x = s x := by
  intro e
  induction e with
  | lit n => intro s; rfl
  | var y => intro s; rfl
  | add a b iha ihb => intro s; simp only [evalRef]; rw [ihb, iha]
  | mul a b iha ihb => intro s; simp only [evalRef]; rw [ihb, iha]
  | lt a b iha ihb => intro s; simp only [evalRef]; rw [ihb, iha]
  | callOut k a iha => intro s; simp only [evalRef]; rw [hconst, iha]

/-- the concrete outside functions used by the correspondence run respect the placement "register iff mentioned by no
    outside function" — so `placement_unobservable` applies to every generated toy program -/
theorem tableOut_respects (tbl : List (Name × Name)) : Respects (tableOut tbl) (tablePlacement tbl) := by
  intro k s s' a hag
  unfold tableOut
  cases hk : tbl[k]? with
  | none => exact ⟨rfl, fun x hx => hag x hx, fun _ _ => rfl⟩
  | some rw =>
    obtain ⟨r, w⟩ := rw
    have hmem : (r, w) ∈ tbl := List.mem_of_getElem? hk
    have hr : tablePlacement tbl r = false := by
      unfold tablePlacement
      rw [List.all_eq_false]
      exact ⟨(r, w), hmem, by simp⟩
    have hw : tablePlacement tbl w = false := by
      unfold tablePlacement
      rw [List.all_eq_false]
      exact ⟨(r, w), hmem, by simp⟩
    have hrr := hag r hr
    simp only
    refine ⟨by rw [hrr], ?_, ?_⟩
    · intro x hx
      unfold Store.set
      by_cases hxw : x = w
      · simp [hxw, hrr]
      · simp [hxw, hag x hx]
    · intro x hx
      unfold Store.set
      have : x ≠ w := by intro h; subst h; rw [hw] at hx; exact Bool.noConfusion hx
      simp [this]

theorem table_programs_agree (tbl : List (Name × Name)) (st : Stmt) (init : Store) :
    (execRef (tableOut tbl) st (init, [])).2 = (execOpt (tableOut tbl) (tablePlacement tbl) st ({ regs := init, env := init }, [])).2 :=
  placement_unobservable _ _ (tableOut_respects tbl) st init

-- the condition is needed: a callee that reads a variable kept in a register sees a stale value
example : (execRef (fun _ s _ => (s, s 0)) (.seq (.assign 0 (.lit 5)) (.print (.callOut 0 (.lit 0)))) (fun _ => 0, [])).2 = [5] ∧
    (execOpt (fun _ s _ => (s, s 0)) (fun x => x == 0) (.seq (.assign 0 (.lit 5)) (.print (.callOut 0 (.lit 0)))) ({ regs := fun _ => 0, env := fun _ => 0 }, [])).2 = [0] := by
  constructor <;> simp [execRef, execOpt, evalRef, evalOpt, Store.set, Split.put]

end BoaVerif.C04
