/-
  C04 model: two ways of storing the variables of an activation. In the reference machine every variable lives in the
  environment record that closures and callees share. In the optimised machine the variables the scope analysis calls
  `local` live in frame registers that nothing outside the activation can see, and reads of a `const` binding may be
  served from a register copy taken at initialisation. Everything outside the activation — callees, closures, eval —
  is an opaque transformer of the shared environment.  Import-free.
-/
namespace BoaVerif.C04

abbrev Name := Nat
abbrev Store := Name → Int

def Store.set (s : Store) (x : Name) (v : Int) : Store := fun y => if y = x then v else s y

inductive Expr
  | lit (n : Int)
  | var (x : Name)
  | add (a b : Expr)
  | mul (a b : Expr)
  | lt (a b : Expr)
  | callOut (k : Nat) (arg : Expr)     -- code outside the activation: sees and may change the shared environment
  deriving Repr

inductive Stmt
  | assign (x : Name) (e : Expr)
  | print (e : Expr)
  | seq (a b : Stmt)
  | ite (c : Expr) (t e : Stmt)
  | loop (n : Nat) (c : Expr) (body : Stmt)   -- at most n iterations (the bound stands for the loop-iteration limit)
  deriving Repr

/-- what outside code does: from the shared environment and an argument to a new environment and a result -/
abbrev Outside := Nat → Store → Int → Store × Int

-- ------------------------------------------------------------------ the reference machine: one store
def evalRef (out : Outside) : Expr → Store → Store × Int
  | .lit n, s => (s, n)
  | .var x, s => (s, s x)
  | .add a b, s => let (s1, va) := evalRef out a s; let (s2, vb) := evalRef out b s1; (s2, va + vb)
  | .mul a b, s => let (s1, va) := evalRef out a s; let (s2, vb) := evalRef out b s1; (s2, va * vb)
  | .lt a b, s => let (s1, va) := evalRef out a s; let (s2, vb) := evalRef out b s1; (s2, if va < vb then 1 else 0)
  | .callOut k a, s => let (s1, va) := evalRef out a s; out k s1 va

def execRef (out : Outside) : Stmt → Store × List Int → Store × List Int
  | .assign x e, (s, tr) => let (s1, v) := evalRef out e s; (s1.set x v, tr)
  | .print e, (s, tr) => let (s1, v) := evalRef out e s; (s1, tr ++ [v])
  | .seq a b, st => execRef out b (execRef out a st)
  | .ite c t e, (s, tr) => let (s1, v) := evalRef out c s; if v ≠ 0 then execRef out t (s1, tr) else execRef out e (s1, tr)
  | .loop 0 _ _, st => st
  | .loop (n + 1) c body, (s, tr) =>
    let (s1, v) := evalRef out c s
    if v ≠ 0 then execRef out (.loop n c body) (execRef out body (s1, tr)) else (s1, tr)

-- ------------------------------------------------------------------ the optimised machine: registers + environment
structure Split where
  regs : Store       -- values of the local variables
  env : Store        -- the shared environment (what outside code sees)

/-- which variables the scope analysis keeps in registers -/
abbrev Placement := Name → Bool

def Split.get (p : Placement) (m : Split) (x : Name) : Int := if p x then m.regs x else m.env x
def Split.put (p : Placement) (m : Split) (x : Name) (v : Int) : Split :=
  if p x then { m with regs := m.regs.set x v } else { m with env := m.env.set x v }

def evalOpt (out : Outside) (p : Placement) : Expr → Split → Split × Int
  | .lit n, m => (m, n)
  | .var x, m => (m, m.get p x)
  | .add a b, m => let (m1, va) := evalOpt out p a m; let (m2, vb) := evalOpt out p b m1; (m2, va + vb)
  | .mul a b, m => let (m1, va) := evalOpt out p a m; let (m2, vb) := evalOpt out p b m1; (m2, va * vb)
  | .lt a b, m => let (m1, va) := evalOpt out p a m; let (m2, vb) := evalOpt out p b m1; (m2, if va < vb then 1 else 0)
  | .callOut k a, m =>
    let (m1, va) := evalOpt out p a m
    let r := out k m1.env va
    ({ m1 with env := r.1 }, r.2)

def execOpt (out : Outside) (p : Placement) : Stmt → Split × List Int → Split × List Int
  | .assign x e, (m, tr) => let (m1, v) := evalOpt out p e m; (m1.put p x v, tr)
  | .print e, (m, tr) => let (m1, v) := evalOpt out p e m; (m1, tr ++ [v])
  | .seq a b, st => execOpt out p b (execOpt out p a st)
  | .ite c t e, (m, tr) => let (m1, v) := evalOpt out p c m; if v ≠ 0 then execOpt out p t (m1, tr) else execOpt out p e (m1, tr)
  | .loop 0 _ _, st => st
  | .loop (n + 1) c body, (m, tr) =>
    let (m1, v) := evalOpt out p c m
    if v ≠ 0 then execOpt out p (.loop n c body) (execOpt out p body (m1, tr)) else (m1, tr)

/-- the merged view of a split state -/
def Split.merged (p : Placement) (m : Split) : Store := fun x => m.get p x

/-- THE CONDITION THE SCOPE ANALYSIS HAS TO ESTABLISH: outside code neither depends on nor changes a variable that was
    placed in a register (it does not escape) -/
def Respects (out : Outside) (p : Placement) : Prop :=
  ∀ k (s s' : Store) (a : Int), (∀ x, p x = false → s x = s' x) →
    (out k s a).2 = (out k s' a).2 ∧
    (∀ x, p x = false → (out k s a).1 x = (out k s' a).1 x) ∧
    (∀ x, p x = true → (out k s a).1 x = s x)

end BoaVerif.C04

namespace BoaVerif.C04

/-- a concrete family of outside functions: function `k` reads variable `r`, writes variable `w`:
    `function f_k(a) { let t = v_r + a; v_w = t; return t * 2 - a }` -/
def tableOut (tbl : List (Name × Name)) : Outside := fun k s a =>
  match tbl[k]? with
  | some (r, w) => let t := s r + a; (s.set w t, t * 2 - a)
  | none => (s, 0)

/-- the placement the escape analysis must choose at most: a variable may live in a register only if no outside
    function mentions it -/
def tablePlacement (tbl : List (Name × Name)) : Placement := fun x => tbl.all (fun rw => rw.1 != x && rw.2 != x)

end BoaVerif.C04
