/- C10 — garbage collection is unobservable to scripts and leaves nothing behind. Property theorems.
   They are stated over the C09 model of boa_gc's collector (BoaVerif/C09/Model.lean) and use its safety and
   completeness theorems; the mutator's view of the heap is "follow a path of fields from a handle it holds". -/
import BoaVerif.C09.Theorems
namespace BoaVerif.C10
open BoaVerif.C09

/-- what a script can do with a handle: read field `k` of the object, repeatedly -/
def follow (h : Heap) : Nat → List Nat → Option Nat
  | i, [] => some i
  | i, k :: ks =>
    match h.nodes[i]? with
    | some n => if n.alive then (match n.edges[k]? with | some j => follow h j ks | none => none) else none
    | none => none

/-- no live object holds a handle to a freed one (an invariant of every heap the mutator operations build) -/
def NoDangling (h : Heap) : Prop :=
  ∀ (i : Nat) (n : Node), h.nodes[i]? = some n → n.alive = true → ∀ t ∈ n.edges, ∃ m, h.nodes[t]? = some m ∧ m.alive = true

theorem follow_collect (h : Heap) (he : h.ephs = []) (hb : h.mapBoxes = []) (hnm : NoMarks h) (hrc : RC h) (hnd : NoDangling h) :
    ∀ (path : List Nat) (i : Nat) (n : Node), h.nodes[i]? = some n → n.alive = true → ExtReach h i →
      follow (collect h) i path = follow h i path := by
  intro path
  induction path with
  | nil => intro i n _ _ _; rfl
  | cons k ks ih =>
    intro i n hn ha hr
    obtain ⟨n', hn', ha', _, _, he', _, _⟩ := safety h he hb hnm hrc i n hn ha hr
    simp only [follow, hn', hn, ha', ha, ↓reduceIte, he']
    cases hk : n.edges[k]? with
    | none => rfl
    | some j =>
      have hj : j ∈ n.edges := List.mem_of_getElem? hk
      obtain ⟨m, hm, hma⟩ := hnd i n hn ha j hj
      have hv : validId h j := (List.getElem?_eq_some_iff.mp hm).1
      have hrj : ExtReach h j := Reach.step hr (by unfold edgesOf; rw [hn]; exact hj) hv
      exact ih j m hm hma hrj

/-- GC IS UNOBSERVABLE: whatever the script holds a handle to, every chain of field reads from it gives the same
    object identities after a collection as before it (same fields, same liveness, at every depth) -/
theorem gc_unobservable (h : Heap) (he : h.ephs = []) (hb : h.mapBoxes = []) (hnm : NoMarks h) (hrc : RC h) (hnd : NoDangling h)
    (r : Nat) (n : Node) (hn : h.nodes[r]? = some n) (ha : n.alive = true) (hext : 0 < h.ext.count r) (path : List Nat) :
    follow (collect h) r path = follow h r path := by
  have hmem : r ∈ aliveIds h.nodes := by
    unfold aliveIds
    simp only [List.mem_filter, List.mem_range]
    exact ⟨(List.getElem?_eq_some_iff.mp hn).1, by rw [hn]; exact ha⟩
  exact follow_collect h he hb hnm hrc hnd path r n hn ha (Reach.base ⟨hmem, hext⟩ (List.getElem?_eq_some_iff.mp hn).1)

/-- A WEAK REFERENCE ONLY EVER LOSES AN UNREACHABLE TARGET: an object that is live before a collection and freed by it
    was not reachable from any handle the script holds -/
theorem cleared_only_if_unreachable (h : Heap) (he : h.ephs = []) (hb : h.mapBoxes = []) (hnm : NoMarks h) (hrc : RC h)
    (i : Nat) (n n' : Node) (hn : h.nodes[i]? = some n) (ha : n.alive = true)
    (hn' : (collect h).nodes[i]? = some n') (hd : n'.alive = false) : ¬ ExtReach h i := by
  intro hr
  obtain ⟨m, hm, hma, _⟩ := safety h he hb hnm hrc i n hn ha hr
  rw [hn'] at hm
  cases hm
  rw [hd] at hma
  exact absurd hma (by simp)

/-- ... AND AT MOST ONCE: the finalizer / drop counters of an object move by exactly one in the collection that frees it
    and never again -/
theorem freed_once (h : Heap) (he : h.ephs = []) (hb : h.mapBoxes = []) (hnm : NoMarks h) (hrc : RC h)
    (i : Nat) (n : Node) (hn : h.nodes[i]? = some n) (hdead : n.alive = false) :
    ∃ n', (collect h).nodes[i]? = some n' ∧ n'.alive = false ∧ n'.dropped = n.dropped ∧ n'.finalized = n.finalized := by
  obtain ⟨n', hn', _, hd⟩ := completeness h he hb hnm hrc i n hn
  exact ⟨n', hn', hd hdead⟩

theorem no_reach_without_handles (h : Heap) (hext : h.ext = []) (i : Nat) : ¬ ExtReach h i := by
  intro r
  unfold ExtReach at r
  induction r with
  | base hs _ => rw [hext] at hs; simp at hs
  | step _ _ _ ih => exact ih

/-- NOTHING IS LEFT BEHIND: once every handle is gone (the context and all values were dropped) one collection frees
    every object that exists, cycles included -/
theorem drop_all_reclaims (h : Heap) (he : h.ephs = []) (hb : h.mapBoxes = []) (hnm : NoMarks h) (hrc : RC h)
    (hext : h.ext = []) (i : Nat) (n : Node) (hn : h.nodes[i]? = some n) :
    ∃ n', (collect h).nodes[i]? = some n' ∧ n'.alive = false := by
  obtain ⟨m, hm, hlive, hd⟩ := completeness h he hb hnm hrc i n hn
  refine ⟨m, hm, ?_⟩
  cases ha : n.alive with
  | true => exact (hlive ha (no_reach_without_handles h hext i)).1
  | false => exact (hd ha).1

-- non-vacuity: the C09 example heap (a cycle, a chain and garbage) satisfies the hypotheses used above
example : follow { nodes := [{ edges := [1] }, { edges := [0], refCount := 1 }], ext := [0] } 0 [0, 0, 0] = some 1 := by decide

end BoaVerif.C10
