/-
  C11 model: `JsStr` (core/string/src/str.rs) with its two encodings and every operation,
  written with the same variant-wise case splits as the Rust. Code units and bytes are `Nat`s
  (a Latin-1 byte b and the code unit u16::from(b) are the same number); well-formedness
  (`WF`) bounds them by 256 / 65536.  Import-free.
-/
namespace BoaVerif.C11

inductive JsStr
  | latin1 (bs : List Nat)
  | utf16 (us : List Nat)
  deriving Repr, DecidableEq

/-- the UTF-16 code-unit sequence a string denotes (`JsStr::iter`) -/
def JsStr.units : JsStr → List Nat
  | .latin1 bs => bs
  | .utf16 us => us

def JsStr.WF : JsStr → Prop
  | .latin1 bs => ∀ b ∈ bs, b < 256
  | .utf16 us => ∀ u ∈ us, u < 65536

def JsStr.isLatin1 : JsStr → Bool
  | .latin1 _ => true
  | .utf16 _ => false

def JsStr.len : JsStr → Nat
  | .latin1 bs => bs.length
  | .utf16 us => us.length

/-- `Iterator::zip` + `!=` loop of `PartialEq for JsStr` (mixed-encoding arm) -/
def zipAllEq : List Nat → List Nat → Bool
  | x :: xs, y :: ys => if x != y then false else zipAllEq xs ys
  | _, _ => true

/-- `impl PartialEq for JsStr` -/
def JsStr.eq (a b : JsStr) : Bool :=
  match a, b with
  | .latin1 x, .latin1 y => x == y
  | .utf16 x, .utf16 y => x == y
  | _, _ => if a.len != b.len then false else zipAllEq a.units b.units

inductive Ord3 | lt | eq | gt
  deriving Repr, DecidableEq

/-- slice / iterator lexicographic comparison (`<[T] as Ord>::cmp`, `Iterator::cmp`) -/
def lexCmp : List Nat → List Nat → Ord3
  | [], [] => .eq
  | [], _ :: _ => .lt
  | _ :: _, [] => .gt
  | x :: xs, y :: ys => if x < y then .lt else if y < x then .gt else lexCmp xs ys

/-- `impl Ord for JsStr` -/
def JsStr.cmp (a b : JsStr) : Ord3 :=
  match a, b with
  | .latin1 x, .latin1 y => lexCmp x y
  | .utf16 x, .utf16 y => lexCmp x y
  | _, _ => lexCmp a.units b.units

/-- `impl Hash for JsStr`: the sequence of hasher calls — `write_usize(len)` then `write_u16` per unit -/
def JsStr.hashWrites : JsStr → List Nat
  | .latin1 s => s.length :: s
  | .utf16 s => s.length :: s

/-- `get(i)` for a single index: the code unit -/
def JsStr.getUnit (s : JsStr) (i : Nat) : Option Nat :=
  match s with
  | .latin1 v => v[i]?
  | .utf16 v => v[i]?

/-- sub-slice `get(a..b)` keeps the encoding; `none` when out of range (Rust slice indexing) -/
def JsStr.sub (s : JsStr) (a b : Nat) : Option JsStr :=
  if a ≤ b ∧ b ≤ s.len then
    match s with
    | .latin1 v => some (.latin1 ((v.drop a).take (b - a)))
    | .utf16 v => some (.utf16 ((v.drop a).take (b - a)))
  else none

def JsStr.startsWith (s needle : JsStr) : Bool :=
  let n := needle.len
  s.len ≥ n && (match s.sub 0 n with | some p => needle.eq p | none => false)

def JsStr.endsWith (s needle : JsStr) : Bool :=
  let m := s.len
  let n := needle.len
  m ≥ n && (match s.sub (m - n) m with | some p => needle.eq p | none => false)

/-- `slice::windows(size)` (size > 0) -/
def windowsL (size : Nat) : List Nat → List (List Nat)
  | [] => []
  | x :: xs => if (x :: xs).length ≥ size then (x :: xs).take size :: windowsL size xs else []

def JsStr.windows (s : JsStr) (size : Nat) : List JsStr :=
  match s with
  | .latin1 v => (windowsL size v).map .latin1
  | .utf16 v => (windowsL size v).map .utf16

def positionOf (p : α → Bool) : List α → Option Nat
  | [] => none
  | x :: xs => if p x then some 0 else (positionOf p xs).map (· + 1)

/-- `JsStr::index_of` -/
def JsStr.indexOf (s search : JsStr) (fromIndex : Nat) : Option Nat :=
  let len := s.len
  if search.len == 0 then (if fromIndex ≤ len then some fromIndex else none)
  else ((positionOf (fun w => w.eq search) ((s.windows search.len).drop fromIndex)).map (· + fromIndex))

inductive CodePoint
  | unicode (c : Nat)
  | unpaired (u : Nat)
  deriving Repr, DecidableEq

def isHigh (u : Nat) : Bool := 0xD800 ≤ u && u ≤ 0xDBFF
def isLow (u : Nat) : Bool := 0xDC00 ≤ u && u ≤ 0xDFFF

/-- first item of `char::decode_utf16` on (first, second?) -/
def decodeFirst (first : Nat) (second : Option Nat) : CodePoint :=
  if !(isHigh first) && !(isLow first) then .unicode first
  else if isLow first then .unpaired first
  else match second with
    | some s => if isLow s then .unicode (0x10000 + (first - 0xD800) * 0x400 + (s - 0xDC00)) else .unpaired first
    | none => .unpaired first

/-- `JsStr::code_point_at` (`none` = the `assert!(position < size)` panic) -/
def JsStr.codePointAt (s : JsStr) (pos : Nat) : Option CodePoint :=
  if pos < s.len then
    match s with
    | .latin1 v => (v[pos]?).map .unicode
    | .utf16 v => (v[pos]?).map (fun f => decodeFirst f v[pos + 1]?)
  else none

/-- `JsStr::contains(element: u8)` -/
def JsStr.contains (s : JsStr) (e : Nat) : Bool :=
  match s with
  | .latin1 v => v.contains e
  | .utf16 v => v.contains e

/-- `is_trimmable_whitespace_latin1` -/
def isTrimLatin1 (c : Nat) : Bool :=
  c == 0x09 || c == 0x0B || c == 0x0C || c == 0x20 || c == 0xA0 || c == 0x0A || c == 0x0D

/-- `char::from_u32(u32::from(r)).is_some_and(is_trimmable_whitespace)` on a code unit:
    surrogates are not chars, so they are never trimmable -/
def isTrimUnit (r : Nat) : Bool :=
  !(0xD800 ≤ r && r ≤ 0xDFFF) &&
  (r == 0x0009 || r == 0x000B || r == 0x000C || r == 0x0020 || r == 0x00A0 || r == 0xFEFF ||
   r == 0x1680 || (0x2000 ≤ r && r ≤ 0x200A) || r == 0x202F || r == 0x205F || r == 0x3000 ||
   r == 0x000A || r == 0x000D || r == 0x2028 || r == 0x2029)

def rpositionOf (p : α → Bool) (l : List α) : Option Nat :=
  (positionOf p l.reverse).map (fun i => l.length - 1 - i)

def sliceUnchecked (s : JsStr) (a b : Nat) : JsStr :=
  match s with
  | .latin1 v => .latin1 ((v.drop a).take (b - a))
  | .utf16 v => .utf16 ((v.drop a).take (b - a))

/-- the static empty string is Latin-1 -/
def emptyStr : JsStr := .latin1 []

def trimPred (s : JsStr) : Nat → Bool :=
  match s with
  | .latin1 _ => fun c => !isTrimLatin1 c
  | .utf16 _ => fun c => !isTrimUnit c

/-- `JsString::trim` -/
def JsStr.trim (s : JsStr) : JsStr :=
  match positionOf (trimPred s) s.units with
  | none => emptyStr
  | some start =>
    let e := (rpositionOf (trimPred s) s.units).getD start
    sliceUnchecked s start (e + 1)

def JsStr.trimStart (s : JsStr) : JsStr :=
  match positionOf (trimPred s) s.units with
  | none => emptyStr
  | some start => sliceUnchecked s start s.len

def JsStr.trimEnd (s : JsStr) : JsStr :=
  match rpositionOf (trimPred s) s.units with
  | none => emptyStr
  | some e => sliceUnchecked s 0 (e + 1)

/-- `JsString::slice(p1, p2)` with its clamping -/
def JsStr.slice (s : JsStr) (p1 p2 : Nat) : JsStr :=
  let p2 := if p2 > s.len then s.len else p2
  if p1 ≥ p2 then emptyStr else sliceUnchecked s p1 p2

/-- `JsString::concat_array`: Latin-1 iff every part is -/
def concatArray (parts : List JsStr) : JsStr :=
  if parts.all JsStr.isLatin1 then .latin1 (parts.flatMap JsStr.units)
  else .utf16 (parts.flatMap JsStr.units)

/-- `String::from_utf16` as a list of scalar values; `none` = FromUtf16Error -/
def decodeAll : Nat → List Nat → Option (List Nat)
  | 0, _ => some []
  | _, [] => some []
  | fuel + 1, f :: rest =>
    if !(isHigh f) && !(isLow f) then (decodeAll fuel rest).map (f :: ·)
    else if isLow f then none
    else match rest with
      | s :: rest' => if isLow s then (decodeAll fuel rest').map ((0x10000 + (f - 0xD800) * 0x400 + (s - 0xDC00)) :: ·) else none
      | [] => none

/-- `JsStr::to_std_string` -/
def JsStr.toStdString (s : JsStr) : Option (List Nat) :=
  match s with
  | .latin1 v => some v
  | .utf16 v => decodeAll (v.length + 1) v

/-- `str::encode_utf16` on a list of Unicode scalar values -/
def encodeUtf16 : List Nat → List Nat
  | [] => []
  | c :: cs => if c < 0x10000 then c :: encodeUtf16 cs
               else (0xD800 + (c - 0x10000) / 0x400) :: (0xDC00 + (c - 0x10000) % 0x400) :: encodeUtf16 cs

/-- `Iterator::eq` -/
def iterEq : List Nat → List Nat → Bool
  | [], [] => true
  | x :: xs, y :: ys => x == y && iterEq xs ys
  | _, _ => false

/-- `impl PartialEq<str> for JsStr` (after the fix: `self.iter().eq(other.encode_utf16())`) -/
def JsStr.eqStr (s : JsStr) (other : List Nat) : Bool := iterEq s.units (encodeUtf16 other)

/-- `impl From<&str> for JsString`: choice of representation -/
def fromStr (cps : List Nat) : JsStr :=
  if cps.all (· < 128) then .latin1 cps
  else if cps.all (· ≤ 0xFF) then .latin1 cps
  else .utf16 (encodeUtf16 cps)

/-- `impl From<&[u16]> for JsString` -/
def fromUnits (us : List Nat) : JsStr := .utf16 us

/-! ### the same operations on a plain array of code units (the specification side) -/
namespace Spec
def eq (u v : List Nat) : Bool := u == v
def cmp (u v : List Nat) : Ord3 := lexCmp u v
def hashWrites (u : List Nat) : List Nat := u.length :: u
def len (u : List Nat) : Nat := u.length
def getUnit (u : List Nat) (i : Nat) : Option Nat := u[i]?
def startsWith (u n : List Nat) : Bool := u.take n.length == n && n.length ≤ u.length
def endsWith (u n : List Nat) : Bool := n.length ≤ u.length && u.drop (u.length - n.length) == n
def indexOf (u s : List Nat) (fromIndex : Nat) : Option Nat :=
  if s.length == 0 then (if fromIndex ≤ u.length then some fromIndex else none)
  else (positionOf (fun w => w == s) ((windowsL s.length u).drop fromIndex)).map (· + fromIndex)
def codePointAt (u : List Nat) (pos : Nat) : Option CodePoint :=
  if pos < u.length then (u[pos]?).map (fun f => decodeFirst f u[pos + 1]?) else none
def contains (u : List Nat) (e : Nat) : Bool := u.contains e
def trimStart (u : List Nat) : List Nat := u.dropWhile isTrimUnit
def trimEnd (u : List Nat) : List Nat := (u.reverse.dropWhile isTrimUnit).reverse
def trim (u : List Nat) : List Nat := trimEnd (trimStart u)
def slice (u : List Nat) (p1 p2 : Nat) : List Nat :=
  let p2 := min p2 u.length
  if p1 ≥ p2 then [] else (u.drop p1).take (p2 - p1)
def concat (parts : List (List Nat)) : List Nat := parts.flatMap id
def toStdString (u : List Nat) : Option (List Nat) := decodeAll (u.length + 1) u
def eqStr (u : List Nat) (other : List Nat) : Bool := u == encodeUtf16 other
end Spec

end BoaVerif.C11
