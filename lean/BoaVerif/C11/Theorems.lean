/- C11 — string behaviour depends only on the code-unit sequence. Property theorems only. -/
import BoaVerif.C11.Lemmas2
namespace BoaVerif.C11

/-- every operation of `JsStr`, on either encoding, agrees with the same operation on the plain
    array of code units the string denotes -/
theorem op_agrees_with_units (a b : JsStr) (ha : a.WF) (i j e : Nat) (t : List Nat) :
    a.eq b = Spec.eq a.units b.units ∧
    a.cmp b = Spec.cmp a.units b.units ∧
    a.hashWrites = Spec.hashWrites a.units ∧
    a.len = Spec.len a.units ∧
    a.getUnit i = Spec.getUnit a.units i ∧
    a.startsWith b = Spec.startsWith a.units b.units ∧
    a.endsWith b = Spec.endsWith a.units b.units ∧
    a.indexOf b i = Spec.indexOf a.units b.units i ∧
    a.codePointAt i = Spec.codePointAt a.units i ∧
    a.contains e = Spec.contains a.units e ∧
    a.trim.units = Spec.trim a.units ∧
    a.trimStart.units = Spec.trimStart a.units ∧
    a.trimEnd.units = Spec.trimEnd a.units ∧
    (a.slice i j).units = Spec.slice a.units i j ∧
    (concatArray [a, b]).units = Spec.concat [a.units, b.units] ∧
    a.toStdString = Spec.toStdString a.units ∧
    a.eqStr t = Spec.eqStr a.units t :=
  ⟨eq_spec a b, cmp_spec a b, hash_spec a, len_eq_units_length a, getUnit_spec a i, startsWith_spec a b,
   endsWith_spec a b, indexOf_spec a b i, codePointAt_spec a ha i, contains_spec a e, trim_spec a ha,
   trimStart_spec a ha, trimEnd_spec a ha, slice_spec a i j, concat_spec [a, b], toStdString_spec a ha,
   eqStr_spec a t⟩

/-- two strings with the same code units are indistinguishable by every operation,
    whatever their representations (and whatever the representations of the other operand) -/
theorem rep_independent (a a' b b' : JsStr) (ha : a.WF) (ha' : a'.WF)
    (hu : a.units = a'.units) (hv : b.units = b'.units) (i j e : Nat) (t : List Nat) :
    a.eq b = a'.eq b' ∧ a.cmp b = a'.cmp b' ∧ a.hashWrites = a'.hashWrites ∧ a.len = a'.len ∧
    a.getUnit i = a'.getUnit i ∧ a.startsWith b = a'.startsWith b' ∧ a.endsWith b = a'.endsWith b' ∧
    a.indexOf b i = a'.indexOf b' i ∧ a.codePointAt i = a'.codePointAt i ∧ a.contains e = a'.contains e ∧
    a.trim.units = a'.trim.units ∧ a.trimStart.units = a'.trimStart.units ∧ a.trimEnd.units = a'.trimEnd.units ∧
    (a.slice i j).units = (a'.slice i j).units ∧ (concatArray [a, b]).units = (concatArray [a', b']).units ∧
    a.toStdString = a'.toStdString ∧ a.eqStr t = a'.eqStr t := by
  have h := op_agrees_with_units a b ha i j e t
  have h' := op_agrees_with_units a' b' ha' i j e t
  obtain ⟨h1, h2, h3, h4, h5, h6, h7, h8, h9, h10, h11, h12, h13, h14, h15, h16, h17⟩ := h
  obtain ⟨g1, g2, g3, g4, g5, g6, g7, g8, g9, g10, g11, g12, g13, g14, g15, g16, g17⟩ := h'
  rw [h1, h2, h3, h4, h5, h6, h7, h8, h9, h10, h11, h12, h13, h14, h15, h16, h17,
      g1, g2, g3, g4, g5, g6, g7, g8, g9, g10, g11, g12, g13, g14, g15, g16, g17, hu, hv]
  simp

/-- equality is exactly equality of code units; equal strings hash identically and compare as equal -/
theorem eq_iff_units (a b : JsStr) : a.eq b = true ↔ a.units = b.units := by
  rw [eq_spec]; simp [Spec.eq]

theorem hash_consistent (a b : JsStr) (h : a.eq b = true) : a.hashWrites = b.hashWrites := by
  rw [hash_spec, hash_spec, (eq_iff_units a b).mp h]

theorem lexCmp_eq_iff : ∀ (u v : List Nat), lexCmp u v = Ord3.eq ↔ u = v
  | [], [] => by simp [lexCmp]
  | [], _ :: _ => by simp [lexCmp]
  | _ :: _, [] => by simp [lexCmp]
  | x :: xs, y :: ys => by
    simp only [lexCmp]
    split
    · simp; omega
    · split
      · simp; omega
      · have : x = y := by omega
        simp [this, lexCmp_eq_iff xs ys]

theorem cmp_consistent (a b : JsStr) : a.cmp b = Ord3.eq ↔ a.eq b = true := by
  rw [cmp_spec, eq_iff_units]; exact lexCmp_eq_iff _ _

/-- the Latin-1 and the char whitespace tables agree on all 256 Latin-1 code units -/
theorem whitespace_tables_agree : ∀ c, c < 256 → isTrimLatin1 c = isTrimUnit c :=
  whitespace_tables_agree_aux

/-- comparison with a Rust `str` (given as its scalar values) is comparison with its UTF-16 encoding -/
theorem eqStr_correct (s : JsStr) (t : List Nat) : s.eqStr t = true ↔ s.units = encodeUtf16 t := by
  rw [eqStr_spec]; simp [Spec.eqStr]

/-- every constructor denotes the intended code units and produces a well-formed representation;
    derived strings stay well-formed; concatenation is Latin-1 iff every part is -/
theorem constructors_denote (cps us : List Nat) (hc : ∀ c ∈ cps, validScalar c = true) (hu : ∀ u ∈ us, u < 65536) :
    (fromStr cps).units = encodeUtf16 cps ∧ (fromStr cps).WF ∧
    (fromUnits us).units = us ∧ (fromUnits us).WF :=
  ⟨fromStr_units cps, fromStr_wf cps hc, rfl, hu⟩

theorem derived_wf (a b : JsStr) (ha : a.WF) (hb : b.WF) (i j : Nat) :
    a.trim.WF ∧ a.trimStart.WF ∧ a.trimEnd.WF ∧ (a.slice i j).WF ∧ (concatArray [a, b]).WF ∧
    (concatArray [a, b]).isLatin1 = (a.isLatin1 && b.isLatin1) := by
  refine ⟨(trim_wf a ha).1, (trim_wf a ha).2.1, (trim_wf a ha).2.2, slice_wf a ha i j, ?_, ?_⟩
  · apply concat_wf; intro p hp; simp at hp; rcases hp with rfl | rfl <;> assumption
  · rw [concat_latin1_iff]; simp

-- non-vacuity: two different representations of the same non-trivial units satisfy the hypotheses
example : (JsStr.latin1 [0x20, 0x41, 0xE9, 0xA0]).WF ∧ (JsStr.utf16 [0x20, 0x41, 0xE9, 0xA0]).WF ∧
    (JsStr.latin1 [0x20, 0x41, 0xE9, 0xA0]).units = (JsStr.utf16 [0x20, 0x41, 0xE9, 0xA0]).units := by
  refine ⟨?_, ?_, rfl⟩ <;> intro b hb <;> simp at hb <;> omega
example : (JsStr.utf16 [0x20, 0x41, 0xE9, 0xA0]).trim = JsStr.utf16 [0x41, 0xE9] := by decide
example : (JsStr.latin1 [0x20, 0x41, 0xE9, 0xA0]).trim = JsStr.latin1 [0x41, 0xE9] := by decide
example : (JsStr.latin1 [0x61, 0x62]).eqStr [0x61, 0x62, 0x3C0] = false ∧ (JsStr.latin1 [0xE9]).eqStr [0xE9] = true := by decide
example : validScalar 0x1F600 = true ∧ encodeUtf16 [0x1F600] = [0xD83D, 0xDE00] := by decide

end BoaVerif.C11
