import BoaVerif.C11.Model
namespace BoaVerif.C11

theorem zipAllEq_of_length : ∀ (a b : List Nat), a.length = b.length → zipAllEq a b = (a == b)
  | [], [], _ => by simp [zipAllEq]
  | [], _ :: _, h => by simp at h
  | _ :: _, [], h => by simp at h
  | x :: xs, y :: ys, h => by
    have ih := zipAllEq_of_length xs ys (by simpa using h)
    by_cases hxy : x = y
    · subst hxy; simp [zipAllEq, ih]
    · simp [zipAllEq, hxy]

theorem beq_false_of_length_ne (a b : List Nat) (h : a.length ≠ b.length) : (a == b) = false := by
  apply Bool.eq_false_iff.mpr
  intro hab
  have : a = b := by simpa using hab
  exact h (by rw [this])

theorem len_eq_units_length (s : JsStr) : s.len = s.units.length := by cases s <;> rfl

theorem mixed_eq (x y : List Nat) : (if (x.length != y.length) = true then false else zipAllEq x y) = (x == y) := by
  by_cases h : x.length = y.length
  · simp [h, zipAllEq_of_length x y h]
  · simp [h, beq_false_of_length_ne x y h]

theorem eq_spec (a b : JsStr) : a.eq b = Spec.eq a.units b.units := by
  cases a <;> cases b <;> simp only [JsStr.eq, Spec.eq, JsStr.units, JsStr.len]
  · exact mixed_eq _ _
  · exact mixed_eq _ _

theorem cmp_spec (a b : JsStr) : a.cmp b = Spec.cmp a.units b.units := by
  cases a <;> cases b <;> rfl

theorem hash_spec (a : JsStr) : a.hashWrites = Spec.hashWrites a.units := by cases a <;> rfl

theorem getUnit_spec (a : JsStr) (i : Nat) : a.getUnit i = Spec.getUnit a.units i := by cases a <;> rfl

theorem sub_units (s : JsStr) (a b : Nat) (p : JsStr) (h : s.sub a b = some p) :
    p.units = (s.units.drop a).take (b - a) := by
  unfold JsStr.sub at h
  split at h
  · cases s <;> (injection h with h; subst h; rfl)
  · cases h

theorem sub_isSome (s : JsStr) (a b : Nat) (h : a ≤ b ∧ b ≤ s.len) : ∃ p, s.sub a b = some p := by
  unfold JsStr.sub
  rw [if_pos h]
  cases s <;> exact ⟨_, rfl⟩

theorem list_beq_comm (a b : List Nat) : (a == b) = (b == a) := by
  by_cases h : a = b
  · subst h; rfl
  · have h' : ¬ b = a := fun e => h e.symm
    rw [beq_eq_false_iff_ne.mpr h, beq_eq_false_iff_ne.mpr h']

theorem startsWith_spec (s n : JsStr) : s.startsWith n = Spec.startsWith s.units n.units := by
  unfold JsStr.startsWith Spec.startsWith
  simp only [len_eq_units_length]
  by_cases h : n.units.length ≤ s.units.length
  · obtain ⟨p, hp⟩ := sub_isSome s 0 n.len ⟨Nat.zero_le _, by simpa [len_eq_units_length] using h⟩
    rw [len_eq_units_length] at hp
    rw [hp]
    have hu := sub_units s 0 _ p hp
    simp only [List.drop_zero, Nat.sub_zero] at hu
    simp [eq_spec, Spec.eq, hu, h, list_beq_comm]
  · simp [h]

theorem endsWith_spec (s n : JsStr) : s.endsWith n = Spec.endsWith s.units n.units := by
  unfold JsStr.endsWith Spec.endsWith
  simp only [len_eq_units_length]
  by_cases h : n.units.length ≤ s.units.length
  · obtain ⟨p, hp⟩ := sub_isSome s (s.len - n.len) s.len ⟨Nat.sub_le _ _, Nat.le_refl _⟩
    simp only [len_eq_units_length] at hp
    rw [hp]
    have hu := sub_units s _ _ p hp
    have hlen : s.units.length - (s.units.length - n.units.length) = n.units.length := by omega
    rw [hlen] at hu
    have htake : List.take n.units.length (List.drop (s.units.length - n.units.length) s.units)
        = List.drop (s.units.length - n.units.length) s.units := by
      apply List.take_of_length_le; simp; omega
    rw [htake] at hu
    simp [eq_spec, Spec.eq, hu, h, list_beq_comm]
  · simp [h]

theorem windows_units (s : JsStr) (k : Nat) : (s.windows k).map JsStr.units = windowsL k s.units := by
  cases s <;> simp [JsStr.windows, JsStr.units, List.map_map, Function.comp_def]

theorem positionOf_map {α β} (f : α → β) (p : β → Bool) (l : List α) :
    positionOf p (l.map f) = positionOf (fun x => p (f x)) l := by
  induction l with
  | nil => rfl
  | cons x xs ih => simp [positionOf, ih]

theorem indexOf_spec (s q : JsStr) (i : Nat) : s.indexOf q i = Spec.indexOf s.units q.units i := by
  unfold JsStr.indexOf Spec.indexOf
  simp only [len_eq_units_length]
  split
  · rfl
  · rw [← windows_units, ← List.map_drop, positionOf_map]
    simp only [eq_spec, Spec.eq]

theorem contains_spec (s : JsStr) (e : Nat) : s.contains e = Spec.contains s.units e := by cases s <;> rfl

theorem decodeFirst_nonsurrogate (f : Nat) (o : Option Nat) (h : f < 256) : decodeFirst f o = .unicode f := by
  have h1 : isHigh f = false := by simp [isHigh]; omega
  have h2 : isLow f = false := by simp [isLow]; omega
  simp [decodeFirst, h1, h2]

theorem getElem?_mem_lt {l : List Nat} {i x : Nat} {n : Nat} (hl : ∀ b ∈ l, b < n) (h : l[i]? = some x) : x < n :=
  hl x (List.mem_of_getElem? h)

theorem codePointAt_spec (s : JsStr) (hs : s.WF) (pos : Nat) : s.codePointAt pos = Spec.codePointAt s.units pos := by
  unfold JsStr.codePointAt Spec.codePointAt
  simp only [len_eq_units_length]
  split
  · cases s with
    | utf16 v => rfl
    | latin1 v =>
      simp only [JsStr.units]
      cases hv : v[pos]? with
      | none => rfl
      | some f => simp [decodeFirst_nonsurrogate f _ (getElem?_mem_lt hs hv)]
  · rfl

/-- the two whitespace tables agree on every Latin-1 code unit -/
theorem whitespace_tables_agree_aux : ∀ c, c < 256 → isTrimLatin1 c = isTrimUnit c := by decide +kernel

theorem trimPred_spec (s : JsStr) (hs : s.WF) : ∀ c ∈ s.units, trimPred s c = !isTrimUnit c := by
  intro c hc
  cases s with
  | utf16 v => rfl
  | latin1 v => simp only [trimPred]; rw [whitespace_tables_agree_aux c (hs c hc)]

theorem positionOf_congr {α} (p q : α → Bool) (l : List α) (h : ∀ x ∈ l, p x = q x) : positionOf p l = positionOf q l := by
  induction l with
  | nil => rfl
  | cons x xs ih =>
    simp only [positionOf, h x (List.mem_cons_self)]
    rw [ih (fun y hy => h y (List.mem_cons_of_mem _ hy))]

theorem positionOf_none_dropWhile (p : Nat → Bool) (l : List Nat) (h : positionOf (fun c => !p c) l = none) :
    l.dropWhile p = [] := by
  induction l with
  | nil => rfl
  | cons x xs ih =>
    simp only [positionOf] at h
    split at h
    · simp at h
    · rename_i hx
      have hx' : p x = true := by simpa using hx
      simp only [List.dropWhile_cons, hx', ↓reduceIte]
      apply ih
      cases hp : positionOf (fun c => !p c) xs with
      | none => rfl
      | some k => rw [hp] at h; simp at h

theorem positionOf_some_dropWhile (p : Nat → Bool) (l : List Nat) (k : Nat) (h : positionOf (fun c => !p c) l = some k) :
    l.dropWhile p = l.drop k ∧ k < l.length := by
  induction l generalizing k with
  | nil => simp [positionOf] at h
  | cons x xs ih =>
    simp only [positionOf] at h
    split at h
    · rename_i hx
      have hx' : p x = false := by simpa using hx
      cases h
      simp [hx']
    · rename_i hx
      have hx' : p x = true := by simpa using hx
      cases hp : positionOf (fun c => !p c) xs with
      | none => rw [hp] at h; simp at h
      | some j =>
        rw [hp] at h
        simp at h
        subst h
        have := ih j hp
        simp [hx', this.1]
        exact this.2

theorem sliceUnchecked_units (s : JsStr) (a b : Nat) : (sliceUnchecked s a b).units = (s.units.drop a).take (b - a) := by
  cases s <;> rfl

theorem trimStart_spec (s : JsStr) (hs : s.WF) : s.trimStart.units = Spec.trimStart s.units := by
  unfold JsStr.trimStart Spec.trimStart
  rw [positionOf_congr _ _ _ (trimPred_spec s hs)]
  cases hp : positionOf (fun c => !isTrimUnit c) s.units with
  | none => rw [positionOf_none_dropWhile _ _ hp]; rfl
  | some k =>
    have := positionOf_some_dropWhile _ _ k hp
    simp only [sliceUnchecked_units, this.1, len_eq_units_length]
    apply List.take_of_length_le
    simp

theorem rposition_none (p : Nat → Bool) (l : List Nat) (h : rpositionOf (fun c => !p c) l = none) :
    l.reverse.dropWhile p = [] := by
  unfold rpositionOf at h
  cases hp : positionOf (fun c => !p c) l.reverse with
  | none => exact positionOf_none_dropWhile _ _ hp
  | some k => rw [hp] at h; simp at h

theorem rposition_some (p : Nat → Bool) (l : List Nat) (e : Nat) (h : rpositionOf (fun c => !p c) l = some e) :
    (l.reverse.dropWhile p).reverse = l.take (e + 1) ∧ e < l.length := by
  unfold rpositionOf at h
  cases hp : positionOf (fun c => !p c) l.reverse with
  | none => rw [hp] at h; simp at h
  | some k =>
    rw [hp] at h
    simp at h
    have := positionOf_some_dropWhile _ _ k hp
    have hk : k < l.length := by simpa using this.2
    subst h
    constructor
    · rw [this.1, List.drop_reverse, List.reverse_reverse]
      congr 1
      omega
    · omega

theorem trimEnd_spec (s : JsStr) (hs : s.WF) : s.trimEnd.units = Spec.trimEnd s.units := by
  unfold JsStr.trimEnd Spec.trimEnd
  have hc : rpositionOf (trimPred s) s.units = rpositionOf (fun c => !isTrimUnit c) s.units := by
    unfold rpositionOf
    rw [positionOf_congr _ _ _ (fun x hx => trimPred_spec s hs x (by simpa using hx))]
  rw [hc]
  cases hp : rpositionOf (fun c => !isTrimUnit c) s.units with
  | none => rw [rposition_none _ _ hp]; rfl
  | some e =>
    have := rposition_some _ _ e hp
    simp [sliceUnchecked_units, this.1]

end BoaVerif.C11
