import BoaVerif.C11.Lemmas
namespace BoaVerif.C11

theorem all_of_dropWhile_nil (p : Nat → Bool) : ∀ (l : List Nat), l.dropWhile p = [] → ∀ x ∈ l, p x = true
  | [], _, x, hx => by cases hx
  | a :: as, h, x, hx => by
    by_cases ha : p a = true
    · simp only [List.dropWhile_cons, ha, ↓reduceIte] at h
      cases hx with
      | head => exact ha
      | tail _ hx' => exact all_of_dropWhile_nil p as h x hx'
    · simp [List.dropWhile_cons, ha] at h

theorem dropWhile_append_stop (p : Nat → Bool) : ∀ (l1 l2 : List Nat), (∃ y ∈ l1, p y = false) →
    (l1 ++ l2).dropWhile p = l1.dropWhile p ++ l2
  | [], _, h => by obtain ⟨y, hy, _⟩ := h; cases hy
  | a :: as, l2, h => by
    by_cases ha : p a = true
    · simp only [List.cons_append, List.dropWhile_cons, ha, ↓reduceIte]
      apply dropWhile_append_stop p as l2
      obtain ⟨y, hy, hny⟩ := h
      cases hy with
      | head => rw [ha] at hny; cases hny
      | tail _ hy' => exact ⟨y, hy', hny⟩
    · simp [List.dropWhile_cons, ha]

theorem head_dropWhile_false (p : Nat → Bool) : ∀ (l : List Nat) (x : Nat) (r : List Nat),
    l.dropWhile p = x :: r → p x = false
  | [], _, _, h => by cases h
  | a :: as, x, r, h => by
    by_cases ha : p a = true
    · simp only [List.dropWhile_cons, ha, ↓reduceIte] at h
      exact head_dropWhile_false p as x r h
    · simp only [List.dropWhile_cons, ha] at h
      have ha' : p a = false := by simpa using ha
      simp at h
      rw [← h.1]; exact ha'

theorem trim_spec (s : JsStr) (hs : s.WF) : s.trim.units = Spec.trim s.units := by
  unfold JsStr.trim Spec.trim Spec.trimEnd Spec.trimStart
  have hc : rpositionOf (trimPred s) s.units = rpositionOf (fun c => !isTrimUnit c) s.units := by
    unfold rpositionOf
    rw [positionOf_congr _ _ _ (fun x hx => trimPred_spec s hs x (by simpa using hx))]
  rw [positionOf_congr _ _ _ (trimPred_spec s hs), hc]
  cases hp : positionOf (fun c => !isTrimUnit c) s.units with
  | none => rw [positionOf_none_dropWhile _ _ hp]; rfl
  | some k =>
    obtain ⟨hd, hk⟩ := positionOf_some_dropWhile _ _ k hp
    -- the unit at index k is not trimmable
    obtain ⟨x, r, hxr⟩ : ∃ x r, List.drop k s.units = x :: r := by
      cases hdk : List.drop k s.units with
      | nil => have := congrArg List.length hdk; simp at this; omega
      | cons x r => exact ⟨x, r, rfl⟩
    have hnx : isTrimUnit x = false := head_dropWhile_false isTrimUnit s.units x r (by rw [hd, hxr])
    have hstop : ∃ y ∈ (List.drop k s.units).reverse, isTrimUnit y = false :=
      ⟨x, by rw [hxr]; simp, hnx⟩
    have hu : s.units = s.units.take k ++ s.units.drop k := (List.take_append_drop _ _).symm
    have hrevu : s.units.reverse = (s.units.drop k).reverse ++ (s.units.take k).reverse := by
      conv => lhs; rw [hu]
      simp
    have hdw : (s.units.reverse).dropWhile isTrimUnit
        = ((s.units.drop k).reverse).dropWhile isTrimUnit ++ (s.units.take k).reverse := by
      rw [hrevu]; exact dropWhile_append_stop _ _ _ hstop
    cases hr : rpositionOf (fun c => !isTrimUnit c) s.units with
    | none =>
      exfalso
      have h0 := rposition_none _ _ hr
      have := all_of_dropWhile_nil isTrimUnit _ h0 x (by
        simp only [List.mem_reverse]
        have : x ∈ List.drop k s.units := by rw [hxr]; simp
        exact List.mem_of_mem_drop this)
      rw [hnx] at this; cases this
    | some e =>
      obtain ⟨he, hel⟩ := rposition_some _ _ e hr
      simp only [Option.getD_some, sliceUnchecked_units]
      rw [hd]
      rw [hdw] at he
      simp only [List.reverse_append, List.reverse_reverse] at he
      have hlen := congrArg List.length he
      simp only [List.length_append, List.length_take, List.length_reverse] at hlen
      have hkmin : min k s.units.length = k := by omega
      have hemin : min (e + 1) s.units.length = e + 1 := by omega
      rw [hkmin, hemin] at hlen
      have hsplit : List.take (e + 1) s.units = List.take k s.units ++ List.take (e + 1 - k) (List.drop k s.units) := by
        have : e + 1 = k + (e + 1 - k) := by omega
        conv => lhs; rw [this, List.take_add]
      rw [hsplit] at he
      exact (List.append_cancel_left he).symm

theorem slice_spec (s : JsStr) (p1 p2 : Nat) : (s.slice p1 p2).units = Spec.slice s.units p1 p2 := by
  unfold JsStr.slice Spec.slice
  simp only [len_eq_units_length]
  have hmin : (if p2 > s.units.length then s.units.length else p2) = min p2 s.units.length := by
    split <;> omega
  rw [hmin]
  split
  · rfl
  · exact sliceUnchecked_units _ _ _

theorem concat_spec (parts : List JsStr) : (concatArray parts).units = Spec.concat (parts.map JsStr.units) := by
  unfold concatArray Spec.concat
  split <;> (simp only [List.flatMap_map]; rfl)

theorem concat_latin1_iff (parts : List JsStr) : (concatArray parts).isLatin1 = parts.all JsStr.isLatin1 := by
  unfold concatArray
  split <;> simp_all [JsStr.isLatin1]

theorem decodeAll_latin1 : ∀ (fuel : Nat) (v : List Nat), (∀ b ∈ v, b < 256) → v.length < fuel → decodeAll fuel v = some v
  | 0, _, _, h => by omega
  | fuel + 1, [], _, _ => rfl
  | fuel + 1, f :: rest, hv, hl => by
    have hf : f < 256 := hv f (List.mem_cons_self)
    have h1 : isHigh f = false := by simp [isHigh]; omega
    have h2 : isLow f = false := by simp [isLow]; omega
    have ih := decodeAll_latin1 fuel rest (fun b hb => hv b (List.mem_cons_of_mem _ hb)) (by simp at hl; omega)
    simp [decodeAll, h1, h2, ih]

theorem toStdString_spec (s : JsStr) (hs : s.WF) : s.toStdString = Spec.toStdString s.units := by
  cases s with
  | utf16 v => rfl
  | latin1 v =>
    simp only [JsStr.toStdString, Spec.toStdString, JsStr.units]
    exact (decodeAll_latin1 _ v hs (by omega)).symm

theorem iterEq_eq_beq : ∀ (a b : List Nat), iterEq a b = (a == b)
  | [], [] => rfl
  | [], _ :: _ => rfl
  | _ :: _, [] => rfl
  | x :: xs, y :: ys => by simp [iterEq, iterEq_eq_beq xs ys]

theorem eqStr_spec (s : JsStr) (other : List Nat) : s.eqStr other = Spec.eqStr s.units other := by
  simp [JsStr.eqStr, Spec.eqStr, iterEq_eq_beq]

theorem encodeUtf16_small : ∀ (cps : List Nat), (∀ c ∈ cps, c < 0x10000) → encodeUtf16 cps = cps
  | [], _ => rfl
  | c :: cs, h => by
    have hc : c < 0x10000 := h c (List.mem_cons_self)
    simp [encodeUtf16, hc, encodeUtf16_small cs (fun d hd => h d (List.mem_cons_of_mem _ hd))]

/-- `From<&str>`: whatever representation is chosen, the units are the UTF-16 encoding of the text -/
theorem fromStr_units (cps : List Nat) : (fromStr cps).units = encodeUtf16 cps := by
  unfold fromStr
  split
  · rename_i h
    simp only [JsStr.units]
    exact (encodeUtf16_small cps (fun c hc => by have := List.all_eq_true.mp h c hc; simp at this; omega)).symm
  · split
    · rename_i h
      simp only [JsStr.units]
      exact (encodeUtf16_small cps (fun c hc => by have := List.all_eq_true.mp h c hc; simp at this; omega)).symm
    · rfl

def validScalar (c : Nat) : Bool := c < 0x110000 && !(0xD800 ≤ c && c ≤ 0xDFFF)

set_option maxRecDepth 8192 in
theorem encodeUtf16_wf : ∀ (cps : List Nat), (∀ c ∈ cps, validScalar c = true) → ∀ u ∈ encodeUtf16 cps, u < 65536
  | [], _, u, hu => by cases hu
  | c :: cs, h, u, hu => by
    have hc := h c (List.mem_cons_self)
    simp only [validScalar, Bool.and_eq_true, decide_eq_true_eq, Bool.not_eq_true', Bool.and_eq_false_iff, decide_eq_false_iff_not] at hc
    have ih := encodeUtf16_wf cs (fun d hd => h d (List.mem_cons_of_mem _ hd))
    unfold encodeUtf16 at hu
    split at hu
    · cases hu with
      | head => omega
      | tail _ hu' => exact ih u hu'
    · simp only [List.mem_cons] at hu
      rcases hu with hu | hu | hu'
      · omega
      · omega
      · exact ih u hu'

theorem fromStr_wf (cps : List Nat) (h : ∀ c ∈ cps, validScalar c = true) : (fromStr cps).WF := by
  unfold fromStr
  split
  · rename_i h1; intro b hb; have := List.all_eq_true.mp h1 b hb; simp at this; omega
  · split
    · rename_i h1; intro b hb; have := List.all_eq_true.mp h1 b hb; simp at this; omega
    · exact encodeUtf16_wf cps h

theorem sliceUnchecked_wf (s : JsStr) (hs : s.WF) (a b : Nat) : (sliceUnchecked s a b).WF := by
  cases s <;> intro x hx <;> exact hs x (List.mem_of_mem_drop (List.mem_of_mem_take hx))

theorem emptyStr_wf : emptyStr.WF := by intro b hb; cases hb

theorem slice_wf (s : JsStr) (hs : s.WF) (a b : Nat) : (s.slice a b).WF := by
  unfold JsStr.slice; simp only
  split
  · split
    · exact emptyStr_wf
    · exact sliceUnchecked_wf s hs _ _
  · split
    · exact emptyStr_wf
    · exact sliceUnchecked_wf s hs _ _

theorem trim_wf (s : JsStr) (hs : s.WF) : s.trim.WF ∧ s.trimStart.WF ∧ s.trimEnd.WF := by
  refine ⟨?_, ?_, ?_⟩
  · unfold JsStr.trim; split
    · exact emptyStr_wf
    · exact sliceUnchecked_wf s hs _ _
  · unfold JsStr.trimStart; split
    · exact emptyStr_wf
    · exact sliceUnchecked_wf s hs _ _
  · unfold JsStr.trimEnd; split
    · exact emptyStr_wf
    · exact sliceUnchecked_wf s hs _ _

theorem concat_wf (parts : List JsStr) (h : ∀ p ∈ parts, p.WF) : (concatArray parts).WF := by
  unfold concatArray
  split
  · rename_i hl
    intro b hb
    simp only [List.mem_flatMap] at hb
    obtain ⟨p, hp, hbp⟩ := hb
    have hlat := List.all_eq_true.mp hl p hp
    cases p with
    | latin1 v => exact h _ hp b hbp
    | utf16 v => simp [JsStr.isLatin1] at hlat
  · intro u hu
    simp only [List.mem_flatMap] at hu
    obtain ⟨p, hp, hup⟩ := hu
    cases p with
    | latin1 v => have := h _ hp u hup; omega
    | utf16 v => exact h _ hp u hup

end BoaVerif.C11
