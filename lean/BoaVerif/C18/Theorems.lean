/- C18 — JSON.parse / JSON.stringify implement exactly the JSON grammar and value mapping. Property theorems. -/
import BoaVerif.C18.Model
namespace BoaVerif.C18

theorem hex_roundtrip : ∀ d, d < 16 → hexVal (hexChar d) = some d := by decide

/-- one step of the string parser undoes one step of QuoteJSONString, whatever the code unit: a short escape, a
    \uXXXX escape (control characters and unpaired surrogates) or the code unit itself -/
theorem parse_unit (c : Nat) (hc : c < 65536) (ph : Bool) (next : Bool) (tail : List Nat) (fuel : Nat) :
    parseStrBody (fuel + 1) (quoteUnit ph c next ++ tail) = (parseStrBody fuel tail).map (fun p => (c :: p.1, p.2)) := by
  by_cases h08 : c = 0x08
  · subst h08; simp [quoteUnit, parseStrBody]
  by_cases h09 : c = 0x09
  · subst h09; simp [quoteUnit, parseStrBody]
  by_cases h0A : c = 0x0A
  · subst h0A; simp [quoteUnit, parseStrBody]
  by_cases h0C : c = 0x0C
  · subst h0C; simp [quoteUnit, parseStrBody]
  by_cases h0D : c = 0x0D
  · subst h0D; simp [quoteUnit, parseStrBody]
  by_cases h22 : c = 0x22
  · subst h22; simp [quoteUnit, parseStrBody]
  by_cases h5C : c = 0x5C
  · subst h5C; simp [quoteUnit, parseStrBody]
  -- no short escape
  have e1 : (c == 0x08) = false := by simpa using h08
  have e2 : (c == 0x09) = false := by simpa using h09
  have e3 : (c == 0x0A) = false := by simpa using h0A
  have e4 : (c == 0x0C) = false := by simpa using h0C
  have e5 : (c == 0x0D) = false := by simpa using h0D
  have e6 : (c == 0x22) = false := by simpa using h22
  have e7 : (c == 0x5C) = false := by simpa using h5C
  unfold quoteUnit
  simp only [e1, e2, e3, e4, e5, e6, e7, Bool.false_eq_true, ↓reduceIte]
  split
  · -- \uXXXX
    have d1 : c / 4096 < 16 := by omega
    have d2 : c / 256 % 16 < 16 := by omega
    have d3 : c / 16 % 16 < 16 := by omega
    have d4 : c % 16 < 16 := by omega
    have hsum : c / 4096 * 4096 + c / 256 % 16 * 256 + c / 16 % 16 * 16 + c % 16 = c := by omega
    simp [parseStrBody, hex_roundtrip _ d1, hex_roundtrip _ d2, hex_roundtrip _ d3, hex_roundtrip _ d4, hsum]
  · -- the code unit itself: not a quote, not a backslash, not a control character
    rename_i hcond
    have hge : ¬ c < 0x20 := by
      intro hlt
      apply hcond
      simp [hlt]
    simp [parseStrBody, e6, e7, hge]

/-- STRINGS ROUND-TRIP: for every sequence of UTF-16 code units — including control characters, quotes, backslashes and
    lone surrogates in any position — parsing the quoted form gives the sequence back and stops right after the closing quote -/
theorem string_roundtrip : ∀ (s : List Nat) (ph : Bool) (rest : List Nat) (fuel : Nat), (∀ c ∈ s, c < 65536) → s.length < fuel →
    parseStrBody fuel (quoteBody ph s ++ 0x22 :: rest) = some (s, rest) := by
  intro s
  induction s with
  | nil =>
    intro ph rest fuel _ hf
    cases fuel with
    | zero => omega
    | succ f => simp [quoteBody, parseStrBody]
  | cons c cs ih =>
    intro ph rest fuel hs hf
    cases fuel with
    | zero => omega
    | succ f =>
      have hc : c < 65536 := hs c (by simp)
      simp only [quoteBody, List.append_assoc]
      rw [parse_unit c hc]
      rw [ih _ rest f (fun x hx => hs x (by simp [hx])) (by simp at hf; omega)]
      rfl

theorem quote_roundtrip (s rest : List Nat) (hs : ∀ c ∈ s, c < 65536) :
    parseStrBody (s.length + 1) (quoteBody false s ++ 0x22 :: rest) = some (s, rest) :=
  string_roundtrip s false rest (s.length + 1) hs (by omega)

/-- WELL-FORMED OUTPUT: QuoteJSONString never emits a raw control character, and never a raw surrogate that is not part
    of a pair — every code unit it emits is either printable ASCII of an escape or the original (non-control) unit -/
theorem quoteUnit_no_control (c : Nat) (ph : Bool) (next : Bool) : ∀ u ∈ quoteUnit ph c next, 0x20 ≤ u := by
  intro u hu
  unfold quoteUnit at hu
  split at hu
  · simp at hu; omega
  split at hu
  · simp at hu; omega
  split at hu
  · simp at hu; omega
  split at hu
  · simp at hu; omega
  split at hu
  · simp at hu; omega
  split at hu
  · simp at hu; omega
  split at hu
  · simp at hu; omega
  split at hu
  · simp only [List.mem_cons, List.mem_nil_iff, or_false] at hu
    unfold hexChar at hu
    rcases hu with h | h | h | h | h | h <;> (try omega) <;> (split at h <;> omega)
  · rename_i hcond
    simp only [List.mem_singleton] at hu
    subst hu
    by_cases hlt : u < 0x20
    · exact absurd (by simp [hlt]) hcond
    · omega

-- ------------------------------------------------------------------ the whole-value round trip
theorem skipWs_cons (c : Nat) (cs : List Nat) (h : isWs c = false) : skipWs (c :: cs) = c :: cs := by
  simp [skipWs, h]

theorem takeWhile_app (p : Nat → Bool) (t rest : List Nat) (ht : ∀ x ∈ t, p x = true) (hr : ∀ c r, rest = c :: r → p c = false) :
    (t ++ rest).takeWhile p = t ∧ (t ++ rest).dropWhile p = rest := by
  induction t with
  | nil =>
    cases rest with
    | nil => simp
    | cons c r => simp [hr c r rfl]
  | cons a t ih =>
    have ha := ht a (by simp)
    obtain ⟨h1, h2⟩ := ih (fun x hx => ht x (by simp [hx]))
    simp [ha, h1, h2]

theorem validNumber_head (c : Nat) (cs : List Nat) (h : validNumber (c :: cs) = true) : c = 0x2D ∨ isDigit c = true := by
  by_cases hm : c = 0x2D
  · exact Or.inl hm
  by_cases hd : isDigit c = true
  · exact Or.inr hd
  exfalso
  have h0 : ¬ c = 0x30 := by intro h0; subst h0; simp [isDigit] at hd
  have h19 : ¬(0x31 ≤ c ∧ c ≤ 0x39) := by intro ⟨a, b⟩; simp [isDigit] at hd; omega
  unfold validNumber at h
  simp [hm] at h
  rw [if_neg h19] at h
  simp at h

theorem validNumber_ne_nil (t : List Nat) (h : validNumber t = true) : t ≠ [] := by
  intro hn; subst hn; simp [validNumber] at h

-- ------------------------------------------------------------------ sizes, well-formedness
mutual
  def szV : JV → Nat
    | .arr xs => 1 + szL xs
    | .obj o => 1 + szO o
    | _ => 1
  def szL : JL → Nat
    | .nil => 0
    | .cons v t => 1 + szV v + szL t
  def szO : JO → Nat
    | .nil => 0
    | .cons _ v t => 1 + szV v + szO t
end

def keysO : JO → List (List Nat)
  | .nil => []
  | .cons k _ t => k :: keysO t

def appO : JO → JO → JO
  | .nil, b => b
  | .cons k v t, b => .cons k v (appO t b)

mutual
  /-- the values JSON.stringify can produce: valid number tokens, 16-bit code units, distinct keys -/
  def wfV : JV → Prop
    | .null => True
    | .bool _ => True
    | .num t => validNumber t = true ∧ ∀ c ∈ t, isNumChar c = true
    | .str s => ∀ c ∈ s, c < 65536
    | .arr xs => wfL xs
    | .obj o => wfO o ∧ (keysO o).Nodup
  def wfL : JL → Prop
    | .nil => True
    | .cons v t => wfV v ∧ wfL t
  def wfO : JO → Prop
    | .nil => True
    | .cons k v t => (∀ c ∈ k, c < 65536) ∧ wfV v ∧ wfO t
end

theorem objSet_fresh : ∀ (acc : JO) (k : List Nat) (v : JV), k ∉ keysO acc → objSet k v acc = appO acc (.cons k v .nil)
  | .nil, _, _, _ => rfl
  | .cons k2 v2 t, k, v, h => by
    simp only [keysO, List.mem_cons, not_or] at h
    have hne : (k2 == k) = false := by
      have : k2 ≠ k := fun e => h.1 e.symm
      simpa using this
    simp [objSet, hne, appO, objSet_fresh t k v h.2]

theorem appO_assoc : ∀ (a : JO) (k : List Nat) (v : JV) (t : JO), appO (appO a (.cons k v .nil)) t = appO a (.cons k v t)
  | .nil, _, _, _ => rfl
  | .cons k2 v2 t2, k, v, t => by simp [appO, appO_assoc t2 k v t]

theorem keysO_appO : ∀ (a b : JO), keysO (appO a b) = keysO a ++ keysO b
  | .nil, _ => rfl
  | .cons k v t, b => by simp [appO, keysO, keysO_appO t b]

theorem quoteUnit_ne_nil (ph : Bool) (c : Nat) (nl : Bool) : 1 ≤ (quoteUnit ph c nl).length := by
  unfold quoteUnit
  repeat (first | split | simp)

theorem quoteBody_cons (ph : Bool) (c : Nat) (cs : List Nat) :
    ∃ nl, quoteBody ph (c :: cs) = quoteUnit ph c nl ++ quoteBody (isHigh c && nl) cs := by
  cases cs with
  | nil => exact ⟨false, by simp [quoteBody]⟩
  | cons n r => exact ⟨isLow n, by simp [quoteBody]⟩

theorem quoteBody_length (s : List Nat) : ∀ ph, s.length ≤ (quoteBody ph s).length := by
  induction s with
  | nil => intro ph; simp [quoteBody]
  | cons c cs ih =>
    intro ph
    obtain ⟨nl, h⟩ := quoteBody_cons ph c cs
    rw [h]
    simp only [List.length_append, List.length_cons]
    have h1 := quoteUnit_ne_nil ph c nl
    have h2 := ih (isHigh c && nl)
    omega

/-- parsing a quoted string followed by anything -/
theorem parse_quote (s rest : List Nat) (hs : ∀ c ∈ s, c < 65536) :
    parseStrBody ((quoteBody false s ++ 0x22 :: rest).length + 1) (quoteBody false s ++ 0x22 :: rest) = some (s, rest) := by
  apply string_roundtrip s false rest _ hs
  have := quoteBody_length s false
  simp only [List.length_append, List.length_cons]
  omega

def restOk (rest : List Nat) : Prop := ∀ c r, rest = c :: r → isNumChar c = false

def headOk (l : List Nat) : Prop := ∃ c cs, l = c :: cs ∧ isWs c = false ∧ c ≠ 0x5D ∧ c ≠ 0x7D ∧ c ≠ 0x22

theorem digit_facts (c : Nat) (h : c = 0x2D ∨ isDigit c = true) :
    isWs c = false ∧ (c == 0x22) = false ∧ (c == 0x5B) = false ∧ (c == 0x7B) = false ∧ (c == 0x74) = false ∧ (c == 0x66) = false ∧
    (c == 0x6E) = false ∧ c ≠ 0x5D ∧ c ≠ 0x7D ∧ (c == 0x2D || isDigit c) = true := by
  rcases h with h | h
  · subst h; decide
  · have : 0x30 ≤ c ∧ c ≤ 0x39 := by simpa [isDigit] using h
    refine ⟨?_, ?_, ?_, ?_, ?_, ?_, ?_, ?_, ?_, ?_⟩ <;> simp [isWs, h] <;> omega

theorem stringify_head (v : JV) (h : wfV v) : (∃ c cs, stringify v = c :: cs ∧ isWs c = false ∧ c ≠ 0x5D ∧ c ≠ 0x7D) := by
  cases v with
  | null => exact ⟨_, _, rfl, by decide, by decide, by decide⟩
  | bool b => cases b <;> exact ⟨_, _, rfl, by decide, by decide, by decide⟩
  | num t =>
    obtain ⟨hv, _⟩ := h
    cases t with
    | nil => exact absurd rfl (validNumber_ne_nil _ hv)
    | cons c cs =>
      have f := digit_facts c (validNumber_head c cs hv)
      exact ⟨c, cs, rfl, f.1, f.2.2.2.2.2.2.2.1, f.2.2.2.2.2.2.2.2.1⟩
  | str s => exact ⟨0x22, _, rfl, by decide, by decide, by decide⟩
  | arr xs => exact ⟨0x5B, _, rfl, by decide, by decide, by decide⟩
  | obj o => exact ⟨0x7B, _, rfl, by decide, by decide, by decide⟩

theorem restOk_cons (c : Nat) (r : List Nat) (h : isNumChar c = false) : restOk (c :: r) := by
  intro c2 r2 e; cases e; exact h

theorem stringifyL_cons (v : JV) (t : JL) : stringifyL (.cons v t) = match t with | .nil => stringify v | .cons _ _ => stringify v ++ 0x2C :: stringifyL t := by
  cases t <;> simp [stringifyL]

theorem stringifyO_cons (k : List Nat) (v : JV) (t : JO) :
    stringifyO (.cons k v t) = match t with | .nil => quote k ++ 0x3A :: stringify v | .cons _ _ _ => quote k ++ 0x3A :: stringify v ++ 0x2C :: stringifyO t := by
  cases t <;> simp [stringifyO]

mutual
  theorem rtV : ∀ (v : JV) (rest : List Nat) (fuel : Nat), wfV v → restOk rest → szV v ≤ fuel →
      parseValue fuel (stringify v ++ rest) = some (v, rest)
    | .null, rest, fuel, _, _, hf => by
      cases fuel with
      | zero => simp [szV] at hf
      | succ f => simp [parseValue, stringify, skipWs, isWs]
    | .bool b, rest, fuel, _, _, hf => by
      cases fuel with
      | zero => simp [szV] at hf
      | succ f => cases b <;> simp [parseValue, stringify, skipWs, isWs]
    | .num t, rest, fuel, hw, hr, hf => by
      cases fuel with
      | zero => simp [szV] at hf
      | succ f =>
        obtain ⟨hv, hall⟩ := hw
        cases t with
        | nil => exact absurd rfl (validNumber_ne_nil _ hv)
        | cons c cs =>
          have fc := digit_facts c (validNumber_head c cs hv)
          obtain ⟨h1, h2⟩ := takeWhile_app isNumChar (c :: cs) rest hall hr
          simp only [stringify, List.cons_append] at h1 h2 ⊢
          simp only [parseValue, skipWs_cons c _ fc.1, fc.2.1, fc.2.2.1, fc.2.2.2.1, fc.2.2.2.2.1, fc.2.2.2.2.2.1, fc.2.2.2.2.2.2.1,
            fc.2.2.2.2.2.2.2.2.2, Bool.false_eq_true, ↓reduceIte, h1, h2, hv]
    | .str s, rest, fuel, hw, _, hf => by
      cases fuel with
      | zero => simp [szV] at hf
      | succ f =>
        simp only [stringify, quote, List.cons_append, List.append_assoc, List.singleton_append]
        simp [parseValue, skipWs, isWs]
        exact string_roundtrip s false rest _ hw (by have := quoteBody_length s false; simp; omega)
    | .arr xs, rest, fuel, hw, _, hf => by
      cases fuel with
      | zero => simp [szV] at hf
      | succ f =>
        cases xs with
        | nil => simp [parseValue, stringify, stringifyL, skipWs, isWs]
        | cons v t =>
          have hsz : szL (.cons v t) ≤ f := by simp [szV] at hf; omega
          have hl := rtL (.cons v t) rest f hw hsz
          simp only at hl
          obtain ⟨c, cs, hc, hws, h5d, _⟩ := stringify_head v hw.1
          have hstart : ∃ cs', stringifyL (.cons v t) ++ 0x5D :: rest = c :: cs' := by
            rw [stringifyL_cons]; cases t <;> simp [hc]
          obtain ⟨cs', hcs'⟩ := hstart
          simp only [stringify, List.cons_append, List.append_assoc, List.singleton_append, List.nil_append]
          rw [hcs'] at hl ⊢
          simp [parseValue, skipWs_cons 0x5B (c :: cs') (by decide), skipWs_cons c cs' hws, h5d, hl]
    | .obj o, rest, fuel, hw, _, hf => by
      cases fuel with
      | zero => simp [szV] at hf
      | succ f =>
        cases o with
        | nil => simp [parseValue, stringify, stringifyO, skipWs, isWs]
        | cons k v t =>
          have hsz : szO (.cons k v t) ≤ f := by simp [szV] at hf; omega
          have hl := rtO (.cons k v t) .nil rest f hw.1 (by simpa [keysO] using hw.2) hsz
          simp only at hl
          have hstart : ∃ cs', stringifyO (.cons k v t) ++ 0x7D :: rest = 0x22 :: cs' := by
            rw [stringifyO_cons]; cases t <;> simp [quote]
          obtain ⟨cs', hcs'⟩ := hstart
          simp only [stringify, List.cons_append, List.append_assoc, List.singleton_append, List.nil_append]
          rw [hcs'] at hl ⊢
          simp [parseValue, skipWs_cons 0x7B (0x22 :: cs') (by decide), skipWs_cons 0x22 cs' (by decide), hl, appO]
  theorem rtL : ∀ (xs : JL) (rest : List Nat) (fuel : Nat), wfL xs → szL xs ≤ fuel →
      (match xs with | .nil => True | .cons _ _ => parseElems fuel (stringifyL xs ++ 0x5D :: rest) = some (xs, rest))
    | .nil, _, _, _, _ => trivial
    | .cons v t, rest, fuel, hw, hf => by
      cases fuel with
      | zero => simp [szL] at hf
      | succ f =>
        simp only
        rw [stringifyL_cons]
        cases t with
        | nil =>
          have hv := rtV v (0x5D :: rest) f hw.1 (restOk_cons _ _ (by decide)) (by simp [szL] at hf; omega)
          simp only [parseElems, hv, skipWs_cons 0x5D _ (by decide)]
        | cons v2 t2 =>
          have hv := rtV v (0x2C :: (stringifyL (.cons v2 t2) ++ 0x5D :: rest)) f hw.1 (restOk_cons _ _ (by decide)) (by simp [szL] at hf; omega)
          have ht := rtL (.cons v2 t2) rest f hw.2 (by simp [szL] at hf ⊢; omega)
          simp only at ht
          simp only [List.append_assoc, List.cons_append]
          simp only [parseElems, hv, skipWs_cons 0x2C _ (by decide), ht, Option.map]
  theorem rtO : ∀ (o : JO) (acc : JO) (rest : List Nat) (fuel : Nat), wfO o → (keysO acc ++ keysO o).Nodup → szO o ≤ fuel →
      (match o with | .nil => True | .cons _ _ _ => parseMembers fuel (stringifyO o ++ 0x7D :: rest) acc = some (appO acc o, rest))
    | .nil, _, _, _, _, _, _ => trivial
    | .cons k v t, acc, rest, fuel, hw, hnd, hf => by
      cases fuel with
      | zero => simp [szO] at hf
      | succ f =>
        simp only
        have hfresh : k ∉ keysO acc := by
          simp only [keysO] at hnd
          have := (List.nodup_append.mp hnd).2.2
          intro hk; exact this k hk k (by simp) rfl
        rw [stringifyO_cons]
        cases t with
        | nil =>
          have hv := rtV v (0x7D :: rest) f hw.2.1 (restOk_cons _ _ (by decide)) (by simp [szO] at hf; omega)
          have hq := parse_quote k (0x3A :: (stringify v ++ 0x7D :: rest)) hw.1
          simp only [quote, List.cons_append, List.append_assoc, List.singleton_append, List.nil_append]
          simp only [parseMembers, skipWs_cons 0x22 _ (by decide), hq, skipWs_cons 0x3A _ (by decide), hv, skipWs_cons 0x7D _ (by decide),
            objSet_fresh acc k v hfresh]
        | cons k2 v2 t2 =>
          have hv := rtV v (0x2C :: (stringifyO (.cons k2 v2 t2) ++ 0x7D :: rest)) f hw.2.1 (restOk_cons _ _ (by decide)) (by simp [szO] at hf; omega)
          have hq := parse_quote k (0x3A :: (stringify v ++ 0x2C :: (stringifyO (.cons k2 v2 t2) ++ 0x7D :: rest))) hw.1
          have hnd2 : (keysO (appO acc (.cons k v .nil)) ++ keysO (.cons k2 v2 t2)).Nodup := by
            rw [keysO_appO]; simpa [keysO, List.append_assoc] using hnd
          have ht := rtO (.cons k2 v2 t2) (appO acc (.cons k v .nil)) rest f hw.2.2 hnd2 (by simp [szO] at hf ⊢; omega)
          simp only at ht
          rw [appO_assoc] at ht
          simp only [quote, List.cons_append, List.append_assoc, List.singleton_append, List.nil_append]
          simp only [parseMembers, skipWs_cons 0x22 _ (by decide), hq, skipWs_cons 0x3A _ (by decide), hv, skipWs_cons 0x2C _ (by decide),
            objSet_fresh acc k v hfresh, ht]
end


mutual
  theorem szV_le : ∀ (v : JV), wfV v → szV v ≤ (stringify v).length
    | .null, _ => by simp [szV, stringify]
    | .bool b, _ => by cases b <;> simp [szV, stringify]
    | .num t, hw => by
      have := validNumber_ne_nil t hw.1
      cases t with
      | nil => exact absurd rfl this
      | cons c cs => simp [szV, stringify]
    | .str s, _ => by simp [szV, stringify, quote]
    | .arr xs, hw => by
      have := szL_le xs hw
      simp only [szV, stringify, List.length_cons, List.length_append, List.length_nil]
      omega
    | .obj o, hw => by
      have := szO_le o hw.1
      simp only [szV, stringify, List.length_cons, List.length_append, List.length_nil]
      omega
  theorem szL_le : ∀ (xs : JL), wfL xs → szL xs ≤ (stringifyL xs).length + 1
    | .nil, _ => by simp [szL]
    | .cons v t, hw => by
      have h1 := szV_le v hw.1
      have h2 := szL_le t hw.2
      rw [stringifyL_cons]
      cases t with
      | nil => simp only [szL]; omega
      | cons v2 t2 => simp only [szL, List.length_append, List.length_cons] at h2 ⊢; omega
  theorem szO_le : ∀ (o : JO), wfO o → szO o ≤ (stringifyO o).length + 1
    | .nil, _ => by simp [szO]
    | .cons k v t, hw => by
      have h1 := szV_le v hw.2.1
      have h2 := szO_le t hw.2.2
      rw [stringifyO_cons]
      cases t with
      | nil => simp only [szO, List.length_append, List.length_cons]; omega
      | cons k2 v2 t2 => simp only [szO, List.length_append, List.length_cons] at h2 ⊢; omega
end

/-- THE WHOLE-VALUE ROUND TRIP: for every JSON value whose numbers are valid tokens, whose strings are sequences of
    16-bit code units (any: quotes, controls, lone surrogates) and whose objects have distinct keys — at any depth and
    width — parsing the serialised text returns the value -/
theorem parse_stringify (v : JV) (h : wfV v) : parse (stringify v) = some v := by
  have hsz := szV_le v h
  have := rtV v [] ((stringify v).length + 1) h (by intro c r e; cases e) (by omega)
  simp only [List.append_nil] at this
  simp [parse, this, skipWs]


-- the hypothesis is satisfiable by a value with every kind of content (and needed: duplicate keys merge)
example : wfV (.obj (.cons [0x61] (.arr (.cons (.num [0x2D, 0x31, 0x2E, 0x35, 0x65, 0x33]) (.cons (.str [0x22, 0x5C, 0x0A, 0xD800, 0x41]) (.cons .null .nil)))) (.cons [] (.obj .nil) .nil))) := by
  simp [wfV, wfL, wfO, keysO, validNumber, digits1, isDigit, isNumChar]
example : (parse (stringify (.obj (.cons [0x61] .null (.cons [0x61] (.bool true) .nil))))).map stringify = some (stringify (.obj (.cons [0x61] (.bool true) .nil))) := by decide

-- the examples: a value with every kind of character round-trips, and texts the grammar must reject
example : (parse (stringify (.obj (.cons [0x61] (.arr (.cons (.num [0x2D, 0x31, 0x2E, 0x35, 0x65, 0x33]) (.cons (.str [0x22, 0x5C, 0x0A, 0xD800, 0x41]) (.cons .null .nil)))) .nil)))).map stringify
    = some (stringify (.obj (.cons [0x61] (.arr (.cons (.num [0x2D, 0x31, 0x2E, 0x35, 0x65, 0x33]) (.cons (.str [0x22, 0x5C, 0x0A, 0xD800, 0x41]) (.cons .null .nil)))) .nil))) := by decide
example : (parse [0x5B, 0x31, 0x2C, 0x5D]).isNone = true := by decide          -- [1,]
example : (parse [0x30, 0x31]).isNone = true := by decide                      -- 01
example : (parse [0x7B, 0x22, 0x61, 0x22, 0x3A, 0x31, 0x2C, 0x22, 0x62, 0x22, 0x3A, 0x32, 0x2C, 0x22, 0x61, 0x22, 0x3A, 0x33, 0x7D]).map stringify
    = some [0x7B, 0x22, 0x61, 0x22, 0x3A, 0x33, 0x2C, 0x22, 0x62, 0x22, 0x3A, 0x32, 0x7D] := by decide   -- {"a":1,"b":2,"a":3} -> {"a":3,"b":2}

end BoaVerif.C18
