/- C18 — JSON.parse / JSON.stringify implement exactly the JSON grammar and value mapping. Property theorems. -/
import BoaVerif.C18.Model
namespace BoaVerif.C18

theorem hex_roundtrip : ∀ d, d < 16 → hexVal (hexChar d) = some d := by decide

/-- one step of the string parser undoes one step of QuoteJSONString, whatever the code unit: a short escape, a
    \uXXXX escape (control characters and unpaired surrogates) or the code unit itself -/
theorem parse_unit (c : Nat) (hc : c < 65536) (ph : Bool) (next : Bool) (tail : List Nat) (fuel : Nat) :
    parseStrBody (fuel + 1) (quoteUnit ph c next ++ tail) = (parseStrBody fuel tail).map (fun p => (c :: p.1, p.2)) := by
  by_cases h08 : c = 0x08
  · subst h08; simp [quoteUnit, parseStrBody]
  by_cases h09 : c = 0x09
  · subst h09; simp [quoteUnit, parseStrBody]
  by_cases h0A : c = 0x0A
  · subst h0A; simp [quoteUnit, parseStrBody]
  by_cases h0C : c = 0x0C
  · subst h0C; simp [quoteUnit, parseStrBody]
  by_cases h0D : c = 0x0D
  · subst h0D; simp [quoteUnit, parseStrBody]
  by_cases h22 : c = 0x22
  · subst h22; simp [quoteUnit, parseStrBody]
  by_cases h5C : c = 0x5C
  · subst h5C; simp [quoteUnit, parseStrBody]
  -- no short escape
  have e1 : (c == 0x08) = false := by simpa using h08
  have e2 : (c == 0x09) = false := by simpa using h09
  have e3 : (c == 0x0A) = false := by simpa using h0A
  have e4 : (c == 0x0C) = false := by simpa using h0C
  have e5 : (c == 0x0D) = false := by simpa using h0D
  have e6 : (c == 0x22) = false := by simpa using h22
  have e7 : (c == 0x5C) = false := by simpa using h5C
  unfold quoteUnit
  simp only [e1, e2, e3, e4, e5, e6, e7, Bool.false_eq_true, ↓reduceIte]
  split
  · -- \uXXXX
    have d1 : c / 4096 < 16 := by omega
    have d2 : c / 256 % 16 < 16 := by omega
    have d3 : c / 16 % 16 < 16 := by omega
    have d4 : c % 16 < 16 := by omega
    have hsum : c / 4096 * 4096 + c / 256 % 16 * 256 + c / 16 % 16 * 16 + c % 16 = c := by omega
    simp [parseStrBody, hex_roundtrip _ d1, hex_roundtrip _ d2, hex_roundtrip _ d3, hex_roundtrip _ d4, hsum]
  · -- the code unit itself: not a quote, not a backslash, not a control character
    rename_i hcond
    have hge : ¬ c < 0x20 := by
      intro hlt
      apply hcond
      simp [hlt]
    simp [parseStrBody, e6, e7, hge]

/-- STRINGS ROUND-TRIP: for every sequence of UTF-16 code units — including control characters, quotes, backslashes and
    lone surrogates in any position — parsing the quoted form gives the sequence back and stops right after the closing quote -/
theorem string_roundtrip : ∀ (s : List Nat) (ph : Bool) (rest : List Nat) (fuel : Nat), (∀ c ∈ s, c < 65536) → s.length < fuel →
    parseStrBody fuel (quoteBody ph s ++ 0x22 :: rest) = some (s, rest) := by
  intro s
  induction s with
  | nil =>
    intro ph rest fuel _ hf
    cases fuel with
    | zero => omega
    | succ f => simp [quoteBody, parseStrBody]
  | cons c cs ih =>
    intro ph rest fuel hs hf
    cases fuel with
    | zero => omega
    | succ f =>
      have hc : c < 65536 := hs c (by simp)
      simp only [quoteBody, List.append_assoc]
      rw [parse_unit c hc]
      rw [ih _ rest f (fun x hx => hs x (by simp [hx])) (by simp at hf; omega)]
      rfl

theorem quote_roundtrip (s rest : List Nat) (hs : ∀ c ∈ s, c < 65536) :
    parseStrBody (s.length + 1) (quoteBody false s ++ 0x22 :: rest) = some (s, rest) :=
  string_roundtrip s false rest (s.length + 1) hs (by omega)

/-- WELL-FORMED OUTPUT: QuoteJSONString never emits a raw control character, and never a raw surrogate that is not part
    of a pair — every code unit it emits is either printable ASCII of an escape or the original (non-control) unit -/
theorem quoteUnit_no_control (c : Nat) (ph : Bool) (next : Bool) : ∀ u ∈ quoteUnit ph c next, 0x20 ≤ u := by
  intro u hu
  unfold quoteUnit at hu
  split at hu
  · simp at hu; omega
  split at hu
  · simp at hu; omega
  split at hu
  · simp at hu; omega
  split at hu
  · simp at hu; omega
  split at hu
  · simp at hu; omega
  split at hu
  · simp at hu; omega
  split at hu
  · simp at hu; omega
  split at hu
  · simp only [List.mem_cons, List.mem_nil_iff, or_false] at hu
    unfold hexChar at hu
    rcases hu with h | h | h | h | h | h <;> (try omega) <;> (split at h <;> omega)
  · rename_i hcond
    simp only [List.mem_singleton] at hu
    subst hu
    by_cases hlt : u < 0x20
    · exact absurd (by simp [hlt]) hcond
    · omega

-- the examples: a value with every kind of character round-trips, and texts the grammar must reject
example : (parse (stringify (.obj (.cons [0x61] (.arr (.cons (.num [0x2D, 0x31, 0x2E, 0x35, 0x65, 0x33]) (.cons (.str [0x22, 0x5C, 0x0A, 0xD800, 0x41]) (.cons .null .nil)))) .nil)))).map stringify
    = some (stringify (.obj (.cons [0x61] (.arr (.cons (.num [0x2D, 0x31, 0x2E, 0x35, 0x65, 0x33]) (.cons (.str [0x22, 0x5C, 0x0A, 0xD800, 0x41]) (.cons .null .nil)))) .nil))) := by decide
example : (parse [0x5B, 0x31, 0x2C, 0x5D]).isNone = true := by decide          -- [1,]
example : (parse [0x30, 0x31]).isNone = true := by decide                      -- 01
example : (parse [0x7B, 0x22, 0x61, 0x22, 0x3A, 0x31, 0x2C, 0x22, 0x62, 0x22, 0x3A, 0x32, 0x2C, 0x22, 0x61, 0x22, 0x3A, 0x33, 0x7D]).map stringify
    = some [0x7B, 0x22, 0x61, 0x22, 0x3A, 0x33, 0x2C, 0x22, 0x62, 0x22, 0x3A, 0x32, 0x7D] := by decide   -- {"a":1,"b":2,"a":3} -> {"a":3,"b":2}

end BoaVerif.C18
