/-
  C18 model: the JSON grammar (ECMA-404 / ECMA-262 24.5) over UTF-16 code units, the value mapping of JSON.parse
  (objects keep the first position and the last value of a duplicate key, `__proto__` is an ordinary key) and the
  serialisation of JSON.stringify for JSON-representable values (QuoteJSONString incl. well-formed escaping of lone
  surrogates). Numbers are kept as their token text (their value is C13's business). Import-free.
-/
namespace BoaVerif.C18

-- a UTF-16 code unit is a natural number < 65536

mutual
  inductive JV
    | null
    | bool (b : Bool)
    | num (tok : List Nat)       -- a JSON number token
    | str (s : List Nat)
    | arr (xs : JL)
    | obj (kvs : JO)
  inductive JL
    | nil
    | cons (v : JV) (t : JL)
  inductive JO
    | nil
    | cons (k : List Nat) (v : JV) (t : JO)
end

-- ------------------------------------------------------------------ characters
def isWs (c : Nat) : Bool := c == 0x20 || c == 0x09 || c == 0x0A || c == 0x0D
def isDigit (c : Nat) : Bool := 0x30 ≤ c && c ≤ 0x39
def isNumChar (c : Nat) : Bool := isDigit c || c == 0x2D || c == 0x2B || c == 0x2E || c == 0x65 || c == 0x45
def isSurrogate (c : Nat) : Bool := 0xD800 ≤ c && c ≤ 0xDFFF
def isHigh (c : Nat) : Bool := 0xD800 ≤ c && c ≤ 0xDBFF
def isLow (c : Nat) : Bool := 0xDC00 ≤ c && c ≤ 0xDFFF

def hexChar (d : Nat) : Nat := if d < 10 then 0x30 + d else 0x61 + (d - 10)
def hexVal (c : Nat) : Option Nat :=
  if 0x30 ≤ c && c ≤ 0x39 then some (c - 0x30)
  else if 0x61 ≤ c && c ≤ 0x66 then some (c - 0x61 + 10)
  else if 0x41 ≤ c && c ≤ 0x46 then some (c - 0x41 + 10)
  else none

def skipWs : List Nat → List Nat
  | [] => []
  | c :: cs => if isWs c then skipWs cs else c :: cs

-- ------------------------------------------------------------------ numbers: -?(0|[1-9][0-9]*)(\.[0-9]+)?([eE][+-]?[0-9]+)?
def digits1 : List Nat → Option (List Nat)       -- one or more digits; returns the rest
  | c :: cs => if isDigit c then some (cs.dropWhile isDigit) else none
  | [] => none

def validNumber (t : List Nat) : Bool :=
  let t1 := match t with | 0x2D :: r => r | r => r
  let afterInt : Option (List Nat) := match t1 with
    | 0x30 :: r => some r
    | c :: r => if 0x31 ≤ c && c ≤ 0x39 then some (r.dropWhile isDigit) else none
    | [] => none
  match afterInt with
  | none => false
  | some r =>
    let afterFrac : Option (List Nat) := match r with
      | 0x2E :: r2 => digits1 r2
      | _ => some r
    match afterFrac with
    | none => false
    | some r3 =>
      match r3 with
      | [] => true
      | c :: r4 =>
        if c == 0x65 || c == 0x45 then
          let r5 := match r4 with | 0x2B :: x => x | 0x2D :: x => x | x => x
          (match digits1 r5 with | some [] => true | _ => false)
        else false

-- ------------------------------------------------------------------ strings
/-- QuoteJSONString body: one code unit; `nextLow`: the following code unit is a low surrogate (to recognise pairs) -/
def quoteUnit (prevHigh : Bool) (c : Nat) (nextLow : Bool) : List Nat :=
  if c == 0x08 then [0x5C, 0x62] else if c == 0x09 then [0x5C, 0x74] else if c == 0x0A then [0x5C, 0x6E]
  else if c == 0x0C then [0x5C, 0x66] else if c == 0x0D then [0x5C, 0x72]
  else if c == 0x22 then [0x5C, 0x22] else if c == 0x5C then [0x5C, 0x5C]
  else
    if c < 0x20 || (isSurrogate c && !((isHigh c && nextLow) || (isLow c && prevHigh))) then
      [0x5C, 0x75, hexChar (c / 4096), hexChar (c / 256 % 16), hexChar (c / 16 % 16), hexChar (c % 16)]
    else [c]

/-- `prevHigh`: the previous code unit was a high surrogate that starts a pair with this one -/
def quoteBody : Bool → List Nat → List Nat
  | _, [] => []
  | prevHigh, c :: cs =>
    let nextLow := match cs.head? with | some n => isLow n | none => false
    quoteUnit prevHigh c nextLow ++ quoteBody (isHigh c && nextLow) cs

def quote (s : List Nat) : List Nat := 0x22 :: quoteBody false s ++ [0x22]

/-- the characters of a JSON string up to the closing quote: (decoded, rest after the quote) -/
def parseStrBody : Nat → List Nat → Option (List Nat × List Nat)
  | 0, _ => none
  | _ + 1, [] => none
  | fuel + 1, c :: cs =>
    if c == 0x22 then some ([], cs)
    else if c < 0x20 then none
    else if c == 0x5C then
      match cs with
      | [] => none
      | e :: r =>
        let simple : Option Nat :=
          if e == 0x22 then some 0x22 else if e == 0x5C then some 0x5C else if e == 0x2F then some 0x2F
          else if e == 0x62 then some 0x08 else if e == 0x66 then some 0x0C else if e == 0x6E then some 0x0A
          else if e == 0x72 then some 0x0D else if e == 0x74 then some 0x09 else none
        match simple with
        | some u => (parseStrBody fuel r).map (fun p => (u :: p.1, p.2))
        | none =>
          if e == 0x75 then
            match r with
            | a :: b :: c2 :: d :: r2 =>
              (match hexVal a, hexVal b, hexVal c2, hexVal d with
               | some x1, some x2, some x3, some x4 =>
                 (parseStrBody fuel r2).map (fun p => ((x1 * 4096 + x2 * 256 + x3 * 16 + x4) :: p.1, p.2))
               | _, _, _, _ => none)
            | _ => none
          else none
    else (parseStrBody fuel cs).map (fun p => (c :: p.1, p.2))

-- ------------------------------------------------------------------ objects: duplicate keys
def objSet (k : List Nat) (v : JV) : JO → JO
  | .nil => .cons k v .nil
  | .cons k2 v2 t => if k2 == k then .cons k2 v t else .cons k2 v2 (objSet k v t)

-- ------------------------------------------------------------------ the parser (fuel = an upper bound on the input length)
mutual
  def parseValue : Nat → List Nat → Option (JV × List Nat)
    | 0, _ => none
    | fuel + 1, inp =>
      match skipWs inp with
      | [] => none
      | c :: cs =>
        if c == 0x22 then (parseStrBody (cs.length + 1) cs).map (fun p => (.str p.1, p.2))
        else if c == 0x5B then
          (match skipWs cs with
           | 0x5D :: r => some (.arr .nil, r)
           | _ => (parseElems fuel cs).map (fun p => (.arr p.1, p.2)))
        else if c == 0x7B then
          (match skipWs cs with
           | 0x7D :: r => some (.obj .nil, r)
           | _ => (parseMembers fuel cs .nil).map (fun p => (.obj p.1, p.2)))
        else if c == 0x74 then (match cs with | 0x72 :: 0x75 :: 0x65 :: r => some (.bool true, r) | _ => none)
        else if c == 0x66 then (match cs with | 0x61 :: 0x6C :: 0x73 :: 0x65 :: r => some (.bool false, r) | _ => none)
        else if c == 0x6E then (match cs with | 0x75 :: 0x6C :: 0x6C :: r => some (.null, r) | _ => none)
        else if c == 0x2D || isDigit c then
          let tok := (c :: cs).takeWhile isNumChar
          if validNumber tok then some (.num tok, (c :: cs).dropWhile isNumChar) else none
        else none
  /-- one or more values separated by commas, then `]` -/
  def parseElems : Nat → List Nat → Option (JL × List Nat)
    | 0, _ => none
    | fuel + 1, inp =>
      match parseValue fuel inp with
      | none => none
      | some (v, r) =>
        match skipWs r with
        | 0x2C :: r2 => (parseElems fuel r2).map (fun p => (.cons v p.1, p.2))
        | 0x5D :: r2 => some (.cons v .nil, r2)
        | _ => none
  /-- one or more `"key" : value` separated by commas, then `}`; `acc` holds the members seen so far -/
  def parseMembers : Nat → List Nat → JO → Option (JO × List Nat)
    | 0, _, _ => none
    | fuel + 1, inp, acc =>
      match skipWs inp with
      | 0x22 :: cs =>
        (match parseStrBody (cs.length + 1) cs with
         | none => none
         | some (k, r) =>
           match skipWs r with
           | 0x3A :: r2 =>
             (match parseValue fuel r2 with
              | none => none
              | some (v, r3) =>
                let acc' := objSet k v acc
                match skipWs r3 with
                | 0x2C :: r4 => parseMembers fuel r4 acc'
                | 0x7D :: r4 => some (acc', r4)
                | _ => none)
           | _ => none)
      | _ => none
end

/-- JSON.parse on a whole text: a value, optional white space, end of input -/
def parse (inp : List Nat) : Option JV :=
  match parseValue (inp.length + 1) inp with
  | some (v, r) => if (skipWs r).isEmpty then some v else none
  | none => none

-- ------------------------------------------------------------------ the serialiser (no indent)
mutual
  def stringify : JV → List Nat
    | .null => [0x6E, 0x75, 0x6C, 0x6C]
    | .bool true => [0x74, 0x72, 0x75, 0x65]
    | .bool false => [0x66, 0x61, 0x6C, 0x73, 0x65]
    | .num t => t
    | .str s => quote s
    | .arr xs => 0x5B :: stringifyL xs ++ [0x5D]
    | .obj kvs => 0x7B :: stringifyO kvs ++ [0x7D]
  def stringifyL : JL → List Nat
    | .nil => []
    | .cons v .nil => stringify v
    | .cons v t => stringify v ++ 0x2C :: stringifyL t
  def stringifyO : JO → List Nat
    | .nil => []
    | .cons k v .nil => quote k ++ 0x3A :: stringify v
    | .cons k v t => quote k ++ 0x3A :: stringify v ++ 0x2C :: stringifyO t
end

end BoaVerif.C18
