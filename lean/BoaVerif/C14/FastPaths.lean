/- C14 — the fast paths that bypass the storage API agree with it: the VM's dense get/set and the dense path of
   Array.prototype.shift denote, through `Indexed.abs`, exactly what the generic route denotes. -/
import BoaVerif.C14.Lemmas3
namespace BoaVerif.C14

theorem getElem?_tail {α} (x : α) (v : List α) (j : Nat) : v[j]? = (x :: v)[j + 1]? := by simp

/-- a hit of the dense read path returns the value the generic `get` would find; a miss on dense storage means absent -/
theorem abs_getDense (s : Indexed) (k : Nat) :
    (∀ v, s.getDense k = some v → s.get k = some (plain v)) ∧
    (s.getDense k = none → (s.denseLen).isSome → s.get k = none) := by
  cases s with
  | denseI32 v => simp only [Indexed.getDense, Indexed.get]; cases v[k]? <;> simp
  | denseF64 v => simp only [Indexed.getDense, Indexed.get]; cases v[k]? <;> simp
  | denseElement v => simp only [Indexed.getDense, Indexed.get]; cases v[k]? <;> simp
  | sparseElement m => simp [Indexed.getDense, Indexed.denseLen]
  | sparseProperty m => simp [Indexed.getDense, Indexed.denseLen]

/-- the dense write path denotes the map update `k ↦ plain value`, whichever variant it starts in or switches to -/
theorem abs_setDense (s s' : Indexed) (k : Nat) (value : Val) (h : s.setDense k value = some s') (j : Nat) :
    s'.abs j = if j = k then some (semPlain value.sem) else s.abs j := by
  cases s with
  | denseI32 v =>
    simp only [Indexed.setDense] at h
    split at h
    · rename_i hk
      cases value with
      | i32 i =>
        simp only [Option.some.injEq] at h; subst h
        rw [abs_denseI32, abs_denseI32, getElem?_set' _ _ _ _ hk]
        by_cases hj : j = k <;> simp [hj, Val.sem]
      | f64 n =>
        cases n with
        | int i =>
          simp only [Option.some.injEq] at h; subst h
          rw [abs_denseI32, abs_denseI32, getElem?_set' _ _ _ _ hk]
          by_cases hj : j = k <;> simp [hj, Val.sem]
        | dbl d =>
          simp only [Option.some.injEq] at h; subst h
          rw [abs_denseF64, abs_denseI32, getElem?_set' _ _ _ _ (by simpa using hk)]
          by_cases hj : j = k
          · simp [hj, Val.sem]
          · simp only [hj, ↓reduceIte, List.getElem?_map, Option.map_map]; rfl
      | other o =>
        simp only [Option.some.injEq] at h; subst h
        rw [abs_denseElement, abs_denseI32, getElem?_set' _ _ _ _ (by simpa using hk)]
        by_cases hj : j = k
        · simp [hj]
        · simp only [hj, ↓reduceIte, List.getElem?_map, Option.map_map]; rfl
    · cases h
  | denseF64 v =>
    simp only [Indexed.setDense] at h
    split at h
    · rename_i hk
      cases hn : value.asNumber with
      | some n =>
        rw [hn] at h
        simp only [Option.some.injEq] at h; subst h
        rw [abs_denseF64, abs_denseF64, getElem?_set' _ _ _ _ hk, asNumber_sem value n hn]
        by_cases hj : j = k <;> simp [hj]
      | none =>
        rw [hn] at h
        simp only [Option.some.injEq] at h; subst h
        rw [abs_denseElement, abs_denseF64, getElem?_set' _ _ _ _ (by simpa using hk)]
        by_cases hj : j = k
        · simp [hj]
        · simp only [hj, ↓reduceIte, List.getElem?_map, Option.map_map]; rfl
    · cases h
  | denseElement v =>
    simp only [Indexed.setDense] at h
    split at h
    · rename_i hk
      simp only [Option.some.injEq] at h; subst h
      rw [abs_denseElement, abs_denseElement, getElem?_set' _ _ _ _ hk]
      by_cases hj : j = k <;> simp [hj]
    · cases h
  | sparseElement m => simp [Indexed.setDense] at h
  | sparseProperty m => simp [Indexed.setDense] at h

/-- the dense shift path: the value returned is the element at 0, and every other element moves down by one -/
theorem abs_shiftDense (s s' : Indexed) (len : Nat) (v : Val) (h : s.shiftDense len = some (v, s')) :
    s.abs 0 = some (semPlain v.sem) ∧ (∀ j, s'.abs j = s.abs (j + 1)) ∧ 1 ≤ len ∧ ∃ n, s.denseLen = some n ∧ len ≤ n := by
  cases s with
  | denseI32 l =>
    cases l with
    | nil => simp [Indexed.shiftDense] at h
    | cons x l =>
      simp only [Indexed.shiftDense] at h
      split at h
      · rename_i hc
        simp only [Option.some.injEq, Prod.mk.injEq] at h
        obtain ⟨rfl, rfl⟩ := h
        refine ⟨by rw [abs_denseI32]; rfl, fun j => ?_, hc.1, l.length + 1, by simp [Indexed.denseLen], hc.2⟩
        rw [abs_denseI32, abs_denseI32, getElem?_tail x l j]
      · cases h
  | denseF64 l =>
    cases l with
    | nil => simp [Indexed.shiftDense] at h
    | cons x l =>
      simp only [Indexed.shiftDense] at h
      split at h
      · rename_i hc
        simp only [Option.some.injEq, Prod.mk.injEq] at h
        obtain ⟨rfl, rfl⟩ := h
        refine ⟨by rw [abs_denseF64]; rfl, fun j => ?_, hc.1, l.length + 1, by simp [Indexed.denseLen], hc.2⟩
        rw [abs_denseF64, abs_denseF64, getElem?_tail x l j]
      · cases h
  | denseElement l =>
    cases l with
    | nil => simp [Indexed.shiftDense] at h
    | cons x l =>
      simp only [Indexed.shiftDense] at h
      split at h
      · rename_i hc
        simp only [Option.some.injEq, Prod.mk.injEq] at h
        obtain ⟨rfl, rfl⟩ := h
        refine ⟨by rw [abs_denseElement]; rfl, fun j => ?_, hc.1, l.length + 1, by simp [Indexed.denseLen], hc.2⟩
        rw [abs_denseElement, abs_denseElement, getElem?_tail x l j]
      · cases h
  | sparseElement m => simp [Indexed.shiftDense] at h
  | sparseProperty m => simp [Indexed.shiftDense] at h

theorem sem_value_of_semPlain (d : Desc) (x : Sem) (h : d.sem = semPlain x) : d.value.sem = x := by
  have := congrArg SemDesc.value h
  exact this

theorem dense_abs (s : Indexed) (n : Nat) (h : s.denseLen = some n) :
    (∀ j, j < n → ∃ x, s.abs j = some (semPlain x)) ∧ (∀ j, n ≤ j → s.abs j = none) := by
  cases s with
  | denseI32 v =>
    simp only [Indexed.denseLen, Option.some.injEq] at h; subst h
    refine ⟨fun j hj => ⟨.num (.int v[j]), by rw [abs_denseI32]; simp [hj]⟩, fun j hj => by rw [abs_denseI32]; simp [hj]⟩
  | denseF64 v =>
    simp only [Indexed.denseLen, Option.some.injEq] at h; subst h
    refine ⟨fun j hj => ⟨.num v[j], by rw [abs_denseF64]; simp [hj]⟩, fun j hj => by rw [abs_denseF64]; simp [hj]⟩
  | denseElement v =>
    simp only [Indexed.denseLen, Option.some.injEq] at h; subst h
    refine ⟨fun j hj => ⟨v[j].sem, by rw [abs_denseElement]; simp [hj]⟩, fun j hj => by rw [abs_denseElement]; simp [hj]⟩
  | sparseElement m => simp [Indexed.denseLen] at h
  | sparseProperty m => simp [Indexed.denseLen] at h

/-- "plain data property or hole" below `len` -/
def PlainBelow (s : Indexed) (len : Nat) : Prop := ∀ j, j < len → s.abs j = none ∨ ∃ x, s.abs j = some (semPlain x)

theorem get_none_of_abs {s : Indexed} {j : Nat} (h : s.abs j = none) : s.get j = none := by
  unfold Indexed.abs at h
  cases hg : s.get j with
  | none => rfl
  | some d => rw [hg] at h; cases h

/-- the copy-down loop of the generic `shift`, after `n` rounds, on the abstraction — for ANY storage variant whose
    first `len` indices hold plain data properties or holes -/
theorem shiftLoop_abs (s : Indexed) (len : Nat) (hd : PlainBelow s len) :
    ∀ n, n + 1 ≤ len → ∀ j,
      ((List.range n).foldl Indexed.shiftStep s).abs j = if j < n then s.abs (j + 1) else s.abs j := by
  intro n
  induction n with
  | zero => intro _ j; simp
  | succ n ih =>
    intro hn j
    rw [List.range_succ, List.foldl_append]
    simp only [List.foldl_cons, List.foldl_nil]
    generalize hacc : (List.range n).foldl Indexed.shiftStep s = acc
    have ih' : ∀ j, acc.abs j = if j < n then s.abs (j + 1) else s.abs j := by
      intro j; rw [← hacc]; exact ih (by omega) j
    have hnext : acc.abs (n + 1) = s.abs (n + 1) := by rw [ih', if_neg (by omega)]
    have tailcase : ∀ (X : Option SemDesc), (if j = n then X else acc.abs j) =
        if j < n + 1 then (if j = n then X else s.abs (j + 1)) else s.abs j := by
      intro X
      by_cases hj : j = n
      · subst hj; simp
      · rw [if_neg hj, ih']
        by_cases h1 : j < n
        · simp [h1, show j < n + 1 by omega, hj]
        · simp [h1, show ¬ j < n + 1 by omega]
    rcases hd (n + 1) (by omega) with hx | ⟨x, hx⟩
    · -- a hole at k = n + 1: delete k - 1
      have hg := get_none_of_abs (hnext.trans hx)
      simp only [Indexed.shiftStep, hg]
      rw [(abs_remove acc n j).1, tailcase none]
      by_cases h1 : j < n + 1
      · rw [if_pos h1, if_pos h1]
        by_cases hj : j = n
        · subst hj; rw [if_pos rfl, hx]
        · rw [if_neg hj]
      · rw [if_neg h1, if_neg h1]
    · have hget : acc.abs (n + 1) = some (semPlain x) := hnext.trans hx
      unfold Indexed.abs at hget
      cases hg : acc.get (n + 1) with
      | none => rw [hg] at hget; cases hget
      | some d =>
        rw [hg] at hget
        simp only [Option.map_some, Option.some.injEq] at hget
        simp only [Indexed.shiftStep, hg]
        rw [(abs_insert acc n (plain d.value) j).1, plain_sem, sem_value_of_semPlain d x hget, tailcase]
        by_cases h1 : j < n + 1
        · rw [if_pos h1, if_pos h1]
          by_cases hj : j = n
          · subst hj; rw [if_pos rfl, hx]
          · rw [if_neg hj]
        · rw [if_neg h1, if_neg h1]

/-- THE GENERIC ALGORITHM IN CLOSED FORM, for any storage variant: steps 4–7 of Array.prototype.shift return the value at
    0 and move every element (and every hole) down by one -/
theorem shiftGeneric_abs (s : Indexed) (len : Nat) (h1 : 1 ≤ len) (hd : PlainBelow s len)
    (hn : ∀ j, len ≤ j → s.abs j = none) :
    (s.shiftGeneric len).1 = (s.abs 0).map (fun d => d.value) ∧ ∀ j, (s.shiftGeneric len).2.abs j = s.abs (j + 1) := by
  constructor
  · unfold Indexed.shiftGeneric Indexed.abs
    simp only
    cases s.get 0 <;> rfl
  · intro j
    unfold Indexed.shiftGeneric
    simp only
    rw [(abs_remove _ (len - 1) j).1, shiftLoop_abs s len hd (len - 1) (by omega) j]
    by_cases hj : j = len - 1
    · rw [if_pos hj, hn (j + 1) (by omega)]
    · rw [if_neg hj]
      by_cases h2 : j < len - 1
      · rw [if_pos h2]
      · rw [if_neg h2, hn j (by omega), hn (j + 1) (by omega)]

/-- FAST PATH = GENERIC ALGORITHM: on a dense array, `dense.remove(0)` returns the value and leaves the contents that
    the generic algorithm computes through the storage API -/
theorem shift_fast_eq_generic (s s' : Indexed) (len : Nat) (v : Val) (h : s.shiftDense len = some (v, s'))
    (hlen : s.denseLen = some len) :
    (s.shiftGeneric len).1 = some v.sem ∧ ∀ j, (s.shiftGeneric len).2.abs j = s'.abs j := by
  obtain ⟨h0, hs', h1, _⟩ := abs_shiftDense s s' len v h
  obtain ⟨hd, hn⟩ := dense_abs s len hlen
  obtain ⟨g1, g2⟩ := shiftGeneric_abs s len h1 (fun j hj => Or.inr (hd j hj)) hn
  refine ⟨?_, fun j => by rw [g2, hs']⟩
  rw [g1, h0]; rfl

/-! ### the JavaScript-level operations: one meaning, whichever path runs and whichever variant is active -/

/-- a well-formed array: nothing at or beyond `length`, plain data properties or holes below it -/
structure JsArr.WF (a : JsArr) : Prop where
  above : ∀ j, a.len ≤ j → a.st.abs j = none
  plain : PlainBelow a.st a.len

/-- a hit of the dense write path is an index below the dense length -/
theorem setDense_lt (s s' : Indexed) (k : Nat) (v : Val) (h : s.setDense k v = some s') : ∃ n, s.denseLen = some n ∧ k < n := by
  cases s with
  | denseI32 l =>
    simp only [Indexed.setDense] at h
    split at h
    · rename_i hk; exact ⟨l.length, rfl, hk⟩
    · cases h
  | denseF64 l =>
    simp only [Indexed.setDense] at h
    split at h
    · rename_i hk; exact ⟨l.length, rfl, hk⟩
    · cases h
  | denseElement l =>
    simp only [Indexed.setDense] at h
    split at h
    · rename_i hk; exact ⟨l.length, rfl, hk⟩
    · cases h
  | sparseElement m => simp [Indexed.setDense] at h
  | sparseProperty m => simp [Indexed.setDense] at h

/-- whether `a[k] = v` takes effect depends on the abstraction only: the index is below `length`, or `length` is writable -/
def jsSetAllowed (a : JsArr) (k : Nat) : Bool := decide (k < a.len) || a.lenWritable

theorem jsSet_abs (a : JsArr) (hwf : a.WF) (k : Nat) (v : Val) (j : Nat) :
    (jsSet a k v).st.abs j = if jsSetAllowed a k then (if j = k then some (semPlain v.sem) else a.st.abs j) else a.st.abs j := by
  unfold jsSet jsSetAllowed
  cases h : a.st.setDense k v with
  | some s' =>
    obtain ⟨n, hn, hk⟩ := setDense_lt a.st s' k v h
    have hkl : k < a.len := by
      by_cases hlt : k < a.len
      · exact hlt
      · obtain ⟨hd, _⟩ := dense_abs a.st n hn
        obtain ⟨x, hx⟩ := hd k hk
        rw [hwf.above k (by omega)] at hx; cases hx
    simp only [hkl, decide_true, Bool.true_or, ↓reduceIte]
    exact abs_setDense a.st s' k v h j
  | none =>
    simp only
    by_cases hkl : k < a.len
    · simp only [hkl, ↓reduceIte, decide_true, Bool.true_or]
      rw [(abs_insert a.st k (plain v) j).1, plain_sem]
    · cases hw : a.lenWritable with
      | true =>
        simp only [hkl, ↓reduceIte, decide_false, Bool.false_or]
        rw [(abs_insert a.st k (plain v) j).1, plain_sem]
      | false => simp [hkl]

theorem jsGet_abs (a : JsArr) (k : Nat) : jsGet a k = (a.st.abs k).map (fun d => d.value) := by
  unfold jsGet
  cases h : a.st.getDense k with
  | some v =>
    simp only
    have := (abs_getDense a.st k).1 v h
    unfold Indexed.abs; rw [this]; rfl
  | none =>
    simp only
    unfold Indexed.abs
    cases a.st.get k <;> rfl

/-- `shift` means the same on every storage: returned value, whether it throws, resulting contents and length are
    functions of the abstraction (contents, `length`, writability of `length`) alone -/
theorem jsShift_abs (a : JsArr) (hwf : a.WF) (h1 : 1 ≤ a.len) :
    (jsShift a).1 = (a.st.abs 0).map (fun d => d.value) ∧ (jsShift a).2.1 = !a.lenWritable ∧
    (∀ j, (jsShift a).2.2.st.abs j = a.st.abs (j + 1)) ∧
    (jsShift a).2.2.len = (if a.lenWritable then a.len - 1 else a.len) ∧ (jsShift a).2.2.lenWritable = a.lenWritable := by
  unfold jsShift
  have hne : (a.len == 0) = false := by simp; omega
  simp only [hne, Bool.false_eq_true, ↓reduceIte]
  cases h : a.st.shiftDense a.len with
  | some p =>
    obtain ⟨v, s'⟩ := p
    obtain ⟨h0, hs', _, _⟩ := abs_shiftDense a.st s' a.len v h
    simp only
    exact ⟨by rw [h0]; rfl, trivial, hs', trivial, trivial⟩
  | none =>
    simp only
    obtain ⟨g1, g2⟩ := shiftGeneric_abs a.st a.len h1 hwf.plain hwf.above
    exact ⟨g1, trivial, g2, trivial, trivial⟩

/-- a read-only `length` is honoured by BOTH paths of `shift` (the dense one included): it throws and `length` stays -/
theorem jsShift_readonly_length (a : JsArr) (hw : a.lenWritable = false) :
    (jsShift a).2.1 = true ∧ (jsShift a).2.2.len = a.len := by
  unfold jsShift
  by_cases h0 : (a.len == 0) = true
  · simp [h0, hw]
  · simp only [h0, Bool.false_eq_true, ↓reduceIte]
    cases a.st.shiftDense a.len with
    | some p => simp [hw]
    | none => simp [hw]

/-- STORAGE INDEPENDENCE at the JavaScript level: two arrays with the same observable state (contents in any two storage
    variants, `length`, its writability) give the same `a[k]`, and after `a[k] = v`, `a.push(v)` or `a.shift()` still
    have the same observable state, the same result and the same exception -/
theorem js_storage_independent (a b : JsArr) (hl : a.len = b.len) (hw : a.lenWritable = b.lenWritable)
    (h : ∀ j, a.st.abs j = b.st.abs j) (ha : a.WF) (hb : b.WF) (k : Nat) (v : Val) :
    jsGet a k = jsGet b k ∧ (∀ j, (jsSet a k v).st.abs j = (jsSet b k v).st.abs j) ∧
    ((jsPush a v).1 = (jsPush b v).1 ∧ ∀ j, (jsPush a v).2.st.abs j = (jsPush b v).2.st.abs j) ∧
    (1 ≤ a.len → (jsShift a).1 = (jsShift b).1 ∧ (jsShift a).2.1 = (jsShift b).2.1 ∧
      (∀ j, (jsShift a).2.2.st.abs j = (jsShift b).2.2.st.abs j) ∧ (jsShift a).2.2.len = (jsShift b).2.2.len) := by
  have hallow : jsSetAllowed a k = jsSetAllowed b k := by unfold jsSetAllowed; rw [hl, hw]
  refine ⟨by rw [jsGet_abs, jsGet_abs, h], fun j => by rw [jsSet_abs a ha, jsSet_abs b hb, hallow, h], ?_, fun h1 => ?_⟩
  · unfold jsPush
    rw [hw]
    cases b.lenWritable with
    | true =>
      simp only [↓reduceIte]
      refine ⟨trivial, fun j => ?_⟩
      rw [(abs_insert a.st a.len (plain v) j).1, (abs_insert b.st b.len (plain v) j).1, hl, h]
    | false => exact ⟨rfl, fun j => h j⟩
  · obtain ⟨a1, a2, a3, a4, _⟩ := jsShift_abs a ha h1
    obtain ⟨b1, b2, b3, b4, _⟩ := jsShift_abs b hb (hl ▸ h1)
    exact ⟨by rw [a1, b1, h], by rw [a2, b2, hw], fun j => by rw [a3, b3, h], by rw [a4, b4, hw, hl]⟩


-- non-vacuity: [1, 2, 3] in the dense variants; a read-only length
example : (Indexed.denseI32 [1, 2, 3]).shiftDense 3 = some (.i32 1, .denseI32 [2, 3]) := rfl
example : ((Indexed.denseI32 [1, 2, 3]).shiftGeneric 3).1 = some (.num (.int 1)) := by decide
example : ∀ j, j < 5 → ((Indexed.denseI32 [1, 2, 3]).shiftGeneric 3).2.abs j = (Indexed.denseI32 [2, 3]).abs j := by decide
example : (Indexed.denseI32 [1, 2, 3]).setDense 1 (.f64 (.dbl 7)) = some (.denseF64 [.int 1, .dbl 7, .int 3]) := rfl
example : (jsShift { st := .denseI32 [1, 2, 3], len := 3, lenWritable := false }).2.1 = true := by decide

end BoaVerif.C14
