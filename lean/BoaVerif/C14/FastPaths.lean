/- C14 — the fast paths that bypass the storage API agree with it: the VM's dense get/set and the dense path of
   Array.prototype.shift denote, through `Indexed.abs`, exactly what the generic route denotes. -/
import BoaVerif.C14.Lemmas3
namespace BoaVerif.C14

theorem getElem?_tail {α} (x : α) (v : List α) (j : Nat) : v[j]? = (x :: v)[j + 1]? := by simp

/-- a hit of the dense read path returns the value the generic `get` would find; a miss on dense storage means absent -/
theorem abs_getDense (s : Indexed) (k : Nat) :
    (∀ v, s.getDense k = some v → s.get k = some (plain v)) ∧
    (s.getDense k = none → (s.denseLen).isSome → s.get k = none) := by
  cases s with
  | denseI32 v => simp only [Indexed.getDense, Indexed.get]; cases v[k]? <;> simp
  | denseF64 v => simp only [Indexed.getDense, Indexed.get]; cases v[k]? <;> simp
  | denseElement v => simp only [Indexed.getDense, Indexed.get]; cases v[k]? <;> simp
  | sparseElement m => simp [Indexed.getDense, Indexed.denseLen]
  | sparseProperty m => simp [Indexed.getDense, Indexed.denseLen]

/-- the dense write path denotes the map update `k ↦ plain value`, whichever variant it starts in or switches to -/
theorem abs_setDense (s s' : Indexed) (k : Nat) (value : Val) (h : s.setDense k value = some s') (j : Nat) :
    s'.abs j = if j = k then some (semPlain value.sem) else s.abs j := by
  cases s with
  | denseI32 v =>
    simp only [Indexed.setDense] at h
    split at h
    · rename_i hk
      cases value with
      | i32 i =>
        simp only [Option.some.injEq] at h; subst h
        rw [abs_denseI32, abs_denseI32, getElem?_set' _ _ _ _ hk]
        by_cases hj : j = k <;> simp [hj, Val.sem]
      | f64 n =>
        cases n with
        | int i =>
          simp only [Option.some.injEq] at h; subst h
          rw [abs_denseI32, abs_denseI32, getElem?_set' _ _ _ _ hk]
          by_cases hj : j = k <;> simp [hj, Val.sem]
        | dbl d =>
          simp only [Option.some.injEq] at h; subst h
          rw [abs_denseF64, abs_denseI32, getElem?_set' _ _ _ _ (by simpa using hk)]
          by_cases hj : j = k
          · simp [hj, Val.sem]
          · simp only [hj, ↓reduceIte, List.getElem?_map, Option.map_map]; rfl
      | other o =>
        simp only [Option.some.injEq] at h; subst h
        rw [abs_denseElement, abs_denseI32, getElem?_set' _ _ _ _ (by simpa using hk)]
        by_cases hj : j = k
        · simp [hj]
        · simp only [hj, ↓reduceIte, List.getElem?_map, Option.map_map]; rfl
    · cases h
  | denseF64 v =>
    simp only [Indexed.setDense] at h
    split at h
    · rename_i hk
      cases hn : value.asNumber with
      | some n =>
        rw [hn] at h
        simp only [Option.some.injEq] at h; subst h
        rw [abs_denseF64, abs_denseF64, getElem?_set' _ _ _ _ hk, asNumber_sem value n hn]
        by_cases hj : j = k <;> simp [hj]
      | none =>
        rw [hn] at h
        simp only [Option.some.injEq] at h; subst h
        rw [abs_denseElement, abs_denseF64, getElem?_set' _ _ _ _ (by simpa using hk)]
        by_cases hj : j = k
        · simp [hj]
        · simp only [hj, ↓reduceIte, List.getElem?_map, Option.map_map]; rfl
    · cases h
  | denseElement v =>
    simp only [Indexed.setDense] at h
    split at h
    · rename_i hk
      simp only [Option.some.injEq] at h; subst h
      rw [abs_denseElement, abs_denseElement, getElem?_set' _ _ _ _ hk]
      by_cases hj : j = k <;> simp [hj]
    · cases h
  | sparseElement m => simp [Indexed.setDense] at h
  | sparseProperty m => simp [Indexed.setDense] at h

/-- the dense shift path: the value returned is the element at 0, and every other element moves down by one -/
theorem abs_shiftDense (s s' : Indexed) (len : Nat) (v : Val) (h : s.shiftDense len = some (v, s')) :
    s.abs 0 = some (semPlain v.sem) ∧ (∀ j, s'.abs j = s.abs (j + 1)) ∧ 1 ≤ len ∧ ∃ n, s.denseLen = some n ∧ len ≤ n := by
  cases s with
  | denseI32 l =>
    cases l with
    | nil => simp [Indexed.shiftDense] at h
    | cons x l =>
      simp only [Indexed.shiftDense] at h
      split at h
      · rename_i hc
        simp only [Option.some.injEq, Prod.mk.injEq] at h
        obtain ⟨rfl, rfl⟩ := h
        refine ⟨by rw [abs_denseI32]; rfl, fun j => ?_, hc.1, l.length + 1, by simp [Indexed.denseLen], hc.2⟩
        rw [abs_denseI32, abs_denseI32, getElem?_tail x l j]
      · cases h
  | denseF64 l =>
    cases l with
    | nil => simp [Indexed.shiftDense] at h
    | cons x l =>
      simp only [Indexed.shiftDense] at h
      split at h
      · rename_i hc
        simp only [Option.some.injEq, Prod.mk.injEq] at h
        obtain ⟨rfl, rfl⟩ := h
        refine ⟨by rw [abs_denseF64]; rfl, fun j => ?_, hc.1, l.length + 1, by simp [Indexed.denseLen], hc.2⟩
        rw [abs_denseF64, abs_denseF64, getElem?_tail x l j]
      · cases h
  | denseElement l =>
    cases l with
    | nil => simp [Indexed.shiftDense] at h
    | cons x l =>
      simp only [Indexed.shiftDense] at h
      split at h
      · rename_i hc
        simp only [Option.some.injEq, Prod.mk.injEq] at h
        obtain ⟨rfl, rfl⟩ := h
        refine ⟨by rw [abs_denseElement]; rfl, fun j => ?_, hc.1, l.length + 1, by simp [Indexed.denseLen], hc.2⟩
        rw [abs_denseElement, abs_denseElement, getElem?_tail x l j]
      · cases h
  | sparseElement m => simp [Indexed.shiftDense] at h
  | sparseProperty m => simp [Indexed.shiftDense] at h

theorem sem_value_of_semPlain (d : Desc) (x : Sem) (h : d.sem = semPlain x) : d.value.sem = x := by
  have := congrArg SemDesc.value h
  exact this

theorem dense_abs (s : Indexed) (n : Nat) (h : s.denseLen = some n) :
    (∀ j, j < n → ∃ x, s.abs j = some (semPlain x)) ∧ (∀ j, n ≤ j → s.abs j = none) := by
  cases s with
  | denseI32 v =>
    simp only [Indexed.denseLen, Option.some.injEq] at h; subst h
    refine ⟨fun j hj => ⟨.num (.int v[j]), by rw [abs_denseI32]; simp [hj]⟩, fun j hj => by rw [abs_denseI32]; simp [hj]⟩
  | denseF64 v =>
    simp only [Indexed.denseLen, Option.some.injEq] at h; subst h
    refine ⟨fun j hj => ⟨.num v[j], by rw [abs_denseF64]; simp [hj]⟩, fun j hj => by rw [abs_denseF64]; simp [hj]⟩
  | denseElement v =>
    simp only [Indexed.denseLen, Option.some.injEq] at h; subst h
    refine ⟨fun j hj => ⟨v[j].sem, by rw [abs_denseElement]; simp [hj]⟩, fun j hj => by rw [abs_denseElement]; simp [hj]⟩
  | sparseElement m => simp [Indexed.denseLen] at h
  | sparseProperty m => simp [Indexed.denseLen] at h

/-- "plain data property or hole" below `len` -/
def PlainBelow (s : Indexed) (len : Nat) : Prop := ∀ j, j < len → s.abs j = none ∨ ∃ x, s.abs j = some (semPlain x)

theorem get_none_of_abs {s : Indexed} {j : Nat} (h : s.abs j = none) : s.get j = none := by
  unfold Indexed.abs at h
  cases hg : s.get j with
  | none => rfl
  | some d => rw [hg] at h; cases h

/-- the copy-down loop of the generic `shift`, after `n` rounds, on the abstraction — for ANY storage variant whose
    first `len` indices hold plain data properties or holes -/
theorem shiftLoop_abs (s : Indexed) (len : Nat) (hd : PlainBelow s len) :
    ∀ n, n + 1 ≤ len → ∀ j,
      ((List.range n).foldl Indexed.shiftStep s).abs j = if j < n then s.abs (j + 1) else s.abs j := by
  intro n
  induction n with
  | zero => intro _ j; simp
  | succ n ih =>
    intro hn j
    rw [List.range_succ, List.foldl_append]
    simp only [List.foldl_cons, List.foldl_nil]
    generalize hacc : (List.range n).foldl Indexed.shiftStep s = acc
    have ih' : ∀ j, acc.abs j = if j < n then s.abs (j + 1) else s.abs j := by
      intro j; rw [← hacc]; exact ih (by omega) j
    have hnext : acc.abs (n + 1) = s.abs (n + 1) := by rw [ih', if_neg (by omega)]
    have tailcase : ∀ (X : Option SemDesc), (if j = n then X else acc.abs j) =
        if j < n + 1 then (if j = n then X else s.abs (j + 1)) else s.abs j := by
      intro X
      by_cases hj : j = n
      · subst hj; simp
      · rw [if_neg hj, ih']
        by_cases h1 : j < n
        · simp [h1, show j < n + 1 by omega, hj]
        · simp [h1, show ¬ j < n + 1 by omega]
    rcases hd (n + 1) (by omega) with hx | ⟨x, hx⟩
    · -- a hole at k = n + 1: delete k - 1
      have hg := get_none_of_abs (hnext.trans hx)
      simp only [Indexed.shiftStep, hg]
      rw [(abs_remove acc n j).1, tailcase none]
      by_cases h1 : j < n + 1
      · rw [if_pos h1, if_pos h1]
        by_cases hj : j = n
        · subst hj; rw [if_pos rfl, hx]
        · rw [if_neg hj]
      · rw [if_neg h1, if_neg h1]
    · have hget : acc.abs (n + 1) = some (semPlain x) := hnext.trans hx
      unfold Indexed.abs at hget
      cases hg : acc.get (n + 1) with
      | none => rw [hg] at hget; cases hget
      | some d =>
        rw [hg] at hget
        simp only [Option.map_some, Option.some.injEq] at hget
        simp only [Indexed.shiftStep, hg]
        rw [(abs_insert acc n (plain d.value) j).1, plain_sem, sem_value_of_semPlain d x hget, tailcase]
        by_cases h1 : j < n + 1
        · rw [if_pos h1, if_pos h1]
          by_cases hj : j = n
          · subst hj; rw [if_pos rfl, hx]
          · rw [if_neg hj]
        · rw [if_neg h1, if_neg h1]

/-- THE GENERIC ALGORITHM IN CLOSED FORM, for any storage variant: steps 4–7 of Array.prototype.shift return the value at
    0 and move every element (and every hole) down by one -/
theorem shiftGeneric_abs (s : Indexed) (len : Nat) (h1 : 1 ≤ len) (hd : PlainBelow s len)
    (hn : ∀ j, len ≤ j → s.abs j = none) :
    (s.shiftGeneric len).1 = (s.abs 0).map (fun d => d.value) ∧ ∀ j, (s.shiftGeneric len).2.abs j = s.abs (j + 1) := by
  constructor
  · unfold Indexed.shiftGeneric Indexed.abs
    simp only
    cases s.get 0 <;> rfl
  · intro j
    unfold Indexed.shiftGeneric
    simp only
    rw [(abs_remove _ (len - 1) j).1, shiftLoop_abs s len hd (len - 1) (by omega) j]
    by_cases hj : j = len - 1
    · rw [if_pos hj, hn (j + 1) (by omega)]
    · rw [if_neg hj]
      by_cases h2 : j < len - 1
      · rw [if_pos h2]
      · rw [if_neg h2, hn j (by omega), hn (j + 1) (by omega)]

/-- FAST PATH = GENERIC ALGORITHM: on a dense array, `dense.remove(0)` returns the value and leaves the contents that
    the generic algorithm computes through the storage API -/
theorem shift_fast_eq_generic (s s' : Indexed) (len : Nat) (v : Val) (h : s.shiftDense len = some (v, s'))
    (hlen : s.denseLen = some len) :
    (s.shiftGeneric len).1 = some v.sem ∧ ∀ j, (s.shiftGeneric len).2.abs j = s'.abs j := by
  obtain ⟨h0, hs', h1, _⟩ := abs_shiftDense s s' len v h
  obtain ⟨hd, hn⟩ := dense_abs s len hlen
  obtain ⟨g1, g2⟩ := shiftGeneric_abs s len h1 (fun j hj => Or.inr (hd j hj)) hn
  refine ⟨?_, fun j => by rw [g2, hs']⟩
  rw [g1, h0]; rfl

/-! ### the JavaScript-level operations: one meaning, whichever path runs and whichever variant is active -/

/-- a well-formed array: nothing at or beyond `length`, plain data properties or holes below it -/
structure JsArr.WF (a : JsArr) : Prop where
  above : ∀ j, a.len ≤ j → a.st.abs j = none
  plain : PlainBelow a.st a.len

theorem jsSet_abs (a : JsArr) (k : Nat) (v : Val) (j : Nat) :
    (jsSet a k v).st.abs j = if j = k then some (semPlain v.sem) else a.st.abs j := by
  unfold jsSet
  cases h : a.st.setDense k v with
  | some s' => exact abs_setDense a.st s' k v h j
  | none => simp only; rw [(abs_insert a.st k (plain v) j).1, plain_sem]

theorem jsGet_abs (a : JsArr) (k : Nat) : jsGet a k = (a.st.abs k).map (fun d => d.value) := by
  unfold jsGet
  cases h : a.st.getDense k with
  | some v =>
    simp only
    have := (abs_getDense a.st k).1 v h
    unfold Indexed.abs; rw [this]; rfl
  | none =>
    simp only
    unfold Indexed.abs
    cases a.st.get k <;> rfl

/-- `shift` means the same on every storage: returned value and resulting contents are functions of the abstraction -/
theorem jsShift_abs (a : JsArr) (hwf : a.WF) (h1 : 1 ≤ a.len) :
    (jsShift a).1 = (a.st.abs 0).map (fun d => d.value) ∧ (∀ j, (jsShift a).2.st.abs j = a.st.abs (j + 1)) ∧
    (jsShift a).2.len = a.len - 1 := by
  unfold jsShift
  have hne : (a.len == 0) = false := by simp; omega
  simp only [hne, Bool.false_eq_true, ↓reduceIte]
  cases h : a.st.shiftDense a.len with
  | some p =>
    obtain ⟨v, s'⟩ := p
    obtain ⟨h0, hs', _, _⟩ := abs_shiftDense a.st s' a.len v h
    simp only
    exact ⟨by rw [h0]; rfl, hs', trivial⟩
  | none =>
    simp only
    obtain ⟨g1, g2⟩ := shiftGeneric_abs a.st a.len h1 hwf.plain hwf.above
    exact ⟨g1, g2, trivial⟩

/-- STORAGE INDEPENDENCE at the JavaScript level: two arrays with the same observable contents (in any two storage
    variants) give the same `a[k]`, and after `a[k] = v` or `a.shift()` still have the same observable contents -/
theorem js_storage_independent (a b : JsArr) (hl : a.len = b.len) (h : ∀ j, a.st.abs j = b.st.abs j)
    (ha : a.WF) (hb : b.WF) (k : Nat) (v : Val) :
    jsGet a k = jsGet b k ∧ (∀ j, (jsSet a k v).st.abs j = (jsSet b k v).st.abs j) ∧
    (1 ≤ a.len → (jsShift a).1 = (jsShift b).1 ∧ ∀ j, (jsShift a).2.st.abs j = (jsShift b).2.st.abs j) := by
  refine ⟨by rw [jsGet_abs, jsGet_abs, h], fun j => by rw [jsSet_abs, jsSet_abs, h], fun h1 => ?_⟩
  obtain ⟨a1, a2, _⟩ := jsShift_abs a ha h1
  obtain ⟨b1, b2, _⟩ := jsShift_abs b hb (hl ▸ h1)
  exact ⟨by rw [a1, b1, h], fun j => by rw [a2, b2, h]⟩

-- non-vacuity: [1, 2, 3] in the three dense variants
example : (Indexed.denseI32 [1, 2, 3]).shiftDense 3 = some (.i32 1, .denseI32 [2, 3]) := rfl
example : ((Indexed.denseI32 [1, 2, 3]).shiftGeneric 3).1 = some (.num (.int 1)) := by decide
example : ∀ j, j < 5 → ((Indexed.denseI32 [1, 2, 3]).shiftGeneric 3).2.abs j = (Indexed.denseI32 [2, 3]).abs j := by decide
example : (Indexed.denseI32 [1, 2, 3]).setDense 1 (.f64 (.dbl 7)) = some (.denseF64 [.int 1, .dbl 7, .int 3]) := rfl

end BoaVerif.C14
