import BoaVerif.C14.Lemmas
namespace BoaVerif.C14

theorem get_allDescs (s : Indexed) (j : Nat) : alGet s.allDescs j = s.get j := by
  cases s with
  | sparseProperty m => rfl
  | sparseElement m => simp only [Indexed.allDescs, Indexed.denseValues, Indexed.get]; exact alGet_map m plain j
  | denseI32 v =>
    simp only [Indexed.allDescs, Indexed.denseValues, Indexed.get]
    rw [alGet_map _ plain j, alGet_enumFrom]; simp [List.getElem?_map, Function.comp_def]
  | denseF64 v =>
    simp only [Indexed.allDescs, Indexed.denseValues, Indexed.get]
    rw [alGet_map _ plain j, alGet_enumFrom]; simp [List.getElem?_map, Function.comp_def]
  | denseElement v =>
    simp only [Indexed.allDescs, Indexed.denseValues, Indexed.get]
    rw [alGet_map _ plain j, alGet_enumFrom]; simp

theorem get_denseValues (s : Indexed) (j : Nat) (h : ∀ m, s ≠ .sparseProperty m) :
    (alGet s.denseValues j).map plain = s.get j := by
  cases s with
  | sparseProperty m => exact absurd rfl (h m)
  | sparseElement m => rfl
  | denseI32 v => simp only [Indexed.denseValues, Indexed.get]; rw [alGet_enumFrom]; simp [List.getElem?_map, Function.comp_def]
  | denseF64 v => simp only [Indexed.denseValues, Indexed.get]; rw [alGet_enumFrom]; simp [List.getElem?_map, Function.comp_def]
  | denseElement v => simp only [Indexed.denseValues, Indexed.get]; rw [alGet_enumFrom]; simp

theorem simple_sem (d : Desc) (v : Val) (h : d.simple = some v) : d.sem = (plain v).sem := by
  unfold Desc.simple at h
  split at h
  · rename_i hc
    simp only [Bool.and_eq_true, Bool.not_eq_true'] at hc
    cases h
    cases d
    simp_all [Desc.sem, plain]
  · cases h

theorem asI32_sem (v : Val) (i : Int) (h : v.asI32 = some i) : v.sem = .num (.int i) := by
  cases v with
  | i32 x => simp [Val.asI32] at h; subst h; rfl
  | f64 n => cases n <;> simp [Val.asI32] at h; subst h; rfl
  | other k => simp [Val.asI32] at h

theorem asNumber_sem (v : Val) (n : Num) (h : v.asNumber = some n) : v.sem = .num n := by
  cases v with
  | i32 x => simp [Val.asNumber] at h; subst h; rfl
  | f64 m => simp [Val.asNumber] at h; subst h; rfl
  | other k => simp [Val.asNumber] at h

theorem getElem?_append_one {α} (l : List α) (x : α) (j : Nat) :
    (l ++ [x])[j]? = if j = l.length then some x else l[j]? := by
  by_cases h : j < l.length
  · rw [List.getElem?_append_left h]; simp [Nat.ne_of_lt h]
  · by_cases he : j = l.length
    · subst he; simp
    · have : l.length < j := by omega
      rw [List.getElem?_append_right (by omega)]
      have h2 : j - l.length ≠ 0 := by omega
      simp only [he, ↓reduceIte, List.getElem?_eq_none (Nat.le_of_lt this)]
      cases hh : j - l.length with
      | zero => exact absurd hh h2
      | succ n => rfl

theorem getElem?_set' {α} (l : List α) (k : Nat) (x : α) (j : Nat) (hk : k < l.length) :
    (l.set k x)[j]? = if j = k then some x else l[j]? := by
  rw [List.getElem?_set]
  by_cases h : k = j
  · subst h; simp [hk]
  · have : ¬ j = k := fun e => h e.symm
    simp [h, this]

def semPlain (x : Sem) : SemDesc := ⟨x, false, true, true, true⟩

theorem plain_sem (v : Val) : (plain v).sem = semPlain v.sem := rfl

theorem abs_denseI32 (v : List Int) (j : Nat) : (Indexed.denseI32 v).abs j = (v[j]?).map (fun i => semPlain (.num (.int i))) := by
  show Option.map Desc.sem (Option.map _ (v[j]?)) = _
  rw [Option.map_map]; rfl
theorem abs_denseF64 (v : List Num) (j : Nat) : (Indexed.denseF64 v).abs j = (v[j]?).map (fun n => semPlain (.num n)) := by
  show Option.map Desc.sem (Option.map _ (v[j]?)) = _
  rw [Option.map_map]; rfl
theorem abs_denseElement (v : List Val) (j : Nat) : (Indexed.denseElement v).abs j = (v[j]?).map (fun x => semPlain x.sem) := by
  show Option.map Desc.sem (Option.map _ (v[j]?)) = _
  rw [Option.map_map]; rfl
theorem abs_sparseElement (m : List (Nat × Val)) (j : Nat) : (Indexed.sparseElement m).abs j = (alGet m j).map (fun x => semPlain x.sem) := by
  show Option.map Desc.sem (Option.map _ (alGet m j)) = _
  rw [Option.map_map]; rfl
theorem abs_sparseProperty (m : List (Nat × Desc)) (j : Nat) : (Indexed.sparseProperty m).abs j = (alGet m j).map Desc.sem := rfl

theorem abs_of_denseValues (s : Indexed) (j : Nat) (h : ∀ m, s ≠ .sparseProperty m) :
    (alGet s.denseValues j).map (fun x => semPlain x.sem) = s.abs j := by
  unfold Indexed.abs
  rw [← get_denseValues s j h]
  cases alGet s.denseValues j <;> rfl

theorem isSome_map {α β} (f : α → β) (x : Option α) : (x.map f).isSome = x.isSome := by cases x <;> rfl

/-- one dense store: push at the end or overwrite inside -/
theorem dense_store {α} (v : List α) (k : Nat) (x : α) (hk : k ≤ v.length) (f : α → SemDesc) (j : Nat) :
    ((if (k == v.length) = true then (v ++ [x]) else v.set k x)[j]?).map f
      = if j = k then some (f x) else (v[j]?).map f := by
  by_cases he : k = v.length
  · subst he
    simp only [beq_self_eq_true, ↓reduceIte, getElem?_append_one]
    split <;> simp
  · have hlt : k < v.length := by omega
    have : (k == v.length) = false := by simpa using he
    simp only [this, Bool.false_eq_true, ↓reduceIte, getElem?_set' v k x _ hlt]
    split <;> simp

theorem dense_flag {α} (v : List α) (k : Nat) (hk : k ≤ v.length) :
    (if (k == v.length) = true then false else true) = (v[k]?).isSome := by
  by_cases he : k = v.length
  · subst he; simp
  · have hlt : k < v.length := by omega
    have : (k == v.length) = false := by simpa using he
    simp [this, hlt]

/-- REFINEMENT, insert: the abstract map is updated at exactly `k`, whatever the storage variant and
    whichever variant the operation switches to; the returned flag says whether `k` was present -/
theorem abs_insert (s : Indexed) (k : Nat) (d : Desc) (j : Nat) :
    (s.insert k d).1.abs j = (if j = k then some d.sem else s.abs j) ∧ (s.insert k d).2 = (s.abs k).isSome := by
  unfold Indexed.insert
  cases hsimp : d.simple with
  | none =>
    simp only [abs_sparseProperty, alGet_insert, alInsert_flag, get_allDescs]
    constructor
    · split
      · rfl
      · rfl
    · unfold Indexed.abs; rw [isSome_map]
  | some value =>
    have hsem : d.sem = semPlain value.sem := (simple_sem d value hsimp).trans (plain_sem value)
    rw [hsem]
    cases s with
    | sparseElement m =>
      simp only [abs_sparseElement, alGet_insert, alInsert_flag, isSome_map]
      constructor
      · split <;> rfl
      · trivial
    | sparseProperty m =>
      simp only [abs_sparseProperty, alGet_insert, alInsert_flag, isSome_map]
      constructor
      · split
        · rfl
        · rfl
      · trivial
    | denseI32 v =>
      simp only
      by_cases hk : k ≤ v.length
      · rw [if_pos hk]
        cases hi : value.asI32 with
        | some i =>
          have hs := asI32_sem value i hi
          simp only [hs]
          have h1 := dense_store v k i hk (fun i => semPlain (.num (.int i))) j
          have h2 := dense_flag v k hk
          by_cases he : (k == v.length) = true
          · simp only [he, ↓reduceIte] at h1 h2 ⊢
            exact ⟨by rw [abs_denseI32, abs_denseI32]; exact h1, by rw [abs_denseI32, isSome_map]; exact h2⟩
          · simp only [he, Bool.false_eq_true, ↓reduceIte] at h1 h2 ⊢
            exact ⟨by rw [abs_denseI32, abs_denseI32]; exact h1, by rw [abs_denseI32, isSome_map]; exact h2⟩
        | none =>
          cases hn : value.asNumber with
          | some n =>
            have hs := asNumber_sem value n hn
            simp only [hs]
            have hk' : k ≤ (v.map Num.int).length := by simpa using hk
            have h1 := dense_store (v.map Num.int) k n hk' (fun n => semPlain (.num n)) j
            have h2 := dense_flag (v.map Num.int) k hk'
            simp only [List.length_map, List.getElem?_map, Option.map_map] at h1 h2
            by_cases he : (k == v.length) = true
            · simp only [he, ↓reduceIte] at h1 h2 ⊢
              refine ⟨?_, ?_⟩
              · rw [abs_denseF64, abs_denseI32, h1]; rfl
              · rw [abs_denseI32, isSome_map]; rw [isSome_map] at h2; exact h2
            · simp only [he, Bool.false_eq_true, ↓reduceIte] at h1 h2 ⊢
              refine ⟨?_, ?_⟩
              · rw [abs_denseF64, abs_denseI32, h1]; rfl
              · rw [abs_denseI32, isSome_map]; rw [isSome_map] at h2; exact h2
          | none =>
            simp only
            have hk' : k ≤ (v.map Val.i32).length := by simpa using hk
            have h1 := dense_store (v.map Val.i32) k value hk' (fun x => semPlain x.sem) j
            have h2 := dense_flag (v.map Val.i32) k hk'
            simp only [List.length_map, List.getElem?_map, Option.map_map] at h1 h2
            by_cases he : (k == v.length) = true
            · simp only [he, ↓reduceIte] at h1 h2 ⊢
              refine ⟨?_, ?_⟩
              · rw [abs_denseElement, abs_denseI32, h1]; rfl
              · rw [abs_denseI32, isSome_map]; rw [isSome_map] at h2; exact h2
            · simp only [he, Bool.false_eq_true, ↓reduceIte] at h1 h2 ⊢
              refine ⟨?_, ?_⟩
              · rw [abs_denseElement, abs_denseI32, h1]; rfl
              · rw [abs_denseI32, isSome_map]; rw [isSome_map] at h2; exact h2
      · rw [if_neg hk]
        have hdv := abs_of_denseValues (.denseI32 v) (h := by intro m hm; cases hm)
        simp only [abs_sparseElement, alGet_insert, alInsert_flag]
        refine ⟨?_, ?_⟩
        · split
          · rfl
          · exact hdv j
        · rw [← hdv k, isSome_map]
    | denseF64 v =>
      simp only
      by_cases hk : k ≤ v.length
      · rw [if_pos hk]
        cases hn : value.asNumber with
        | some n =>
          have hs := asNumber_sem value n hn
          simp only [hs]
          have h1 := dense_store v k n hk (fun n => semPlain (.num n)) j
          have h2 := dense_flag v k hk
          by_cases he : (k == v.length) = true
          · simp only [he, ↓reduceIte] at h1 h2 ⊢
            exact ⟨by rw [abs_denseF64, abs_denseF64]; exact h1, by rw [abs_denseF64, isSome_map]; exact h2⟩
          · simp only [he, Bool.false_eq_true, ↓reduceIte] at h1 h2 ⊢
            exact ⟨by rw [abs_denseF64, abs_denseF64]; exact h1, by rw [abs_denseF64, isSome_map]; exact h2⟩
        | none =>
          simp only
          have hk' : k ≤ (v.map Val.f64).length := by simpa using hk
          have h1 := dense_store (v.map Val.f64) k value hk' (fun x => semPlain x.sem) j
          have h2 := dense_flag (v.map Val.f64) k hk'
          simp only [List.length_map, List.getElem?_map, Option.map_map] at h1 h2
          by_cases he : (k == v.length) = true
          · simp only [he, ↓reduceIte] at h1 h2 ⊢
            refine ⟨?_, ?_⟩
            · rw [abs_denseElement, abs_denseF64, h1]; rfl
            · rw [abs_denseF64, isSome_map]; rw [isSome_map] at h2; exact h2
          · simp only [he, Bool.false_eq_true, ↓reduceIte] at h1 h2 ⊢
            refine ⟨?_, ?_⟩
            · rw [abs_denseElement, abs_denseF64, h1]; rfl
            · rw [abs_denseF64, isSome_map]; rw [isSome_map] at h2; exact h2
      · rw [if_neg hk]
        have hdv := abs_of_denseValues (.denseF64 v) (h := by intro m hm; cases hm)
        simp only [abs_sparseElement, alGet_insert, alInsert_flag]
        refine ⟨?_, ?_⟩
        · split
          · rfl
          · exact hdv j
        · rw [← hdv k, isSome_map]
    | denseElement v =>
      simp only
      by_cases hk : k ≤ v.length
      · rw [if_pos hk]
        have h1 := dense_store v k value hk (fun x => semPlain x.sem) j
        have h2 := dense_flag v k hk
        by_cases he : (k == v.length) = true
        · simp only [he, ↓reduceIte] at h1 h2 ⊢
          exact ⟨by rw [abs_denseElement, abs_denseElement]; exact h1, by rw [abs_denseElement, isSome_map]; exact h2⟩
        · simp only [he, Bool.false_eq_true, ↓reduceIte] at h1 h2 ⊢
          exact ⟨by rw [abs_denseElement, abs_denseElement]; exact h1, by rw [abs_denseElement, isSome_map]; exact h2⟩
      · rw [if_neg hk]
        have hdv := abs_of_denseValues (.denseElement v) (h := by intro m hm; cases hm)
        simp only [abs_sparseElement, alGet_insert, alInsert_flag]
        refine ⟨?_, ?_⟩
        · split
          · rfl
          · exact hdv j
        · rw [← hdv k, isSome_map]

end BoaVerif.C14
