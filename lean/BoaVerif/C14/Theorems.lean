/- C14 — array behaviour is independent of the internal element storage. Property theorems only.
   `Indexed.abs` maps any of the five storage variants to the finite map index ↦ observable descriptor;
   every storage operation is the corresponding map operation, whatever variant it starts from and
   whichever variant it switches to. -/
import BoaVerif.C14.Lemmas3
namespace BoaVerif.C14

theorem refine_insert (s : Indexed) (k : Nat) (d : Desc) (j : Nat) :
    (s.insert k d).1.abs j = (if j = k then some d.sem else s.abs j) ∧ (s.insert k d).2 = (s.abs k).isSome :=
  abs_insert s k d j

theorem refine_remove (s : Indexed) (k : Nat) (j : Nat) :
    (s.remove k).1.abs j = (if j = k then none else s.abs j) ∧ (s.remove k).2 = (s.abs k).isSome :=
  abs_remove s k j

theorem refine_contains (s : Indexed) (k : Nat) : s.containsKey k = (s.abs k).isSome := abs_containsKey s k

theorem refine_to_sparse (s : Indexed) (j : Nat) : s.toSparse.abs j = s.abs j := abs_toSparse s j

theorem refine_push_dense (s : Indexed) (value : Val) :
    (∀ s', s.pushDense value = some s' → ∃ n, s.denseLen = some n ∧
        ∀ j, s'.abs j = if j = n then some (semPlain value.sem) else s.abs j) ∧
    (s.pushDense value = none ↔ s.denseLen = none) :=
  abs_pushDense s value

/-- STORAGE INDEPENDENCE: two storages that denote the same map still denote the same map after the same
    operation — so no sequence of inserts/removes can tell them apart (induction over the sequence) -/
theorem storage_independent_step (s t : Indexed) (h : ∀ j, s.abs j = t.abs j) (k : Nat) (d : Desc) :
    (∀ j, (s.insert k d).1.abs j = (t.insert k d).1.abs j) ∧ (s.insert k d).2 = (t.insert k d).2 ∧
    (∀ j, (s.remove k).1.abs j = (t.remove k).1.abs j) ∧ (s.remove k).2 = (t.remove k).2 ∧
    s.containsKey k = t.containsKey k := by
  refine ⟨fun j => ?_, ?_, fun j => ?_, ?_, ?_⟩
  · rw [(abs_insert s k d j).1, (abs_insert t k d j).1, h j]
  · rw [(abs_insert s k d 0).2, (abs_insert t k d 0).2, h k]
  · rw [(abs_remove s k j).1, (abs_remove t k j).1, h j]
  · rw [(abs_remove s k 0).2, (abs_remove t k 0).2, h k]
  · rw [abs_containsKey, abs_containsKey, h k]

inductive SOp | ins (k : Nat) (d : Desc) | del (k : Nat)

def applyOps (s : Indexed) : List SOp → Indexed × List Bool
  | [] => (s, [])
  | .ins k d :: rest => let (s', r) := s.insert k d; let (s'', rs) := applyOps s' rest; (s'', r :: rs)
  | .del k :: rest => let (s', r) := s.remove k; let (s'', rs) := applyOps s' rest; (s'', r :: rs)

theorem storage_independent (ops : List SOp) : ∀ (s t : Indexed), (∀ j, s.abs j = t.abs j) →
    (∀ j, (applyOps s ops).1.abs j = (applyOps t ops).1.abs j) ∧ (applyOps s ops).2 = (applyOps t ops).2 := by
  induction ops with
  | nil => intro s t h; exact ⟨h, rfl⟩
  | cons op rest ih =>
    intro s t h
    cases op with
    | ins k d =>
      obtain ⟨h1, h2, _⟩ := storage_independent_step s t h k d
      obtain ⟨i1, i2⟩ := ih _ _ h1
      simp only [applyOps]
      exact ⟨i1, by rw [h2, i2]⟩
    | del k =>
      obtain ⟨_, _, h3, h4, _⟩ := storage_independent_step s t h k (plain (.other 0))
      obtain ⟨i1, i2⟩ := ih _ _ h3
      simp only [applyOps]
      exact ⟨i1, by rw [h4, i2]⟩

-- non-vacuity: the same content in three different storages
example : ∀ j, j < 4 → (Indexed.denseI32 [1, 2]).abs j = (Indexed.denseF64 [.int 1, .int 2]).abs j ∧
    (Indexed.denseI32 [1, 2]).abs j = (Indexed.sparseElement [(1, .i32 2), (0, .f64 (.int 1))]).abs j := by decide

end BoaVerif.C14
