/-
  C14 model: `IndexedProperties` (core/engine/src/object/property_map.rs) with its five storage variants and
  `get / insert / remove / contains_key / push_dense / transform_to_sparse` as written; the abstraction to a
  finite map index ↦ descriptor; hash maps are association lists with unique keys (iteration order is NOT
  part of the abstraction).  Import-free.
-/
namespace BoaVerif.C14

/-- a number as JavaScript sees it: an int32-representable value or some other double (by an id) -/
inductive Num
  | int (i : Int)          -- representable as i32 (and not -0)
  | dbl (k : Nat)          -- any other double: fractions, -0, NaN, ±∞, large magnitudes
  deriving Repr, DecidableEq

/-- a JsValue as the storage layer sees it -/
inductive Val
  | i32 (i : Int)          -- JsVariant::Integer32
  | f64 (n : Num)          -- JsVariant::Float64 (may hold an integral value)
  | other (k : Nat)        -- string, object, undefined, …
  deriving Repr, DecidableEq

/-- what a script can observe of a value: Integer32(3) and Float64(3.0) are the same Number -/
inductive Sem
  | num (n : Num)
  | other (k : Nat)
  deriving Repr, DecidableEq

def Val.sem : Val → Sem
  | .i32 i => .num (.int i)
  | .f64 n => .num n
  | .other k => .other k

/-- `JsValue::as_i32` (also accepts a Float64 holding an int32-representable value) -/
def Val.asI32 : Val → Option Int
  | .i32 i => some i
  | .f64 (.int i) => some i
  | _ => none

/-- `JsValue::as_number` -/
def Val.asNumber : Val → Option Num
  | .i32 i => some (.int i)
  | .f64 n => some n
  | .other _ => none

structure Desc where
  value : Val                -- data descriptors only carry a value here; accessors are `other` ids with `accessor := true`
  accessor : Bool := false
  writable : Bool := true
  enumerable : Bool := true
  configurable : Bool := true
  deriving Repr, DecidableEq

/-- the observable content of a descriptor -/
structure SemDesc where
  value : Sem
  accessor : Bool
  writable : Bool
  enumerable : Bool
  configurable : Bool
  deriving Repr, DecidableEq

def Desc.sem (d : Desc) : SemDesc := ⟨d.value.sem, d.accessor, d.writable, d.enumerable, d.configurable⟩
def plain (v : Val) : Desc := { value := v }

/-- `property_simple_value`: writable, enumerable, configurable data property -/
def Desc.simple (d : Desc) : Option Val :=
  if d.writable && d.enumerable && d.configurable && !d.accessor then some d.value else none

inductive Indexed
  | denseI32 (v : List Int)
  | denseF64 (v : List Num)
  | denseElement (v : List Val)
  | sparseElement (m : List (Nat × Val))
  | sparseProperty (m : List (Nat × Desc))
  deriving Repr

/-- association-list map operations (keys unique) -/
def alGet {α} (m : List (Nat × α)) (k : Nat) : Option α := (m.find? (fun p => p.1 == k)).map (·.2)
def alInsert {α} (m : List (Nat × α)) (k : Nat) (v : α) : List (Nat × α) × Bool :=
  if (m.any (fun p => p.1 == k)) then (m.map (fun p => if p.1 == k then (k, v) else p), true) else (m ++ [(k, v)], false)
def alRemove {α} (m : List (Nat × α)) (k : Nat) : List (Nat × α) × Bool :=
  (m.filter (fun p => p.1 != k), m.any (fun p => p.1 == k))

def enumFrom {α} (n : Nat) : List α → List (Nat × α)
  | [] => []
  | x :: xs => (n, x) :: enumFrom (n + 1) xs

def Indexed.get (s : Indexed) (k : Nat) : Option Desc :=
  match s with
  | .denseI32 v => (v[k]?).map (fun i => plain (.i32 i))
  | .denseF64 v => (v[k]?).map (fun n => plain (.f64 n))
  | .denseElement v => (v[k]?).map plain
  | .sparseElement m => (alGet m k).map plain
  | .sparseProperty m => alGet m k

/-- dense → `FxHashMap<u32, JsValue>` -/
def Indexed.denseValues : Indexed → List (Nat × Val)
  | .denseI32 v => enumFrom 0 (v.map .i32)
  | .denseF64 v => enumFrom 0 (v.map .f64)
  | .denseElement v => enumFrom 0 v
  | .sparseElement m => m
  | .sparseProperty m => m.map (fun p => (p.1, p.2.value))

def Indexed.allDescs : Indexed → List (Nat × Desc)
  | .sparseProperty m => m
  | s => s.denseValues.map (fun p => (p.1, plain p.2))

def listSet {α} (l : List α) (k : Nat) (x : α) : List α := l.set k x

/-- `IndexedProperties::insert`; returns the new storage and the "replaced" flag -/
def Indexed.insert (s : Indexed) (k : Nat) (d : Desc) : Indexed × Bool :=
  match d.simple with
  | none =>
    -- convert_to_sparse_and_insert
    let (m, r) := alInsert s.allDescs k d
    (.sparseProperty m, r)
  | some value =>
    match s with
    | .denseI32 v =>
      if k ≤ v.length then
        match value.asI32 with
        | some i => if k == v.length then (.denseI32 (v ++ [i]), false) else (.denseI32 (v.set k i), true)
        | none =>
          match value.asNumber with
          | some n =>
            let w := v.map Num.int
            if k == v.length then (.denseF64 (w ++ [n]), false) else (.denseF64 (w.set k n), true)
          | none =>
            let w := v.map Val.i32
            if k == v.length then (.denseElement (w ++ [value]), false) else (.denseElement (w.set k value), true)
      else
        let (m, r) := alInsert s.denseValues k value
        (.sparseElement m, r)
    | .denseF64 v =>
      if k ≤ v.length then
        match value.asNumber with
        | some n => if k == v.length then (.denseF64 (v ++ [n]), false) else (.denseF64 (v.set k n), true)
        | none =>
          let w := v.map Val.f64
          if k == v.length then (.denseElement (w ++ [value]), false) else (.denseElement (w.set k value), true)
      else
        let (m, r) := alInsert s.denseValues k value
        (.sparseElement m, r)
    | .denseElement v =>
      if k ≤ v.length then
        if k == v.length then (.denseElement (v ++ [value]), false) else (.denseElement (v.set k value), true)
      else
        let (m, r) := alInsert s.denseValues k value
        (.sparseElement m, r)
    | .sparseElement m => let (m', r) := alInsert m k value; (.sparseElement m', r)
    | .sparseProperty m => let (m', r) := alInsert m k (plain value); (.sparseProperty m', r)

def dropLast {α} (l : List α) : List α := l.take (l.length - 1)

/-- `IndexedProperties::remove` -/
def Indexed.remove (s : Indexed) (k : Nat) : Indexed × Bool :=
  match s with
  | .denseI32 v =>
    if k + 1 == v.length then (.denseI32 (dropLast v), true)
    else if k ≥ v.length then (s, false)
    else let (m, r) := alRemove s.denseValues k; (.sparseElement m, r)
  | .denseF64 v =>
    if k + 1 == v.length then (.denseF64 (dropLast v), true)
    else if k ≥ v.length then (s, false)
    else let (m, r) := alRemove s.denseValues k; (.sparseElement m, r)
  | .denseElement v =>
    if k + 1 == v.length then (.denseElement (dropLast v), true)
    else if k ≥ v.length then (s, false)
    else let (m, r) := alRemove s.denseValues k; (.sparseElement m, r)
  | .sparseElement m => let (m', r) := alRemove m k; (.sparseElement m', r)
  | .sparseProperty m => let (m', r) := alRemove m k; (.sparseProperty m', r)

def Indexed.containsKey (s : Indexed) (k : Nat) : Bool :=
  match s with
  | .denseI32 v => k < v.length
  | .denseF64 v => k < v.length
  | .denseElement v => k < v.length
  | .sparseElement m => m.any (fun p => p.1 == k)
  | .sparseProperty m => m.any (fun p => p.1 == k)

/-- `push_dense`: `none` = not dense (the caller takes the generic path) -/
def Indexed.pushDense (s : Indexed) (value : Val) : Option Indexed :=
  match s with
  | .denseI32 v =>
    (match value.asI32 with
     | some i => some (.denseI32 (v ++ [i]))
     | none => match value.asNumber with
       | some n => some (.denseF64 (v.map Num.int ++ [n]))
       | none => some (.denseElement (v.map Val.i32 ++ [value])))
  | .denseF64 v =>
    (match value.asNumber with
     | some n => some (.denseF64 (v ++ [n]))
     | none => some (.denseElement (v.map Val.f64 ++ [value])))
  | .denseElement v => some (.denseElement (v ++ [value]))
  | _ => none

def Indexed.toSparse (s : Indexed) : Indexed :=
  match s with
  | .denseI32 _ | .denseF64 _ | .denseElement _ => .sparseElement s.denseValues
  | s => s


/-! ### fast paths that bypass `get / insert / remove` and touch the dense vectors directly -/

/-- `PropertyMap::get_dense_property` — the VM's fast path for `a[i]` (vm/opcode/get/property.rs); `none` = take the generic path -/
def Indexed.getDense (s : Indexed) (k : Nat) : Option Val :=
  match s with
  | .denseI32 v => (v[k]?).map Val.i32
  | .denseF64 v => (v[k]?).map Val.f64
  | .denseElement v => v[k]?
  | _ => none

/-- `PropertyMap::set_dense_property` — the VM's fast path for `a[i] = v` (vm/opcode/set/property.rs);
    `none` = not handled (index outside the vector, or sparse storage): the generic [[Set]] runs -/
def Indexed.setDense (s : Indexed) (k : Nat) (value : Val) : Option Indexed :=
  match s with
  | .denseI32 v =>
    if k < v.length then
      match value with
      | .i32 i => some (.denseI32 (v.set k i))
      | .f64 (.int i) => some (.denseI32 (v.set k i))        -- `is_rational_integer`: same bits after a round trip through i32
      | .f64 n => some (.denseF64 ((v.map Num.int).set k n))
      | .other _ => some (.denseElement ((v.map Val.i32).set k value))
    else none
  | .denseF64 v =>
    if k < v.length then
      match value.asNumber with
      | some n => some (.denseF64 (v.set k n))
      | none => some (.denseElement ((v.map Val.f64).set k value))
    else none
  | .denseElement v => if k < v.length then some (.denseElement (v.set k value)) else none
  | _ => none

/-- the dense fast path of `Array.prototype.shift` (builtins/array/mod.rs): `dense.remove(0)` when `1 ≤ len ≤ dense.len()`;
    the caller then sets `length` to `len - 1`. `none` = the generic algorithm runs -/
def Indexed.shiftDense (s : Indexed) (len : Nat) : Option (Val × Indexed) :=
  match s with
  | .denseI32 (x :: v) => if 1 ≤ len ∧ len ≤ v.length + 1 then some (.i32 x, .denseI32 v) else none
  | .denseF64 (x :: v) => if 1 ≤ len ∧ len ≤ v.length + 1 then some (.f64 x, .denseF64 v) else none
  | .denseElement (x :: v) => if 1 ≤ len ∧ len ≤ v.length + 1 then some (x, .denseElement v) else none
  | _ => none

/-- one round of step 6 of `Array.prototype.shift` with k = i + 1: move the element at k to k - 1, or delete k - 1 when k is a hole -/
def Indexed.shiftStep (acc : Indexed) (i : Nat) : Indexed :=
  match acc.get (i + 1) with
  | some d => (acc.insert i (plain d.value)).1
  | none => (acc.remove i).1

/-- `Array.prototype.shift` steps 4–7 as written (the generic algorithm), over the storage API, for an array whose
    elements are plain data properties: Get/HasProperty → `get`, Set → `insert` of a plain value, DeletePropertyOrThrow → `remove` -/
def Indexed.shiftGeneric (s : Indexed) (len : Nat) : Option Sem × Indexed :=
  let first := (s.get 0).map (fun d => d.value.sem)
  let s1 := (List.range (len - 1)).foldl Indexed.shiftStep s
  (first, (s1.remove (len - 1)).1)

/-! ### an ordinary array at the JavaScript level: storage + `length`, every element a plain data property -/

structure JsArr where
  st : Indexed := .denseI32 []
  len : Nat := 0
  lenWritable : Bool := true     -- [[Writable]] of `length` (Object.defineProperty(a, 'length', {writable: false}) clears it)

/-- `a[k] = v` (SetPropertyByValue, sloppy code): the VM's dense fast path, else [[Set]] → array [[DefineOwnProperty]]:
    an index at or beyond `length` needs a writable `length` (otherwise the assignment is rejected, silently in sloppy code) -/
def jsSet (a : JsArr) (k : Nat) (v : Val) : JsArr :=
  match a.st.setDense k v with
  | some s' => { a with st := s' }
  | none =>
    if k < a.len then { a with st := (a.st.insert k (plain v)).1 }
    else if a.lenWritable then { a with st := (a.st.insert k (plain v)).1, len := k + 1 }
    else a

/-- `a[k]` (GetPropertyByValue): the VM's dense fast path, else the generic [[Get]] -/
def jsGet (a : JsArr) (k : Nat) : Option Sem :=
  match a.st.getDense k with
  | some v => some v.sem
  | none => (a.st.get k).map (fun d => d.value.sem)

/-- `a.push(v)`: Set(O, len, v, true) then Set(O, "length", len + 1, true); with a read-only `length` the first Set throws -/
def jsPush (a : JsArr) (v : Val) : Bool × JsArr :=
  if a.lenWritable then (false, { a with st := (a.st.insert a.len (plain v)).1, len := a.len + 1 }) else (true, a)

/-- `a.shift()`: (returned value, threw TypeError, array afterwards). The elements move first (dense fast path when it
    applies, else the generic algorithm); the final Set(O, "length", len - 1, true) throws when `length` is read-only -/
def jsShift (a : JsArr) : Option Sem × Bool × JsArr :=
  if a.len == 0 then (none, !a.lenWritable, a)
  else match a.st.shiftDense a.len with
    | some (v, s') => (some v.sem, !a.lenWritable, { a with st := s', len := if a.lenWritable then a.len - 1 else a.len })
    | none => ((a.st.shiftGeneric a.len).1, !a.lenWritable,
               { a with st := (a.st.shiftGeneric a.len).2, len := if a.lenWritable then a.len - 1 else a.len })

/-- index keys as the storage iterates them (hash-map order for the sparse variants) -/
def Indexed.keys (s : Indexed) : List Nat := s.allDescs.map (·.1)

/-- insertion sort: the ascending key order reported by OrdinaryOwnPropertyKeys -/
def insertSorted (x : Nat) : List Nat → List Nat
  | [] => [x]
  | y :: ys => if x ≤ y then x :: y :: ys else y :: insertSorted x ys
def sortNat (l : List Nat) : List Nat := l.foldr insertSorted []

/-- THE ABSTRACTION: what a script can observe at index `k` -/
def Indexed.abs (s : Indexed) (k : Nat) : Option SemDesc := (s.get k).map Desc.sem

def Indexed.variantName : Indexed → String
  | .denseI32 _ => "DenseI32" | .denseF64 _ => "DenseF64" | .denseElement _ => "DenseElement"
  | .sparseElement _ => "SparseElement" | .sparseProperty _ => "SparseProperty"

end BoaVerif.C14
