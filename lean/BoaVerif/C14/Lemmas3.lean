import BoaVerif.C14.Lemmas2
namespace BoaVerif.C14

theorem dense_remove {α} (v : List α) (k : Nat) (f : α → SemDesc) (j : Nat) (s s' : Indexed)
    (habs : ∀ i, s.abs i = (v[i]?).map f)
    (hdv : ∀ i, (alGet s.denseValues i).map (fun x => semPlain x.sem) = s.abs i)
    (hpop : ∀ i, s'.abs i = ((dropLast v)[i]?).map f) :
    ((if (k + 1 == v.length) = true then (s', true)
      else if k ≥ v.length then (s, false)
      else let (m, r) := alRemove s.denseValues k; (Indexed.sparseElement m, r)).1.abs j
        = if j = k then none else s.abs j) ∧
    ((if (k + 1 == v.length) = true then (s', true)
      else if k ≥ v.length then (s, false)
      else let (m, r) := alRemove s.denseValues k; (Indexed.sparseElement m, r)).2 = (s.abs k).isSome) := by
  by_cases h1 : k + 1 = v.length
  · have : (k + 1 == v.length) = true := by simpa using h1
    simp only [this, ↓reduceIte]
    constructor
    · rw [hpop, habs]
      unfold dropLast
      rw [List.getElem?_take]
      by_cases hj : j = k
      · subst hj; simp; omega
      · simp only [hj, ↓reduceIte]
        by_cases hlt : j < v.length - 1
        · simp [hlt]
        · have : v.length ≤ j := by omega
          simp [hlt, List.getElem?_eq_none this]
    · rw [habs, isSome_map]; simp; omega
  · have : (k + 1 == v.length) = false := by simpa using h1
    simp only [this, Bool.false_eq_true, ↓reduceIte]
    by_cases h2 : k ≥ v.length
    · simp only [h2, ↓reduceIte]
      constructor
      · split
        · rename_i hj; subst hj; rw [habs, List.getElem?_eq_none h2]; rfl
        · rfl
      · rw [habs, List.getElem?_eq_none h2]; rfl
    · simp only [h2, ↓reduceIte]
      constructor
      · rw [abs_sparseElement, alGet_remove]
        split
        · rfl
        · exact hdv j
      · rw [alRemove_flag, ← hdv k, isSome_map]

/-- REFINEMENT, remove -/
theorem abs_remove (s : Indexed) (k : Nat) (j : Nat) :
    (s.remove k).1.abs j = (if j = k then none else s.abs j) ∧ (s.remove k).2 = (s.abs k).isSome := by
  cases s with
  | sparseElement m =>
    simp only [Indexed.remove, abs_sparseElement, alGet_remove, alRemove_flag, isSome_map]
    exact ⟨by split <;> rfl, trivial⟩
  | sparseProperty m =>
    simp only [Indexed.remove, abs_sparseProperty, alGet_remove, alRemove_flag, isSome_map]
    exact ⟨by split <;> rfl, trivial⟩
  | denseI32 v =>
    exact dense_remove v k (fun i => semPlain (.num (.int i))) j (.denseI32 v) (.denseI32 (dropLast v))
      (abs_denseI32 v) (fun i => abs_of_denseValues _ i (by intro m hm; cases hm)) (abs_denseI32 _)
  | denseF64 v =>
    exact dense_remove v k (fun n => semPlain (.num n)) j (.denseF64 v) (.denseF64 (dropLast v))
      (abs_denseF64 v) (fun i => abs_of_denseValues _ i (by intro m hm; cases hm)) (abs_denseF64 _)
  | denseElement v =>
    exact dense_remove v k (fun x => semPlain x.sem) j (.denseElement v) (.denseElement (dropLast v))
      (abs_denseElement v) (fun i => abs_of_denseValues _ i (by intro m hm; cases hm)) (abs_denseElement _)

theorem any_eq_isSome {α} (m : List (Nat × α)) (k : Nat) : m.any (fun p => p.1 == k) = (alGet m k).isSome := by
  have := alRemove_flag m k
  unfold alRemove at this
  exact this

/-- REFINEMENT, contains_key -/
theorem abs_containsKey (s : Indexed) (k : Nat) : s.containsKey k = (s.abs k).isSome := by
  cases s with
  | sparseElement m => simp only [Indexed.containsKey, abs_sparseElement, isSome_map, any_eq_isSome]
  | sparseProperty m => simp only [Indexed.containsKey, abs_sparseProperty, isSome_map, any_eq_isSome]
  | denseI32 v =>
    simp only [Indexed.containsKey, abs_denseI32, isSome_map]
    by_cases h : k < v.length <;> simp [h]
  | denseF64 v =>
    simp only [Indexed.containsKey, abs_denseF64, isSome_map]
    by_cases h : k < v.length <;> simp [h]
  | denseElement v =>
    simp only [Indexed.containsKey, abs_denseElement, isSome_map]
    by_cases h : k < v.length <;> simp [h]

/-- REFINEMENT, transform_to_sparse: switching the representation changes nothing observable -/
theorem abs_toSparse (s : Indexed) (j : Nat) : s.toSparse.abs j = s.abs j := by
  cases s with
  | sparseElement m => rfl
  | sparseProperty m => rfl
  | denseI32 v => simp only [Indexed.toSparse, abs_sparseElement]; exact abs_of_denseValues _ j (by intro m hm; cases hm)
  | denseF64 v => simp only [Indexed.toSparse, abs_sparseElement]; exact abs_of_denseValues _ j (by intro m hm; cases hm)
  | denseElement v => simp only [Indexed.toSparse, abs_sparseElement]; exact abs_of_denseValues _ j (by intro m hm; cases hm)

/-- number of dense elements (`None` for the sparse variants) -/
def Indexed.denseLen : Indexed → Option Nat
  | .denseI32 v => some v.length
  | .denseF64 v => some v.length
  | .denseElement v => some v.length
  | _ => none

/-- REFINEMENT, push_dense: appends at index = dense length; sparse storages refuse (generic path) -/
theorem abs_pushDense (s : Indexed) (value : Val) :
    (∀ s', s.pushDense value = some s' → ∃ n, s.denseLen = some n ∧
        ∀ j, s'.abs j = if j = n then some (semPlain value.sem) else s.abs j) ∧
    (s.pushDense value = none ↔ s.denseLen = none) := by
  cases s with
  | sparseElement m => exact ⟨fun s' h => (by cases h), ⟨fun _ => rfl, fun _ => rfl⟩⟩
  | sparseProperty m => exact ⟨fun s' h => (by cases h), ⟨fun _ => rfl, fun _ => rfl⟩⟩
  | denseI32 v =>
    refine ⟨fun s' h => ⟨v.length, rfl, fun j => ?_⟩, ⟨fun h => ?_, fun h => (by cases h)⟩⟩
    · have hins := (abs_insert (.denseI32 v) v.length (plain value) j).1
      have : ((Indexed.denseI32 v).insert v.length (plain value)).1 = s' := by
        unfold Indexed.pushDense at h
        unfold Indexed.insert
        have hsimple : (plain value).simple = some value := rfl
        simp only [hsimple, Nat.le_refl, ↓reduceIte, beq_self_eq_true]
        cases hi : value.asI32 with
        | some i => simp only [hi] at h ⊢; exact Option.some.inj h
        | none =>
          simp only [hi] at h ⊢
          cases hn : value.asNumber with
          | some n => simp only [hn] at h ⊢; exact Option.some.inj h
          | none => simp only [hn] at h ⊢; exact Option.some.inj h
      rw [← this, hins, plain_sem]
    · unfold Indexed.pushDense at h
      cases hi : value.asI32 <;> simp only [hi] at h
      · cases hn : value.asNumber <;> simp only [hn] at h <;> cases h
      · cases h
  | denseF64 v =>
    refine ⟨fun s' h => ⟨v.length, rfl, fun j => ?_⟩, ⟨fun h => ?_, fun h => (by cases h)⟩⟩
    · have hins := (abs_insert (.denseF64 v) v.length (plain value) j).1
      have : ((Indexed.denseF64 v).insert v.length (plain value)).1 = s' := by
        unfold Indexed.pushDense at h
        unfold Indexed.insert
        have hsimple : (plain value).simple = some value := rfl
        simp only [hsimple, Nat.le_refl, ↓reduceIte, beq_self_eq_true]
        cases hn : value.asNumber with
        | some n => simp only [hn] at h ⊢; exact Option.some.inj h
        | none => simp only [hn] at h ⊢; exact Option.some.inj h
      rw [← this, hins, plain_sem]
    · unfold Indexed.pushDense at h
      cases hn : value.asNumber <;> simp only [hn] at h <;> cases h
  | denseElement v =>
    refine ⟨fun s' h => ⟨v.length, rfl, fun j => ?_⟩, ⟨fun h => (by cases h), fun h => (by cases h)⟩⟩
    have hins := (abs_insert (.denseElement v) v.length (plain value) j).1
    have : ((Indexed.denseElement v).insert v.length (plain value)).1 = s' := by
      unfold Indexed.pushDense at h
      unfold Indexed.insert
      have hsimple : (plain value).simple = some value := rfl
      simp only [hsimple, Nat.le_refl, ↓reduceIte, beq_self_eq_true]
      exact Option.some.inj h
    rw [← this, hins, plain_sem]

end BoaVerif.C14
