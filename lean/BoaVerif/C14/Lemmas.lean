import BoaVerif.C14.Model
namespace BoaVerif.C14

/-! ### association lists -/

theorem find_map_replace {α} (k : Nat) (v : α) (j : Nat) : ∀ (m : List (Nat × α)),
    ((m.map (fun p => if p.1 == k then (k, v) else p)).find? (fun p => p.1 == j)).map (·.2)
      = if j = k then (if m.any (fun p => p.1 == k) then some v else none)
        else (m.find? (fun p => p.1 == j)).map (·.2)
  | [] => by simp
  | p :: ps => by
    have ih := find_map_replace k v j ps
    simp only [List.map_cons, List.find?_cons, List.any_cons]
    by_cases hp : p.1 = k
    · have hpk : (p.1 == k) = true := by simpa using hp
      simp only [hpk, ↓reduceIte, Bool.true_or]
      by_cases hj : j = k
      · subst hj; simp
      · have h1 : (k == j) = false := by simp; exact fun h => hj h.symm
        have h2 : (p.1 == j) = false := by rw [hp]; exact h1
        simp only [h1, h2, hj, ↓reduceIte] at ih ⊢
        exact ih
    · have hpk : (p.1 == k) = false := by simpa using hp
      simp only [hpk, Bool.false_eq_true, ↓reduceIte, Bool.false_or]
      by_cases hpj : p.1 = j
      · have : (p.1 == j) = true := by simpa using hpj
        have hjk : ¬ j = k := by rw [← hpj]; exact hp
        simp [this, hjk]
      · have : (p.1 == j) = false := by simpa using hpj
        simp only [this, Bool.false_eq_true, ↓reduceIte]
        exact ih

theorem alGet_insert {α} (m : List (Nat × α)) (k : Nat) (v : α) (j : Nat) :
    alGet (alInsert m k v).1 j = if j = k then some v else alGet m j := by
  unfold alInsert alGet
  split
  · rename_i hany
    simp only
    rw [find_map_replace k v j m, hany]
    simp
  · rename_i hany
    simp only [List.find?_append]
    have hnone : ∀ q ∈ m, (q.1 == k) = false := by
      intro q hq
      cases h : (q.1 == k) with
      | false => rfl
      | true => exact absurd (List.any_eq_true.mpr ⟨q, hq, h⟩) hany
    by_cases hj : j = k
    · subst hj
      have : m.find? (fun p => p.1 == j) = none := List.find?_eq_none.mpr (fun q hq => by simp [hnone q hq])
      simp [this]
    · have : ((k == j) = false) := by simp; exact fun h => hj h.symm
      simp only [List.find?_cons, this, Bool.false_eq_true, ↓reduceIte, List.find?_nil, Option.or_none, hj]

theorem alInsert_flag {α} (m : List (Nat × α)) (k : Nat) (v : α) : (alInsert m k v).2 = (alGet m k).isSome := by
  unfold alInsert alGet
  split
  · rename_i h
    obtain ⟨q, hq, hk⟩ := List.any_eq_true.mp h
    cases hf : m.find? (fun p => p.1 == k) with
    | some _ => simp
    | none => exact absurd hk (by simpa using (List.find?_eq_none.mp hf) q hq)
  · rename_i h
    have : m.find? (fun p => p.1 == k) = none := by
      apply List.find?_eq_none.mpr
      intro q hq hk
      exact h (List.any_eq_true.mpr ⟨q, hq, hk⟩)
    simp [this]

theorem alGet_remove {α} (m : List (Nat × α)) (k : Nat) (j : Nat) :
    alGet (alRemove m k).1 j = if j = k then none else alGet m j := by
  unfold alRemove alGet
  simp only
  induction m with
  | nil => simp
  | cons p ps ih =>
    simp only [List.filter_cons]
    by_cases hp : p.1 = k
    · subst hp
      simp only [bne_self_eq_false, Bool.false_eq_true, ↓reduceIte, List.find?_cons]
      by_cases hj : j = p.1
      · subst hj; simpa using ih
      · have : (p.1 == j) = false := by simp; exact fun h => hj h.symm
        simp only [this, Bool.false_eq_true, ↓reduceIte]
        simpa [hj] using ih
    · have hpk : (p.1 != k) = true := by simpa using hp
      simp only [hpk, ↓reduceIte, List.find?_cons]
      by_cases hpj : p.1 = j
      · subst hpj; simp [hp]
      · have : (p.1 == j) = false := by simpa using hpj
        simp only [this, Bool.false_eq_true, ↓reduceIte]
        exact ih

theorem alRemove_flag {α} (m : List (Nat × α)) (k : Nat) : (alRemove m k).2 = (alGet m k).isSome := by
  unfold alRemove alGet
  simp only
  cases hf : m.find? (fun p => p.1 == k) with
  | some q =>
    have := List.find?_some hf
    have hm := List.mem_of_find?_eq_some hf
    simp only [Option.map_some, Option.isSome_some]
    exact List.any_eq_true.mpr ⟨q, hm, this⟩
  | none =>
    simp only [Option.map_none, Option.isSome_none]
    apply Bool.eq_false_iff.mpr
    intro h
    obtain ⟨q, hq, hk⟩ := List.any_eq_true.mp h
    exact absurd hk (by simpa using (List.find?_eq_none.mp hf) q hq)

theorem alGet_enumFrom {α} (l : List α) (n j : Nat) :
    alGet (enumFrom n l) j = if n ≤ j then l[j - n]? else none := by
  induction l generalizing n with
  | nil => simp [enumFrom, alGet]
  | cons x xs ih =>
    simp only [enumFrom, alGet, List.find?_cons]
    by_cases hnj : n = j
    · subst hnj; simp
    · have : (n == j) = false := by simpa using hnj
      simp only [this, Bool.false_eq_true, ↓reduceIte]
      have := ih (n + 1)
      unfold alGet at this
      rw [this]
      by_cases hle : n ≤ j
      · have h1 : n + 1 ≤ j := by omega
        have h2 : j - n = (j - (n + 1)) + 1 := by omega
        simp [hle, h1, h2]
      · have h1 : ¬ n + 1 ≤ j := by omega
        simp [hle, h1]

theorem alGet_map {α β} (m : List (Nat × α)) (f : α → β) (j : Nat) :
    alGet (m.map (fun p => (p.1, f p.2))) j = (alGet m j).map f := by
  unfold alGet
  induction m with
  | nil => rfl
  | cons p ps ih =>
    simp only [List.map_cons, List.find?_cons]
    by_cases h : p.1 = j
    · simp [h]
    · have : (p.1 == j) = false := by simpa using h
      simp only [this, Bool.false_eq_true, ↓reduceIte]; exact ih

end BoaVerif.C14
