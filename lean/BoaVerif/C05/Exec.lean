import BoaVerif.C05.Model
namespace BoaVerif.C05

/-- result of a statement: normal / thrown / the iteration bound `k` of some loop was exceeded -/
inductive SRes
  | normal (s : EState)
  | thrown (s : EState)
  | diverge

section Exec
variable (S : LitSem) (W : World)

/-- a `while`-style loop running at most `n` iterations -/
def loopN (cond : EState → Res Val) (body : EState → SRes) (upd : EState → Res Val) : Nat → EState → SRes
  | 0, s =>
    (match cond s with
     | .thrown s => .thrown s
     | .ok v s => if valTruthy S v then .diverge else .normal s)
  | n + 1, s =>
    match cond s with
    | .thrown s => .thrown s
    | .ok v s =>
      if valTruthy S v then
        match body s with
        | .normal s => (match upd s with
            | .thrown s => .thrown s
            | .ok _ s => loopN cond body upd n s)
        | r => r
      else .normal s

def noop (s : EState) : Res Val := .ok (.lit .undef) s

mutual
/-- statement execution; every loop runs at most `k` iterations -/
def exec (k : Nat) : Stmt → EState → SRes
  | .expr e, s => (match eval S W e s with | .ok _ s => .normal s | .thrown s => .thrown s)
  | .ifS c t e, s =>
    (match eval S W c s with
     | .thrown s => .thrown s
     | .ok v s =>
       if valTruthy S v then exec k t s
       else match e with
         | some alt => exec k alt s
         | none => .normal s)
  | .whileS c b, s => loopN S (eval S W c) (exec k b) noop k s
  | .forS i c u b, s =>
    (match (match i with | some e => eval S W e s | none => noop s) with
     | .thrown s => .thrown s
     | .ok _ s =>
       loopN S (match c with | some e => eval S W e | none => fun s => .ok (.lit (.bool true)) s)
         (exec k b) (match u with | some e => eval S W e | none => noop) k s)
  | .block ss, s => execList k ss s
  | .varDecl x i, s =>
    (match i with
     | none => .normal s
     | some e => match eval S W e s with
       | .thrown s => .thrown s
       | .ok v s => .normal { s with log := s.log ++ [.write x v], store := (x, v) :: s.store })
  | .funDecl _, s => .normal s
  | .empty, s => .normal s
def execList (k : Nat) : List Stmt → EState → SRes
  | [], s => .normal s
  | st :: rest, s =>
    match exec k st s with
    | .normal s => execList k rest s
    | r => r
end

mutual
/-- names declared by hoisted declarations (`var`, function declarations), in source order -/
def hoistedNames : Stmt → List String
  | .varDecl x _ => [x]
  | .funDecl f => [f]
  | .ifS _ t e => hoistedNames t ++ (match e with | some s => hoistedNames s | none => [])
  | .whileS _ b => hoistedNames b
  | .forS _ _ _ b => hoistedNames b
  | .block ss => hoistedNamesList ss
  | .expr _ => []
  | .empty => []
def hoistedNamesList : List Stmt → List String
  | [] => []
  | s :: ss => hoistedNames s ++ hoistedNamesList ss
end

end Exec
end BoaVerif.C05
