/- The concrete literal semantics used by the C05 driver: exact on the sub-domain the generator stays in
   (small integers, booleans, strings, null/undefined); anything else yields the poison literal `ood`,
   and the harness drops programs whose model output contains it. -/
import BoaVerif.C05.Model
namespace BoaVerif.C05

def ood : Lit := .str "\x00out-of-domain"

def inI32 (z : Int) : Bool := -2147483648 ≤ z && z ≤ 2147483647

def intRes (z : Int) : Option Lit := if inI32 z then some (.int z) else some ood

def showInt (z : Int) : String := toString z

def typeofLit : Lit → String
  | .undef => "undefined" | .null => "object" | .bool _ => "boolean" | .int _ => "number" | .half => "number" | .str _ => "string" | .big _ => "bigint"

def truthyC : Lit → Bool
  | .undef => false | .null => false | .bool b => b | .int i => i != 0 | .half => true | .str s => !s.isEmpty | .big n => n != 0

/-- ToNumber on the literals of the sub-domain: `some none` is NaN -/
def toNumC : Lit → Option (Option Int)
  | .int x => some (some x)
  | .bool b => some (some (if b then 1 else 0))
  | .str s => if s == "\x00out-of-domain" then none else if s.isEmpty then some (some 0) else if s.all Char.isDigit then some (s.toNat?.map Int.ofNat) else
      (if s.any (fun c => c == ' ' || c == '.' || c == 'e' || c == 'x' || c == '-' || c == '+' || c == 'I' || c == 'n') then none else some none)
  | _ => none

/-- IsLooselyEqual between literals of different kinds (numbers, strings, booleans; null and undefined equal only each other) -/
def looseC (a b : Lit) : Option Lit :=
  match a, b with
  | .undef, .int _ | .undef, .str _ | .undef, .bool _ | .null, .int _ | .null, .str _ | .null, .bool _ => some (.bool false)
  | .int _, .undef | .str _, .undef | .bool _, .undef | .int _, .null | .str _, .null | .bool _, .null => some (.bool false)
  | .big _, _ => some ood
  | _, .big _ => some ood
  | .half, _ => some ood
  | _, .half => some ood
  | a, b =>
    match toNumC a, toNumC b with
    | some (some x), some (some y) => some (.bool (x == y))
    | some _, some _ => some (.bool false)
    | _, _ => some ood

def sameKind : Lit → Lit → Bool
  | .int _, .int _ | .str _, .str _ | .bool _, .bool _ | .undef, .undef | .null, .null | .big _, .big _ | .half, .half => true
  | .int _, .half | .half, .int _ => true
  | .big _, _ | _, .big _ => true
  | _, _ => false

def binopC (op : BinOp) (a b : Lit) : Option Lit :=
  if a == ood || b == ood then some ood else
  match op, a, b with
  | .add, .big x, .big y => some (.big (x + y))
  | .sub, .big x, .big y => some (.big (x - y))
  | .mul, .big x, .big y => some (.big (x * y))
  | .add, .big _, .int _ => none      -- TypeError: cannot mix BigInt and other types
  | .add, .int _, .big _ => none
  | .sub, .big _, .int _ => none
  | .sub, .int _, .big _ => none
  | .mul, .big _, .int _ => none
  | .mul, .int _, .big _ => none
  | .mul, .big _, .half => none
  | .div, .big _, .int _ => none
  | .exp, .big _, .int _ => none
  | .mod, .big _, .int _ => none
  | .add, .int x, .int y => intRes (x + y)
  | .add, .str x, .str y => some (.str (x ++ y))
  | .add, .str x, .int y => some (.str (x ++ showInt y))
  | .add, .int x, .str y => some (.str (showInt x ++ y))
  | .sub, .int x, .int y => intRes (x - y)
  | .mul, .int x, .int y => if x * y == 0 && (x < 0 || y < 0) then some ood else intRes (x * y)
  | .exp, .int x, .int 2 => if x * x == 0 && x < 0 then some ood else intRes (x * x)
  | .mod, .int x, .int y => if x ≥ 0 && y > 0 then some (.int (x % y)) else some ood
  | .lt, .int x, .int y => some (.bool (x < y))
  | .le, .int x, .int y => some (.bool (x ≤ y))
  | .gt, .int x, .int y => some (.bool (x > y))
  | .ge, .int x, .int y => some (.bool (x ≥ y))
  | .eq, .int x, .int y => some (.bool (x == y))
  | .ne, .int x, .int y => some (.bool (x != y))
  | .seq, .int x, .int y => some (.bool (x == y))
  | .sne, .int x, .int y => some (.bool (x != y))
  | .seq, .str x, .str y => some (.bool (x == y))
  | .sne, .str x, .str y => some (.bool (x != y))
  | .eq, .str x, .str y => some (.bool (x == y))
  | .ne, .str x, .str y => some (.bool (x != y))
  | .seq, .bool x, .bool y => some (.bool (x == y))
  | .sne, .bool x, .bool y => some (.bool (x != y))
  | .seq, .undef, .undef => some (.bool true)
  | .seq, .null, .null => some (.bool true)
  | .seq, .undef, .null => some (.bool false)
  | .seq, .null, .undef => some (.bool false)
  | .eq, .undef, .null => some (.bool true)
  | .eq, .null, .undef => some (.bool true)
  | .ne, .undef, .null => some (.bool false)
  | .ne, .null, .undef => some (.bool false)
  | .eq, .undef, .undef => some (.bool true)
  | .eq, .null, .null => some (.bool true)
  | .ne, .undef, .undef => some (.bool false)
  | .ne, .null, .null => some (.bool false)
  | .sne, .undef, .undef => some (.bool false)
  | .sne, .null, .null => some (.bool false)
  | .sne, .undef, .null => some (.bool true)
  | .sne, .null, .undef => some (.bool true)
  | .eq, .bool x, .bool y => some (.bool (x == y))
  | .ne, .bool x, .bool y => some (.bool (x != y))
  | .eq, a, b => looseC a b
  | .ne, a, b => (looseC a b).map (fun r => match r with | .bool v => .bool (!v) | x => x)
  | .seq, a, b => if sameKind a b then some ood else some (.bool false)
  | .sne, a, b => if sameKind a b then some ood else some (.bool true)
  | _, _, _ => some ood

def unopC (op : UnOp) (l : Lit) : Option Lit :=
  if l == ood then some ood else
  match op, l with
  | .neg, .int x => if x == 0 then some ood else intRes (-x)
  | .not, l => some (.bool (!truthyC l))
  | .typeof, l => some (.str (typeofLit l))
  | _, _ => some ood

def concrete : LitSem where
  binop := binopC
  unop := unopC
  truthy := truthyC
  nullish := fun l => l == .undef || l == .null

end BoaVerif.C05
