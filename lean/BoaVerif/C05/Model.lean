/-
  C05 model: the AST optimizer (core/engine/src/optimizer): post-order walker with the 10-iteration cap,
  constant folding (literal operands, comma and logical rewrites, `delete`/`void` of a literal),
  strength reduction (`lit ** 2 → lit * lit`, `e / 2 → e * 0.5`), dead-code elimination with the
  hoisted-declaration guard — and an effectful evaluator.  The evaluation of operators on literals
  (`binop`, `unop`) is a PARAMETER shared by optimizer and evaluator, as in boa, where constant folding
  calls the runtime's own `JsValue::add`, `lt`, …  Import-free.
-/
namespace BoaVerif.C05

inductive Lit
  | undef | null
  | bool (b : Bool)
  | int (i : Int)        -- LiteralKind::Int
  | half                 -- LiteralKind::Num(0.5), introduced by strength reduction
  | str (s : String)
  | big (n : Int)        -- LiteralKind::BigInt
  deriving Repr, DecidableEq

def Lit.isBig : Lit → Bool
  | .big _ => true
  | _ => false

inductive UnOp | neg | plus | not | typeof | void | delete
  deriving Repr, DecidableEq

inductive BinOp | add | sub | mul | div | exp | mod | lt | le | gt | ge | eq | ne | seq | sne | band | bor
  deriving Repr, DecidableEq

inductive LogOp | and | or | coalesce
  deriving Repr, DecidableEq

inductive Expr
  | lit (l : Lit)
  | ident (x : String)
  | unary (op : UnOp) (e : Expr)
  | bin (op : BinOp) (a b : Expr)
  | logical (op : LogOp) (a b : Expr)
  | comma (a b : Expr)
  | call (f : String) (arg : Expr)
  | assign (x : String) (e : Expr)
  | paren (e : Expr)        -- `Expression::Parenthesized`: kept in the AST, so `(1 + 2) * 3` folds to `(3) * 3` only
  deriving Repr, DecidableEq

inductive Stmt
  | expr (e : Expr)
  | ifS (c : Expr) (t : Stmt) (e : Option Stmt)
  | whileS (c : Expr) (body : Stmt)
  | forS (init : Option Expr) (c : Option Expr) (upd : Option Expr) (body : Stmt)
  | block (ss : List Stmt)
  | varDecl (x : String) (init : Option Expr)
  | funDecl (f : String)
  | empty
  deriving Repr

/-- operator semantics on literals; `none` = the operation throws (folding keeps the node) -/
structure LitSem where
  binop : BinOp → Lit → Lit → Option Lit
  unop : UnOp → Lit → Option Lit      -- neg, plus, not, typeof
  truthy : Lit → Bool
  nullish : Lit → Bool

/-! ### the optimizer -/

inductive Action
  | keep
  | modified (e : Expr)   -- node changed in place
  | replace (e : Expr)

section Opt
variable (S : LitSem)

/-- `ConstantFolding::fold_expression` on one node (children already processed) -/
def foldNode : Expr → Action
  | .unary op (.lit l) =>
    (match op with
     | .delete => .replace (.lit (.bool true))
     | .void => .replace (.lit .undef)
     | _ => match S.unop op l with
       | some v => .replace (.lit v)
       | none => .keep)
  | .comma (.lit l) rhs =>
    (match rhs with
     | .lit _ => .replace rhs
     | _ => if l == .undef then .keep else .modified (.comma (.lit .undef) rhs))
  | .logical op (.lit l) rhs =>
    -- a logical expression yields a value, never a reference: a non-literal right-hand side is kept
    -- behind a comma (`(null ?? o.f)()` must not call with `this = o`)
    let keepValue (rhs : Expr) : Action :=
      match rhs with
      | .lit _ => .replace rhs
      | _ => .replace (.comma (.lit .undef) rhs)
    (match op with
     | .and => if S.truthy l then keepValue rhs else .replace (.lit l)
     | .or => if S.truthy l then .replace (.lit l) else keepValue rhs
     | .coalesce => if S.nullish l then keepValue rhs else .replace (.lit l))
  | .bin op (.lit a) (.lit b) =>
    (match S.binop op a b with
     | some v => .replace (.lit v)
     | none => .keep)
  | _ => .keep

/-- `StrengthReduction::reduce_expression` on one node -/
def reduceNode : Expr → Action
  | .bin .div lhs (.lit (.int 2)) => .replace (.bin .mul lhs (.lit .half))
  | .bin .exp (.lit l) (.lit (.int 2)) =>
    -- `is_side_effect_free`: a literal that is not a BigInt (`10n ** 2` throws, `10n * 10n` does not)
    if l.isBig then .keep else .replace (.bin .mul (.lit l) (.lit l))
  | _ => .keep

/-- apply an action; returns (new node, changed?) -/
def applyAction (e : Expr) : Action → Expr × Bool
  | .keep => (e, false)
  | .modified e' => (e', true)
  | .replace e' => (e', true)

/-- `Walker::visit_expression_mut`: children first (in source order), then the node itself -/
def walk (f : Expr → Action) : Expr → Expr × Bool
  | .lit l => applyAction (.lit l) (f (.lit l))
  | .ident x => applyAction (.ident x) (f (.ident x))
  | .unary op e =>
    let (e', c) := walk f e
    let (r, c2) := applyAction (.unary op e') (f (.unary op e'))
    (r, c || c2)
  | .bin op a b =>
    let (a', c1) := walk f a
    let (b', c2) := walk f b
    let (r, c3) := applyAction (.bin op a' b') (f (.bin op a' b'))
    (r, c1 || c2 || c3)
  | .logical op a b =>
    let (a', c1) := walk f a
    let (b', c2) := walk f b
    let (r, c3) := applyAction (.logical op a' b') (f (.logical op a' b'))
    (r, c1 || c2 || c3)
  | .comma a b =>
    let (a', c1) := walk f a
    let (b', c2) := walk f b
    let (r, c3) := applyAction (.comma a' b') (f (.comma a' b'))
    (r, c1 || c2 || c3)
  | .call g a =>
    let (a', c1) := walk f a
    let (r, c2) := applyAction (.call g a') (f (.call g a'))
    (r, c1 || c2)
  | .assign x e =>
    let (e', c1) := walk f e
    let (r, c2) := applyAction (.assign x e') (f (.assign x e'))
    (r, c1 || c2)
  | .paren e =>
    let (e', c1) := walk f e
    let (r, c2) := applyAction (.paren e') (f (.paren e'))
    (r, c1 || c2)

/-- `run_*_pass`: repeat the walk until nothing changes, at most `n` times -/
def iterate (f : Expr → Action) : Nat → Expr → Expr
  | 0, e => e
  | n + 1, e => let (e', c) := walk f e; if c then iterate f n e' else e'

structure Options where
  constantFolding : Bool := true
  strengthReduction : Bool := true
  deadCode : Bool := true

/-- `Optimizer::run_all` on one expression -/
def optExpr (o : Options) (e : Expr) : Expr :=
  let e := if o.constantFolding then iterate (foldNode S) 10 e else e
  if o.strengthReduction then iterate reduceNode 10 e else e

mutual
/-- `ContainsHoistedDeclarationsVisitor` -/
def hasHoisted : Stmt → Bool
  | .varDecl _ _ => true
  | .funDecl _ => true
  | .ifS _ t e => hasHoisted t || (match e with | some s => hasHoisted s | none => false)
  | .whileS _ b => hasHoisted b
  | .forS _ _ _ b => hasHoisted b
  | .block ss => hasHoistedList ss
  | .expr _ => false
  | .empty => false
def hasHoistedList : List Stmt → Bool
  | [] => false
  | s :: ss => hasHoisted s || hasHoistedList ss
end

/-- dead-code elimination on one statement node (children already processed) -/
def dceNode : Stmt → Stmt
  | .ifS (.lit (.bool true)) t e =>
    (match e with
     | some alt => if hasHoisted alt then .ifS (.lit (.bool true)) t e else t
     | none => t)
  | .ifS (.lit (.bool false)) t e =>
    if hasHoisted t then .ifS (.lit (.bool false)) t e
    else (match e with | some alt => alt | none => .empty)
  | .whileS (.lit (.bool false)) b => if hasHoisted b then .whileS (.lit (.bool false)) b else .empty
  | .forS none (some (.lit (.bool false))) u b =>
    if hasHoisted b then .forS none (some (.lit (.bool false))) u b else .empty
  | s => s

mutual
/-- `Optimizer::visit_statement_mut`: children first, then dead-code elimination on the node -/
def optStmt (o : Options) : Stmt → Stmt
  | .expr e => .expr (optExpr S o e)
  | .ifS c t e =>
    let n := Stmt.ifS (optExpr S o c) (optStmt o t) (match e with | some s => some (optStmt o s) | none => none)
    if o.deadCode then dceNode n else n
  | .whileS c b =>
    let n := Stmt.whileS (optExpr S o c) (optStmt o b)
    if o.deadCode then dceNode n else n
  | .forS i c u b =>
    let n := Stmt.forS (i.map (optExpr S o)) (c.map (optExpr S o)) (u.map (optExpr S o)) (optStmt o b)
    if o.deadCode then dceNode n else n
  | .block ss => .block (optStmtList o ss)
  | .varDecl x i => .varDecl x (i.map (optExpr S o))
  | .funDecl f => .funDecl f
  | .empty => .empty
def optStmtList (o : Options) : List Stmt → List Stmt
  | [] => []
  | s :: ss => optStmt o s :: optStmtList o ss
end

end Opt

/-! ### the evaluator: observable events, values, abrupt completion -/

inductive Val
  | lit (l : Lit)
  | obj (id : Nat)           -- an object; converting it to a primitive is observable
  deriving Repr, DecidableEq

inductive Event
  | read (x : String)
  | write (x : String) (v : Val)
  | call (f : String) (arg : Val)
  | toPrim (id : Nat)
  | declare (x : String)
  deriving Repr, DecidableEq

/-- the world an expression is evaluated in: what identifiers hold, what calls return, what objects
    convert to (`none` = the conversion throws) -/
structure World where
  env : String → Option Val            -- `none` = ReferenceError
  callResult : String → Val → Nat → Val    -- result of the n-th call overall
  prim : Nat → Option Lit

structure EState where
  log : List Event := []
  calls : Nat := 0
  store : List (String × Val) := []    -- assignments made so far (most recent first)

inductive Res (α : Type)
  | ok (v : α) (s : EState)
  | thrown (s : EState)

section Eval
variable (S : LitSem) (W : World)

def lookup (s : EState) (x : String) : Option Val :=
  match s.store.find? (fun p => p.1 == x) with
  | some p => some p.2
  | none => W.env x

def toPrim (s : EState) : Val → Res Lit
  | .lit l => .ok l s
  | .obj id =>
    let s := { s with log := s.log ++ [.toPrim id] }
    match W.prim id with
    | some l => .ok l s
    | none => .thrown s

def valTruthy : Val → Bool
  | .lit l => S.truthy l
  | .obj _ => true
def valNullish : Val → Bool
  | .lit l => S.nullish l
  | .obj _ => false

def eval : Expr → EState → Res Val
  | .lit l, s => .ok (.lit l) s
  | .ident x, s =>
    let s := { s with log := s.log ++ [.read x] }
    (match lookup W s x with
     | some v => .ok v s
     | none => .thrown s)
  | .unary op e, s =>
    (match op with
     | .delete => (match eval e s with
        | .ok _ s => .ok (.lit (.bool true)) s
        | .thrown s => .thrown s)
     | .void => (match eval e s with
        | .ok _ s => .ok (.lit .undef) s
        | .thrown s => .thrown s)
     | _ => match eval e s with
        | .thrown s => .thrown s
        | .ok v s =>
          if op == .typeof || op == .not then
            -- typeof / ! do not convert objects
            (match v with
             | .lit l => (match S.unop op l with | some r => .ok (.lit r) s | none => .thrown s)
             | .obj _ => .ok (.lit (if op == .not then .bool false else .str "object")) s)
          else
            match toPrim W s v with
            | .thrown s => .thrown s
            | .ok l s => match S.unop op l with | some r => .ok (.lit r) s | none => .thrown s)
  | .bin op a b, s =>
    (match eval a s with
     | .thrown s => .thrown s
     | .ok va s => match eval b s with
       | .thrown s => .thrown s
       | .ok vb s => match toPrim W s va with
         | .thrown s => .thrown s
         | .ok la s => match toPrim W s vb with
           | .thrown s => .thrown s
           | .ok lb s => match S.binop op la lb with
             | some r => .ok (.lit r) s
             | none => .thrown s)
  | .logical op a b, s =>
    (match eval a s with
     | .thrown s => .thrown s
     | .ok va s =>
       match op with
       | .and => if valTruthy S va then eval b s else .ok va s
       | .or => if valTruthy S va then .ok va s else eval b s
       | .coalesce => if valNullish S va then eval b s else .ok va s)
  | .comma a b, s =>
    (match eval a s with
     | .thrown s => .thrown s
     | .ok _ s => eval b s)
  | .call f a, s =>
    (match eval a s with
     | .thrown s => .thrown s
     | .ok v s =>
       let r := W.callResult f v s.calls
       .ok r { s with log := s.log ++ [.call f v], calls := s.calls + 1 })
  | .assign x e, s =>
    (match eval e s with
     | .thrown s => .thrown s
     | .ok v s => .ok v { s with log := s.log ++ [.write x v], store := (x, v) :: s.store })
  | .paren e, s => eval e s

end Eval

end BoaVerif.C05
