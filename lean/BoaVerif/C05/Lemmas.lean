import BoaVerif.C05.Exec
namespace BoaVerif.C05

/-- what the optimizer needs to know about the operator semantics it shares with the evaluator
    (facts about IEEE doubles / ECMAScript arithmetic, see C13): x / 2 = x * 0.5 and x ** 2 = x * x -/
structure LitSem.Laws (S : LitSem) : Prop where
  half : ∀ l, S.binop .div l (.int 2) = S.binop .mul l .half
  square : ∀ l, l.isBig = false → S.binop .exp l (.int 2) = S.binop .mul l l
  truthyBool : ∀ b, S.truthy (.bool b) = b

section
variable (S : LitSem) (W : World)

theorem toPrim_lit (s : EState) (l : Lit) : toPrim W s (.lit l) = .ok l s := rfl

/-- one constant-folding step preserves evaluation (value, events, stores — everything) -/
theorem foldNode_sound (e : Expr) (s : EState) :
    eval S W (applyAction e (foldNode S e)).1 s = eval S W e s := by
  unfold foldNode
  split
  · -- unary on a literal
    rename_i op l
    cases op <;> simp only [applyAction, eval, toPrim_lit] <;>
      (try (cases h : S.unop _ l <;> simp [applyAction, eval, toPrim_lit, h]))
  · -- comma
    rename_i l rhs
    split
    · simp [applyAction, eval]
    · split <;> simp [applyAction, eval]
  · -- logical
    rename_i op l rhs
    cases op <;> simp only [eval, valTruthy, valNullish] <;> split <;>
      (first | (simp_all [applyAction, eval]; done) | (cases rhs <;> simp_all [applyAction, eval]))
  · -- binary on two literals
    rename_i op a b
    cases h : S.binop op a b <;> simp [applyAction, eval, toPrim_lit, h]
  · rfl

theorem reduceNode_sound (hl : S.Laws) (e : Expr) (s : EState) :
    eval S W (applyAction e (reduceNode e)).1 s = eval S W e s := by
  unfold reduceNode
  split
  · rename_i lhs
    simp only [applyAction, eval, toPrim_lit]
    cases eval S W lhs s with
    | thrown s' => rfl
    | ok v s' =>
      simp only
      cases toPrim W s' v with
      | thrown s'' => rfl
      | ok l s'' => simp only [hl.half]
  · rename_i l
    split
    · rfl
    · rename_i hb
      simp only [applyAction, eval, toPrim_lit, hl.square l (by simpa using hb)]
  · rfl

/-- the post-order walk preserves evaluation whenever the per-node step does -/
theorem walk_sound (f : Expr → Action)
    (hf : ∀ e s, eval S W (applyAction e (f e)).1 s = eval S W e s) :
    ∀ e s, eval S W (walk f e).1 s = eval S W e s := by
  intro e
  induction e with
  | lit l => intro s; simp only [walk]; exact hf _ s
  | ident x => intro s; simp only [walk]; exact hf _ s
  | unary op e ih =>
    intro s
    simp only [walk]
    rw [hf]
    have : eval S W (walk f e).1 = eval S W e := funext ih
    simp only [eval, this]
  | bin op a b iha ihb =>
    intro s
    simp only [walk]
    rw [hf]
    have ha : eval S W (walk f a).1 = eval S W a := funext iha
    have hb : eval S W (walk f b).1 = eval S W b := funext ihb
    simp only [eval, ha, hb]
  | logical op a b iha ihb =>
    intro s
    simp only [walk]
    rw [hf]
    have ha : eval S W (walk f a).1 = eval S W a := funext iha
    have hb : eval S W (walk f b).1 = eval S W b := funext ihb
    simp only [eval, ha, hb]
  | comma a b iha ihb =>
    intro s
    simp only [walk]
    rw [hf]
    have ha : eval S W (walk f a).1 = eval S W a := funext iha
    have hb : eval S W (walk f b).1 = eval S W b := funext ihb
    simp only [eval, ha, hb]
  | call g a ih =>
    intro s
    simp only [walk]
    rw [hf]
    have : eval S W (walk f a).1 = eval S W a := funext ih
    simp only [eval, this]
  | assign x e ih =>
    intro s
    simp only [walk]
    rw [hf]
    have : eval S W (walk f e).1 = eval S W e := funext ih
    simp only [eval, this]
  | paren e ih =>
    intro s
    simp only [walk]
    rw [hf]
    simp only [eval, ih]

theorem iterate_sound (f : Expr → Action)
    (hf : ∀ e s, eval S W (applyAction e (f e)).1 s = eval S W e s) :
    ∀ n e s, eval S W (iterate f n e) s = eval S W e s := by
  intro n
  induction n with
  | zero => intro e s; rfl
  | succ n ih =>
    intro e s
    simp only [iterate]
    split
    · rw [ih, walk_sound S W f hf]
    · exact walk_sound S W f hf e s

theorem optExpr_sound (hl : S.Laws) (o : Options) (e : Expr) (s : EState) :
    eval S W (optExpr S o e) s = eval S W e s := by
  unfold optExpr
  simp only
  split <;> split <;>
    simp only [iterate_sound S W _ (reduceNode_sound S W hl), iterate_sound S W _ (foldNode_sound S W)]

theorem optExpr_fun (hl : S.Laws) (o : Options) (e : Expr) : eval S W (optExpr S o e) = eval S W e :=
  funext (optExpr_sound S W hl o e)

/-! ### statements -/

theorem loopN_false (k : Nat) (body : EState → SRes) (upd : EState → Res Val) (hl : S.Laws) (s : EState) :
    loopN S (eval S W (.lit (.bool false))) body upd k s = .normal s := by
  cases k <;> simp [loopN, eval, valTruthy, hl.truthyBool]

theorem dceNode_sound (hl : S.Laws) (k : Nat) (st : Stmt) (s : EState) :
    exec S W k (dceNode st) s = exec S W k st s := by
  unfold dceNode
  split
  · rename_i t e
    split
    · split
      · rfl
      · simp [exec, eval, valTruthy, hl.truthyBool]
    · simp [exec, eval, valTruthy, hl.truthyBool]
  · rename_i t e
    split
    · rfl
    · split <;> simp [exec, eval, valTruthy, hl.truthyBool]
  · rename_i b
    split
    · rfl
    · simp only [exec]; rw [loopN_false S W k _ _ hl]
  · rename_i u b
    split
    · rfl
    · simp only [exec, noop]; rw [loopN_false S W k _ _ hl]
  · rfl

mutual
theorem noHoisted_names : ∀ (st : Stmt), hasHoisted st = false → hoistedNames st = []
  | .varDecl _ _, h => by simp [hasHoisted] at h
  | .funDecl _, h => by simp [hasHoisted] at h
  | .ifS _ t e, h => by
    cases e with
    | none =>
      unfold hasHoisted at h
      simp only [Bool.or_false] at h
      simp only [hoistedNames, noHoisted_names t h, List.append_nil]
    | some alt =>
      unfold hasHoisted at h
      simp only [Bool.or_eq_false_iff] at h
      simp only [hoistedNames, noHoisted_names t h.1, noHoisted_names alt h.2, List.append_nil]
  | .whileS _ b, h => by unfold hasHoisted at h; simp only [hoistedNames, noHoisted_names b h]
  | .forS _ _ _ b, h => by unfold hasHoisted at h; simp only [hoistedNames, noHoisted_names b h]
  | .block ss, h => by unfold hasHoisted at h; simp only [hoistedNames, noHoistedList_names ss h]
  | .expr _, _ => rfl
  | .empty, _ => rfl
theorem noHoistedList_names : ∀ (ss : List Stmt), hasHoistedList ss = false → hoistedNamesList ss = []
  | [], _ => rfl
  | s :: rest, h => by
    unfold hasHoistedList at h
    simp only [Bool.or_eq_false_iff] at h
    simp only [hoistedNamesList, noHoisted_names s h.1, noHoistedList_names rest h.2, List.append_nil]
end

/-- dead-code elimination never removes a hoisted declaration -/
theorem dceNode_names (st : Stmt) : hoistedNames (dceNode st) = hoistedNames st := by
  unfold dceNode
  split
  · rename_i t e
    split
    · rename_i alt
      split
      · rfl
      · rename_i hh
        simp only [hoistedNames, noHoisted_names alt (by simpa using hh), List.append_nil]
    · simp only [hoistedNames, List.append_nil]
  · rename_i t e
    split
    · rfl
    · rename_i hh
      have ht := noHoisted_names t (by simpa using hh)
      split <;> simp only [hoistedNames, ht, List.nil_append]
  · rename_i b
    split
    · rfl
    · rename_i hh; simp only [hoistedNames, noHoisted_names b (by simpa using hh)]
  · rename_i u b
    split
    · rfl
    · rename_i hh; simp only [hoistedNames, noHoisted_names b (by simpa using hh)]
  · rfl

mutual
theorem optStmt_names (o : Options) : ∀ (st : Stmt), hoistedNames (optStmt S o st) = hoistedNames st
  | .expr _ => rfl
  | .ifS c t e => by
    have key : hoistedNames (Stmt.ifS (optExpr S o c) (optStmt S o t)
        (match e with | some s => some (optStmt S o s) | none => none)) = hoistedNames (.ifS c t e) := by
      cases e with
      | none => simp only [hoistedNames, optStmt_names o t]
      | some alt => simp only [hoistedNames, optStmt_names o t, optStmt_names o alt]
    unfold optStmt
    simp only
    split
    · exact (dceNode_names _).trans key
    · exact key
  | .whileS c b => by
    have key : hoistedNames (Stmt.whileS (optExpr S o c) (optStmt S o b)) = hoistedNames (.whileS c b) := by
      simp only [hoistedNames, optStmt_names o b]
    unfold optStmt
    simp only
    split
    · exact (dceNode_names _).trans key
    · exact key
  | .forS i c u b => by
    have key : hoistedNames (Stmt.forS (i.map (optExpr S o)) (c.map (optExpr S o)) (u.map (optExpr S o)) (optStmt S o b))
        = hoistedNames (.forS i c u b) := by
      simp only [hoistedNames, optStmt_names o b]
    unfold optStmt
    simp only
    split
    · exact (dceNode_names _).trans key
    · exact key
  | .block ss => by simp only [optStmt, hoistedNames]; exact optStmtList_names o ss
  | .varDecl _ _ => rfl
  | .funDecl _ => rfl
  | .empty => rfl
theorem optStmtList_names (o : Options) : ∀ (ss : List Stmt), hoistedNamesList (optStmtList S o ss) = hoistedNamesList ss
  | [] => rfl
  | st :: rest => by simp only [optStmtList, hoistedNamesList, optStmt_names o st, optStmtList_names o rest]
end

mutual
theorem optStmt_sound (hl : S.Laws) (o : Options) (k : Nat) : ∀ (st : Stmt) (s : EState),
    exec S W k (optStmt S o st) s = exec S W k st s
  | .expr e, s => by simp only [optStmt, exec, optExpr_sound S W hl]
  | .ifS c t e, s => by
    have ht : exec S W k (optStmt S o t) = exec S W k t := funext (optStmt_sound hl o k t)
    have hc := optExpr_fun S W hl o c
    have key : exec S W k (Stmt.ifS (optExpr S o c) (optStmt S o t)
        (match e with | some s => some (optStmt S o s) | none => none)) s = exec S W k (.ifS c t e) s := by
      cases e with
      | none => simp only [exec, hc, ht]
      | some alt =>
        have ha : exec S W k (optStmt S o alt) = exec S W k alt := funext (optStmt_sound hl o k alt)
        simp only [exec, hc, ht, ha]
    unfold optStmt
    simp only
    split
    · exact (dceNode_sound S W hl k _ s).trans key
    · exact key
  | .whileS c b, s => by
    have hb : exec S W k (optStmt S o b) = exec S W k b := funext (optStmt_sound hl o k b)
    have hc := optExpr_fun S W hl o c
    have key : exec S W k (Stmt.whileS (optExpr S o c) (optStmt S o b)) s = exec S W k (.whileS c b) s := by
      simp only [exec, hc, hb]
    unfold optStmt
    simp only
    split
    · exact (dceNode_sound S W hl k _ s).trans key
    · exact key
  | .forS i c u b, s => by
    have hb : exec S W k (optStmt S o b) = exec S W k b := funext (optStmt_sound hl o k b)
    have key : exec S W k (Stmt.forS (i.map (optExpr S o)) (c.map (optExpr S o)) (u.map (optExpr S o)) (optStmt S o b)) s
        = exec S W k (.forS i c u b) s := by
      cases i <;> cases c <;> cases u <;> simp only [exec, Option.map, optExpr_fun S W hl, hb]
    unfold optStmt
    simp only
    split
    · exact (dceNode_sound S W hl k _ s).trans key
    · exact key
  | .block ss, s => by simp only [optStmt, exec]; exact optStmtList_sound hl o k ss s
  | .varDecl x i, s => by cases i <;> simp only [optStmt, exec, Option.map, optExpr_sound S W hl]
  | .funDecl f, s => rfl
  | .empty, s => rfl
theorem optStmtList_sound (hl : S.Laws) (o : Options) (k : Nat) : ∀ (ss : List Stmt) (s : EState),
    execList S W k (optStmtList S o ss) s = execList S W k ss s
  | [], s => rfl
  | st :: rest, s => by
    have hr : execList S W k (optStmtList S o rest) = execList S W k rest := funext (optStmtList_sound hl o k rest)
    simp only [optStmtList, execList, optStmt_sound hl o k st s, hr]
end

end
end BoaVerif.C05
