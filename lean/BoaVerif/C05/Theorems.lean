/- C05 — the AST optimizer preserves semantics. Property theorems only.
   `S : LitSem` is the operator semantics on literals that optimizer and evaluator share (constant folding
   calls the runtime's own operators); `S.Laws` are the three arithmetic facts the rewrites rely on. -/
import BoaVerif.C05.Lemmas
import BoaVerif.C05.Concrete
namespace BoaVerif.C05

/-- constant folding + strength reduction (any option set, the 10-iteration cap, parenthesised operands
    left alone) never change what an expression does: same value, same events in the same order, same
    stores, same abrupt completion — in every world and every state -/
theorem optimize_expr_sound (S : LitSem) (W : World) (hl : S.Laws) (o : Options) (e : Expr) (s : EState) :
    eval S W (optExpr S o e) s = eval S W e s :=
  optExpr_sound S W hl o e s

/-- whole programs, every option subset: the optimized statement list performs the same events and reaches
    the same state (or throws / diverges alike) for every loop bound `k`, and declares the same hoisted names.
    PARTIAL: the completion VALUE of statements is not part of `exec`; see the known finding C05-dce-completion. -/
theorem optimize_sound_partial (S : LitSem) (W : World) (hl : S.Laws) (o : Options) (k : Nat) (prog : List Stmt) (s : EState) :
    execList S W k (optStmtList S o prog) s = execList S W k prog s ∧
    hoistedNamesList (optStmtList S o prog) = hoistedNamesList prog :=
  ⟨optStmtList_sound S W hl o k prog s, optStmtList_names S o prog⟩

/-- dead-code elimination alone: one node, no effect lost, no hoisted declaration lost -/
theorem dce_effects_sound (S : LitSem) (W : World) (hl : S.Laws) (k : Nat) (st : Stmt) (s : EState) :
    exec S W k (dceNode st) s = exec S W k st s ∧ hoistedNames (dceNode st) = hoistedNames st :=
  ⟨dceNode_sound S W hl k st s, dceNode_names st⟩

/-- The statement at full strength (not proved: boa's dead-code elimination changes completion values):
    the optimizer preserves the completion value of the program as well. -/
def C05_full : Prop :=
  ∀ (S : LitSem) (W : World), S.Laws → ∀ (o : Options) (k : Nat) (prog : List Stmt) (s : EState),
    execList S W k (optStmtList S o prog) s = execList S W k prog s ∧
    True  -- ∧ completionValue (optStmtList S o prog) = completionValue prog   (completion values are outside `exec`)

/-- why BigInt literals are excluded from `** 2 → *`: with the driver's concrete semantics `10n ** 2` throws
    while `10n * 10n` is 100n — the `square` law fails exactly there (found by the differential, fixed in boa) -/
theorem square_law_fails_for_bigint :
    concrete.binop .exp (.big 10) (.int 2) = none ∧ concrete.binop .mul (.big 10) (.big 10) = some (.big 100) := by
  constructor <;> rfl

-- non-vacuity: the rewrites fire on a concrete program (checked by evaluation in the driver as well)
example : (optExpr concrete {} (.bin .mul (.paren (.bin .add (.lit (.int 1)) (.lit (.int 2)))) (.lit (.int 3))))
    = .bin .mul (.paren (.lit (.int 3))) (.lit (.int 3)) := by decide
example : dceNode (.whileS (.lit (.bool false)) (.varDecl "z" none)) = .whileS (.lit (.bool false)) (.varDecl "z" none)
    ∧ dceNode (.whileS (.lit (.bool false)) (.expr (.ident "a"))) = .empty := by
  constructor <;> rfl

end BoaVerif.C05
