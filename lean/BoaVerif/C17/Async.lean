/-
  C17 — executable model of module evaluation WITH top-level await (ECMA-262 16.2.1.5.3: InnerModuleEvaluation with
  [[PendingAsyncDependencies]], [[AsyncParentModules]], [[AsyncEvaluationOrder]], [[CycleRoot]]; ExecuteAsyncModule;
  AsyncModuleExecutionFulfilled; GatherAvailableAncestors) over the host's FIFO job queue.  Module bodies have the form
  `print(m:s); await null × k; print(m:e)` (k = 0: no top-level await), nothing throws: every `await null` costs exactly
  one job, and so does the reaction that reports the end of an async body.  That makes the trace of a graph fully
  determined, and the model computes it.  No theorems yet: this file is tied to the engine by the correspondence run only
  (generated graphs, exact trace).  Import-free.
-/
namespace BoaVerif.C17.Async

structure AGraph where
  deps : List (List Nat)
  awaits : List Nat            -- awaits[m] = number of top-level awaits of m (0: synchronous module)
  throws : List Bool := []     -- throws[m]: the body throws instead of printing its last line
  deriving Repr

def AGraph.depsOf (g : AGraph) (m : Nat) : List Nat := g.deps.getD m []
def AGraph.hasTLA (g : AGraph) (m : Nat) : Bool := g.awaits.getD m 0 > 0
def AGraph.throwsAt (g : AGraph) (m : Nat) : Bool := g.throws.getD m false

inductive Status | fresh | evaluating | evaluatingAsync | evaluated
  deriving Repr, DecidableEq

structure Rec where
  status : Status := .fresh
  idx : Nat := 0
  anc : Nat := 0
  asyncOrder : Option Nat := none
  pending : Nat := 0
  parents : List Nat := []
  cycleRoot : Nat := 0
  err : Option Nat := none      -- [[EvaluationError]]: the module whose body threw
  deriving Repr

inductive Job
  | resume (m : Nat) (left : Nat)     -- continue the body of m after an await; `left` awaits remain
  | fulfilled (m : Nat)               -- the reaction of ExecuteAsyncModule's promise: AsyncModuleExecutionFulfilled(m)
  | rejected (m : Nat)                -- the other reaction: AsyncModuleExecutionRejected(m, error thrown by m)
  deriving Repr

/-- a trace event: (module, false) = "m:s", (module, true) = "m:e" -/
abbrev Ev := Nat × Bool

structure St where
  recs : List Rec
  stack : List Nat := []        -- most recent first
  idx : Nat := 0
  asyncCount : Nat := 0
  queue : List Job := []        -- FIFO, head runs next
  trace : List Ev := []         -- most recent LAST
  error : Option Nat := none    -- abrupt completion travelling up InnerModuleEvaluation (the module that threw)
  deriving Repr

def St.init (n : Nat) : St := { recs := List.replicate n {} }

def St.recOf (s : St) (m : Nat) : Rec := s.recs.getD m {}
def St.modRec (s : St) (m : Nat) (f : Rec → Rec) : St :=
  match s.recs[m]? with
  | some r => { s with recs := s.recs.set m (f r) }
  | none => s

def emit (s : St) (m : Nat) (e : Bool) : St := { s with trace := s.trace ++ [(m, e)] }
def enqueue (s : St) (j : Job) : St := { s with queue := s.queue ++ [j] }

/-- ExecuteAsyncModule: the body starts synchronously and runs to its first await -/
def startAsync (g : AGraph) (s : St) (m : Nat) : St :=
  enqueue (emit s m false) (.resume m (g.awaits.getD m 0 - 1))

/-- ExecuteModule of a synchronous body: (state, threw) -/
def execSync (g : AGraph) (s : St) (m : Nat) : St × Bool :=
  if g.throwsAt m then (emit s m false, true) else (emit (emit s m false) m true, false)

/-- step 16 of InnerModuleEvaluation: pop the stack through `m`; every popped module gets `m` as its cycle root and
    becomes evaluating-async (if it has an async evaluation order) or evaluated — keeping ITS OWN pending count -/
def popThrough (s : St) (m : Nat) : St :=
  let popped := s.stack.takeWhile (· != m) ++ [m]
  let s1 := popped.foldl (fun acc r => acc.modRec r (fun x =>
    { x with status := if x.asyncOrder.isSome then .evaluatingAsync else .evaluated, cycleRoot := m })) s
  { s1 with stack := (s.stack.dropWhile (· != m)).drop 1 }

/-- InnerModuleEvaluation -/
def visit (g : AGraph) : Nat → St → Nat → St
  | 0, s, _ => s
  | fuel + 1, s, m =>
    if s.error.isSome then s else
    match (s.recOf m).status with
    | .evaluating => s
    | .evaluatingAsync | .evaluated =>
      -- step 11.c.iv.3 is applied by the caller; Evaluate itself (step 4-5) looks at the cycle root
      s
    | .fresh =>
      let s := s.modRec m (fun r => { r with status := .evaluating, idx := s.idx, anc := s.idx, pending := 0, cycleRoot := m })
      let s := { s with idx := s.idx + 1, stack := m :: s.stack }
      let s := (g.depsOf m).foldl (fun acc d =>
        let acc := visit g fuel acc d
        if acc.error.isSome then acc else
        let rd := acc.recOf d
        -- iv.3: a finished required module whose cycle root recorded an error rethrows it
        if rd.status != .evaluating && (acc.recOf rd.cycleRoot).err.isSome then { acc with error := (acc.recOf rd.cycleRoot).err } else
        -- the module whose async state counts: d itself while it is on the stack, else its cycle root
        let (req, asyncEval, acc) :=
          if rd.status == .evaluating then
            (d, rd.asyncOrder.isSome, acc.modRec m (fun r => { r with anc := min r.anc rd.anc }))
          else
            (rd.cycleRoot, (acc.recOf rd.cycleRoot).status == .evaluatingAsync, acc)
        if asyncEval then
          (acc.modRec m (fun r => { r with pending := r.pending + 1 })).modRec req (fun r => { r with parents := r.parents ++ [m] })
        else acc) s
      if s.error.isSome then s else
      let rm := s.recOf m
      let s :=
        if rm.pending > 0 || g.hasTLA m then
          let s := { s.modRec m (fun r => { r with asyncOrder := some s.asyncCount }) with asyncCount := s.asyncCount + 1 }
          if rm.pending == 0 then startAsync g s m else s
        else
          let (s', threw) := execSync g s m
          if threw then { s' with error := some m } else s'
      if s.error.isSome then s
      else if (s.recOf m).anc == (s.recOf m).idx then popThrough s m else s

/-- GatherAvailableAncestors ([[AsyncParentModules]] is only read) -/
def gather (g : AGraph) : Nat → St → Nat → List Nat → St × List Nat
  | 0, s, _, ex => (s, ex)
  | fuel + 1, s, m, ex =>
    let ps := (s.recOf m).parents
    ps.foldl (fun (acc : St × List Nat) p =>
      let (s, ex) := acc
      -- 1.a: only parents that are not yet in the list and whose cycle root has recorded no error
      if ex.contains p || (s.recOf (s.recOf p).cycleRoot).err.isSome then (s, ex)
      else
        let s := s.modRec p (fun r => { r with pending := r.pending - 1 })
        if (s.recOf p).pending == 0 then
          let ex := ex ++ [p]
          if g.hasTLA p then (s, ex) else gather g fuel s p ex
        else (s, ex)) (s, ex)

def insertByOrder (s : St) (x : Nat) : List Nat → List Nat
  | [] => [x]
  | y :: ys => if ((s.recOf x).asyncOrder.getD 0) ≤ ((s.recOf y).asyncOrder.getD 0) then x :: y :: ys else y :: insertByOrder s x ys

/-- AsyncModuleExecutionRejected(m, error): m and, recursively, every async parent record the error -/
def rejectedBy : Nat → St → Nat → Nat → St
  | 0, s, _, _ => s
  | fuel + 1, s, m, e =>
    if (s.recOf m).status == .evaluated then s
    else
      let s := s.modRec m (fun r => { r with status := .evaluated, err := some e })
      (s.recOf m).parents.foldl (fun acc p => rejectedBy fuel acc p e) s

/-- AsyncModuleExecutionFulfilled -/
def fulfilled (g : AGraph) (s : St) (m : Nat) : St :=
  if (s.recOf m).status == .evaluated then s
  else
    let s := s.modRec m (fun r => { r with status := .evaluated })
    let (s, ex) := gather g (g.deps.length + 1) s m []
    let sorted := ex.foldr (insertByOrder s) []
    sorted.foldl (fun s x =>
      if (s.recOf x).status == .evaluated then s
      else if g.hasTLA x then startAsync g s x
      else
        let (s', threw) := execSync g s x
        if threw then rejectedBy (g.deps.length + 1) s' x x
        else s'.modRec x (fun r => { r with status := .evaluated })) s

def runJob (g : AGraph) (s : St) : Job → St
  | .resume m 0 => if g.throwsAt m then enqueue s (.rejected m) else enqueue (emit s m true) (.fulfilled m)
  | .resume m (k + 1) => enqueue s (.resume m k)
  | .fulfilled m => fulfilled g s m
  | .rejected m => rejectedBy (g.deps.length + 1) s m m

def drain (g : AGraph) : Nat → St → St
  | 0, s => s
  | fuel + 1, s =>
    match s.queue with
    | [] => s
    | j :: rest => drain g fuel (runJob g { s with queue := rest } j)

/-- Evaluate(root) followed by the host running jobs until the queue is empty -/
def evaluate (g : AGraph) (s : St) (root : Nat) : St :=
  let s := visit g (g.deps.length + 2) { s with stack := [], idx := 0, error := none } root
  -- Evaluate step 9: an abrupt InnerModuleEvaluation marks every module still on the stack as evaluated with the error
  let s := match s.error with
    | some e => { s.stack.foldl (fun acc m => acc.modRec m (fun r => { r with status := .evaluated, err := some e, cycleRoot := m })) s with stack := [] }
    | none => s
  drain g (8 * (g.deps.length + 1) * (g.awaits.foldl (· + ·) 4)) s

/-- the promise Evaluate returns: rejected with the error recorded on the root's cycle root, fulfilled once that is evaluated -/
def outcomeOf (s : St) (root : Nat) : String :=
  let cr := (s.recOf root).cycleRoot
  match (s.recOf cr).err with
  | some e => s!"boom{e}"
  | none => if (s.recOf cr).status == .evaluated && (s.recOf root).status == .evaluated then "-" else "pending"

def showEv (e : Ev) : String := s!"m{e.1}:{if e.2 then "e" else "s"}"

end BoaVerif.C17.Async
