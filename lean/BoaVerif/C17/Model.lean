/-
  C17 model: evaluation of a graph of source text modules without top-level await (ECMA-262 16.2.1.5.3 Evaluate /
  InnerModuleEvaluation specialised to synchronous modules): a depth-first walk over the requested modules in source
  order, a module's body running after the walk over its requests returns; an exception stops everything and marks
  the module and every module still on the stack as failed with that error; statuses persist, so a later Evaluate of
  any module of the graph re-runs nothing.  Import-free.
-/
namespace BoaVerif.C17

structure Graph where
  deps : List (List Nat)      -- deps[m] = modules requested by m, in source order
  throws : List Bool          -- throws[m] = the body of m throws (after its print)
  deriving Repr

def Graph.depsOf (g : Graph) (m : Nat) : List Nat := g.deps.getD m []
def Graph.throwsAt (g : Graph) (m : Nat) : Bool := g.throws.getD m false

inductive Status
  | evaluating          -- on the stack (visited, body not yet run)
  | evaluated           -- body ran to completion
  | failed (by_ : Nat)  -- evaluation error: the module whose body threw
  deriving Repr, DecidableEq

structure St where
  status : List (Nat × Status)   -- visited modules (most recent first)
  trace : List Nat               -- bodies run, in order (most recent LAST)
  error : Option Nat             -- the module whose body threw, once that has happened
  info : List (Nat × Nat × Nat) := []   -- module ↦ ([[DFSIndex]], [[DFSAncestorIndex]])
  stack : List Nat := []         -- the spec's `stack`, most recent first
  idx : Nat := 0
  path : List Nat := []          -- GHOST (read by no decision): the calls of InnerModuleEvaluation in progress, innermost first
  deriving Repr

def St.init : St := { status := [], trace := [], error := none }

def statusOf (s : St) (m : Nat) : Option Status := (s.status.find? (fun p => p.1 == m)).map (·.2)

def setStatus (s : St) (m : Nat) (x : Status) : St :=
  { s with status := (m, x) :: s.status.filter (fun p => p.1 != m) }

def infoOf (s : St) (m : Nat) : Nat × Nat := ((s.info.find? (fun p => p.1 == m)).map (·.2)).getD (0, 0)

def setAncestor (s : St) (m a : Nat) : St :=
  { s with info := (m, (infoOf s m).1, a) :: s.info.filter (fun p => p.1 != m) }

/-- mark a list of modules -/
def markAll (s : St) (ms : List Nat) (x : Status) : St := ms.foldl (fun acc m => setStatus acc m x) s

/-- step 13 of InnerModuleEvaluation: pop the stack down to and including `m`, everything popped is evaluated -/
def popThrough (s : St) (m : Nat) : St :=
  let popped := s.stack.takeWhile (· != m) ++ [m]
  { markAll s popped .evaluated with stack := (s.stack.dropWhile (· != m)).drop 1 }

/-- steps 5-9 of InnerModuleEvaluation: the module becomes `evaluating`, gets its DFS indices, goes on the stack -/
def enter (s : St) (m : Nat) : St :=
  let s0 := setStatus s m .evaluating
  { s0 with info := (m, s.idx, s.idx) :: s0.info, stack := m :: s0.stack, idx := s.idx + 1, path := m :: s0.path }

/-- step 11.c.iv: a requested module that is still being evaluated is on the stack, part of the same cycle -/
def noteCycle (a : St) (m d : Nat) : St :=
  if a.error.isNone && statusOf a d == some .evaluating then setAncestor a m (min (infoOf a m).2 (infoOf a d).2) else a

/-- InnerModuleEvaluation (synchronous modules) -/
def visit (g : Graph) : Nat → St → Nat → St
  | 0, s, _ => s
  | fuel + 1, s, m =>
    if s.error.isSome then s
    else
      match statusOf s m with
      | some (.failed e) => { s with error := some e }     -- a module that failed earlier rethrows its error
      | some _ => s                                         -- evaluating (a cycle) or evaluated: nothing to do
      | none =>
        let s2 := (g.depsOf m).foldl (fun acc d => noteCycle (visit g fuel acc d) m d) (enter s m)
        match s2.error with
        | some _ => s2                                      -- the modules on the stack are marked by Evaluate
        | none =>
          let s3 := { s2 with trace := s2.trace ++ [m], path := s2.path.drop 1 }
          if g.throwsAt m then { s3 with error := some m }
          else if (infoOf s3 m).2 == (infoOf s3 m).1 then popThrough s3 m else s3

/-- Evaluate(root) on a graph in state `s`: the error of a previous evaluation does not carry over, statuses do.
    On an error every module still on the stack — the ancestors of the failing module and the members of unfinished
    cycles, including those whose body already ran — records it. -/
def evaluate (g : Graph) (s : St) (root : Nat) : St :=
  let s' := visit g (g.deps.length + 2) { s with error := none, stack := [], idx := 0, path := [] } root
  match s'.error with
  | some e => { markAll s' s'.stack (.failed e) with stack := [] }
  | none => s'

/-- outcome of the promise returned by Evaluate -/
def outcome (s : St) : Option Nat := s.error

end BoaVerif.C17
