/- C17 — DEPENDENCY ORDER, proved for the whole walk (all graphs, cycles included, any sequence of Evaluate calls):
   when the body of a module runs, every module it requests either ran its body EARLIER in the trace, or the
   requesting module is reachable from it (the request is part of a cycle).  The proof threads an invariant through
   `visit`: what `evaluated` / `evaluating` statuses mean in terms of the trace, the spec's stack and the chain of
   calls in progress (the ghost field `path`), together with a measure showing that the fuel `evaluate` passes is
   never what stops the walk. -/
import BoaVerif.C17.OrderLemmas
namespace BoaVerif.C17

/-- `b` is reachable from `a` along module requests -/
inductive Reaches (g : Graph) : Nat → Nat → Prop
  | refl (a : Nat) : Reaches g a a
  | step {a c b : Nat} : c ∈ g.depsOf a → Reaches g c b → Reaches g a b

theorem Reaches.trans {g : Graph} {a b c : Nat} (h1 : Reaches g a b) (h2 : Reaches g b c) : Reaches g a c := by
  induction h1 with
  | refl => exact h2
  | step hd _ ih => exact .step hd (ih h2)

/-- innermost first: every call in progress was made from the one below it -/
def Chain (g : Graph) : List Nat → Prop
  | a :: b :: r => a ∈ g.depsOf b ∧ Chain g (b :: r)
  | _ => True

theorem Chain.tail {g : Graph} {a : Nat} {l : List Nat} (h : Chain g (a :: l)) : Chain g l := by
  cases l with
  | nil => trivial
  | cons b r => exact h.2

theorem Chain.reaches_head {g : Graph} : ∀ (l : List Nat) (a : Nat), Chain g (a :: l) → ∀ x ∈ a :: l, Reaches g x a := by
  intro l
  induction l with
  | nil => intro a _ x hx; simp at hx; subst hx; exact .refl _
  | cons b r ih =>
    intro a h x hx
    rcases List.mem_cons.mp hx with rfl | hx
    · exact .refl _
    · exact (ih b h.2 x hx).trans (.step h.1 (.refl a))

/-- the order property of a trace: a requested module ran earlier, or the request closes a cycle -/
def OrderedL (g : Graph) (t : List Nat) : Prop :=
  ∀ pre x post, t = pre ++ x :: post → ∀ d ∈ g.depsOf x, d ∈ pre ∨ Reaches g d x

theorem orderedL_snoc {g : Graph} {t : List Nat} {m : Nat} (h : OrderedL g t)
    (hm : ∀ d ∈ g.depsOf m, d ∈ t ∨ Reaches g d m) : OrderedL g (t ++ [m]) := by
  intro pre x post heq d hd
  rcases List.eq_nil_or_concat post with hp | ⟨post', z, hp⟩
  · subst hp
    have := List.append_inj' heq (by simp)
    obtain ⟨h1, h2⟩ := this
    simp at h2
    subst h1; subst h2
    exact hm d hd
  · subst hp
    have heq' : t ++ [m] = (pre ++ x :: post') ++ [z] := by rw [heq]; simp
    have := List.append_inj' heq' (by simp)
    exact h pre x post' this.1 d hd

/-- what the statuses mean, in every state (also after an error) -/
structure H (g : Graph) (s : St) : Prop where
  done : ∀ x, statusOf s x = some .evaluated → x ∈ s.trace
  wait : ∀ x, statusOf s x = some .evaluating → x ∈ s.trace ∨ x ∈ s.stack
  ord : OrderedL g s.trace

/-- additionally, while no error is pending -/
structure K (g : Graph) (s : St) : Prop where
  active : ∀ x, statusOf s x = some .evaluating → x ∈ s.trace ∨ x ∈ s.path
  chain : Chain g s.path

def CanCall (g : Graph) (s : St) (m : Nat) : Prop := ∀ h t, s.path = h :: t → m ∈ g.depsOf h

def okStatus (s : St) (m : Nat) : Prop := statusOf s m = some .evaluated ∨ statusOf s m = some .evaluating

theorem H.congr {g : Graph} {s t : St} (h : H g s) (h1 : t.status = s.status) (h2 : t.trace = s.trace)
    (h3 : t.stack = s.stack) : H g t := by
  refine ⟨fun x hx => ?_, fun x hx => ?_, ?_⟩
  · rw [h2]; exact h.done x (by rw [← statusOf_congr h1]; exact hx)
  · rw [h2, h3]; exact h.wait x (by rw [← statusOf_congr h1]; exact hx)
  · rw [h2]; exact h.ord

theorem K.congr {g : Graph} {s t : St} (h : K g s) (h1 : t.status = s.status) (h2 : t.trace = s.trace)
    (h3 : t.path = s.path) : K g t := by
  refine ⟨fun x hx => ?_, ?_⟩
  · rw [h2, h3]; exact h.active x (by rw [← statusOf_congr h1]; exact hx)
  · rw [h3]; exact h.chain

theorem noteCycle_status (a : St) (m d : Nat) : (noteCycle a m d).status = a.status := by
  unfold noteCycle; split <;> rfl

theorem ok_of_grows_nf {s t : St} {y : Nat} (hg : Grows s t)
    (hnf : ∀ e, statusOf t y = some (.failed e) → statusOf s y = some (.failed e)) (h : okStatus s y) : okStatus t y := by
  have hs : (statusOf s y).isSome := by rcases h with h | h <;> rw [h] <;> rfl
  have ht := hg.status y hs
  cases hty : statusOf t y with
  | none => rw [hty] at ht; cases ht
  | some v =>
    cases v with
    | evaluated => exact Or.inl hty
    | evaluating => exact Or.inr hty
    | failed e =>
      have := hnf e hty
      rcases h with h | h <;> rw [h] at this <;> cases this

theorem ok_visit (g : Graph) (fuel : Nat) (s : St) (m y : Nat) (h : okStatus s y) : okStatus (visit g fuel s m) y :=
  ok_of_grows_nf (visit_grows g fuel s m) (fun e => visit_nf g fuel s m y e) h

theorem ok_noteCycle (a : St) (m d y : Nat) (h : okStatus a y) : okStatus (noteCycle a m d) y := by
  unfold okStatus at *; rw [statusOf_noteCycle]; exact h

theorem ok_fold (g : Graph) (fuel m y : Nat) : ∀ (ds : List Nat) (a : St), okStatus a y →
    okStatus (ds.foldl (fun acc d => noteCycle (visit g fuel acc d) m d) a) y := by
  intro ds
  induction ds with
  | nil => intro a h; exact h
  | cons d r ih => intro a h; exact ih _ (ok_noteCycle _ m d y (ok_visit g fuel a d y h))

theorem fold_keeps_error (g : Graph) (fuel m : Nat) : ∀ (ds : List Nat) (a : St), a.error.isSome = true →
    ds.foldl (fun acc d => noteCycle (visit g fuel acc d) m d) a = a := by
  intro ds
  induction ds with
  | nil => intro a _; rfl
  | cons d r ih =>
    intro a h
    simp only [List.foldl_cons]
    have h1 : visit g fuel a d = a := visit_keeps_error g fuel a d h
    have h2 : noteCycle a m d = a := by
      unfold noteCycle
      have : a.error.isNone = false := by
        cases he : a.error with
        | none => rw [he] at h; cases h
        | some _ => rfl
      simp [this]
    rw [h1, h2]; exact ih a h

theorem error_none_of_not_isSome {s : St} (h : ¬ s.error.isSome = true) : s.error = none := by
  cases he : s.error with
  | none => rfl
  | some _ => rw [he] at h; exact absurd rfl h

/-- list facts about popping the stack down to `m` when `m` was pushed above `t` and `e` was pushed later -/
theorem takeWhile_sub (m : Nat) (t : List Nat) : ∀ (e : List Nat) (x : Nat),
    x ∈ (e ++ m :: t).takeWhile (· != m) → x ∈ e := by
  intro e
  induction e with
  | nil => intro x hx; simp at hx
  | cons a e ih =>
    intro x hx
    simp only [List.cons_append, List.takeWhile_cons] at hx
    split at hx
    · rcases List.mem_cons.mp hx with rfl | hx
      · exact List.mem_cons_self
      · exact List.mem_cons_of_mem _ (ih x hx)
    · cases hx

theorem dropWhile_rest (m : Nat) (t : List Nat) : ∀ (e : List Nat),
    ∃ e', ((e ++ m :: t).dropWhile (· != m)).drop 1 = e' ++ t ∧ ∀ x ∈ e', x ∈ e := by
  intro e
  induction e with
  | nil => exact ⟨[], by simp, fun x hx => by cases hx⟩
  | cons a e ih =>
    simp only [List.cons_append, List.dropWhile_cons]
    split
    · obtain ⟨e', h1, h2⟩ := ih
      exact ⟨e', h1, fun x hx => List.mem_cons_of_mem _ (h2 x hx)⟩
    · rename_i hne
      have ha : a = m := by simpa using hne
      refine ⟨e ++ [m], by simp, ?_⟩
      intro x hx
      rcases List.mem_append.mp hx with hx | hx
      · exact List.mem_cons_of_mem _ hx
      · simp at hx; rw [hx, ← ha]; exact List.mem_cons_self

theorem mem_dropWhile_rest (m x : Nat) : ∀ (l : List Nat), x ∈ l → x ∉ l.takeWhile (· != m) → x ≠ m →
    x ∈ (l.dropWhile (· != m)).drop 1 := by
  intro l
  induction l with
  | nil => intro h; cases h
  | cons a l ih =>
    intro hx hnt hne
    simp only [List.takeWhile_cons, List.dropWhile_cons] at hnt ⊢
    split
    · rename_i hc
      rw [if_pos hc] at hnt
      have hxa : x ≠ a := fun e => hnt (e ▸ List.mem_cons_self)
      have hxl : x ∈ l := by
        rcases List.mem_cons.mp hx with h | h
        · exact absurd h hxa
        · exact h
      exact ih hxl (fun h => hnt (List.mem_cons_of_mem _ h)) hne
    · rename_i hc
      have ha : a = m := by simpa using hc
      rcases List.mem_cons.mp hx with h | h
      · exact absurd (h.trans ha) hne
      · simpa using h

/-- what a call of `visit` establishes -/
structure Post (g : Graph) (s s' : St) (m : Nat) : Prop where
  h : H g s'
  ext : ∃ ext, s'.stack = ext ++ s.stack ∧ (s'.error = none → ∀ x ∈ ext, x ∈ s'.trace)
  mono : ∀ x ∈ s.trace, x ∈ s'.trace
  k : s'.error = none → K g s' ∧ s'.path = s.path ∧ okStatus s' m

theorem H.noteCycle {g : Graph} {a : St} (h : H g a) (m d : Nat) : H g (noteCycle a m d) :=
  h.congr (noteCycle_status a m d) (noteCycle_trace a m d) (noteCycle_stack a m d)

theorem K.noteCycle {g : Graph} {a : St} (h : K g a) (m d : Nat) : K g (noteCycle a m d) :=
  h.congr (noteCycle_status a m d) (noteCycle_trace a m d) (noteCycle_path a m d)

/-- the invariant of the walk over the requests of `m` (started from `enter s m`) -/
structure FI (g : Graph) (s : St) (m : Nat) (a : St) : Prop where
  h : H g a
  ext : ∃ ext, a.stack = ext ++ (m :: s.stack) ∧ (a.error = none → ∀ x ∈ ext, x ∈ a.trace)
  mono : ∀ x ∈ s.trace, x ∈ a.trace
  k : a.error = none → K g a ∧ a.path = m :: s.path

theorem visit_post (g : Graph) : ∀ (fuel : Nat) (s : St) (m : Nat), unvisited g s + 1 ≤ fuel → H g s →
    (s.error = none → K g s ∧ CanCall g s m) → Post g s (visit g fuel s m) m := by
  intro fuel
  induction fuel with
  | zero => intro s m hb; omega
  | succ fuel ih =>
    intro s m hb hH hK
    unfold visit
    by_cases he : s.error.isSome = true
    · simp only [he, ↓reduceIte]
      refine ⟨hH, ⟨[], by simp, fun _ x hx => by cases hx⟩, fun x hx => hx, fun hn => ?_⟩
      rw [hn] at he; cases he
    · have hen := error_none_of_not_isSome he
      obtain ⟨hk, hc⟩ := hK hen
      simp only [he]
      cases hst : statusOf s m with
      | some st =>
        cases st with
        | failed e =>
          refine ⟨hH.congr rfl rfl rfl, ⟨[], by simp, fun _ x hx => by cases hx⟩, fun x hx => hx, fun hn => ?_⟩
          cases hn
        | evaluating =>
          exact ⟨hH, ⟨[], by simp, fun _ x hx => by cases hx⟩, fun x hx => hx, fun _ => ⟨hk, rfl, Or.inr hst⟩⟩
        | evaluated =>
          exact ⟨hH, ⟨[], by simp, fun _ x hx => by cases hx⟩, fun x hx => hx, fun _ => ⟨hk, rfl, Or.inl hst⟩⟩
      | none =>
        simp only [Bool.false_eq_true, ↓reduceIte]
        -- the state after `enter`
        have hH1 : H g (enter s m) := by
          refine ⟨fun x hx => ?_, fun x hx => ?_, hH.ord⟩
          · rw [statusOf_enter'] at hx
            by_cases hxm : x = m
            · simp [hxm] at hx
            · simp [hxm] at hx; exact hH.done x hx
          · rw [statusOf_enter'] at hx
            by_cases hxm : x = m
            · right; rw [hxm]; exact List.mem_cons_self
            · simp [hxm] at hx
              rcases hH.wait x hx with h | h
              · exact Or.inl h
              · exact Or.inr (List.mem_cons_of_mem _ h)
        have hK1 : K g (enter s m) := by
          refine ⟨fun x hx => ?_, ?_⟩
          · rw [statusOf_enter'] at hx
            by_cases hxm : x = m
            · right; rw [hxm]; exact List.mem_cons_self
            · simp [hxm] at hx
              rcases hk.active x hx with h | h
              · exact Or.inl h
              · exact Or.inr (List.mem_cons_of_mem _ h)
          · show Chain g (m :: s.path)
            cases hp : s.path with
            | nil => trivial
            | cons b r => exact ⟨hc b r hp, hp ▸ hk.chain⟩
        have hFI1 : FI g s m (enter s m) :=
          ⟨hH1, ⟨[], by simp, fun _ x hx => by cases hx⟩, fun x hx => hx, fun _ => ⟨hK1, rfl⟩⟩
        -- the walk over the requests
        have fold : ∀ (ds : List Nat) (a : St), (∀ d ∈ ds, d ∈ g.depsOf m) → (ds ≠ [] → unvisited g a + 1 ≤ fuel) →
            FI g s m a →
            FI g s m (ds.foldl (fun acc d => noteCycle (visit g fuel acc d) m d) a) ∧
            ((ds.foldl (fun acc d => noteCycle (visit g fuel acc d) m d) a).error = none →
              ∀ d ∈ ds, okStatus (ds.foldl (fun acc d => noteCycle (visit g fuel acc d) m d) a) d) := by
          intro ds
          induction ds with
          | nil => intro a _ _ hfi; exact ⟨hfi, fun _ d hd => by cases hd⟩
          | cons d r ihr =>
            intro a hsub hbd hfi
            simp only [List.foldl_cons]
            have hba : unvisited g a + 1 ≤ fuel := hbd (by simp)
            have hp := ih a d hba hfi.h (fun hn => ⟨(hfi.k hn).1, fun b t hpt => by
              rw [(hfi.k hn).2] at hpt
              cases hpt
              exact hsub d List.mem_cons_self⟩)
            have herr : (noteCycle (visit g fuel a d) m d).error = none → a.error = none := by
              intro hn
              rw [noteCycle_error] at hn
              cases hae : a.error with
              | none => rfl
              | some e =>
                rw [visit_keeps_error g fuel a d (by rw [hae]; rfl), hae] at hn; cases hn
            have hfi1 : FI g s m (noteCycle (visit g fuel a d) m d) := by
              refine ⟨hp.h.noteCycle m d, ?_, ?_, ?_⟩
              · obtain ⟨e1, he1, he1t⟩ := hfi.ext
                obtain ⟨e2, he2, he2t⟩ := hp.ext
                refine ⟨e2 ++ e1, by rw [noteCycle_stack, he2, he1]; simp, ?_⟩
                intro hn x hx
                rw [noteCycle_trace]
                have hn' : (visit g fuel a d).error = none := by rw [noteCycle_error] at hn; exact hn
                rcases List.mem_append.mp hx with hx | hx
                · exact he2t hn' x hx
                · exact hp.mono x (he1t (herr hn) x hx)
              · intro x hx; rw [noteCycle_trace]; exact hp.mono x (hfi.mono x hx)
              · intro hn
                have hn' : (visit g fuel a d).error = none := by rw [noteCycle_error] at hn; exact hn
                obtain ⟨k', p', _⟩ := hp.k hn'
                refine ⟨k'.noteCycle m d, ?_⟩
                rw [noteCycle_path, p', (hfi.k (herr hn)).2]
            have hb1 : r ≠ [] → unvisited g (noteCycle (visit g fuel a d) m d) + 1 ≤ fuel := by
              intro _
              have := unvisited_mono g ((visit_grows g fuel a d).trans (grows_noteCycle (visit g fuel a d) m d))
              omega
            obtain ⟨hfiF, hokF⟩ := ihr (noteCycle (visit g fuel a d) m d)
              (fun d' hd' => hsub d' (List.mem_cons_of_mem _ hd')) hb1 hfi1
            refine ⟨hfiF, ?_⟩
            intro hn d' hd'
            rcases List.mem_cons.mp hd' with rfl | hd'
            · -- the request that was just walked
              have h1n : (noteCycle (visit g fuel a d') m d').error = none := by
                cases hq : (noteCycle (visit g fuel a d') m d').error with
                | none => rfl
                | some e =>
                  rw [fold_keeps_error g fuel m r _ (by rw [hq]; rfl), hq] at hn; cases hn
              have hvn : (visit g fuel a d').error = none := by rw [noteCycle_error] at h1n; exact h1n
              exact ok_fold g fuel m d' r _ (ok_noteCycle _ m d' d' (hp.k hvn).2.2)
            · exact hokF hn d' hd'
        have hbound : g.depsOf m ≠ [] → unvisited g (enter s m) + 1 ≤ fuel := by
          intro hne
          have hm : m < g.deps.length := by
            by_cases hlt : m < g.deps.length
            · exact hlt
            · exact absurd (depsOf_nil_of_ge g m (by omega)) hne
          have := unvisited_enter g s m hm hst
          omega
        obtain ⟨hfi2, hok2⟩ := fold (g.depsOf m) (enter s m) (fun d hd => hd) hbound hFI1
        have hokm : okStatus ((g.depsOf m).foldl (fun acc d => noteCycle (visit g fuel acc d) m d) (enter s m)) m :=
          ok_fold g fuel m m (g.depsOf m) (enter s m) (Or.inr (by rw [statusOf_enter']; simp))
        generalize (g.depsOf m).foldl (fun acc d => noteCycle (visit g fuel acc d) m d) (enter s m) = s2 at hfi2 hok2 hokm
        obtain ⟨e2, hst2, he2t⟩ := hfi2.ext
        cases hs2e : s2.error with
        | some e =>
          simp only
          refine ⟨hfi2.h, ⟨e2 ++ [m], by rw [hst2]; simp, fun hn => by rw [hs2e] at hn; cases hn⟩, hfi2.mono,
            fun hn => by rw [hs2e] at hn; cases hn⟩
        | none =>
          simp only
          obtain ⟨k2, p2⟩ := hfi2.k hs2e
          -- the body of m runs now
          have hdeps : ∀ d ∈ g.depsOf m, d ∈ s2.trace ∨ Reaches g d m := by
            intro d hd
            rcases hok2 hs2e d hd with h | h
            · exact Or.inl (hfi2.h.done d h)
            · rcases k2.active d h with h' | h'
              · exact Or.inl h'
              · right
                rw [p2] at h'
                exact Chain.reaches_head s.path m (p2 ▸ k2.chain) d h'
          have hH3 : ∀ t : St, t.status = s2.status → t.trace = s2.trace ++ [m] → t.stack = s2.stack → H g t := by
            intro t h1 h2 h3
            refine ⟨fun x hx => ?_, fun x hx => ?_, ?_⟩
            · rw [h2]; exact List.mem_append_left _ (hfi2.h.done x (by rw [← statusOf_congr h1]; exact hx))
            · rw [h2, h3]
              rcases hfi2.h.wait x (by rw [← statusOf_congr h1]; exact hx) with h | h
              · exact Or.inl (List.mem_append_left _ h)
              · exact Or.inr h
            · rw [h2]; exact orderedL_snoc hfi2.h.ord hdeps
          have hK3 : ∀ t : St, t.status = s2.status → t.trace = s2.trace ++ [m] → t.path = s2.path.drop 1 → K g t := by
            intro t h1 h2 h3
            have hp3 : t.path = s.path := by rw [h3, p2]; rfl
            refine ⟨fun x hx => ?_, ?_⟩
            · rw [h2, hp3]
              rcases k2.active x (by rw [← statusOf_congr h1]; exact hx) with h | h
              · exact Or.inl (List.mem_append_left _ h)
              · rw [p2] at h
                rcases List.mem_cons.mp h with h | h
                · left; rw [h]; simp
                · exact Or.inr h
            · rw [hp3]; exact (p2 ▸ k2.chain : Chain g (m :: s.path)).tail
          have hmono3 : ∀ x ∈ s.trace, x ∈ s2.trace ++ [m] := fun x hx => List.mem_append_left _ (hfi2.mono x hx)
          have hext3 : ∀ x ∈ e2 ++ [m], x ∈ s2.trace ++ [m] := by
            intro x hx
            rcases List.mem_append.mp hx with h | h
            · exact List.mem_append_left _ (he2t hs2e x h)
            · exact List.mem_append_right _ h
          split
          · -- the body throws
            refine ⟨hH3 _ rfl rfl rfl, ⟨e2 ++ [m], by show s2.stack = _; rw [hst2]; simp, fun hn => by cases hn⟩, hmono3,
              fun hn => by cases hn⟩
          · split
            · -- m is the root of its strongly connected component: pop the stack through m
              have hH3' := hH3 ({ s2 with trace := s2.trace ++ [m], path := s2.path.drop 1, error := none } : St) rfl rfl rfl
              have hK3' := hK3 ({ s2 with trace := s2.trace ++ [m], path := s2.path.drop 1, error := none } : St) rfl rfl rfl
              generalize hs3 : ({ s2 with trace := s2.trace ++ [m], path := s2.path.drop 1, error := none } : St) = s3 at hH3' hK3'
              have hst3 : s3.stack = e2 ++ m :: s.stack := by rw [← hs3]; exact hst2
              have htr3 : s3.trace = s2.trace ++ [m] := by rw [← hs3]
              have hpa3 : s3.path = s.path := by rw [← hs3]; show s2.path.drop 1 = _; rw [p2]; rfl
              have her3 : s3.error = none := by rw [← hs3]
              have hpopped : ∀ x ∈ s3.stack.takeWhile (· != m) ++ [m], x ∈ s3.trace := by
                intro x hx
                rw [htr3]
                rcases List.mem_append.mp hx with h | h
                · rw [hst3] at h
                  exact hext3 x (List.mem_append_left _ (takeWhile_sub m s.stack e2 x h))
                · exact List.mem_append_right _ h
              refine ⟨⟨fun x hx => ?_, fun x hx => ?_, ?_⟩, ?_, ?_, ?_⟩
              · rw [popThrough_trace]
                rw [statusOf_popThrough] at hx
                split at hx
                · rename_i hin; exact hpopped x hin
                · exact hH3'.done x hx
              · rw [popThrough_trace, popThrough_stack]
                rw [statusOf_popThrough] at hx
                split at hx
                · cases hx
                · rename_i hnin
                  rcases hH3'.wait x hx with h | h
                  · exact Or.inl h
                  · right
                    apply mem_dropWhile_rest m x s3.stack h
                    · exact fun hh => hnin (List.mem_append_left _ hh)
                    · exact fun hh => hnin (List.mem_append_right _ (by simp [hh]))
              · rw [popThrough_trace]; exact hH3'.ord
              · obtain ⟨e', he'1, he'2⟩ := dropWhile_rest m s.stack e2
                refine ⟨e', by rw [popThrough_stack, hst3]; exact he'1, ?_⟩
                intro _ x hx
                rw [popThrough_trace, htr3]
                exact hext3 x (List.mem_append_left _ (he'2 x hx))
              · intro x hx; rw [popThrough_trace, htr3]; exact hmono3 x hx
              · intro _
                refine ⟨⟨fun x hx => ?_, ?_⟩, ?_, ?_⟩
                · rw [popThrough_trace, popThrough_path]
                  rw [statusOf_popThrough] at hx
                  split at hx
                  · cases hx
                  · exact hK3'.active x hx
                · rw [popThrough_path]; exact hK3'.chain
                · rw [popThrough_path]; exact hpa3
                · left
                  rw [statusOf_popThrough, if_pos (List.mem_append_right _ (by simp))]
            · -- m stays on the stack: it belongs to a cycle whose root is below
              refine ⟨hH3 _ rfl rfl rfl, ⟨e2 ++ [m], by show s2.stack = _; rw [hst2]; simp, fun _ => hext3⟩, hmono3,
                fun _ => ⟨hK3 _ rfl rfl rfl, by show s2.path.drop 1 = _; rw [p2]; rfl, ?_⟩⟩
              exact hokm

end BoaVerif.C17
