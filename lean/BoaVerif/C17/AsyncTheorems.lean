/- C17 — first theorems about the executable model of async module evaluation (Async.lean).  They cover the host-facing
   contract only (re-evaluation, job accounting, splitting the host's job loop); dependency order and progress of the
   async walk are NOT proved — for those the model is an oracle tied to the engine by the correspondence run. -/
import BoaVerif.C17.Async
namespace BoaVerif.C17.Async

/-- draining with an empty queue does nothing -/
theorem drain_idle (g : AGraph) : ∀ (n : Nat) (s : St), s.queue = [] → drain g n s = s := by
  intro n
  induction n with
  | zero => intro s _; rfl
  | succ n _ => intro s h; simp [drain, h]

/-- the host may run the job loop in several calls: `a + b` turns are `a` turns followed by `b` turns -/
theorem drain_add (g : AGraph) : ∀ (a b : Nat) (s : St), drain g (a + b) s = drain g b (drain g a s) := by
  intro a
  induction a with
  | zero => intro b s; simp [drain]
  | succ a ih =>
    intro b s
    rw [Nat.succ_add]
    cases hq : s.queue with
    | nil => simp only [drain, hq]; exact (drain_idle g b s hq).symm
    | cons j rest => simp only [drain, hq]; exact ih b _

/-- EVALUATING AGAIN RUNS NOTHING: Evaluate on a module that is already evaluated (or still evaluating-async), with no job
    pending, leaves the trace, the records and the queue as they are -/
theorem reevaluate_runs_nothing (g : AGraph) (s : St) (root : Nat) (hq : s.queue = [])
    (hst : (s.recOf root).status = .evaluated ∨ (s.recOf root).status = .evaluatingAsync) :
    (evaluate g s root).trace = s.trace ∧ (evaluate g s root).recs = s.recs ∧ (evaluate g s root).queue = [] := by
  unfold evaluate
  have hv : visit g (g.deps.length + 2) { s with stack := [], idx := 0, error := none } root =
      { s with stack := [], idx := 0, error := none } := by
    have hr : (({ s with stack := [], idx := 0, error := none } : St).recOf root).status = (s.recOf root).status := rfl
    unfold visit
    rcases hst with h | h <;> simp [hr, h]
  simp only [hv]
  rw [drain_idle g _ _ (by exact hq)]
  exact ⟨rfl, rfl, hq⟩

/-- starting an async body prints its first line and schedules exactly one job -/
theorem startAsync_one_job (g : AGraph) (s : St) (m : Nat) :
    (startAsync g s m).queue = s.queue ++ [Job.resume m (g.awaits.getD m 0 - 1)] ∧ (startAsync g s m).trace = s.trace ++ [(m, false)] ∧
    (startAsync g s m).recs = s.recs := ⟨rfl, rfl, rfl⟩

/-- every await costs exactly one job, and so does the report of the end of the body: from `resume m k` the body's last
    line is printed after exactly `k + 1` turns of this job chain -/
theorem resume_step (g : AGraph) (s : St) (m k : Nat) (hnt : g.throwsAt m = false) :
    (runJob g s (.resume m (k + 1))).queue = s.queue ++ [Job.resume m k] ∧ (runJob g s (.resume m (k + 1))).trace = s.trace ∧
    (runJob g s (.resume m 0)).queue = s.queue ++ [Job.fulfilled m] ∧ (runJob g s (.resume m 0)).trace = s.trace ++ [(m, true)] := by
  refine ⟨rfl, rfl, ?_, ?_⟩ <;> simp [runJob, hnt, enqueue, emit]

/-- a body that throws reports it with one job and prints no last line -/
theorem resume_throw (g : AGraph) (s : St) (m : Nat) (ht : g.throwsAt m = true) :
    (runJob g s (.resume m 0)).queue = s.queue ++ [Job.rejected m] ∧ (runJob g s (.resume m 0)).trace = s.trace := by
  constructor <;> simp [runJob, ht, enqueue]

-- the two graphs of the repaired defect (§5 of DESIGN.md): a cycle member waiting for fewer / more async dependencies than its root
example : ((evaluate ⟨[[2, 3], [0], [], [1]], [0, 1, 1, 0], []⟩ (St.init 4) 0).trace.map showEv) =
    ["m2:s", "m1:s", "m2:e", "m1:e", "m3:s", "m3:e", "m0:s", "m0:e"] := by decide
example : ((evaluate ⟨[[1], [0, 2, 3], [], []], [0, 0, 1, 3], []⟩ (St.init 4) 0).trace.map showEv) =
    ["m2:s", "m3:s", "m2:e", "m3:e", "m1:s", "m1:e", "m0:s", "m0:e"] := by decide

-- the graphs of the two error-propagation defects repaired in /repo 47036ad and 5b20b60
example : ((evaluate ⟨[[1], []], [0, 1], [true, false]⟩ (St.init 2) 0).trace.map showEv) = ["m1:s", "m1:e", "m0:s"] ∧
    outcomeOf (evaluate ⟨[[1], []], [0, 1], [true, false]⟩ (St.init 2) 0) 0 = "boom0" := by decide
example : ((evaluate ⟨[[1], [2], []], [0, 0, 1], [false, true, false]⟩ (St.init 3) 0).trace.map showEv) = ["m2:s", "m2:e", "m1:s"] ∧
    outcomeOf (evaluate ⟨[[1], [2], []], [0, 0, 1], [false, true, false]⟩ (St.init 3) 0) 0 = "boom1" := by decide

end BoaVerif.C17.Async
