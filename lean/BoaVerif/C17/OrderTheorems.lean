/- C17 — dependency order: property theorems (proofs of the invariant in Order.lean).
   `Reaches g d x` : x is reachable from d along requests.  Since d is requested by x, `Reaches g d x` says that the
   request x → d lies on a cycle; so the theorems say: every NON-CYCLIC dependency of a module ran its body earlier. -/
import BoaVerif.C17.Order
namespace BoaVerif.C17

/-- the invariant between two Evaluate calls -/
structure Q (g : Graph) (s : St) : Prop where
  done : ∀ x, statusOf s x = some .evaluated → x ∈ s.trace
  idle : ∀ x, statusOf s x = some .evaluating → x ∈ s.trace
  ord : OrderedL g s.trace

theorem Q_init (g : Graph) : Q g St.init :=
  ⟨fun x h => by simp [St.init, statusOf] at h, fun x h => by simp [St.init, statusOf] at h,
   fun pre x post h => by simp [St.init] at h⟩

/-- `evaluate` passes enough fuel and keeps the invariant, whether it ends normally or with an error -/
theorem evaluate_Q (g : Graph) (s : St) (root : Nat) (h : Q g s) : Q g (evaluate g s root) := by
  unfold evaluate
  have hH0 : H g ({ s with error := none, stack := [], idx := 0, path := [] } : St) :=
    ⟨h.done, fun x hx => Or.inl (h.idle x hx), h.ord⟩
  have hK0 : K g ({ s with error := none, stack := [], idx := 0, path := [] } : St) :=
    ⟨fun x hx => Or.inl (h.idle x hx), trivial⟩
  have hb : unvisited g ({ s with error := none, stack := [], idx := 0, path := [] } : St) + 1 ≤ g.deps.length + 2 := by
    have := unvisited_le g ({ s with error := none, stack := [], idx := 0, path := [] } : St); omega
  have hp := visit_post g (g.deps.length + 2) _ root hb hH0 (fun _ => ⟨hK0, fun a t hpt => by cases hpt⟩)
  generalize visit g (g.deps.length + 2) { s with error := none, stack := [], idx := 0, path := [] } root = s' at hp
  simp only
  cases hse : s'.error with
  | some e =>
    simp only
    refine ⟨fun x hx => ?_, fun x hx => ?_, ?_⟩
    · show x ∈ (markAll s' s'.stack (.failed e)).trace
      rw [markAll_trace]
      have hx' : statusOf (markAll s' s'.stack (.failed e)) x = some .evaluated := hx
      rw [statusOf_markAll] at hx'
      split at hx'
      · cases hx'
      · exact hp.h.done x hx'
    · show x ∈ (markAll s' s'.stack (.failed e)).trace
      rw [markAll_trace]
      have hx' : statusOf (markAll s' s'.stack (.failed e)) x = some .evaluating := hx
      rw [statusOf_markAll] at hx'
      split at hx'
      · cases hx'
      · rename_i hnin
        rcases hp.h.wait x hx' with h1 | h1
        · exact h1
        · exact absurd h1 hnin
    · show OrderedL g (markAll s' s'.stack (.failed e)).trace
      rw [markAll_trace]; exact hp.h.ord
  | none =>
    simp only
    obtain ⟨k, p, _⟩ := hp.k hse
    refine ⟨hp.h.done, fun x hx => ?_, hp.h.ord⟩
    rcases k.active x hx with h1 | h1
    · exact h1
    · rw [p] at h1; cases h1

/-- DEPENDENCY ORDER. For every graph (cycles, self-imports, repeated requests, throwing bodies) and every sequence of
    Evaluate calls: if the body of `x` ran, every module `d` that `x` requests ran its body EARLIER, unless `x` is
    reachable from `d` (the request lies on a cycle). -/
theorem deps_before_dependents (g : Graph) (roots : List Nat) (pre post : List Nat) (x : Nat)
    (h : (roots.foldl (evaluate g) St.init).trace = pre ++ x :: post) (d : Nat) (hd : d ∈ g.depsOf x) :
    d ∈ pre ∨ Reaches g d x := by
  have : ∀ (rs : List Nat) (s : St), Q g s → Q g (rs.foldl (evaluate g) s) := by
    intro rs
    induction rs with
    | nil => intro s h; exact h
    | cons r rs ih => intro s h; exact ih _ (evaluate_Q g s r h)
  exact (this roots St.init (Q_init g)).ord pre x post h d hd

/-- the same for acyclic requests, stated outright -/
theorem acyclic_dep_ran_earlier (g : Graph) (roots : List Nat) (pre post : List Nat) (x : Nat)
    (h : (roots.foldl (evaluate g) St.init).trace = pre ++ x :: post) (d : Nat) (hd : d ∈ g.depsOf x)
    (hacyc : ¬ Reaches g d x) : d ∈ pre :=
  (deps_before_dependents g roots pre post x h d hd).resolve_right hacyc

/-- a module that is recorded as evaluated did run its body (all Evaluate sequences) -/
theorem evaluated_ran (g : Graph) (roots : List Nat) (x : Nat)
    (h : statusOf (roots.foldl (evaluate g) St.init) x = some .evaluated) :
    x ∈ (roots.foldl (evaluate g) St.init).trace := by
  have : ∀ (rs : List Nat) (s : St), Q g s → Q g (rs.foldl (evaluate g) s) := by
    intro rs
    induction rs with
    | nil => intro s h; exact h
    | cons r rs ih => intro s h; exact ih _ (evaluate_Q g s r h)
  exact (this roots St.init (Q_init g)).done x h

/-- THE WALK NEVER RUNS OUT OF FUEL: with the fuel `evaluate` passes, a walked module ends with a status
    (`okStatus`), i.e. the fuel-0 exit of `visit` is not reached on any graph -/
theorem fuel_suffices (g : Graph) (s : St) (root : Nat) (h : Q g s) :
    let s' := visit g (g.deps.length + 2) { s with error := none, stack := [], idx := 0, path := [] } root
    s'.error = none → okStatus s' root := by
  intro s' hn
  have hH0 : H g ({ s with error := none, stack := [], idx := 0, path := [] } : St) :=
    ⟨h.done, fun x hx => Or.inl (h.idle x hx), h.ord⟩
  have hK0 : K g ({ s with error := none, stack := [], idx := 0, path := [] } : St) :=
    ⟨fun x hx => Or.inl (h.idle x hx), trivial⟩
  have hb : unvisited g ({ s with error := none, stack := [], idx := 0, path := [] } : St) + 1 ≤ g.deps.length + 2 := by
    have := unvisited_le g ({ s with error := none, stack := [], idx := 0, path := [] } : St); omega
  exact ((visit_post g (g.deps.length + 2) _ root hb hH0 (fun _ => ⟨hK0, fun a t hpt => by cases hpt⟩)).k hn).2.2

-- non-vacuity: a diamond under a cycle (0 → 1 → 2 → 0, 1 → 3, 2 → 3, 3 → 4); the cycle request 2 → 0 is the only one
-- that is not "earlier", and 0 is indeed reachable from... 0 requests 1, so Reaches g 0 2 holds
example : (evaluate ⟨[[1], [2, 3], [0, 3], [4], []], [false, false, false, false, false]⟩ St.init 0).trace = [4, 3, 2, 1, 0] := by decide
example : Reaches ⟨[[1], [2, 3], [0, 3], [4], []], [false, false, false, false, false]⟩ 0 2 :=
  .step (c := 1) (by decide) (.step (c := 2) (by decide) (.refl 2))
-- acyclic request: 3 is requested by 2 and 2 is not reachable from 3 — 3 ran earlier
example : ¬ Reaches ⟨[[1], [2, 3], [0, 3], [4], []], [false, false, false, false, false]⟩ 4 3 := by
  intro h
  cases h with
  | step hd _ => simp [Graph.depsOf] at hd

end BoaVerif.C17
