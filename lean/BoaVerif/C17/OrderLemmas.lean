/- C17 — helper lemmas for the dependency-order theorems (Order.lean): statuses through the marking functions,
   "no call creates a failed status", the fuel measure. -/
import BoaVerif.C17.Theorems
namespace BoaVerif.C17

theorem statusOf_congr {s t : St} (h : t.status = s.status) (x : Nat) : statusOf t x = statusOf s x := by
  unfold statusOf; rw [h]

theorem markAll_cons (s : St) (a : Nat) (l : List Nat) (v : Status) :
    markAll s (a :: l) v = markAll (setStatus s a v) l v := rfl

theorem statusOf_markAll (l : List Nat) (v : Status) : ∀ (s : St) (x : Nat),
    statusOf (markAll s l v) x = if x ∈ l then some v else statusOf s x := by
  induction l with
  | nil => intro s x; simp [markAll]
  | cons a l ih =>
    intro s x
    rw [markAll_cons, ih, statusOf_setStatus]
    by_cases h1 : x ∈ l
    · simp [h1]
    · by_cases h2 : x = a
      · simp [h2]
      · simp [h1, h2]

theorem markAll_stack (l : List Nat) (v : Status) : ∀ s : St, (markAll s l v).stack = s.stack := by
  induction l with
  | nil => intro s; rfl
  | cons a l ih => intro s; rw [markAll_cons, ih]; rfl

theorem markAll_path (l : List Nat) (v : Status) : ∀ s : St, (markAll s l v).path = s.path := by
  induction l with
  | nil => intro s; rfl
  | cons a l ih => intro s; rw [markAll_cons, ih]; rfl

theorem markAll_error (l : List Nat) (v : Status) : ∀ s : St, (markAll s l v).error = s.error := by
  induction l with
  | nil => intro s; rfl
  | cons a l ih => intro s; rw [markAll_cons, ih]; rfl

theorem statusOf_popThrough (s : St) (m x : Nat) :
    statusOf (popThrough s m) x =
      if x ∈ s.stack.takeWhile (· != m) ++ [m] then some .evaluated else statusOf s x := by
  have : statusOf (popThrough s m) x = statusOf (markAll s (s.stack.takeWhile (· != m) ++ [m]) .evaluated) x :=
    statusOf_congr rfl x
  rw [this, statusOf_markAll]

@[simp] theorem popThrough_trace (s : St) (m : Nat) : (popThrough s m).trace = s.trace := by
  unfold popThrough; simp [markAll_trace]
@[simp] theorem popThrough_path (s : St) (m : Nat) : (popThrough s m).path = s.path := by
  unfold popThrough; simp [markAll_path]
@[simp] theorem popThrough_error (s : St) (m : Nat) : (popThrough s m).error = s.error := by
  unfold popThrough; simp [markAll_error]
theorem popThrough_stack (s : St) (m : Nat) : (popThrough s m).stack = (s.stack.dropWhile (· != m)).drop 1 := by
  unfold popThrough; rfl

theorem statusOf_enter' (s : St) (m x : Nat) :
    statusOf (enter s m) x = if x = m then some .evaluating else statusOf s x := by
  have : statusOf (enter s m) x = statusOf (setStatus s m .evaluating) x := statusOf_congr rfl x
  rw [this, statusOf_setStatus]

@[simp] theorem enter_trace (s : St) (m : Nat) : (enter s m).trace = s.trace := rfl
@[simp] theorem enter_error (s : St) (m : Nat) : (enter s m).error = s.error := rfl
@[simp] theorem enter_stack (s : St) (m : Nat) : (enter s m).stack = m :: s.stack := rfl
@[simp] theorem enter_path (s : St) (m : Nat) : (enter s m).path = m :: s.path := rfl

theorem statusOf_noteCycle (a : St) (m d x : Nat) : statusOf (noteCycle a m d) x = statusOf a x := by
  unfold noteCycle; split
  · exact statusOf_congr rfl x
  · rfl
@[simp] theorem noteCycle_trace (a : St) (m d : Nat) : (noteCycle a m d).trace = a.trace := by
  unfold noteCycle; split <;> rfl
@[simp] theorem noteCycle_stack (a : St) (m d : Nat) : (noteCycle a m d).stack = a.stack := by
  unfold noteCycle; split <;> rfl
@[simp] theorem noteCycle_path (a : St) (m d : Nat) : (noteCycle a m d).path = a.path := by
  unfold noteCycle; split <;> rfl

/-- no call of `visit` creates a `failed` status: those are written by `evaluate` only -/
theorem visit_nf (g : Graph) : ∀ (fuel : Nat) (s : St) (m y e : Nat),
    statusOf (visit g fuel s m) y = some (.failed e) → statusOf s y = some (.failed e) := by
  intro fuel
  induction fuel with
  | zero => intro s m y e h; exact h
  | succ fuel ih =>
    intro s m y e
    unfold visit
    by_cases he : s.error.isSome = true
    · simp only [he, ↓reduceIte]; exact id
    · simp only [he]
      cases hst : statusOf s m with
      | some st =>
        cases st with
        | failed e' => intro h; exact h
        | evaluating => exact id
        | evaluated => exact id
      | none =>
        simp only [Bool.false_eq_true, ↓reduceIte]
        have fold : ∀ (ds : List Nat) (a : St),
            statusOf (ds.foldl (fun acc d => noteCycle (visit g fuel acc d) m d) a) y = some (.failed e) →
            statusOf a y = some (.failed e) := by
          intro ds
          induction ds with
          | nil => intro a h; exact h
          | cons d r ihr =>
            intro a h
            simp only [List.foldl_cons] at h
            have := ihr _ h
            rw [statusOf_noteCycle] at this
            exact ih a d y e this
        have henter : statusOf (enter s m) y = some (.failed e) → statusOf s y = some (.failed e) := by
          rw [statusOf_enter']
          by_cases hy : y = m
          · simp [hy]
          · simp [hy]
        generalize hs2 : (g.depsOf m).foldl (fun acc d => noteCycle (visit g fuel acc d) m d) (enter s m) = s2
        have h2 : statusOf s2 y = some (.failed e) → statusOf s y = some (.failed e) :=
          fun h => henter (fold _ _ (hs2 ▸ h))
        cases hse : s2.error with
        | some e' => exact h2
        | none =>
          simp only
          have h3 : ∀ t : St, t.status = s2.status → statusOf t y = some (.failed e) → statusOf s y = some (.failed e) :=
            fun t ht h => h2 ((statusOf_congr ht y) ▸ h)
          split
          · exact h3 _ rfl
          · split
            · intro h
              rw [statusOf_popThrough] at h
              split at h
              · cases h
              · exact h3 _ rfl h
            · exact h3 _ rfl

/-- the modules of the graph that have no status yet: what bounds the depth of the walk -/
def unvisited (g : Graph) (s : St) : Nat :=
  (List.range g.deps.length).countP (fun x => (statusOf s x).isNone)

theorem countP_lt {α} (p q : α → Bool) : ∀ (l : List α) (x0 : α), (∀ x ∈ l, p x = true → q x = true) → x0 ∈ l →
    q x0 = true → p x0 = false → l.countP p < l.countP q := by
  intro l
  induction l with
  | nil => intro x0 _ h; cases h
  | cons a l ih =>
    intro x0 himp hx hq hp
    have hmono : l.countP p ≤ l.countP q :=
      List.countP_mono_left (fun x hx' => himp x (List.mem_cons_of_mem a hx'))
    rcases List.mem_cons.mp hx with rfl | hx'
    · rw [List.countP_cons_of_neg (by simp [hp]), List.countP_cons_of_pos hq]
      omega
    · have := ih x0 (fun x hx'' => himp x (List.mem_cons_of_mem a hx'')) hx' hq hp
      by_cases hpa : p a = true
      · rw [List.countP_cons_of_pos hpa, List.countP_cons_of_pos (himp a (List.mem_cons_self) hpa)]; omega
      · rw [List.countP_cons_of_neg hpa]
        by_cases hqa : q a = true
        · rw [List.countP_cons_of_pos hqa]; omega
        · rw [List.countP_cons_of_neg hqa]; exact this

theorem unvisited_mono (g : Graph) {s t : St} (h : Grows s t) : unvisited g t ≤ unvisited g s := by
  unfold unvisited
  apply List.countP_mono_left
  intro x _ hx
  cases hs : statusOf s x with
  | none => rfl
  | some v =>
    have := h.status x (by rw [hs]; rfl)
    cases ht : statusOf t x with
    | none => rw [ht] at this; cases this
    | some w => rw [ht] at hx; cases hx

theorem unvisited_enter (g : Graph) (s : St) (m : Nat) (hm : m < g.deps.length) (hst : statusOf s m = none) :
    unvisited g (enter s m) < unvisited g s := by
  unfold unvisited
  apply countP_lt _ _ _ m
  · intro x _ hx
    rw [statusOf_enter'] at hx
    by_cases h : x = m
    · simp [h] at hx
    · simpa [h] using hx
  · exact List.mem_range.mpr hm
  · simp [hst]
  · simp [statusOf_enter']

theorem unvisited_le (g : Graph) (s : St) : unvisited g s ≤ g.deps.length := by
  unfold unvisited
  have := List.countP_le_length (p := fun x => (statusOf s x).isNone) (l := List.range g.deps.length)
  simpa using this

theorem depsOf_nil_of_ge (g : Graph) (m : Nat) (h : g.deps.length ≤ m) : g.depsOf m = [] := by
  unfold Graph.depsOf
  simp [List.getD, List.getElem?_eq_none h]

end BoaVerif.C17
