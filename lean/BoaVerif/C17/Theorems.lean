/- C17 — module graphs evaluate each module once, in dependency order. Property theorems (with their proofs). -/
import BoaVerif.C17.Model
namespace BoaVerif.C17

theorem statusOf_setStatus (s : St) (m x : Nat) (v : Status) :
    statusOf (setStatus s m v) x = if x = m then some v else statusOf s x := by
  unfold statusOf setStatus
  by_cases h : x = m
  · subst h; simp
  · have hne : (m == x) = false := by simp; exact fun e => h e.symm
    simp only [h, ↓reduceIte, List.find?_cons, hne]
    congr 1
    induction s.status with
    | nil => rfl
    | cons p ps ih =>
      by_cases hp : p.1 = m
      · have h1 : (p.1 != m) = false := by simp [hp]
        have h2 : (p.1 == x) = false := by simp [hp]; exact fun e => h e.symm
        simp [List.filter_cons, h1, List.find?_cons, h2, ih]
      · have h1 : (p.1 != m) = true := by simp [hp]
        by_cases hx : p.1 = x
        · have h2 : (p.1 == x) = true := by simp [hx]
          simp [List.filter_cons, h1, List.find?_cons, h2]
        · have h2 : (p.1 == x) = false := by simp [hx]
          simp [List.filter_cons, h1, List.find?_cons, h2, ih]

@[simp] theorem setStatus_trace (s : St) (m : Nat) (v : Status) : (setStatus s m v).trace = s.trace := rfl
@[simp] theorem setStatus_error (s : St) (m : Nat) (v : Status) : (setStatus s m v).error = s.error := rfl

/-- what every call of `visit` guarantees, whatever the graph:
    (a) a module that had a status keeps one; (b) bodies already run stay in the trace, in place;
    (c) a body that is run by this call belongs to a module that had no status when the call started -/
structure Grows (s t : St) : Prop where
  status : ∀ x, (statusOf s x).isSome → (statusOf t x).isSome
  fresh : ∀ x ∈ t.trace, x ∈ s.trace ∨ statusOf s x = none

theorem Grows.refl (s : St) : Grows s s := ⟨fun _ h => h, fun _ h => Or.inl h⟩

theorem Grows.trans {a b c : St} (h1 : Grows a b) (h2 : Grows b c) : Grows a c := by
  refine ⟨fun x h => h2.status x (h1.status x h), ?_⟩
  intro x hx
  rcases h2.fresh x hx with h | h
  · exact h1.fresh x h
  · right
    cases ha : statusOf a x with
    | none => rfl
    | some v =>
      have := h1.status x (by rw [ha]; rfl)
      rw [h] at this
      exact absurd this (by simp)

theorem Grows.congr {s t t' : St} (h : Grows s t) (h1 : t'.status = t.status) (h2 : t'.trace = t.trace) : Grows s t' := by
  refine ⟨fun x hx => ?_, fun x hx => ?_⟩
  · have := h.status x hx
    unfold statusOf at this ⊢; rw [h1]; exact this
  · rw [h2] at hx; exact h.fresh x hx

theorem foldl_grows (f : St → Nat → St) (hf : ∀ s d, Grows s (f s d)) : ∀ (ds : List Nat) (s : St), Grows s (ds.foldl f s) := by
  intro ds
  induction ds with
  | nil => intro s; exact Grows.refl s
  | cons d ds ih => intro s; exact (hf s d).trans (ih (f s d))

theorem grows_setStatus (s : St) (m : Nat) (v : Status) : Grows s (setStatus s m v) := by
  refine ⟨?_, fun x hx => Or.inl hx⟩
  intro x h
  rw [statusOf_setStatus]
  by_cases hx : x = m
  · simp [hx]
  · simp [hx]; exact h

theorem grows_markAll (ms : List Nat) (v : Status) : ∀ (s : St), Grows s (markAll s ms v) := by
  unfold markAll
  induction ms with
  | nil => intro s; exact Grows.refl s
  | cons m ms ih => intro s; exact (grows_setStatus s m v).trans (ih _)

theorem grows_popThrough (s : St) (m : Nat) : Grows s (popThrough s m) :=
  (grows_markAll _ .evaluated s).congr rfl rfl

theorem grows_enter (s : St) (m : Nat) : Grows s (enter s m) := (grows_setStatus s m .evaluating).congr rfl rfl

theorem grows_noteCycle (a : St) (m d : Nat) : Grows a (noteCycle a m d) := by
  unfold noteCycle
  split
  · exact (Grows.refl a).congr rfl rfl
  · exact Grows.refl a

theorem visit_grows (g : Graph) : ∀ (fuel : Nat) (s : St) (m : Nat), Grows s (visit g fuel s m) := by
  intro fuel
  induction fuel with
  | zero => intro s m; exact Grows.refl s
  | succ fuel ih =>
    intro s m
    unfold visit
    by_cases he : s.error.isSome = true
    · simp only [he, ↓reduceIte]; exact Grows.refl s
    · simp only [he]
      cases hst : statusOf s m with
      | some st =>
        cases st with
        | failed e => exact (Grows.refl s).congr rfl rfl
        | evaluating => exact Grows.refl s
        | evaluated => exact Grows.refl s
      | none =>
        simp only [Bool.false_eq_true, ↓reduceIte]
        have g1 := grows_enter s m
        have g2 := foldl_grows (fun acc d => noteCycle (visit g fuel acc d) m d)
          (fun s d => (ih s d).trans (grows_noteCycle _ m d)) (g.depsOf m) (enter s m)
        generalize (g.depsOf m).foldl (fun acc d => noteCycle (visit g fuel acc d) m d) (enter s m) = s2 at g2
        have g12 := g1.trans g2
        cases hs2 : s2.error with
        | some e => exact g12
        | none =>
          simp only
          -- the body of m runs now: m had no status at entry
          have step : Grows s ({ status := s2.status, trace := s2.trace ++ [m], error := none, info := s2.info, stack := s2.stack, idx := s2.idx, path := s2.path.drop 1 } : St) := by
            refine ⟨fun x h => g12.status x h, ?_⟩
            intro x hx
            simp only [List.mem_append, List.mem_singleton] at hx
            rcases hx with h | h
            · exact g12.fresh x h
            · right; rw [h]; exact hst
          split
          · exact step.congr rfl rfl
          · split
            · exact step.trans (grows_popThrough _ m)
            · exact step

/-- the invariant: no body has run twice, and every module whose body ran has a status -/
def Once (s : St) : Prop := s.trace.Nodup ∧ ∀ x ∈ s.trace, (statusOf s x).isSome

theorem once_setStatus {s : St} (h : Once s) (m : Nat) (v : Status) : Once (setStatus s m v) :=
  ⟨h.1, fun x hx => (grows_setStatus s m v).status x (h.2 x hx)⟩

theorem Once.congr {t t' : St} (h : Once t) (h1 : t'.status = t.status) (h2 : t'.trace = t.trace) : Once t' := by
  refine ⟨by rw [h2]; exact h.1, fun x hx => ?_⟩
  rw [h2] at hx
  have := h.2 x hx
  unfold statusOf at this ⊢; rw [h1]; exact this

theorem foldl_once (f : St → Nat → St) (hf : ∀ s d, Once s → Once (f s d)) : ∀ (ds : List Nat) (s : St), Once s → Once (ds.foldl f s) := by
  intro ds
  induction ds with
  | nil => intro s h; exact h
  | cons d ds ih => intro s h; exact ih (f s d) (hf s d h)

theorem once_markAll (ms : List Nat) (v : Status) : ∀ (s : St), Once s → Once (markAll s ms v) := by
  unfold markAll
  induction ms with
  | nil => intro s h; exact h
  | cons m ms ih => intro s h; exact ih _ (once_setStatus h m v)

theorem markAll_trace (ms : List Nat) (v : Status) : ∀ (s : St), (markAll s ms v).trace = s.trace := by
  unfold markAll
  induction ms with
  | nil => intro s; rfl
  | cons a as ih => intro s; simp only [List.foldl_cons]; rw [ih]; rfl

theorem once_popThrough {s : St} (h : Once s) (m : Nat) : Once (popThrough s m) :=
  (once_markAll _ .evaluated s h).congr rfl rfl

theorem once_enter {s : St} (h : Once s) (m : Nat) : Once (enter s m) := (once_setStatus h m .evaluating).congr rfl rfl

theorem once_noteCycle {a : St} (h : Once a) (m d : Nat) : Once (noteCycle a m d) := by
  unfold noteCycle
  split
  · exact h.congr rfl rfl
  · exact h

theorem statusOf_enter (s : St) (m : Nat) : statusOf (enter s m) m = some .evaluating := by
  show statusOf (setStatus s m .evaluating) m = some .evaluating
  rw [statusOf_setStatus]; simp

theorem visit_once (g : Graph) : ∀ (fuel : Nat) (s : St) (m : Nat), Once s → Once (visit g fuel s m) := by
  intro fuel
  induction fuel with
  | zero => intro s m h; exact h
  | succ fuel ih =>
    intro s m h
    unfold visit
    by_cases he : s.error.isSome = true
    · simp only [he, ↓reduceIte]; exact h
    · simp only [he]
      cases hst : statusOf s m with
      | some st =>
        cases st with
        | failed e => exact h.congr rfl rfl
        | evaluating => exact h
        | evaluated => exact h
      | none =>
        simp only [Bool.false_eq_true, ↓reduceIte]
        have o1 := once_enter h m
        have o2 := foldl_once (fun acc d => noteCycle (visit g fuel acc d) m d)
          (fun s d hs => once_noteCycle (ih s d hs) m d) (g.depsOf m) _ o1
        have g2 := foldl_grows (fun acc d => noteCycle (visit g fuel acc d) m d)
          (fun s d => (visit_grows g fuel s d).trans (grows_noteCycle _ m d)) (g.depsOf m) (enter s m)
        generalize (g.depsOf m).foldl (fun acc d => noteCycle (visit g fuel acc d) m d) (enter s m) = s2 at o2 g2
        cases hs2 : s2.error with
        | some e => exact o2
        | none =>
          simp only
          -- m is not in the trace yet: it had no status at entry, got one before the walk, so the walk never ran it
          have hm : m ∉ s2.trace := by
            intro hin
            rcases g2.fresh m hin with h1 | h1
            · have h1' : m ∈ s.trace := h1
              have := h.2 m h1'
              rw [hst] at this; exact absurd this (by simp)
            · rw [statusOf_enter] at h1; simp at h1
          have o3 : Once ({ status := s2.status, trace := s2.trace ++ [m], error := none, info := s2.info, stack := s2.stack, idx := s2.idx, path := s2.path.drop 1 } : St) := by
            refine ⟨?_, ?_⟩
            · exact List.nodup_append.mpr ⟨o2.1, by simp, by intro a ha b hb; simp at hb; subst hb; exact fun e => hm (e ▸ ha)⟩
            · intro x hx
              simp only [List.mem_append, List.mem_singleton] at hx
              rcases hx with hx | hx
              · exact o2.2 x hx
              · rw [hx]
                exact g2.status m (by rw [statusOf_enter]; rfl)
          split
          · exact o3.congr rfl rfl
          · split
            · exact once_popThrough o3 m
            · exact o3

theorem once_init : Once St.init := ⟨List.nodup_nil, fun _ h => by simp [St.init] at h⟩

theorem evaluate_once (g : Graph) (s : St) (r : Nat) (h : Once s) : Once (evaluate g s r) := by
  unfold evaluate
  have hv := visit_once g (g.deps.length + 2) { s with error := none, stack := [], idx := 0, path := [] } r (h.congr rfl rfl)
  generalize visit g (g.deps.length + 2) { s with error := none, stack := [], idx := 0, path := [] } r = s' at hv
  simp only
  split
  · exact (once_markAll _ _ s' hv).congr rfl rfl
  · exact hv

/-- EACH MODULE BODY RUNS AT MOST ONCE, over any sequence of Evaluate calls on any graph (cycles included) -/
theorem bodies_run_once (g : Graph) (roots : List Nat) : (roots.foldl (evaluate g) St.init).trace.Nodup := by
  have : ∀ (rs : List Nat) (s : St), Once s → Once (rs.foldl (evaluate g) s) := by
    intro rs
    induction rs with
    | nil => intro s h; exact h
    | cons r rs ih =>
      intro s h
      exact ih _ (evaluate_once g s r h)
  exact (this roots St.init once_init).1

/-- EVALUATING AGAIN RUNS NOTHING: a module that already has a status is not walked again — no body runs, no status
    changes; a failed module gives back the error it recorded -/
theorem reevaluate_runs_nothing (g : Graph) (s : St) (root : Nat) (st : Status) (h : statusOf s root = some st) :
    (evaluate g s root).trace = s.trace ∧ (evaluate g s root).status = s.status ∧
    (evaluate g s root).error = (match st with | .failed e => some e | _ => none) := by
  unfold evaluate visit
  have hs : statusOf { s with error := none, stack := [], idx := 0, path := [] } root = some st := h
  simp only [Option.isSome_none, Bool.false_eq_true, ↓reduceIte, hs]
  cases st <;> simp [markAll]

/-- a module that was walked has a status afterwards, so the previous theorem applies to every later Evaluate of it -/
theorem walked_has_status (g : Graph) (fuel : Nat) (s : St) (m : Nat) :
    (statusOf (visit g (fuel + 1) s m) m).isSome ∨ s.error.isSome := by
  by_cases he : s.error.isSome = true
  · exact Or.inr he
  · left
    cases hst : statusOf s m with
    | some st =>
      exact (visit_grows g (fuel + 1) s m).status m (by rw [hst]; rfl)
    | none =>
      -- after the first step m has a status, and the rest of the call only grows statuses
      unfold visit
      simp only [he, hst, Bool.false_eq_true, ↓reduceIte]
      have g2 := foldl_grows (fun acc d => noteCycle (visit g fuel acc d) m d)
        (fun s d => (visit_grows g fuel s d).trans (grows_noteCycle _ m d)) (g.depsOf m) (enter s m)
      generalize (g.depsOf m).foldl (fun acc d => noteCycle (visit g fuel acc d) m d) (enter s m) = s2 at g2
      have h2 := g2.status m (by rw [statusOf_enter]; rfl)
      cases hs2 : s2.error with
      | some e => exact h2
      | none =>
        simp only
        split
        · exact h2
        · split
          · exact (grows_popThrough ({ status := s2.status, trace := s2.trace ++ [m], error := none, info := s2.info, stack := s2.stack, idx := s2.idx, path := s2.path.drop 1 } : St) m).status m h2
          · exact h2

theorem noteCycle_error (a : St) (m d : Nat) : (noteCycle a m d).error = a.error := by
  unfold noteCycle; split <;> simp [setAncestor]

theorem visit_keeps_error (g : Graph) (fuel : Nat) (s : St) (m : Nat) (h : s.error.isSome) : visit g fuel s m = s := by
  cases fuel with
  | zero => rfl
  | succ f => unfold visit; simp [h]

/-- walking the requested modules in order: if no error came out at the end, none was pending in between, and every
    requested module has a status at the end -/
theorem deps_fold (g : Graph) (fuel m : Nat) : ∀ (ds : List Nat) (s : St),
    ((ds.foldl (fun acc d => noteCycle (visit g (fuel + 1) acc d) m d) s).error = none) →
    s.error = none ∧ ∀ d ∈ ds, (statusOf (ds.foldl (fun acc d => noteCycle (visit g (fuel + 1) acc d) m d) s) d).isSome := by
  intro ds
  induction ds with
  | nil => intro s h; exact ⟨h, fun d hd => by cases hd⟩
  | cons d r ih =>
    intro s h
    simp only [List.foldl_cons] at h ⊢
    obtain ⟨h1, h2⟩ := ih _ h
    rw [noteCycle_error] at h1
    -- the state before `d` had no error either: otherwise visit returns it unchanged
    have hs : s.error = none := by
      cases he : s.error with
      | none => rfl
      | some e =>
        have := visit_keeps_error g (fuel + 1) s d (by rw [he]; rfl)
        rw [this, he] at h1; cases h1
    refine ⟨hs, ?_⟩
    intro x hx
    rcases List.mem_cons.mp hx with rfl | hx
    · -- `x` itself was walked: it has a status right after, and statuses only grow
      have hw := walked_has_status g fuel s x
      rcases hw with hw | hw
      · have g1 := (grows_noteCycle (visit g (fuel + 1) s x) m x).status x hw
        have g2 := foldl_grows (fun acc d => noteCycle (visit g (fuel + 1) acc d) m d)
          (fun s d => (visit_grows g (fuel + 1) s d).trans (grows_noteCycle _ m d)) r (noteCycle (visit g (fuel + 1) s x) m x)
        exact g2.status x g1
      · rw [hs] at hw; cases hw
    · exact h2 x hx

/-- DEPENDENCIES FIRST: when the body of a module runs, every module it requests has already been walked — it is
    evaluated (its body ran before), or it is still `evaluating`, which only an ancestor on the stack can be (a cycle) -/
theorem deps_walked_before_body (g : Graph) (fuel : Nat) (s : St) (m : Nat) :
    let s2 := (g.depsOf m).foldl (fun acc d => noteCycle (visit g (fuel + 1) acc d) m d) (enter s m)
    s2.error = none → ∀ d ∈ g.depsOf m, (statusOf s2 d).isSome :=
  fun h => (deps_fold g fuel m (g.depsOf m) (enter s m) h).2


-- examples: a diamond with a shared dependency, a cycle, and an error in the middle
example : (evaluate ⟨[[1, 2], [3], [3], []], [false, false, false, false]⟩ St.init 0).trace = [3, 1, 2, 0] := by decide
example : (evaluate ⟨[[1], [2], [0]], [false, false, false]⟩ St.init 0).trace = [2, 1, 0] := by decide
-- a cycle whose root throws: every member records the error, also those whose body ran
example : statusOf (evaluate ⟨[[1], [2], [0]], [true, false, false]⟩ St.init 0) 2 = some (.failed 0) := by decide
example : (evaluate ⟨[[1, 2], [3], [], []], [false, true, false, false]⟩ St.init 0).trace = [3, 1] ∧
    outcome (evaluate ⟨[[1, 2], [3], [], []], [false, true, false, false]⟩ St.init 0) = some 1 := by decide

end BoaVerif.C17
