/-
  Line protocol shared by every per-property driver.
  One request per line on stdin, one answer line on stdout.
  Import-free (core only) so that drivers link as native executables.
-/
namespace BoaVerif.Proto

/-- split a request line into blank-separated tokens -/
def tokens (line : String) : List String :=
  (line.trimAscii.toString.splitOn " ").filter (fun s => !s.isEmpty)

partial def loop (h : IO.FS.Stream) (out : IO.FS.Stream) (step : σ → List String → σ × String) (s : σ) : IO Unit := do
  let line ← h.getLine
  if line.isEmpty then
    out.flush
    return ()
  let (s', o) := step s (tokens line)
  out.putStrLn o
  loop h out step s'

/-- run a stateful line server -/
def serve (step : σ → List String → σ × String) (init : σ) : IO Unit := do
  loop (← IO.getStdin) (← IO.getStdout) step init

def joinSp (xs : List String) : String := " ".intercalate xs

def natList? (xs : List String) : Option (List Nat) :=
  xs.mapM (fun s => s.toNat?)

def hexDigit? (c : Char) : Option Nat :=
  if '0' ≤ c ∧ c ≤ '9' then some (c.toNat - '0'.toNat)
  else if 'a' ≤ c ∧ c ≤ 'f' then some (c.toNat - 'a'.toNat + 10)
  else if 'A' ≤ c ∧ c ≤ 'F' then some (c.toNat - 'A'.toNat + 10)
  else none

def hexNat? (s : String) : Option Nat :=
  if s.isEmpty then none else
  s.toList.foldl (fun acc c => match acc, hexDigit? c with
    | some a, some d => some (a * 16 + d)
    | _, _ => none) (some 0)

def hexOfNat (n : Nat) : String := String.ofList (Nat.toDigits 16 n)

end BoaVerif.Proto
