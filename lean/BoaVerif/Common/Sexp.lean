/- A minimal S-expression reader/printer (atoms are runs of non-blank, non-parenthesis characters). Import-free. -/
namespace BoaVerif

inductive Sexp
  | atom (s : String)
  | list (xs : List Sexp)
  deriving Repr, Inhabited

namespace Sexp

partial def parseList (cs : List Char) (acc : List Sexp) : Option (List Sexp × List Char) :=
  match cs with
  | [] => none
  | ')' :: rest => some (acc.reverse, rest)
  | ' ' :: rest => parseList rest acc
  | '\n' :: rest => parseList rest acc
  | '(' :: rest =>
    match parseList rest [] with
    | some (xs, rest') => parseList rest' (.list xs :: acc)
    | none => none
  | _ =>
    let tok := cs.takeWhile (fun c => c != ' ' && c != '(' && c != ')' && c != '\n')
    parseList (cs.drop tok.length) (.atom (String.ofList tok) :: acc)

def parse (s : String) : Option Sexp :=
  match parseList (s.toList ++ [')']) [] with
  | some ([x], []) => some x
  | _ => none

partial def toStr : Sexp → String
  | .atom s => s
  | .list xs => "(" ++ " ".intercalate (xs.map toStr) ++ ")"

end Sexp
end BoaVerif
