/-
  C15 model, part 1: element conversions as written in
  core/engine/src/builtins/number/conversions.rs (`f64_to_int32`, the portable version) and
  core/engine/src/value/mod.rs (`to_int8` … `to_uint16`, `to_uint8_clamp`, after the fix).
  A double is its 64-bit pattern (a `Nat` below 2^64).  Import-free.
-/
namespace BoaVerif.C15

def signBit (b : Nat) : Bool := b / 2^63 % 2 == 1
def biasedExp (b : Nat) : Nat := b / 2^52 % 2^11
def fraction (b : Nat) : Nat := b % 2^52

def isDenormal (b : Nat) : Bool := biasedExp b == 0
def isFinite (b : Nat) : Bool := biasedExp b != 2047
def isNaN (b : Nat) : Bool := biasedExp b == 2047 && fraction b != 0
def isZero (b : Nat) : Bool := biasedExp b == 0 && fraction b == 0

/-- `exponent(number)`: unbiased exponent of the integer significand -/
def exponent (b : Nat) : Int := if isDenormal b then -1074 else (biasedExp b : Int) - 1075
/-- `significand(number)` (with the hidden bit for normal numbers) -/
def significand (b : Nat) : Nat := if isDenormal b then fraction b else fraction b + 2^52
/-- `sign(number)` -/
def sign (b : Nat) : Int := if signBit b then -1 else 1

/-- `x as i32` for an `i64`/wide integer: two's complement wrap to 32 bits -/
def wrapS (bits : Nat) (z : Int) : Int :=
  let m := z % (2 ^ bits : Int)
  if m ≥ (2 ^ (bits - 1) : Int) then m - (2 ^ bits : Int) else m
def wrapU (bits : Nat) (z : Int) : Int := z % (2 ^ bits : Int)

/-- magnitude of the value truncated toward zero: floor(|x|) for finite x -/
def truncMag (b : Nat) : Nat :=
  let e := exponent b
  if e ≥ 0 then significand b * 2 ^ e.toNat else significand b / 2 ^ (-e).toNat

/-- is the (finite) value an integer -/
def isIntegral (b : Nat) : Bool :=
  let e := exponent b
  e ≥ 0 || significand b % 2 ^ (-e).toNat == 0

/-- the ECMAScript `ToInt32` of the double with bit pattern `b` -/
def toInt32Spec (b : Nat) : Int := if isFinite b then wrapS 32 (sign b * (truncMag b : Int)) else 0

/-- `f64_to_int32` as written (fast path for in-range integral values, then the bit manipulation) -/
def f64ToInt32 (b : Nat) : Int :=
  let v : Int := sign b * (truncMag b : Int)
  if isFinite b && decide (v ≤ 2147483647) && decide (v ≥ -2147483648) && isIntegral b then v
  else
    let e := exponent b
    if e < 0 then
      if e ≤ -53 then 0
      else wrapS 32 (sign b * ((significand b / 2 ^ (-e).toNat : Nat) : Int))
    else
      if e > 31 then 0
      else wrapS 32 (sign b * (((significand b * 2 ^ e.toNat) % 2^64 % 2^32 : Nat) : Int))

def f64ToUint32 (b : Nat) : Int := wrapU 32 (f64ToInt32 b)

/-- `JsValue::to_int8` … `to_uint16` on a number -/
def toIntN (bits : Nat) (signed : Bool) (b : Nat) : Int :=
  if isNaN b || isZero b || !isFinite b then 0
  else if signed then wrapS bits (f64ToInt32 b) else wrapU bits (f64ToInt32 b)

/-- `JsValue::to_uint8_clamp` -/
def toUint8Clamp (b : Nat) : Int :=
  if isNaN b then 0
  else if signBit b || isZero b then 0            -- number <= 0.0
  else if !isFinite b then 255
  else
    let f := truncMag b
    if f ≥ 255 then 255
    else
      let e := exponent b
      if e ≥ 0 then f
      else
        let k := (-e).toNat
        let r := significand b % 2 ^ k          -- fractional part, in units of 2^-k
        let twice := 2 * r
        if twice > 2 ^ k then f + 1              -- f + 0.5 < number
        else if twice < 2 ^ k then f             -- number < f + 0.5
        else if f % 2 == 1 then f + 1 else f     -- tie: to even

/-- the mathematical conversion the specification demands for the integer element types -/
def convSpec (bits : Nat) (signed : Bool) (b : Nat) : Int :=
  if isFinite b then (if signed then wrapS bits (sign b * (truncMag b : Int)) else wrapU bits (sign b * (truncMag b : Int)))
  else 0

/-- ToBigInt64 / ToBigUint64 on an integer -/
def bigToInt64 (n : Int) : Int := wrapS 64 n
def bigToUint64 (n : Int) : Int := wrapU 64 n

/-- NaN canonicalisation when a double travels through a JsValue -/
def canonF64 (b : Nat) : Nat := if isNaN b then 0x7FF8000000000000 else b

end BoaVerif.C15
