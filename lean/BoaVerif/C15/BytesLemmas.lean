import BoaVerif.C15.Bytes
import BoaVerif.C15.ConvLemmas
namespace BoaVerif.C15

theorem kind_size_pos (k : Kind) : 0 < k.size := by cases k <;> decide

theorem inbounds (b : Buf) (v : View) (i : Nat) (hoob : viewOOB b v = false) (hi : i < viewLength b v) :
    v.byteOffset + (i + 1) * v.kind.size ≤ b.bytes.length := by
  unfold viewLength at hi
  rw [hoob] at hi
  simp only [Bool.false_eq_true, ↓reduceIte] at hi
  unfold viewOOB isOutOfBounds at hoob
  simp only [Bool.or_eq_false_iff, decide_eq_false_iff_not, Nat.not_lt] at hoob
  obtain ⟨_, hoff, hend⟩ := hoob
  unfold arrayLength at hi
  have hs := kind_size_pos v.kind
  cases hv : v.arrayLength with
  | some n =>
    rw [hv] at hi hend
    simp only at hi hend
    have : (i + 1) * v.kind.size ≤ n * v.kind.size := Nat.mul_le_mul_right _ hi
    omega
  | none =>
    rw [hv] at hi
    simp only at hi
    have h1 : (i + 1) ≤ (b.bytes.length - v.byteOffset) / v.kind.size := hi
    have h2 : (i + 1) * v.kind.size ≤ b.bytes.length - v.byteOffset := by
      have := Nat.mul_le_mul_right v.kind.size h1
      have := Nat.div_mul_le_self (b.bytes.length - v.byteOffset) v.kind.size
      omega
    omega

theorem encodeLE_length (size n : Nat) : (encodeLE size n).length = size := by
  induction size generalizing n with
  | zero => rfl
  | succ s ih => simp [encodeLE, ih]

theorem encodeLE_bytes (size n : Nat) : ∀ x ∈ encodeLE size n, x < 256 := by
  induction size generalizing n with
  | zero => intro x hx; cases hx
  | succ s ih =>
    intro x hx
    simp only [encodeLE, List.mem_cons] at hx
    rcases hx with rfl | hx
    · omega
    · exact ih _ x hx

theorem decode_encodeLE (size n : Nat) : decodeLE (encodeLE size n) = n % 256 ^ size := by
  induction size generalizing n with
  | zero => simp [encodeLE, decodeLE, Nat.mod_one]
  | succ s ih =>
    simp only [encodeLE, decodeLE, ih]
    rw [Nat.pow_succ, Nat.mul_comm (256 ^ s) 256, Nat.mod_mul]

theorem decode_encode (size : Nat) (le : Bool) (n : Nat) : decode le (encode size le n) = n % 256 ^ size := by
  unfold decode encode
  cases le <;> simp [decode_encodeLE]

theorem writeAt_length (mem : List Nat) (pos : Nat) (bs : List Nat) (h : pos + bs.length ≤ mem.length) :
    (writeAt mem pos bs).length = mem.length := by
  unfold writeAt; simp; omega

theorem readAt_writeAt (mem : List Nat) (pos : Nat) (bs : List Nat) (h : pos + bs.length ≤ mem.length) :
    readAt (writeAt mem pos bs) pos bs.length = bs := by
  unfold readAt writeAt
  have h1 : (mem.take pos).length = pos := by simp; omega
  rw [List.append_assoc, List.drop_append_of_le_length (by omega)]
  simp [h1]

/-- a store touches only the bytes of its own frame -/
theorem writeAt_frame (mem : List Nat) (pos : Nat) (bs : List Nat) (h : pos + bs.length ≤ mem.length) (j : Nat)
    (hj : j < pos ∨ pos + bs.length ≤ j) : (writeAt mem pos bs)[j]? = mem[j]? := by
  unfold writeAt
  have h1 : (mem.take pos).length = pos := by simp; omega
  rcases hj with hj | hj
  · rw [List.append_assoc, List.getElem?_append_left (by omega)]
    simp [List.getElem?_take, hj]
  · rw [List.getElem?_append_right (by simp; omega)]
    simp only [List.length_append, h1, List.getElem?_drop]
    congr 1; omega

theorem wrapU_lt (bits : Nat) (z : Int) : 0 ≤ wrapU bits z ∧ wrapU bits z < (2^bits : Int) := by
  unfold wrapU
  have hp : (0:Int) < 2^bits := Int.pow_pos (by decide)
  exact ⟨Int.emod_nonneg _ (by omega), Int.emod_lt_of_pos _ hp⟩

end BoaVerif.C15
