/- C15 — typed arrays, buffers and DataViews match a byte model and stay in bounds. Property theorems only. -/
import BoaVerif.C15.BytesLemmas
namespace BoaVerif.C15

/-- the bit manipulation of `f64_to_int32` computes the specification's ToInt32 for EVERY double bit pattern -/
theorem f64ToInt32_spec (b : Nat) : f64ToInt32 b = toInt32Spec b := f64ToInt32_eq_spec b

theorem wrap8_congr (a c : Int) (h : a % 256 = c % 256) : wrapS 8 a = wrapS 8 c ∧ wrapU 8 a = wrapU 8 c := by
  unfold wrapS wrapU
  have h8 : (2:Int)^8 = 256 := by decide
  simp only [h8, h]; exact ⟨trivial, trivial⟩

theorem wrap16_congr (a c : Int) (h : a % 65536 = c % 65536) : wrapS 16 a = wrapS 16 c ∧ wrapU 16 a = wrapU 16 c := by
  unfold wrapS wrapU
  have h16 : (2:Int)^16 = 65536 := by decide
  simp only [h16, h]; exact ⟨trivial, trivial⟩

theorem zero_truncMag (b : Nat) (hz : isZero b = true) : truncMag b = 0 := by
  unfold isZero at hz
  simp only [Bool.and_eq_true, beq_iff_eq] at hz
  unfold truncMag significand isDenormal exponent isDenormal
  simp [hz.1, hz.2]

theorem nan_not_finite (b : Nat) (h : isNaN b = true) : isFinite b = false := by
  unfold isNaN at h; unfold isFinite
  simp only [Bool.and_eq_true, beq_iff_eq] at h
  simp [h.1]

/-- element conversions are modular for EVERY double — no magnitude restriction (after the fix):
    ToInt8 / ToUint8 / ToInt16 / ToUint16 as implemented = the specification's "int modulo 2^n" -/
theorem conv_modular (b : Nat) (signed : Bool) :
    toIntN 8 signed b = convSpec 8 signed b ∧ toIntN 16 signed b = convSpec 16 signed b := by
  unfold toIntN convSpec
  by_cases hf : isFinite b = true
  · by_cases hz : isZero b = true
    · have hT := zero_truncMag b hz
      simp only [hz, Bool.or_true, Bool.true_or, ↓reduceIte, hf, hT]
      cases signed <;> simp [wrapS, wrapU]
    · have hz' : isZero b = false := by simpa using hz
      have hn : isNaN b = false := by
        cases hnn : isNaN b with
        | false => rfl
        | true => rw [nan_not_finite b hnn] at hf; cases hf
      simp only [hn, hz', hf, Bool.not_true, Bool.or_false, Bool.false_eq_true, ↓reduceIte]
      rw [f64ToInt32_eq_spec]
      unfold toInt32Spec
      rw [if_pos hf]
      have hm := wrapS32_mod (sign b * (truncMag b : Int))
      have c8 := wrap8_congr _ _ hm.1
      have c16 := wrap16_congr _ _ hm.2.1
      cases signed
      · exact ⟨c8.2, c16.2⟩
      · exact ⟨c8.1, c16.1⟩
  · have hf' : isFinite b = false := by simpa using hf
    simp [hf']

/-- ToInt32 / ToUint32 element stores -/
theorem conv32_modular (b : Nat) :
    f64ToInt32 b = (if isFinite b then wrapS 32 (sign b * (truncMag b : Int)) else 0) ∧
    f64ToUint32 b = (if isFinite b then wrapU 32 (sign b * (truncMag b : Int)) else 0) := by
  constructor
  · exact f64ToInt32_eq_spec b
  · unfold f64ToUint32
    rw [f64ToInt32_eq_spec]; unfold toInt32Spec
    split
    · have := (wrapS32_mod (sign b * (truncMag b : Int))).2.2
      unfold wrapU
      have h32 : (2:Int)^32 = 4294967296 := by decide
      rw [h32]; exact this
    · simp [wrapU]

/-- every access the engine performs on a view that is not out of bounds lies inside the buffer:
    for every geometry (fixed or length-tracking view, any offset) and every current buffer length -/
theorem inbounds_access (b : Buf) (v : View) (i : Nat) (hoob : viewOOB b v = false) (hi : i < viewLength b v) :
    v.byteOffset + (i + 1) * v.kind.size ≤ b.bytes.length :=
  inbounds b v i hoob hi

/-- an out-of-bounds or detached view has length 0, so no element access reaches the buffer -/
theorem oob_has_no_elements (b : Buf) (v : View) (h : viewOOB b v = true) : viewLength b v = 0 := by
  unfold viewLength; rw [h]; rfl

/-- element bytes round-trip in both byte orders, for every width -/
theorem bytes_roundtrip (size : Nat) (le : Bool) (n : Nat) :
    decode le (encode size le n) = n % 256 ^ size ∧ (encode size le n).length = size := by
  refine ⟨decode_encode size le n, ?_⟩
  unfold encode; split <;> simp [encodeLE_length]

/-- a store of `bs` at `pos` changes exactly the bytes [pos, pos+|bs|): it reads back, the length is kept,
    every other byte is untouched -/
theorem write_frame (mem : List Nat) (pos : Nat) (bs : List Nat) (h : pos + bs.length ≤ mem.length) :
    (writeAt mem pos bs).length = mem.length ∧ readAt (writeAt mem pos bs) pos bs.length = bs ∧
    ∀ j, (j < pos ∨ pos + bs.length ≤ j) → (writeAt mem pos bs)[j]? = mem[j]? :=
  ⟨writeAt_length mem pos bs h, readAt_writeAt mem pos bs h, fun j hj => writeAt_frame mem pos bs h j hj⟩

/-- consequently an in-bounds element store never writes outside the buffer and reads back as stored -/
theorem set_get (b : Buf) (v : View) (i raw : Nat) (hoob : viewOOB b v = false) (hi : i < viewLength b v) :
    let pos := v.byteOffset + i * v.kind.size
    let mem' := writeAt b.bytes pos (encodeLE v.kind.size raw)
    mem'.length = b.bytes.length ∧ decodeLE (readAt mem' pos v.kind.size) = raw % 256 ^ v.kind.size := by
  intro pos mem'
  have hin := inbounds b v i hoob hi
  have hlen : (encodeLE v.kind.size raw).length = v.kind.size := encodeLE_length _ _
  have hb : pos + (encodeLE v.kind.size raw).length ≤ b.bytes.length := by
    rw [hlen]; show v.byteOffset + i * v.kind.size + v.kind.size ≤ _
    have : (i + 1) * v.kind.size = i * v.kind.size + v.kind.size := Nat.succ_mul _ _
    omega
  refine ⟨writeAt_length _ _ _ hb, ?_⟩
  have := readAt_writeAt b.bytes pos (encodeLE v.kind.size raw) hb
  rw [hlen] at this
  show decodeLE (readAt (writeAt b.bytes pos (encodeLE v.kind.size raw)) pos v.kind.size) = _
  rw [this, decode_encodeLE]

-- non-vacuity
example : viewOOB { bytes := List.replicate 16 0, maxLen := some 32 } { kind := .i32, byteOffset := 4, arrayLength := none } = false := by decide
example : viewLength { bytes := List.replicate 16 0, maxLen := some 32 } { kind := .i32, byteOffset := 4, arrayLength := none } = 3 := by decide
example : toIntN 8 false 0x47F07590C6FE9B7F = 0 ∧ isFinite 0x47F07590C6FE9B7F = true := by decide  -- 3.5e38 ↦ 0
example : f64ToInt32 0x41EFFFFFFFE00000 = -1 := by decide   -- 4294967295 ↦ -1

end BoaVerif.C15
