/- C15 — %TypedArray%.prototype.copyWithin: the byte loop of the specification (steps l–n: a forward or a backward copy,
   one byte at a time, chosen by the overlap test) against what the engine does (one `memmove` of a snapshot of the
   source bytes).  Import: the byte-buffer model only. -/
import BoaVerif.C15.BytesLemmas
namespace BoaVerif.C15

/-- step n of copyWithin with direction = 1: while countBytes > 0, if both indices are below the limit copy one byte and advance -/
def cwFwd (limit : Nat) : Nat → Nat → Nat → List Nat → List Nat
  | _, _, 0, mem => mem
  | f, t, n + 1, mem =>
    if f < limit ∧ t < limit then cwFwd limit (f + 1) (t + 1) n (mem.set t (mem.getD f 0)) else mem

/-- step n with direction = -1 (the indices were moved to the last byte first): copies byte n-1, then n-2, … -/
def cwBwd (limit : Nat) (f t : Nat) : Nat → List Nat → List Nat
  | 0, mem => mem
  | n + 1, mem =>
    if f + n < limit ∧ t + n < limit then cwBwd limit f t n (mem.set (t + n) (mem.getD (f + n) 0)) else mem

/-- steps l–n of %TypedArray%.prototype.copyWithin as written -/
def copyWithinSpec (mem : List Nat) (limit fromB toB count : Nat) : List Nat :=
  if fromB < toB ∧ toB < fromB + count then cwBwd limit fromB toB count mem else cwFwd limit fromB toB count mem

/-- what both must compute, byte by byte -/
def Moved (mem res : List Nat) (fromB toB count : Nat) : Prop :=
  res.length = mem.length ∧
  ∀ i, res.getD i 0 = if toB ≤ i ∧ i < toB + count then mem.getD (fromB + (i - toB)) 0 else mem.getD i 0

theorem getD_set (l : List Nat) (k x i : Nat) : (l.set k x).getD i 0 = if i = k ∧ k < l.length then x else l.getD i 0 := by
  simp only [List.getD_eq_getElem?_getD, List.getElem?_set]
  by_cases h : k = i
  · subst h
    by_cases hk : k < l.length
    · simp [hk]
    · simp [hk]
  · have h' : ¬ i = k := fun e => h e.symm
    simp [h, h']

theorem ext_getD (a b : List Nat) (hl : a.length = b.length) (h : ∀ i, a.getD i 0 = b.getD i 0) : a = b := by
  apply List.ext_getElem hl
  intro i h1 h2
  have := h i
  simp only [List.getD_eq_getElem?_getD, List.getElem?_eq_getElem h1, List.getElem?_eq_getElem h2, Option.getD_some] at this
  exact this

theorem Moved.unique {mem r1 r2 : List Nat} {f t n : Nat} (h1 : Moved mem r1 f t n) (h2 : Moved mem r2 f t n) : r1 = r2 :=
  ext_getD r1 r2 (h1.1.trans h2.1.symm) (fun i => (h1.2 i).trans (h2.2 i).symm)

/-- the forward loop is right whenever the destination does not start inside the source range -/
theorem cwFwd_moved (limit : Nat) : ∀ (n f t : Nat) (mem : List Nat), (t ≤ f ∨ f + n ≤ t) → f + n ≤ limit → t + n ≤ limit →
    limit ≤ mem.length → Moved mem (cwFwd limit f t n mem) f t n := by
  intro n
  induction n with
  | zero =>
    intro f t mem _ _ _ _
    refine ⟨rfl, fun i => ?_⟩
    have : ¬ (t ≤ i ∧ i < t + 0) := by omega
    rw [if_neg this]; rfl
  | succ n ih =>
    intro f t mem hov hf ht hl
    have hc : f < limit ∧ t < limit := ⟨by omega, by omega⟩
    simp only [cwFwd, hc, and_self, ↓reduceIte]
    have hl' : limit ≤ (mem.set t (mem.getD f 0)).length := by simpa using hl
    obtain ⟨ih1, ih2⟩ := ih (f + 1) (t + 1) (mem.set t (mem.getD f 0)) (by omega) (by omega) (by omega) hl'
    refine ⟨by rw [ih1]; simp, fun i => ?_⟩
    rw [ih2 i]
    by_cases h1 : t + 1 ≤ i ∧ i < t + 1 + n
    · rw [if_pos h1, if_pos (by omega), getD_set]
      have hne : ¬ (f + 1 + (i - (t + 1)) = t ∧ t < mem.length) := by omega
      rw [if_neg hne]
      congr 1; omega
    · rw [if_neg h1, getD_set]
      by_cases h2 : i = t
      · subst h2
        rw [if_pos ⟨rfl, by omega⟩, if_pos (by omega)]
        simp
      · rw [if_neg (by omega), if_neg (by omega)]

/-- the backward loop is right whenever the source starts before the destination -/
theorem cwBwd_moved (limit f t : Nat) : ∀ (n : Nat) (mem : List Nat), f < t → f + n ≤ limit → t + n ≤ limit →
    limit ≤ mem.length → Moved mem (cwBwd limit f t n mem) f t n := by
  intro n
  induction n with
  | zero =>
    intro mem _ _ _ _
    refine ⟨rfl, fun i => ?_⟩
    have : ¬ (t ≤ i ∧ i < t + 0) := by omega
    rw [if_neg this]; rfl
  | succ n ih =>
    intro mem hft hf ht hl
    have hc : f + n < limit ∧ t + n < limit := ⟨by omega, by omega⟩
    simp only [cwBwd, hc, and_self, ↓reduceIte]
    have hl' : limit ≤ (mem.set (t + n) (mem.getD (f + n) 0)).length := by simpa using hl
    obtain ⟨ih1, ih2⟩ := ih (mem.set (t + n) (mem.getD (f + n) 0)) hft (by omega) (by omega) hl'
    refine ⟨by rw [ih1]; simp, fun i => ?_⟩
    rw [ih2 i]
    by_cases h1 : t ≤ i ∧ i < t + n
    · rw [if_pos h1, if_pos (by omega), getD_set, if_neg (by omega)]
    · rw [if_neg h1, getD_set]
      by_cases h2 : i = t + n
      · subst h2
        rw [if_pos ⟨rfl, by omega⟩, if_pos (by omega)]
        congr 1; omega
      · rw [if_neg (by omega), if_neg (by omega)]

theorem getD_app_left (a b : List Nat) (i : Nat) (h : i < a.length) : (a ++ b).getD i 0 = a.getD i 0 := by
  simp [List.getD_eq_getElem?_getD, List.getElem?_append_left h]

theorem getD_app_right (a b : List Nat) (i : Nat) (h : a.length ≤ i) : (a ++ b).getD i 0 = b.getD (i - a.length) 0 := by
  simp [List.getD_eq_getElem?_getD, List.getElem?_append_right h]

/-- `memmove` computes the same thing, for any overlap -/
theorem impl_moved (mem : List Nat) (f t n : Nat) (hf : f + n ≤ mem.length) (ht : t + n ≤ mem.length) :
    Moved mem (copyWithinImpl mem f t n) f t n := by
  have hrl : (readAt mem f n).length = n := by unfold readAt; simp; omega
  have hb : t + (readAt mem f n).length ≤ mem.length := by rw [hrl]; exact ht
  refine ⟨writeAt_length mem t _ hb, fun i => ?_⟩
  unfold copyWithinImpl
  by_cases h1 : t ≤ i ∧ i < t + n
  · rw [if_pos h1]
    unfold writeAt
    have hlen1 : (mem.take t).length = t := by simp; omega
    rw [List.append_assoc, getD_app_right _ _ i (by omega), hlen1, getD_app_left _ _ _ (by omega)]
    unfold readAt
    simp only [List.getD_eq_getElem?_getD, List.getElem?_take, List.getElem?_drop]
    rw [if_pos (by omega)]
  · rw [if_neg h1]
    have := writeAt_frame mem t (readAt mem f n) hb i (by rw [hrl]; omega)
    simp only [List.getD_eq_getElem?_getD, this]

/-- THE SPECIFICATION'S BYTE LOOP = ONE memmove, for every buffer, every pair of offsets (overlapping either way or not at
    all) and every count that stays below the limit: the direction test of step l is exactly what makes a byte-at-a-time
    copy agree with a copy of a snapshot -/
theorem copyWithin_loop_eq_memmove (mem : List Nat) (limit f t n : Nat) (hf : f + n ≤ limit) (ht : t + n ≤ limit)
    (hl : limit ≤ mem.length) : copyWithinSpec mem limit f t n = copyWithinImpl mem f t n := by
  have hi := impl_moved mem f t n (by omega) (by omega)
  unfold copyWithinSpec
  split
  · rename_i h
    exact (cwBwd_moved limit f t n mem h.1 hf ht hl).unique hi
  · rename_i h
    exact (cwFwd_moved limit n f t mem (by omega) hf ht hl).unique hi

/-- and it never touches a byte outside [to, to + count): in particular nothing beyond the view -/
theorem copyWithin_frame (mem : List Nat) (f t n : Nat) (hf : f + n ≤ mem.length) (ht : t + n ≤ mem.length) (j : Nat)
    (hj : j < t ∨ t + n ≤ j) : (copyWithinImpl mem f t n).getD j 0 = mem.getD j 0 ∧ (copyWithinImpl mem f t n).length = mem.length := by
  obtain ⟨h1, h2⟩ := impl_moved mem f t n hf ht
  refine ⟨?_, h1⟩
  rw [h2 j, if_neg (by omega)]

/-- the element-level arguments of an in-bounds view give byte ranges inside the view (so the two theorems above apply to
    what `step` does for `copyWithin`) -/
theorem copyWithin_ranges (b : Buf) (v : View) (hoob : viewOOB b v = false) (to from_ count : Nat)
    (h1 : to + count ≤ viewLength b v) (h2 : from_ + count ≤ viewLength b v) (hc : 0 < count) :
    from_ * v.kind.size + v.byteOffset + count * v.kind.size ≤ viewLength b v * v.kind.size + v.byteOffset ∧
    to * v.kind.size + v.byteOffset + count * v.kind.size ≤ viewLength b v * v.kind.size + v.byteOffset ∧
    viewLength b v * v.kind.size + v.byteOffset ≤ b.bytes.length := by
  have hlen : 0 < viewLength b v := by omega
  have hin := inbounds b v (viewLength b v - 1) hoob (by omega)
  have e1 : viewLength b v - 1 + 1 = viewLength b v := by omega
  rw [e1] at hin
  have m1 : (from_ + count) * v.kind.size ≤ viewLength b v * v.kind.size := Nat.mul_le_mul_right _ h2
  have m2 : (to + count) * v.kind.size ≤ viewLength b v * v.kind.size := Nat.mul_le_mul_right _ h1
  rw [Nat.add_mul] at m1 m2
  refine ⟨by omega, by omega, by omega⟩

theorem relIndex_le (x : Int) (len : Nat) : relIndex x len ≤ len := by
  unfold relIndex; split <;> omega

/-- WHATEVER integers a script passes (negative, huge, end before start), the element ranges copyWithin derives from them lie
    inside the view: together with `copyWithin_ranges` and `copyWithin_frame`, no byte outside the view is read or written -/
theorem copyWithin_args_inbounds (target start : Int) (fin : Option Int) (len : Nat) :
    let to := relIndex target len
    let from_ := relIndex start len
    let final := match fin with | some e => relIndex e len | none => len
    let count := min (final - from_) (len - to)
    to + count ≤ len ∧ from_ + count ≤ len := by
  intro to from_ final count
  have h1 : to ≤ len := relIndex_le target len
  have h2 : from_ ≤ len := relIndex_le start len
  have h3 : final ≤ len := by
    show (match fin with | some e => relIndex e len | none => len) ≤ len
    cases fin with
    | none => exact Nat.le_refl _
    | some e => exact relIndex_le e len
  show to + min (final - from_) (len - to) ≤ len ∧ from_ + min (final - from_) (len - to) ≤ len
  omega

example : relIndex (-2) 5 = 3 ∧ relIndex (-9) 5 = 0 ∧ relIndex 7 5 = 5 ∧ relIndex 2 5 = 2 := by decide

/-! ### %TypedArray%.prototype.fill -/

/-- `fill` keeps the buffer's length and changes no byte outside the elements [k, k + n) of the view -/
theorem fillBytes_frame (mem : List Nat) (off sz k : Nat) (bs : List Nat) (hbs : bs.length = sz) : ∀ (n : Nat),
    off + (k + n) * sz ≤ mem.length →
    (fillBytes mem off sz k bs n).length = mem.length ∧
    ∀ j, (j < off + k * sz ∨ off + (k + n) * sz ≤ j) → (fillBytes mem off sz k bs n)[j]? = mem[j]? := by
  intro n
  induction n with
  | zero => intro _; exact ⟨rfl, fun _ _ => rfl⟩
  | succ n ih =>
    intro h
    have e1 : (k + (n + 1)) * sz = (k + n) * sz + sz := by rw [← Nat.add_assoc, Nat.succ_mul]
    obtain ⟨l1, f1⟩ := ih (by omega)
    have hb : off + (k + n) * sz + bs.length ≤ (fillBytes mem off sz k bs n).length := by rw [l1, hbs]; omega
    simp only [fillBytes]
    refine ⟨by rw [writeAt_length _ _ _ hb, l1], fun j hj => ?_⟩
    have hk : k * sz ≤ (k + n) * sz := Nat.mul_le_mul_right _ (by omega)
    rw [writeAt_frame _ _ _ hb j (by rw [hbs]; omega)]
    exact f1 j (by omega)

/-- every element of [k, k + n) reads back as the stored bytes -/
theorem fillBytes_reads (mem : List Nat) (off sz k : Nat) (bs : List Nat) (hbs : bs.length = sz) : ∀ (n : Nat),
    off + (k + n) * sz ≤ mem.length → ∀ i, i < n → readAt (fillBytes mem off sz k bs n) (off + (k + i) * sz) sz = bs := by
  intro n
  induction n with
  | zero => intro _ i hi; omega
  | succ n ih =>
    intro h i hi
    have e1 : (k + (n + 1)) * sz = (k + n) * sz + sz := by rw [← Nat.add_assoc, Nat.succ_mul]
    obtain ⟨l1, _⟩ := fillBytes_frame mem off sz k bs hbs n (by omega)
    have hb : off + (k + n) * sz + bs.length ≤ (fillBytes mem off sz k bs n).length := by rw [l1, hbs]; omega
    simp only [fillBytes]
    by_cases hin : i = n
    · subst hin
      have := readAt_writeAt (fillBytes mem off sz k bs i) (off + (k + i) * sz) bs hb
      rw [hbs] at this; exact this
    · have hlt : i < n := by omega
      have hprev := ih (by omega) i hlt
      -- the later store lies entirely above element i
      have hle : (k + i) * sz + sz ≤ (k + n) * sz := by
        have : (k + i + 1) * sz ≤ (k + n) * sz := Nat.mul_le_mul_right _ (by omega)
        rw [Nat.succ_mul] at this; exact this
      have hsame : readAt (writeAt (fillBytes mem off sz k bs n) (off + (k + n) * sz) bs) (off + (k + i) * sz) sz =
          readAt (fillBytes mem off sz k bs n) (off + (k + i) * sz) sz := by
        unfold readAt
        apply List.ext_getElem?
        intro j
        simp only [List.getElem?_take, List.getElem?_drop]
        by_cases hj : j < sz
        · simp only [hj, ↓reduceIte]
          have hlt2 : off + (k + i) * sz + j < off + (k + n) * sz := by omega
          exact writeAt_frame _ _ _ hb _ (Or.inl hlt2)
        · simp [hj]
      exact hsame.trans hprev

-- non-vacuity: overlapping either way
example : copyWithinSpec [0, 1, 2, 3, 4, 5, 6, 7] 8 0 2 4 = [0, 1, 0, 1, 2, 3, 6, 7] := by decide
example : copyWithinSpec [0, 1, 2, 3, 4, 5, 6, 7] 8 2 0 4 = [2, 3, 4, 5, 4, 5, 6, 7] := by decide
example : copyWithinImpl [0, 1, 2, 3, 4, 5, 6, 7] 0 2 4 = [0, 1, 0, 1, 2, 3, 6, 7] := by decide
-- a forward byte loop on the first would be wrong: that is what the direction test prevents
example : cwFwd 8 0 2 4 [0, 1, 2, 3, 4, 5, 6, 7] = [0, 1, 0, 1, 0, 1, 6, 7] := by decide

end BoaVerif.C15
