/-
  C15 model, part 2: buffers (fixed / resizable / detached), typed-array views (fixed length and
  length-tracking) and a DataView, element access with both endiannesses, as in
  core/engine/src/builtins/{array_buffer,typed_array,dataview}.  Import-free.
-/
import BoaVerif.C15.Conv
namespace BoaVerif.C15

inductive Kind | i8 | u8 | u8c | i16 | u16 | i32 | u32 | f64 | bi64 | bu64
  deriving Repr, DecidableEq

def Kind.size : Kind → Nat
  | .i8 | .u8 | .u8c => 1
  | .i16 | .u16 => 2
  | .i32 | .u32 => 4
  | .f64 | .bi64 | .bu64 => 8

def Kind.isBig : Kind → Bool
  | .bi64 | .bu64 => true
  | _ => false

structure Buf where
  bytes : List Nat := []
  maxLen : Option Nat := none      -- `some m` = resizable
  detached : Bool := false
  deriving Repr

structure View where
  kind : Kind
  byteOffset : Nat
  arrayLength : Option Nat         -- `none` = length-tracking ("auto")
  deriving Repr

/-- `TypedArray::is_out_of_bounds` (the detached case is handled by the caller) -/
def isOutOfBounds (v : View) (bufLen : Nat) : Bool :=
  let byteEnd := match v.arrayLength with
    | none => bufLen
    | some n => v.byteOffset + n * v.kind.size
  v.byteOffset > bufLen || byteEnd > bufLen

/-- `TypedArray::array_length` (precondition: not out of bounds) -/
def arrayLength (v : View) (bufLen : Nat) : Nat :=
  match v.arrayLength with
  | some n => n
  | none => (bufLen - v.byteOffset) / v.kind.size

def viewOOB (b : Buf) (v : View) : Bool := b.detached || isOutOfBounds v b.bytes.length

def viewLength (b : Buf) (v : View) : Nat := if viewOOB b v then 0 else arrayLength v b.bytes.length

/-- little-endian bytes of `n` (taken modulo 256^size) -/
def encodeLE : Nat → Nat → List Nat
  | 0, _ => []
  | size + 1, n => (n % 256) :: encodeLE size (n / 256)

def decodeLE : List Nat → Nat
  | [] => 0
  | b :: bs => b + 256 * decodeLE bs

def encode (size : Nat) (le : Bool) (n : Nat) : List Nat :=
  if le then encodeLE size n else (encodeLE size n).reverse
def decode (le : Bool) (bs : List Nat) : Nat := if le then decodeLE bs else decodeLE bs.reverse

/-- overwrite `bs.length` bytes at `pos` -/
def writeAt (mem : List Nat) (pos : Nat) (bs : List Nat) : List Nat :=
  mem.take pos ++ bs ++ mem.drop (pos + bs.length)

def readAt (mem : List Nat) (pos size : Nat) : List Nat := (mem.drop pos).take size

/-- the relative index of the typed-array methods: a negative argument counts from the end; the result is clamped to [0, len] -/
def relIndex (x : Int) (len : Nat) : Nat := if x < 0 then ((len : Int) + x).toNat else min x.toNat len

/-- store the same element bytes `bs` at elements k, k+1, …, k+n-1 of a view that starts at byte `off` -/
def fillBytes (mem : List Nat) (off sz k : Nat) (bs : List Nat) : Nat → List Nat
  | 0 => mem
  | n + 1 => writeAt (fillBytes mem off sz k bs n) (off + (k + n) * sz) bs

/-- `memmove(buf, from, to, count)` (array_buffer/utils.rs): the source range is read as a whole, then written -/
def copyWithinImpl (mem : List Nat) (fromB toB count : Nat) : List Nat := writeAt mem toB (readAt mem fromB count)

inductive Val
  | num (bits : Nat)       -- a Number, as its double bit pattern
  | big (n : Int)          -- a BigInt
  deriving Repr

/-- the raw element (as an unsigned integer of the element's width) a value is converted to;
    `none` = TypeError (Number given to a BigInt array or BigInt given to a Number array) -/
def toRaw (k : Kind) (v : Val) : Option Nat :=
  match k, v with
  | .i8, .num b => some (wrapU 8 (toIntN 8 true b)).toNat
  | .u8, .num b => some (toIntN 8 false b).toNat
  | .u8c, .num b => some (toUint8Clamp b).toNat
  | .i16, .num b => some (wrapU 16 (toIntN 16 true b)).toNat
  | .u16, .num b => some (toIntN 16 false b).toNat
  | .i32, .num b => some (wrapU 32 (f64ToInt32 b)).toNat
  | .u32, .num b => some (f64ToUint32 b).toNat
  | .f64, .num b => some (canonF64 b)
  | .bi64, .big n => some (wrapU 64 n).toNat
  | .bu64, .big n => some (wrapU 64 n).toNat
  | _, _ => none

/-- how a raw element reads back -/
def showRaw (k : Kind) (raw : Nat) : String :=
  let hex16 (n : Nat) : String :=
    let s := String.ofList (Nat.toDigits 16 n)
    String.ofList (List.replicate (16 - s.length) '0') ++ s
  match k with
  | .i8 => toString (wrapS 8 raw)
  | .i16 => toString (wrapS 16 raw)
  | .i32 => toString (wrapS 32 raw)
  | .bi64 => toString (wrapS 64 raw)
  | .f64 => "f:" ++ hex16 (canonF64 raw)
  | _ => toString raw

structure St where
  buf : Buf := {}
  views : List View := []
  deriving Repr

inductive Op
  | newBuf (len : Nat) (max : Option Nat)
  | resize (n : Nat)
  | newView (k : Kind) (off : Nat) (len : Option Nat)
  | len (v : Nat)
  | get (v i : Nat)
  | set (v i : Nat) (x : Val)
  | bytes
  | dvGet (k : Kind) (off : Nat) (le : Bool)
  | dvSet (k : Kind) (off : Nat) (le : Bool) (x : Val)
  | detach
  | copy (dst src off : Nat)      -- `views[dst].set(views[src], off)`
  | fill (v : Nat) (x : Val) (start : Int) (fin : Option Int)      -- `views[v].fill(x, start, fin)`
  | copyWithin (v : Nat) (target start : Int) (fin : Option Int)   -- `views[v].copyWithin(target, start, fin)`, any integers
  deriving Repr

/-- the double bit pattern of an integer of magnitude below 2^53 -/
def intToF64Bits (z : Int) : Nat :=
  if z == 0 then 0 else
  let m := z.natAbs
  let e := Nat.log2 m
  let frac := if e ≤ 52 then m * 2 ^ (52 - e) - 2 ^ 52 else 0
  (if z < 0 then 2 ^ 63 else 0) + (e + 1023) * 2 ^ 52 + frac

/-- the value a raw element denotes, as the JsValue a script would read -/
def rawToVal (k : Kind) (raw : Nat) : Val :=
  match k with
  | .i8 => .num (intToF64Bits (wrapS 8 raw))
  | .i16 => .num (intToF64Bits (wrapS 16 raw))
  | .i32 => .num (intToF64Bits (wrapS 32 raw))
  | .u8 | .u8c | .u16 | .u32 => .num (intToF64Bits raw)
  | .f64 => .num raw
  | .bi64 => .big (wrapS 64 raw)
  | .bu64 => .big raw

def hex2 (n : Nat) : String :=
  let s := String.ofList (Nat.toDigits 16 n)
  (if s.length < 2 then "0" else "") ++ s

/-- `new Kind(buffer, byteOffset, length)` (InitializeTypedArrayFromArrayBuffer), in the order of the checks -/
def makeView (b : Buf) (k : Kind) (off : Nat) (len : Option Nat) : Except String View :=
  if off % k.size != 0 then .error "RangeError"
  else if b.detached then .error "TypeError"
  else
    let bufLen := b.bytes.length
    match len, b.maxLen with
    | none, some _ => if off > bufLen then .error "RangeError" else .ok { kind := k, byteOffset := off, arrayLength := none }
    | none, none =>
      if bufLen % k.size != 0 then .error "RangeError"
      else if off > bufLen then .error "RangeError"
      else .ok { kind := k, byteOffset := off, arrayLength := some ((bufLen - off) / k.size) }
    | some n, _ =>
      if off + n * k.size > bufLen then .error "RangeError"
      else .ok { kind := k, byteOffset := off, arrayLength := some n }

def step (s : St) : Op → St × String
  | .newBuf len max =>
    (match max with
     | some m => if len > m then (s, "RangeError") else ({ buf := { bytes := List.replicate len 0, maxLen := some m }, views := [] }, "ok")
     | none => ({ buf := { bytes := List.replicate len 0 }, views := [] }, "ok"))
  | .resize n =>
    match s.buf.maxLen with
    | none => (s, "TypeError")
    | some m =>
      if s.buf.detached then (s, "TypeError")
      else if n > m then (s, "RangeError")
      else ({ s with buf := { s.buf with bytes := (s.buf.bytes.take n) ++ List.replicate (n - s.buf.bytes.length) 0 } }, "ok")
  | .newView k off len =>
    match makeView s.buf k off len with
    | .ok v => ({ s with views := s.views ++ [v] }, "ok")
    | .error e => (s, e)
  | .len vi =>
    match s.views[vi]? with
    | none => (s, "bad-op")
    | some v =>
      let n := viewLength s.buf v
      let off := if viewOOB s.buf v then 0 else v.byteOffset
      (s, s!"{n} {n * v.kind.size} {off}")
  | .get vi i =>
    match s.views[vi]? with
    | none => (s, "bad-op")
    | some v =>
      if i < viewLength s.buf v then
        (s, showRaw v.kind (decodeLE (readAt s.buf.bytes (v.byteOffset + i * v.kind.size) v.kind.size)))
      else (s, "undefined")
  | .set vi i x =>
    match s.views[vi]? with
    | none => (s, "bad-op")
    | some v =>
      match toRaw v.kind x with
      | none => (s, "TypeError")
      | some raw =>
        if i < viewLength s.buf v then
          ({ s with buf := { s.buf with bytes := writeAt s.buf.bytes (v.byteOffset + i * v.kind.size) (encodeLE v.kind.size raw) } }, "ok")
        else (s, "ok")
  | .bytes => (s, if s.buf.detached then "detached" else String.join (s.buf.bytes.map hex2))
  | .dvGet k off le =>
    if s.buf.detached then (s, "TypeError")
    else if off + k.size > s.buf.bytes.length then (s, "RangeError")
    else (s, showRaw k (decode le (readAt s.buf.bytes off k.size)))
  | .dvSet k off le x =>
    match toRaw k x with
    | none => (s, "TypeError")
    | some raw =>
      if s.buf.detached then (s, "TypeError")
      else if off + k.size > s.buf.bytes.length then (s, "RangeError")
      else ({ s with buf := { s.buf with bytes := writeAt s.buf.bytes off (encode k.size le raw) } }, "ok")
  | .detach => ({ s with buf := { s.buf with bytes := [], detached := true } }, "ok")
  | .copy di si off =>
    match s.views[di]?, s.views[si]? with
    | some d, some sv =>
      -- %TypedArray%.prototype.set ( typedArray, offset ): SetTypedArrayFromTypedArray
      if viewOOB s.buf d then (s, "TypeError")
      else if viewOOB s.buf sv then (s, "TypeError")
      else
        let dlen := viewLength s.buf d
        let slen := viewLength s.buf sv
        if slen + off > dlen then (s, "RangeError")                      -- step 16
        else if d.kind.isBig != sv.kind.isBig then (s, "TypeError")      -- step 17 (content types differ)
        else
          -- same buffer: the source bytes are read before any write (clone), so overlap is harmless
          let srcRaw := (List.range slen).map (fun i => decodeLE (readAt s.buf.bytes (sv.byteOffset + i * sv.kind.size) sv.kind.size))
          let conv := srcRaw.map (fun r => if sv.kind == d.kind then some r else toRaw d.kind (rawToVal sv.kind r))
          let (mem, _) := conv.foldl (fun (acc : List Nat × Nat) r =>
            match r with
            | some raw => (writeAt acc.1 (d.byteOffset + (off + acc.2) * d.kind.size) (encodeLE d.kind.size raw), acc.2 + 1)
            | none => (acc.1, acc.2 + 1)) (s.buf.bytes, 0)
          ({ s with buf := { s.buf with bytes := mem } }, "ok")
    | _, _ => (s, "bad-op")
  | .fill vi x start fin =>
    match s.views[vi]? with
    | none => (s, "bad-op")
    | some v =>
      -- %TypedArray%.prototype.fill: validate, convert the value once, relative indices, store it in [k, final)
      if viewOOB s.buf v then (s, "TypeError")
      else match toRaw v.kind x with
        | none => (s, "TypeError")
        | some raw =>
          let len := viewLength s.buf v
          let k := relIndex start len
          let final := match fin with | some e => relIndex e len | none => len
          ({ s with buf := { s.buf with bytes := fillBytes s.buf.bytes v.byteOffset v.kind.size k (encodeLE v.kind.size raw) (final - k) } }, "ok")
  | .copyWithin vi target start fin =>
    match s.views[vi]? with
    | none => (s, "bad-op")
    | some v =>
      -- %TypedArray%.prototype.copyWithin, steps 1-17 for integer arguments (no user code runs in between)
      if viewOOB s.buf v then (s, "TypeError")
      else
        let len := viewLength s.buf v
        let to := relIndex target len
        let from_ := relIndex start len
        let final := match fin with | some e => relIndex e len | none => len
        let count := min (final - from_) (len - to)
        if count > 0 then
          let sz := v.kind.size
          ({ s with buf := { s.buf with bytes := copyWithinImpl s.buf.bytes (from_ * sz + v.byteOffset) (to * sz + v.byteOffset) (count * sz) } }, "ok")
        else (s, "ok")

end BoaVerif.C15
