/-
  C15 model, part 2: buffers (fixed / resizable / detached), typed-array views (fixed length and
  length-tracking) and a DataView, element access with both endiannesses, as in
  core/engine/src/builtins/{array_buffer,typed_array,dataview}.  Import-free.
-/
import BoaVerif.C15.Conv
namespace BoaVerif.C15

inductive Kind | i8 | u8 | u8c | i16 | u16 | i32 | u32 | f64 | bi64 | bu64
  deriving Repr, DecidableEq

def Kind.size : Kind → Nat
  | .i8 | .u8 | .u8c => 1
  | .i16 | .u16 => 2
  | .i32 | .u32 => 4
  | .f64 | .bi64 | .bu64 => 8

def Kind.isBig : Kind → Bool
  | .bi64 | .bu64 => true
  | _ => false

structure Buf where
  bytes : List Nat := []
  maxLen : Option Nat := none      -- `some m` = resizable
  detached : Bool := false
  deriving Repr

structure View where
  kind : Kind
  byteOffset : Nat
  arrayLength : Option Nat         -- `none` = length-tracking ("auto")
  deriving Repr

/-- `TypedArray::is_out_of_bounds` (the detached case is handled by the caller) -/
def isOutOfBounds (v : View) (bufLen : Nat) : Bool :=
  let byteEnd := match v.arrayLength with
    | none => bufLen
    | some n => v.byteOffset + n * v.kind.size
  v.byteOffset > bufLen || byteEnd > bufLen

/-- `TypedArray::array_length` (precondition: not out of bounds) -/
def arrayLength (v : View) (bufLen : Nat) : Nat :=
  match v.arrayLength with
  | some n => n
  | none => (bufLen - v.byteOffset) / v.kind.size

def viewOOB (b : Buf) (v : View) : Bool := b.detached || isOutOfBounds v b.bytes.length

def viewLength (b : Buf) (v : View) : Nat := if viewOOB b v then 0 else arrayLength v b.bytes.length

/-- little-endian bytes of `n` (taken modulo 256^size) -/
def encodeLE : Nat → Nat → List Nat
  | 0, _ => []
  | size + 1, n => (n % 256) :: encodeLE size (n / 256)

def decodeLE : List Nat → Nat
  | [] => 0
  | b :: bs => b + 256 * decodeLE bs

def encode (size : Nat) (le : Bool) (n : Nat) : List Nat :=
  if le then encodeLE size n else (encodeLE size n).reverse
def decode (le : Bool) (bs : List Nat) : Nat := if le then decodeLE bs else decodeLE bs.reverse

/-- overwrite `bs.length` bytes at `pos` -/
def writeAt (mem : List Nat) (pos : Nat) (bs : List Nat) : List Nat :=
  mem.take pos ++ bs ++ mem.drop (pos + bs.length)

def readAt (mem : List Nat) (pos size : Nat) : List Nat := (mem.drop pos).take size

inductive Val
  | num (bits : Nat)       -- a Number, as its double bit pattern
  | big (n : Int)          -- a BigInt
  deriving Repr

/-- the raw element (as an unsigned integer of the element's width) a value is converted to;
    `none` = TypeError (Number given to a BigInt array or BigInt given to a Number array) -/
def toRaw (k : Kind) (v : Val) : Option Nat :=
  match k, v with
  | .i8, .num b => some (wrapU 8 (toIntN 8 true b)).toNat
  | .u8, .num b => some (toIntN 8 false b).toNat
  | .u8c, .num b => some (toUint8Clamp b).toNat
  | .i16, .num b => some (wrapU 16 (toIntN 16 true b)).toNat
  | .u16, .num b => some (toIntN 16 false b).toNat
  | .i32, .num b => some (wrapU 32 (f64ToInt32 b)).toNat
  | .u32, .num b => some (f64ToUint32 b).toNat
  | .f64, .num b => some (canonF64 b)
  | .bi64, .big n => some (wrapU 64 n).toNat
  | .bu64, .big n => some (wrapU 64 n).toNat
  | _, _ => none

/-- how a raw element reads back -/
def showRaw (k : Kind) (raw : Nat) : String :=
  let hex16 (n : Nat) : String :=
    let s := String.ofList (Nat.toDigits 16 n)
    String.ofList (List.replicate (16 - s.length) '0') ++ s
  match k with
  | .i8 => toString (wrapS 8 raw)
  | .i16 => toString (wrapS 16 raw)
  | .i32 => toString (wrapS 32 raw)
  | .bi64 => toString (wrapS 64 raw)
  | .f64 => "f:" ++ hex16 (canonF64 raw)
  | _ => toString raw

structure St where
  buf : Buf := {}
  views : List View := []
  deriving Repr

inductive Op
  | newBuf (len : Nat) (max : Option Nat)
  | resize (n : Nat)
  | newView (k : Kind) (off : Nat) (len : Option Nat)
  | len (v : Nat)
  | get (v i : Nat)
  | set (v i : Nat) (x : Val)
  | bytes
  | dvGet (k : Kind) (off : Nat) (le : Bool)
  | dvSet (k : Kind) (off : Nat) (le : Bool) (x : Val)
  | detach
  deriving Repr

def hex2 (n : Nat) : String :=
  let s := String.ofList (Nat.toDigits 16 n)
  (if s.length < 2 then "0" else "") ++ s

/-- `new Kind(buffer, byteOffset, length)` (InitializeTypedArrayFromArrayBuffer), in the order of the checks -/
def makeView (b : Buf) (k : Kind) (off : Nat) (len : Option Nat) : Except String View :=
  if off % k.size != 0 then .error "RangeError"
  else if b.detached then .error "TypeError"
  else
    let bufLen := b.bytes.length
    match len, b.maxLen with
    | none, some _ => if off > bufLen then .error "RangeError" else .ok { kind := k, byteOffset := off, arrayLength := none }
    | none, none =>
      if bufLen % k.size != 0 then .error "RangeError"
      else if off > bufLen then .error "RangeError"
      else .ok { kind := k, byteOffset := off, arrayLength := some ((bufLen - off) / k.size) }
    | some n, _ =>
      if off + n * k.size > bufLen then .error "RangeError"
      else .ok { kind := k, byteOffset := off, arrayLength := some n }

def step (s : St) : Op → St × String
  | .newBuf len max =>
    (match max with
     | some m => if len > m then (s, "RangeError") else ({ buf := { bytes := List.replicate len 0, maxLen := some m }, views := [] }, "ok")
     | none => ({ buf := { bytes := List.replicate len 0 }, views := [] }, "ok"))
  | .resize n =>
    match s.buf.maxLen with
    | none => (s, "TypeError")
    | some m =>
      if s.buf.detached then (s, "TypeError")
      else if n > m then (s, "RangeError")
      else ({ s with buf := { s.buf with bytes := (s.buf.bytes.take n) ++ List.replicate (n - s.buf.bytes.length) 0 } }, "ok")
  | .newView k off len =>
    match makeView s.buf k off len with
    | .ok v => ({ s with views := s.views ++ [v] }, "ok")
    | .error e => (s, e)
  | .len vi =>
    match s.views[vi]? with
    | none => (s, "bad-op")
    | some v =>
      let n := viewLength s.buf v
      let off := if viewOOB s.buf v then 0 else v.byteOffset
      (s, s!"{n} {n * v.kind.size} {off}")
  | .get vi i =>
    match s.views[vi]? with
    | none => (s, "bad-op")
    | some v =>
      if i < viewLength s.buf v then
        (s, showRaw v.kind (decodeLE (readAt s.buf.bytes (v.byteOffset + i * v.kind.size) v.kind.size)))
      else (s, "undefined")
  | .set vi i x =>
    match s.views[vi]? with
    | none => (s, "bad-op")
    | some v =>
      match toRaw v.kind x with
      | none => (s, "TypeError")
      | some raw =>
        if i < viewLength s.buf v then
          ({ s with buf := { s.buf with bytes := writeAt s.buf.bytes (v.byteOffset + i * v.kind.size) (encodeLE v.kind.size raw) } }, "ok")
        else (s, "ok")
  | .bytes => (s, if s.buf.detached then "detached" else String.join (s.buf.bytes.map hex2))
  | .dvGet k off le =>
    if s.buf.detached then (s, "TypeError")
    else if off + k.size > s.buf.bytes.length then (s, "RangeError")
    else (s, showRaw k (decode le (readAt s.buf.bytes off k.size)))
  | .dvSet k off le x =>
    match toRaw k x with
    | none => (s, "TypeError")
    | some raw =>
      if s.buf.detached then (s, "TypeError")
      else if off + k.size > s.buf.bytes.length then (s, "RangeError")
      else ({ s with buf := { s.buf with bytes := writeAt s.buf.bytes off (encode k.size le raw) } }, "ok")
  | .detach => ({ s with buf := { s.buf with bytes := [], detached := true } }, "ok")

end BoaVerif.C15
