import BoaVerif.C15.Conv
namespace BoaVerif.C15

theorem fraction_lt (b : Nat) : fraction b < 2^52 := Nat.mod_lt _ (by decide)
theorem biasedExp_lt (b : Nat) : biasedExp b < 2048 := by unfold biasedExp; omega

theorem significand_lt (b : Nat) : significand b < 2^53 := by
  unfold significand; have := fraction_lt b; split <;> omega

theorem wrapS_congr (n : Nat) (a c : Int) (h : a % (2^n : Int) = c % (2^n : Int)) : wrapS n a = wrapS n c := by
  unfold wrapS; rw [h]

theorem wrapS32_id (v : Int) (h1 : -2147483648 ≤ v) (h2 : v ≤ 2147483647) : wrapS 32 v = v := by
  unfold wrapS
  have : (2:Int)^32 = 4294967296 := by decide
  have h31 : (2:Int)^(32-1) = 2147483648 := by decide
  simp only [this, h31]
  split <;> omega

theorem exponent_cases (b : Nat) : exponent b = -1074 ∨ exponent b = (biasedExp b : Int) - 1075 := by
  unfold exponent; split <;> simp

theorem finite_of_exp_le (b : Nat) (h : exponent b ≤ 31) : isFinite b = true := by
  unfold isFinite
  rcases exponent_cases b with he | he
  · unfold exponent at he
    split at he
    · rename_i hd; unfold isDenormal at hd
      have : biasedExp b = 0 := by simpa using hd
      simp [this]
    · have := biasedExp_lt b; simp only [bne_iff_ne, ne_eq]; omega
  · simp only [bne_iff_ne, ne_eq]; omega

theorem sign_cases (b : Nat) : sign b = 1 ∨ sign b = -1 := by unfold sign; split <;> simp

/-- the bit manipulation of `f64_to_int32` computes the specification's ToInt32 for EVERY bit pattern -/
theorem f64ToInt32_eq_spec (b : Nat) : f64ToInt32 b = toInt32Spec b := by
  unfold f64ToInt32 toInt32Spec
  simp only
  split
  · -- fast path
    rename_i hfast
    simp only [Bool.and_eq_true, decide_eq_true_eq] at hfast
    obtain ⟨⟨⟨hf, h2⟩, h1⟩, _⟩ := hfast
    rw [if_pos hf, wrapS32_id _ h1 h2]
  · split
    · -- e < 0
      rename_i he
      have hfin : isFinite b = true := finite_of_exp_le b (by omega)
      rw [if_pos hfin]
      split
      · rename_i he53
        -- truncMag = 0
        have hT : truncMag b = 0 := by
          unfold truncMag
          simp only
          rw [if_neg (by omega)]
          apply Nat.div_eq_of_lt
          have h1 := significand_lt b
          have h2 : 2^53 ≤ 2 ^ (-exponent b).toNat := Nat.pow_le_pow_right (by decide) (by omega)
          omega
        rw [hT]; simp [wrapS]
      · have hT : truncMag b = significand b / 2 ^ (-exponent b).toNat := by
          unfold truncMag; simp only; rw [if_neg (by omega)]
        rw [hT]
    · rename_i he
      split
      · rename_i he31
        -- 2^32 divides the magnitude
        split
        · have hT : truncMag b = significand b * 2 ^ (exponent b).toNat := by
            unfold truncMag; simp only; rw [if_pos (by omega)]
          rw [hT]
          have hdvd : 2^32 ∣ 2 ^ (exponent b).toNat := Nat.pow_dvd_pow 2 (by omega)
          obtain ⟨c, hc⟩ := hdvd
          rw [hc]
          have : significand b * (2 ^ 32 * c) = 4294967296 * (significand b * c) := by
            rw [show (2:Nat)^32 = 4294967296 by decide]; rw [Nat.mul_left_comm]
          rw [this]
          generalize significand b * c = Y
          unfold wrapS
          have h32 : (2:Int)^32 = 4294967296 := by decide
          have h31 : (2:Int)^(32-1) = 2147483648 := by decide
          simp only [h32, h31]
          rcases sign_cases b with hs | hs <;> rw [hs] <;> (split <;> omega)
        · rfl
      · have hfin : isFinite b = true := finite_of_exp_le b (by omega)
        rw [if_pos hfin]
        have hT : truncMag b = significand b * 2 ^ (exponent b).toNat := by
          unfold truncMag; simp only; rw [if_pos (by omega)]
        rw [hT]
        apply wrapS_congr
        have h32 : (2:Int)^32 = 4294967296 := by decide
        rw [h32]
        generalize significand b * 2 ^ (exponent b).toNat = X
        rcases sign_cases b with hs | hs <;> rw [hs] <;> omega

theorem wrapS32_mod (z : Int) :
    wrapS 32 z % 256 = z % 256 ∧ wrapS 32 z % 65536 = z % 65536 ∧ wrapS 32 z % 4294967296 = z % 4294967296 := by
  unfold wrapS
  have h32 : (2:Int)^32 = 4294967296 := by decide
  have h31 : (2:Int)^(32-1) = 2147483648 := by decide
  simp only [h32, h31]
  split <;> omega

end BoaVerif.C15
