/-
  C06 model: the polymorphic inline cache (core/engine/src/vm/inline_cache/mod.rs), the slot flags
  (object/shape/slot.rs) and the way `get_by_name` (vm/opcode/get/property.rs) uses a hit:
  an own-property entry reads the receiver's storage, a PROTOTYPE entry reads the storage of the
  prototype recorded in the receiver's shape — without looking at the prototype's current shape.
  Shapes are immutable records identified by an id (layout and prototype are functions of the id).
  Import-free.
-/
namespace BoaVerif.C06

def FLAG_GET : Nat := 8
def FLAG_PROTOTYPE : Nat := 32
def FLAG_FOUND : Nat := 64
def FLAG_NOT_CACHEABLE : Nat := 128

structure Slot where
  index : Nat
  attrs : Nat
  deriving Repr, DecidableEq

def hasFlag (a f : Nat) : Bool := a / f % 2 == 1
def Slot.isCacheable (s : Slot) : Bool := !hasFlag s.attrs FLAG_NOT_CACHEABLE && hasFlag s.attrs FLAG_FOUND
def Slot.inPrototype (s : Slot) : Bool := hasFlag s.attrs FLAG_PROTOTYPE

/-! ### the cache itself -/

def PIC_CAPACITY : Nat := 4

structure IC where
  entries : List (Nat × Slot) := []      -- (shape id, slot)
  megamorphic : Bool := false
  deriving Repr, DecidableEq

/-- `InlineCache::set` -/
def IC.set (ic : IC) (shape : Nat) (slot : Slot) : IC :=
  if ic.megamorphic then ic
  else if ic.entries.length < PIC_CAPACITY then { ic with entries := ic.entries ++ [(shape, slot)] }
  else { entries := [], megamorphic := true }

/-- `InlineCache::get` (all weak shapes alive) -/
def IC.get (ic : IC) (shape : Nat) : Option Slot :=
  if ic.megamorphic then none
  else (ic.entries.find? (fun e => e.1 == shape)).map (·.2)

/-- `ArrayVec::swap_remove(i)`: the opportunistic clean-up of an entry whose weak shape died -/
def IC.swapRemove (ic : IC) (i : Nat) : IC :=
  match ic.entries[i]?, ic.entries.getLast? with
  | some _, some last =>
    let n := ic.entries.length
    if i + 1 == n then { ic with entries := ic.entries.take (n - 1) }
    else { ic with entries := (ic.entries.set i last).take (n - 1) }
  | _, _ => ic

/-! ### heap: shapes, objects, lookup -/

structure Shape where
  layout : List (String × Slot)     -- own keys with their slots (flags without the cache bits)
  proto : Option Nat                -- prototype object id
  deriving Repr, DecidableEq

structure Obj where
  shape : Nat
  storage : List Int
  deriving Repr, DecidableEq

structure Heap where
  shapes : List Shape
  objs : List Obj
  deriving Repr, DecidableEq

def Heap.shapeOf (h : Heap) (o : Nat) : Option Shape := (h.objs[o]?).bind (fun ob => h.shapes[ob.shape]?)

def ownSlot (sh : Shape) (key : String) : Option Slot := (sh.layout.find? (fun p => p.1 == key)).map (·.2)

/-- OrdinaryGet over the prototype chain (data properties), `fuel` bounds the chain length -/
def uncachedGet (h : Heap) : Nat → Nat → String → Option Int
  | 0, _, _ => none
  | fuel + 1, o, key =>
    match h.objs[o]? with
    | none => none
    | some ob =>
      match h.shapes[ob.shape]? with
      | none => none
      | some sh =>
        match ownSlot sh key with
        | some s => ob.storage[s.index]?
        | none => match sh.proto with
          | some p => uncachedGet h fuel p key
          | none => none

/-- the slot `__get__` leaves in the property context: own hit → FOUND; hit on the direct prototype →
    FOUND | PROTOTYPE; deeper → not cacheable (`set_not_cacheable_if_already_prototype`) -/
def lookupSlot (h : Heap) (o : Nat) (key : String) : Option Slot :=
  match h.objs[o]? with
  | none => none
  | some ob =>
    match h.shapes[ob.shape]? with
    | none => none
    | some sh =>
      match ownSlot sh key with
      | some s => some { s with attrs := s.attrs + FLAG_FOUND }
      | none => match sh.proto with
        | none => none
        | some p => match h.shapeOf p with
          | none => none
          | some psh => match ownSlot psh key with
            | some s => some { s with attrs := s.attrs + FLAG_FOUND + FLAG_PROTOTYPE }
            | none => none

/-- what a cache hit reads (`get_by_name`, hit branch) — `none` models the out-of-bounds panic -/
def cachedRead (h : Heap) (o : Nat) (slot : Slot) : Option Int :=
  match h.objs[o]? with
  | none => none
  | some ob =>
    if slot.inPrototype then
      match (h.shapes[ob.shape]?).bind (·.proto) with
      | some p => (h.objs[p]?).bind (fun pob => pob.storage[slot.index]?)
      | none => none
    else ob.storage[slot.index]?

/-- `get_by_name` for one access site: returns the value read and the updated cache -/
def getByName (h : Heap) (ic : IC) (o : Nat) (key : String) : Option Int × IC :=
  match h.objs[o]? with
  | none => (none, ic)
  | some ob =>
    match ic.get ob.shape with
    | some slot => (cachedRead h o slot, ic)
    | none =>
      let r := uncachedGet h 8 o key
      match lookupSlot h o key with
      | some slot => if slot.isCacheable then (r, ic.set ob.shape slot) else (r, ic)
      | none => (r, ic)

end BoaVerif.C06
