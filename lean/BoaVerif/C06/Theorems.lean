/- C06 — inline caches are semantically transparent. Property theorems (and their small proofs). -/
import BoaVerif.C06.Model
namespace BoaVerif.C06

/-! ### the cache as a data structure -/

theorem ic_capacity (ic : IC) (h : ic.entries.length ≤ PIC_CAPACITY) (shape : Nat) (slot : Slot) :
    (ic.set shape slot).entries.length ≤ PIC_CAPACITY := by
  unfold IC.set PIC_CAPACITY at *
  split
  · exact h
  · split
    · simp; omega
    · simp

theorem megamorphic_latch (ic : IC) (hm : ic.megamorphic = true) (shape : Nat) (slot : Slot) :
    ic.set shape slot = ic ∧ ic.get shape = none := by
  unfold IC.set IC.get; simp [hm]

/-- a lookup only ever returns a slot that was stored for exactly that shape -/
theorem get_returns_stored (ic : IC) (shape : Nat) (slot : Slot) (h : ic.get shape = some slot) :
    (shape, slot) ∈ ic.entries := by
  unfold IC.get at h
  split at h
  · cases h
  · cases hf : ic.entries.find? (fun e => e.1 == shape) with
    | none => rw [hf] at h; cases h
    | some e =>
      rw [hf] at h
      simp only [Option.map_some, Option.some.injEq] at h
      have hm := List.mem_of_find?_eq_some hf
      have hk : e.1 = shape := by simpa using List.find?_some hf
      cases e; simp at hk h; subst hk; subst h; exact hm

theorem set_entries (ic : IC) (shape : Nat) (slot : Slot) (e : Nat × Slot) (he : e ∈ (ic.set shape slot).entries) :
    e ∈ ic.entries ∨ e = (shape, slot) := by
  unfold IC.set at he
  split at he
  · exact Or.inl he
  · split at he
    · simp at he; rcases he with he | he; exact Or.inl he; exact Or.inr he
    · cases he

/-! ### when is a cached slot right? -/

/-- an entry (shape, slot) for `key` is VALID in heap `h` if every object with that shape reads, through
    the slot, what the uncached lookup gives -/
def EntryValid (h : Heap) (key : String) (e : Nat × Slot) : Prop :=
  ∀ o ob, h.objs[o]? = some ob → ob.shape = e.1 → cachedRead h o e.2 = uncachedGet h 8 o key

/-- the layout is a function of the shape id: an own-property slot recorded on one object is right for
    every object of the same shape, in any heap with the same shape table -/
theorem own_entry_valid (h : Heap) (key : String) (shape : Nat) (sh : Shape) (s : Slot)
    (hsh : h.shapes[shape]? = some sh) (hs : ownSlot sh key = some s) (hflag : hasFlag s.attrs FLAG_PROTOTYPE = false)
    (hf2 : hasFlag (s.attrs + FLAG_FOUND) FLAG_PROTOTYPE = false) :
    EntryValid h key (shape, { s with attrs := s.attrs + FLAG_FOUND }) := by
  intro o ob hob hshape
  simp only at hshape
  unfold cachedRead uncachedGet
  simp only [hob, Slot.inPrototype, hf2, Bool.false_eq_true, ↓reduceIte, hshape, hsh, hs]

/-- a direct-prototype entry is right as long as the prototype object still has the shape it had when the
    entry was recorded (and the receiver's shape has no own property of that name) -/
theorem proto_entry_valid (h : Heap) (key : String) (shape p : Nat) (sh psh : Shape) (s : Slot) (pob : Obj)
    (hsh : h.shapes[shape]? = some sh) (hown : ownSlot sh key = none) (hp : sh.proto = some p)
    (hpob : h.objs[p]? = some pob) (hpsh : h.shapes[pob.shape]? = some psh) (hs : ownSlot psh key = some s)
    (hflag : hasFlag (s.attrs + FLAG_FOUND + FLAG_PROTOTYPE) FLAG_PROTOTYPE = true) :
    EntryValid h key (shape, { s with attrs := s.attrs + FLAG_FOUND + FLAG_PROTOTYPE }) := by
  intro o ob hob hshape
  simp only at hshape
  unfold cachedRead
  simp only [hob, Slot.inPrototype, hflag, ↓reduceIte, hshape, hsh, Option.bind_some, hp, hpob]
  show pob.storage[s.index]? = uncachedGet h 8 o key
  unfold uncachedGet
  simp only [hob, hshape, hsh, hown, hp]
  unfold uncachedGet
  simp only [hpob, hpsh, hs]

/-- TRANSPARENCY (partial): if every entry of the cache is valid in the current heap, `get_by_name`
    returns exactly what the uncached lookup returns — hit or miss, monomorphic, polymorphic or megamorphic -/
theorem cached_eq_uncached_partial (h : Heap) (ic : IC) (key : String) (o : Nat) (ob : Obj)
    (hob : h.objs[o]? = some ob) (hvalid : ∀ e ∈ ic.entries, EntryValid h key e) :
    (getByName h ic o key).1 = uncachedGet h 8 o key := by
  unfold getByName
  simp only [hob]
  cases hg : ic.get ob.shape with
  | some slot =>
    simp only
    exact hvalid _ (get_returns_stored ic ob.shape slot hg) o ob hob rfl
  | none =>
    simp only
    cases lookupSlot h o key with
    | none => rfl
    | some slot => simp only; split <;> rfl

/-- REFUTATION of the unrestricted statement on this tree: warm `o.b` through prototype p = {a, b},
    delete `p.a` (p gets a new shape in which b sits in slot 0, storage shrinks), read `o.b` again:
    the entry still says "slot 1 of the prototype" — out of bounds (`none`), whereas the uncached lookup finds 20. -/
def staleBefore : Heap :=
  { shapes := [ { layout := [("a", ⟨0, 7⟩), ("b", ⟨1, 7⟩)], proto := none },   -- 0: shape of p
                { layout := [], proto := some 0 },                             -- 1: shape of o (prototype p)
                { layout := [("b", ⟨0, 7⟩)], proto := none } ],                -- 2: shape of p after delete
    objs := [ { shape := 0, storage := [10, 20] }, { shape := 1, storage := [] } ] }
def staleAfter : Heap := { staleBefore with objs := [ { shape := 2, storage := [20] }, { shape := 1, storage := [] } ] }

theorem proto_entry_stale :
    let warm := (getByName staleBefore {} 1 "b").2
    (getByName staleBefore {} 1 "b").1 = some 20 ∧
    (getByName staleAfter warm 1 "b").1 = none ∧ uncachedGet staleAfter 8 1 "b" = some 20 := by decide

-- non-vacuity of `proto_entry_valid`: the warm entry of the scenario above is valid before the delete
example : (getByName staleBefore {} 1 "b").2.entries = [(1, ⟨1, 7 + FLAG_FOUND + FLAG_PROTOTYPE⟩)] := by decide

end BoaVerif.C06
