/-
  C01, second model: operators and coercions (ECMA-262 7.1 ToPrimitive / OrdinaryToPrimitive / ToNumber / ToString,
  7.2.13 IsLessThan, 7.2.14 IsLooselyEqual, 13.15.3 ApplyStringOrNumericBinaryOperator) over primitives and objects
  whose `valueOf` / `toString` are absent, return a primitive, return an object, or throw — with the ORDER of those
  user-visible calls recorded. Integers only (no fractions, no infinities); strings are ASCII. Import-free.
-/
namespace BoaVerif.C01.Coerce

inductive Prim
  | undef | null | bool (b : Bool) | num (n : Int) | nan | str (s : String)
  deriving Repr, DecidableEq

/-- what a user method does when called -/
inductive Ret
  | prim (p : Prim) | object | throws (tag : Nat)
  deriving Repr, DecidableEq

structure Obj where
  id : Nat
  valueOf : Option Ret      -- none: the property is `undefined` (not callable, skipped)
  toStr : Option Ret
  deriving Repr, DecidableEq

inductive Val
  | prim (p : Prim) | obj (o : Obj)
  deriving Repr, DecidableEq

inductive Err
  | typeError | thrown (tag : Nat)
  deriving Repr, DecidableEq

inductive Hint | default | number | string
  deriving Repr, DecidableEq

abbrev Log := List String
/-- a computation: result and the calls made so far (appended) -/
abbrev R (α : Type) := Except Err α × Log

def callM (name : String) (id : Nat) (m : Option Ret) (log : Log) : Option (Except Err Prim) × Log :=
  match m with
  | none => (none, log)
  | some (.prim p) => (some (.ok p), log ++ [name ++ toString id])
  | some .object => (none, log ++ [name ++ toString id])
  | some (.throws t) => (some (.error (.thrown t)), log ++ [name ++ toString id])

/-- ToPrimitive / OrdinaryToPrimitive -/
def toPrimitive (h : Hint) (v : Val) (log : Log) : R Prim :=
  match v with
  | .prim p => (.ok p, log)
  | .obj o =>
    let first := if h == .string then callM "s" o.id o.toStr log else callM "v" o.id o.valueOf log
    match first with
    | (some r, l1) => (r, l1)
    | (none, l1) =>
      let second := if h == .string then callM "v" o.id o.valueOf l1 else callM "s" o.id o.toStr l1
      match second with
      | (some r, l2) => (r, l2)
      | (none, l2) => (.error .typeError, l2)

-- ------------------------------------------------------------------ ToNumber on strings: optional white space, sign, digits
def digitsVal (cs : List Char) : Option Nat :=
  if cs.isEmpty then none else cs.foldl (fun acc c => match acc with
    | some a => if c.isDigit then some (a * 10 + (c.toNat - '0'.toNat)) else none
    | none => none) (some 0)

def trimWs (cs : List Char) : List Char := (cs.dropWhile (· == ' ')).reverse.dropWhile (· == ' ') |>.reverse

/-- a number or NaN -/
inductive Num | int (n : Int) | nan
  deriving Repr, DecidableEq

def strToNum (s : String) : Num :=
  match trimWs s.toList with
  | [] => .int 0
  | '-' :: r => (match digitsVal r with | some n => .int (-(n : Int)) | none => .nan)
  | '+' :: r => (match digitsVal r with | some n => .int n | none => .nan)
  | r => (match digitsVal r with | some n => .int n | none => .nan)

def toNumber : Prim → Num
  | .undef => .nan | .null => .int 0 | .bool b => .int (if b then 1 else 0) | .num n => .int n | .nan => .nan | .str s => strToNum s

def numToPrim : Num → Prim | .int n => .num n | .nan => .nan

def toStringP : Prim → String
  | .undef => "undefined" | .null => "null" | .bool b => if b then "true" else "false" | .num n => toString n | .nan => "NaN" | .str s => s

def typeOf : Val → String
  | .prim .undef => "undefined" | .prim .null => "object" | .prim (.bool _) => "boolean" | .prim (.num _) => "number" | .prim .nan => "number"
  | .prim (.str _) => "string" | .obj _ => "object"

def toBoolean : Val → Bool
  | .prim .undef => false | .prim .null => false | .prim (.bool b) => b | .prim (.num n) => n != 0 | .prim .nan => false
  | .prim (.str s) => !s.isEmpty | .obj _ => true

inductive BinOp | add | sub | mul | lt | gt | le | ge | eq | ne | seq | sne
  deriving Repr, DecidableEq
inductive UnOp | neg | plus | not | typeof | template | string | number
  deriving Repr, DecidableEq

def arith (op : BinOp) (a b : Num) : Num :=
  match a, b with
  | .int x, .int y => (match op with | .sub => .int (x - y) | .mul => .int (x * y) | _ => .int (x + y))
  | _, _ => .nan

/-- IsLessThan on primitives: some true / some false / none (undefined) -/
def lessThan (a b : Prim) : Option Bool :=
  match a, b with
  | .str x, .str y => some (x < y)
  | _, _ => (match toNumber a, toNumber b with | .int x, .int y => some (x < y) | _, _ => none)

def strictEq (a b : Val) : Bool :=
  match a, b with
  | .prim .nan, _ => false
  | _, .prim .nan => false
  | .prim x, .prim y => x == y
  | .obj x, .obj y => x.id == y.id
  | _, _ => false

/-- IsLooselyEqual; objects are converted with hint default -/
def looseEq (a b : Val) (log : Log) : R Bool :=
  match a, b with
  | .prim .undef, .prim .null => (.ok true, log)
  | .prim .null, .prim .undef => (.ok true, log)
  | .obj x, .obj y => (.ok (x.id == y.id), log)
  | .obj _, .prim .undef => (.ok false, log)
  | .obj _, .prim .null => (.ok false, log)
  | .prim .undef, .obj _ => (.ok false, log)
  | .prim .null, .obj _ => (.ok false, log)
  | .obj x, .prim q =>
    (match toPrimitive .default (.obj x) log with
     | (.ok p, l) => (.ok (primLoose p q), l)
     | (.error e, l) => (.error e, l))
  | .prim q, .obj x =>
    (match toPrimitive .default (.obj x) log with
     | (.ok p, l) => (.ok (primLoose q p), l)
     | (.error e, l) => (.error e, l))
  | .prim p, .prim q => (.ok (primLoose p q), log)
where
  primLoose (p q : Prim) : Bool :=
    match p, q with
    | .undef, .undef => true | .null, .null => true | .undef, .null => true | .null, .undef => true
    | .undef, _ => false | .null, _ => false | _, .undef => false | _, .null => false
    | .str x, .str y => x == y
    | .bool x, .bool y => x == y
    | _, _ => (match toNumber p, toNumber q with | .int x, .int y => x == y | _, _ => false)

def binary (op : BinOp) (a b : Val) (log : Log) : R Val :=
  match op with
  | .seq => (.ok (.prim (.bool (strictEq a b))), log)
  | .sne => (.ok (.prim (.bool (!strictEq a b))), log)
  | .eq => (match looseEq a b log with | (.ok r, l) => (.ok (.prim (.bool r)), l) | (.error e, l) => (.error e, l))
  | .ne => (match looseEq a b log with | (.ok r, l) => (.ok (.prim (.bool (!r))), l) | (.error e, l) => (.error e, l))
  | .add =>
    (match toPrimitive .default a log with
     | (.error e, l) => (.error e, l)
     | (.ok pa, l1) =>
       match toPrimitive .default b l1 with
       | (.error e, l) => (.error e, l)
       | (.ok pb, l2) =>
         match pa, pb with
         | .str _, _ => (.ok (.prim (.str (toStringP pa ++ toStringP pb))), l2)
         | _, .str _ => (.ok (.prim (.str (toStringP pa ++ toStringP pb))), l2)
         | _, _ => (.ok (.prim (numToPrim (arith .add (toNumber pa) (toNumber pb)))), l2))
  | .sub | .mul =>
    (match toPrimitive .number a log with
     | (.error e, l) => (.error e, l)
     | (.ok pa, l1) =>
       match toPrimitive .number b l1 with
       | (.error e, l) => (.error e, l)
       | (.ok pb, l2) => (.ok (.prim (numToPrim (arith op (toNumber pa) (toNumber pb)))), l2))
  | .lt | .gt | .le | .ge =>
    (match toPrimitive .number a log with
     | (.error e, l) => (.error e, l)
     | (.ok pa, l1) =>
       match toPrimitive .number b l1 with
       | (.error e, l) => (.error e, l)
       | (.ok pb, l2) =>
         let r := match op with
           | .lt => (lessThan pa pb).getD false
           | .gt => (lessThan pb pa).getD false
           | .le => (match lessThan pb pa with | some false => true | _ => false)
           | _ => (match lessThan pa pb with | some false => true | _ => false)
         (.ok (.prim (.bool r)), l2))

def unary (op : UnOp) (a : Val) (log : Log) : R Val :=
  match op with
  | .not => (.ok (.prim (.bool (!toBoolean a))), log)
  | .typeof => (.ok (.prim (.str (typeOf a))), log)
  | .neg =>
    (match toPrimitive .number a log with
     | (.error e, l) => (.error e, l)
     | (.ok p, l) => (.ok (.prim (match toNumber p with | .int n => .num (-n) | .nan => .nan)), l))
  | .plus | .number =>
    (match toPrimitive .number a log with
     | (.error e, l) => (.error e, l)
     | (.ok p, l) => (.ok (.prim (numToPrim (toNumber p))), l))
  | .template | .string =>
    (match toPrimitive .string a log with
     | (.error e, l) => (.error e, l)
     | (.ok p, l) => (.ok (.prim (.str (toStringP p))), l))

end BoaVerif.C01.Coerce
