/- C01 — core-language evaluation agrees with ECMAScript reference semantics. Theorems about the reference interpreter
   itself: the laws of completion records it is built from (they are what the correspondence run compares the engine with). -/
import BoaVerif.C01.Model
import BoaVerif.C01.Coerce
namespace BoaVerif.C01

/-- UpdateEmpty only ever fills in an empty value -/
theorem updateEmpty_value (c : Comp) (v w : Option Val) (h : c.value = some x) : (updateEmpty c v).value = some x := by
  cases c <;> simp_all [updateEmpty, Comp.value]
  all_goals (rename_i a; cases a <;> simp_all [updateEmpty, Comp.value])

theorem updateEmpty_idem (c : Comp) (v : Val) : updateEmpty (updateEmpty c (some v)) (some v) = updateEmpty c (some v) := by
  cases c with
  | normal a => cases a <;> rfl
  | brk l a => cases a <;> rfl
  | cont l a => cases a <;> rfl
  | ret _ => rfl
  | thr _ => rfl
  | fuel => rfl

/-- UpdateEmpty never changes the KIND of a completion: abrupt stays abrupt, with the same target -/
theorem updateEmpty_kind (c : Comp) (v : Option Val) :
    (match c, updateEmpty c v with
     | .normal _, .normal _ => True
     | .brk l _, .brk l' _ => l = l'
     | .cont l _, .cont l' _ => l = l'
     | .ret a, .ret b => a = b
     | .thr a, .thr b => a = b
     | .fuel, .fuel => True
     | _, _ => False) := by
  cases c with
  | normal a => cases a <;> simp [updateEmpty]
  | brk l a => cases a <;> simp [updateEmpty]
  | cont l a => cases a <;> simp [updateEmpty]
  | ret _ => simp [updateEmpty]
  | thr _ => simp [updateEmpty]
  | fuel => simp [updateEmpty]

/-- STATEMENT LISTS STOP AT AN ABRUPT COMPLETION: nothing after a statement that breaks, continues, returns or throws runs -/
theorem execL_abrupt (fuel : Nat) (s s' : St) (env : List Nat) (st : Stmt) (rest : List Stmt) (c : Comp)
    (h : exec fuel s env st = (s', c)) (hc : ∀ v, c ≠ .normal v) :
    execL (fuel + 1) s env (st :: rest) = (s', c) := by
  unfold execL
  rw [h]
  cases c with
  | normal v => exact absurd rfl (hc v)
  | brk l v => rfl
  | cont l v => rfl
  | ret v => rfl
  | thr v => rfl
  | fuel => rfl

/-- ... and otherwise the value of the list is the value of the rest, falling back on this statement's (UpdateEmpty) -/
theorem execL_normal (fuel : Nat) (s s' : St) (env : List Nat) (st : Stmt) (rest : List Stmt) (v : Option Val)
    (h : exec fuel s env st = (s', .normal v)) :
    execL (fuel + 1) s env (st :: rest) = ((execL fuel s' env rest).1, updateEmpty (execL fuel s' env rest).2 v) := by
  conv => lhs; unfold execL
  rw [h]

/-- A FINALLY BLOCK THAT COMPLETES ABRUPTLY OVERRIDES whatever the try block (or the handler) did -/
theorem finally_overrides (fuel : Nat) (s : St) (env : List Nat) (body fin : List Stmt) (s3 : St) (c3 : Comp)
    (h3 : execBlock fuel (execBlock fuel s env body).1 env fin = (s3, c3)) (hc3 : ∀ v, c3 ≠ .normal v)
    (hb : (match (execBlock fuel s env body).2 with | .fuel => false | _ => true) = true) :
    exec (fuel + 1) s env (.try_ body none none (some fin)) = (s3, c3) := by
  unfold exec
  simp only
  have hbb := hb
  generalize hr : execBlock fuel s env body = r at h3 hbb
  obtain ⟨s1, c1⟩ := r
  cases c1 with
  | fuel => simp at hbb
  | normal v => simp only [h3]; cases c3 <;> first | rfl | (exact absurd rfl (hc3 _))
  | brk l v => simp only [h3]; cases c3 <;> first | rfl | (exact absurd rfl (hc3 _))
  | cont l v => simp only [h3]; cases c3 <;> first | rfl | (exact absurd rfl (hc3 _))
  | ret v => simp only [h3]; cases c3 <;> first | rfl | (exact absurd rfl (hc3 _))
  | thr v => simp only [h3]; cases c3 <;> first | rfl | (exact absurd rfl (hc3 _))

/-- ... and one that completes normally lets the earlier completion through, its own value discarded -/
theorem finally_transparent (fuel : Nat) (s : St) (env : List Nat) (body fin : List Stmt) (s1 s3 : St) (c1 : Comp) (w : Option Val)
    (h1 : execBlock fuel s env body = (s1, c1)) (hnf : c1 ≠ .fuel)
    (h3 : execBlock fuel s1 env fin = (s3, .normal w)) :
    exec (fuel + 1) s env (.try_ body none none (some fin)) = (s3, updateEmpty c1 (some .undef)) := by
  unfold exec
  simp only [h1]
  cases c1 with
  | fuel => exact absurd rfl hnf
  | normal v => simp only [h3]
  | brk l v => simp only [h3]
  | cont l v => simp only [h3]
  | ret v => simp only [h3]
  | thr v => simp only [h3]

end BoaVerif.C01

-- ------------------------------------------------------------------ operators and coercions (second model)
namespace BoaVerif.C01.Coerce

/-- a primitive converts to itself and no user code runs -/
theorem toPrimitive_prim (h : Hint) (p : Prim) (log : Log) : toPrimitive h (.prim p) log = (.ok p, log) := rfl

/-- hint string: `toString` is consulted first, and when it answers with a primitive `valueOf` is never called -/
theorem toPrimitive_string_first (o : Obj) (p : Prim) (log : Log) (h : o.toStr = some (.prim p)) :
    toPrimitive .string (.obj o) log = (.ok p, log ++ ["s" ++ toString o.id]) := by
  simp [toPrimitive, callM, h]

/-- hints default and number: `valueOf` first; when it answers with a primitive `toString` is never called -/
theorem toPrimitive_valueOf_first (hint : Hint) (hh : hint ≠ .string) (o : Obj) (p : Prim) (log : Log) (h : o.valueOf = some (.prim p)) :
    toPrimitive hint (.obj o) log = (.ok p, log ++ ["v" ++ toString o.id]) := by
  cases hint <;> simp_all [toPrimitive, callM]

/-- when neither method yields a primitive the conversion is a TypeError (after trying both, in hint order) -/
theorem toPrimitive_typeError (hint : Hint) (o : Obj) (log : Log)
    (hv : o.valueOf = none ∨ o.valueOf = some .object) (hs : o.toStr = none ∨ o.toStr = some .object) :
    (toPrimitive hint (.obj o) log).1 = .error .typeError := by
  rcases hv with hv | hv <;> rcases hs with hs | hs <;> cases hint <;> simp [toPrimitive, callM, hv, hs]

/-- operators on primitives run no user code -/
theorem binary_prims_silent (op : BinOp) (p q : Prim) (log : Log) : (binary op (.prim p) (.prim q) log).2 = log := by
  cases op <;> simp only [binary, toPrimitive, looseEq] <;> (try rfl) <;> (cases p <;> cases q <;> rfl)

/-- LEFT FIRST: if converting the left operand fails, nothing of the right operand runs -/
theorem binary_left_failure_stops (op : BinOp) (a b : Val) (log : Log) (e : Err) (l : Log)
    (hop : op = .add ∨ op = .sub ∨ op = .mul ∨ op = .lt ∨ op = .gt ∨ op = .le ∨ op = .ge)
    (h : toPrimitive (if op = .add then .default else .number) a log = (.error e, l)) :
    binary op a b log = (.error e, l) := by
  rcases hop with rfl | rfl | rfl | rfl | rfl | rfl | rfl <;> simp_all [binary]

theorem numToPrim_numeric (r : Num) : (∃ n, Val.prim (numToPrim r) = .prim (.num n)) ∨ Val.prim (numToPrim r) = .prim .nan := by
  cases r with
  | int n => exact Or.inl ⟨n, rfl⟩
  | nan => exact Or.inr rfl

/-- `-`, `*` never produce a string -/
theorem arith_result_numeric (op : BinOp) (hop : op = .sub ∨ op = .mul) (a b : Val) (log : Log) (v : Val) (l : Log)
    (h : binary op a b log = (.ok v, l)) : (∃ n, v = .prim (.num n)) ∨ v = .prim .nan := by
  rcases hop with rfl | rfl <;>
  · simp only [binary] at h
    split at h
    · cases h
    · split at h
      · cases h
      · cases h
        exact numToPrim_numeric _

end BoaVerif.C01.Coerce
