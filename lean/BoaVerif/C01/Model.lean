/-
  C01 model: a reference interpreter for a core fragment of ECMAScript, written from the specification's own notions:
  completion records (normal / break / continue / return / throw, with completion VALUES and UpdateEmpty), lexical
  environments as mutable scope records (var hoisting to the function scope, let/const with the temporal dead zone,
  per-iteration copies of `for (let …)` bindings, closures capturing the chain), labels, try / catch / finally.
  Values are integers, booleans, strings, undefined, error objects (by class) and closures; `+ - *` on integers,
  `+` as string concatenation when either side is a string, `< <= === !==`, `&& || !`, `?:`, assignment, calls.
  The interpreter is total: it takes fuel (an out-of-fuel run is reported as such, never compared).  Import-free.
-/
namespace BoaVerif.C01

inductive Val
  | undef
  | nan                        -- the one non-integer number the fragment can produce (arithmetic on `undefined`)
  | num (n : Int)
  | bool (b : Bool)
  | str (s : String)
  | err (cls : String)         -- an error object of the given class (ReferenceError / TypeError)
  | fn (id : Nat)              -- a closure
  deriving Repr, DecidableEq, Inhabited

inductive BinOp | add | sub | mul | lt | le | seq | sne
  deriving Repr, DecidableEq

inductive DeclKind | var | let_ | const_
  deriving Repr, DecidableEq

mutual
  inductive Expr
    | lit (v : Val)
    | var (x : String)
    | assign (x : String) (e : Expr)
    | bin (op : BinOp) (a b : Expr)
    | and (a b : Expr)
    | or (a b : Expr)
    | not (a : Expr)
    | cond (c a b : Expr)
    | call (f : Expr) (args : List Expr)
    | func (params : List String) (body : List Stmt)
    | typeof (x : String)
  inductive Stmt
    | expr (e : Expr)
    | print (args : List Expr)
    | decl (k : DeclKind) (x : String) (init : Option Expr)
    | fdecl (name : String) (params : List String) (body : List Stmt)
    | block (body : List Stmt)
    | ite (c : Expr) (t : Stmt) (e : Option Stmt)
    | while_ (c : Expr) (body : Stmt)
    | doWhile (body : Stmt) (c : Expr)
    | for_ (k : DeclKind) (x : String) (init : Expr) (c : Expr) (upd : Expr) (body : Stmt)
    | labeled (l : String) (s : Stmt)
    | brk (l : Option String)
    | cont (l : Option String)
    | ret (e : Option Expr)
    | throw (e : Expr)
    | try_ (body : List Stmt) (param : Option String) (handler : Option (List Stmt)) (fin : Option (List Stmt))
end

structure Binding where
  name : String
  val : Option Val      -- none = declared but uninitialised (temporal dead zone)
  mutable : Bool
  deriving Repr

structure Closure where
  params : List String
  body : List Stmt
  env : List Nat

structure St where
  scopes : List (List Binding)   -- the heap of scope records; an environment is a list of indices, innermost first
  closures : List Closure
  out : List String               -- printed lines, most recent first

/-- completion records; `v` is the completion value (none = empty) -/
inductive Comp
  | normal (v : Option Val)
  | brk (l : Option String) (v : Option Val)
  | cont (l : Option String) (v : Option Val)
  | ret (v : Val)
  | thr (v : Val)
  | fuel
  deriving Repr

def updateEmpty (c : Comp) (v : Option Val) : Comp :=
  match c with
  | .normal none => .normal v
  | .brk l none => .brk l v
  | .cont l none => .cont l v
  | c => c

def Comp.value : Comp → Option Val
  | .normal v => v
  | .brk _ v => v
  | .cont _ v => v
  | _ => none

-- ------------------------------------------------------------------ values
def showInt (n : Int) : String := if n < 0 then "-" ++ toString n.natAbs else toString n.natAbs

def toStr : Val → String
  | .undef => "undefined"
  | .nan => "NaN"
  | .num n => showInt n
  | .bool b => if b then "true" else "false"
  | .str s => s
  | .err c => c
  | .fn _ => "function"

def truthy : Val → Bool
  | .undef => false
  | .nan => false
  | .num n => n != 0
  | .bool b => b
  | .str s => s != ""
  | .err _ => true
  | .fn _ => true

def typeOf : Val → String
  | .undef => "undefined"
  | .nan => "number"
  | .num _ => "number"
  | .bool _ => "boolean"
  | .str _ => "string"
  | .err _ => "object"
  | .fn _ => "function"

def strictEq : Val → Val → Bool
  | .undef, .undef => true
  | .num a, .num b => a == b
  | .bool a, .bool b => a == b
  | .str a, .str b => a == b
  | .fn a, .fn b => a == b
  | _, _ => false

/-- ToNumber on the fragment's values: `some none` is NaN; strings, errors and functions are outside the fragment -/
def toNum : Val → Option (Option Int)
  | .num n => some (some n)
  | .nan => some none
  | .undef => some none
  | .bool b => some (some (if b then 1 else 0))
  | _ => none

def arith (f : Int → Int → Int) (a b : Val) : Option Val :=
  match toNum a, toNum b with
  | some (some x), some (some y) => some (.num (f x y))
  | some _, some _ => some .nan
  | _, _ => none

def compare (f : Int → Int → Bool) (a b : Val) : Option Val :=
  match toNum a, toNum b with
  | some (some x), some (some y) => some (.bool (f x y))
  | some _, some _ => some (.bool false)
  | _, _ => none

/-- binary operators on the value domain of the fragment; `none` = outside the fragment (the generator never asks) -/
def binop (op : BinOp) (a b : Val) : Option Val :=
  match op, a, b with
  | .add, .str x, y => some (.str (x ++ toStr y))
  | .add, x, .str y => some (.str (toStr x ++ y))
  | .add, x, y => arith (· + ·) x y
  | .sub, x, y => arith (· - ·) x y
  | .mul, x, y => arith (· * ·) x y
  | .lt, x, y => compare (fun a b => decide (a < b)) x y
  | .le, x, y => compare (fun a b => decide (a ≤ b)) x y
  | .seq, x, y => some (.bool (strictEq x y))
  | .sne, x, y => some (.bool (!strictEq x y))

/-- the fragment's numbers are the integers a double holds exactly, its strings are short: a run that leaves this domain
    is abandoned (reported like an exhausted budget), never compared -/
def tooBig : Val → Bool
  | .num n => n.natAbs > 9007199254740992
  | .str x => x.length > 4096
  | _ => false

-- ------------------------------------------------------------------ environments
def lookupIn (sc : List Binding) (x : String) : Option Binding := sc.find? (fun b => b.name == x)

/-- resolve an identifier: the innermost scope of the chain that declares it -/
def resolve (s : St) : List Nat → String → Option (Nat × Binding)
  | [], _ => none
  | i :: rest, x =>
    match (s.scopes.getD i []) |> (lookupIn · x) with
    | some b => some (i, b)
    | none => resolve s rest x

def setIn (sc : List Binding) (x : String) (v : Val) : List Binding :=
  sc.map (fun b => if b.name == x then { b with val := some v } else b)

def writeScope (s : St) (i : Nat) (f : List Binding → List Binding) : St :=
  { s with scopes := s.scopes.set i (f (s.scopes.getD i [])) }

def newScope (s : St) (bs : List Binding) : St × Nat := ({ s with scopes := s.scopes ++ [bs] }, s.scopes.length)

def declare (s : St) (i : Nat) (b : Binding) : St :=
  writeScope s i (fun sc => if (lookupIn sc b.name).isSome then sc else sc ++ [b])

-- ------------------------------------------------------------------ hoisting
mutual
  /-- `var` names declared anywhere in a statement, not crossing function boundaries -/
  def varNames : Stmt → List String
    | .decl .var x _ => [x]
    | .block b => varNamesL b
    | .ite _ t e => varNames t ++ (match e with | some s => varNames s | none => [])
    | .while_ _ b => varNames b
    | .doWhile b _ => varNames b
    | .for_ k x _ _ _ b => (if k == .var then [x] else []) ++ varNames b
    | .labeled _ s => varNames s
    | .try_ b _ h f => varNamesL b ++ (match h with | some l => varNamesL l | none => []) ++ (match f with | some l => varNamesL l | none => [])
    | _ => []
  def varNamesL : List Stmt → List String
    | [] => []
    | s :: r => varNames s ++ varNamesL r
end

/-- let/const declared directly in a statement list: they exist, uninitialised, from the start of the block -/
def lexNames : List Stmt → List Binding
  | [] => []
  | .decl .let_ x _ :: r => { name := x, val := none, mutable := true } :: lexNames r
  | .decl .const_ x _ :: r => { name := x, val := none, mutable := false } :: lexNames r
  | _ :: r => lexNames r

def funDecls : List Stmt → List (String × List String × List Stmt)
  | [] => []
  | .fdecl n ps b :: r => (n, ps, b) :: funDecls r
  | _ :: r => funDecls r

/-- instantiate the function declarations of a statement list in scope `i` (closures over `env`) -/
def hoistFuns (s : St) (i : Nat) (env : List Nat) (fs : List (String × List String × List Stmt)) : St :=
  fs.foldl (fun s f =>
    let id := s.closures.length
    let s := { s with closures := s.closures ++ [{ params := f.2.1, body := f.2.2, env := env }] }
    let s := declare s i { name := f.1, val := some (.fn id), mutable := true }
    writeScope s i (fun sc => setIn sc f.1 (.fn id))) s

-- ------------------------------------------------------------------ evaluation
inductive R (α : Type)
  | ok (s : St) (a : α)
  | thr (s : St) (v : Val)
  | fuel

mutual
  def evalE : Nat → St → List Nat → Expr → R Val
    | 0, _, _, _ => .fuel
    | fuel + 1, s, env, e =>
      match e with
      | .lit v => .ok s v
      | .var x =>
        (match resolve s env x with
         | none => .thr s (.err "ReferenceError")
         | some (_, b) => match b.val with | some v => .ok s v | none => .thr s (.err "ReferenceError"))
      | .typeof x =>
        (match resolve s env x with
         | none => .ok s (.str "undefined")
         | some (_, b) => match b.val with | some v => .ok s (.str (typeOf v)) | none => .thr s (.err "ReferenceError"))
      | .assign x e1 =>
        -- the reference is resolved first, the value evaluated second, the binding checked last
        (match evalE fuel s env e1 with
         | .ok s v =>
           (match resolve s env x with
            | none => .thr s (.err "ReferenceError")      -- (the fragment runs in strict mode)
            | some (i, b) =>
              match b.val with
              | none => .thr s (.err "ReferenceError")
              | some _ => if b.mutable then .ok (writeScope s i (fun sc => setIn sc x v)) v else .thr s (.err "TypeError"))
         | r => r)
      | .bin op a b =>
        (match evalE fuel s env a with
         | .ok s va =>
           (match evalE fuel s env b with
            | .ok s vb => (match binop op va vb with
                           | some v => if tooBig v then .fuel else .ok s v     -- outside the fragment's value domain: give up
                           | none => .thr s (.err "OutsideFragment"))
            | r => r)
         | r => r)
      | .and a b => (match evalE fuel s env a with | .ok s va => if truthy va then evalE fuel s env b else .ok s va | r => r)
      | .or a b => (match evalE fuel s env a with | .ok s va => if truthy va then .ok s va else evalE fuel s env b | r => r)
      | .not a => (match evalE fuel s env a with | .ok s va => .ok s (.bool (!truthy va)) | r => r)
      | .cond c a b => (match evalE fuel s env c with | .ok s vc => if truthy vc then evalE fuel s env a else evalE fuel s env b | r => r)
      | .func ps body =>
        .ok { s with closures := s.closures ++ [{ params := ps, body := body, env := env }] } (.fn s.closures.length)
      | .call f args =>
        (match evalE fuel s env f with
         | .ok s vf =>
           (match evalArgs fuel s env args with
            | .ok s vs =>
              (match vf with
               | .fn id =>
                 (match s.closures[id]? with
                  | none => .thr s (.err "TypeError")
                  | some c =>
                    -- FunctionDeclarationInstantiation: parameters, hoisted vars and functions in one function scope,
                    -- top-level let/const of the body in the same record (simple parameter lists)
                    let params := c.params.zipIdx.map (fun (p, k) => ({ name := p, val := some (vs.getD k .undef), mutable := true } : Binding))
                    let (s, i) := newScope s params
                    let s := (varNamesL c.body).foldl (fun s x => declare s i { name := x, val := some .undef, mutable := true }) s
                    let s := (lexNames c.body).foldl (fun s b => declare s i b) s
                    let env' := i :: c.env
                    let s := hoistFuns s i env' (funDecls c.body)
                    match execL fuel s env' c.body with
                    | (s, .ret v) => .ok s v
                    | (s, .thr v) => .thr s v
                    | (_, .fuel) => .fuel
                    | (s, _) => .ok s .undef)
               | _ => .thr s (.err "TypeError"))
            | .thr s v => .thr s v
            | .fuel => .fuel)
         | r => r)
  def evalArgs : Nat → St → List Nat → List Expr → R (List Val)
    | 0, _, _, _ => .fuel
    | _ + 1, s, _, [] => .ok s []
    | fuel + 1, s, env, a :: rest =>
      match evalE fuel s env a with
      | .ok s v => (match evalArgs fuel s env rest with | .ok s vs => .ok s (v :: vs) | r => r)
      | .thr s v => .thr s v
      | .fuel => .fuel
  /-- a statement list in an environment whose innermost scope already holds its hoisted declarations -/
  def execL : Nat → St → List Nat → List Stmt → St × Comp
    | 0, s, _, _ => (s, .fuel)
    | _ + 1, s, _, [] => (s, .normal none)
    | fuel + 1, s, env, st :: rest =>
      match exec fuel s env st with
      | (s, .normal v) =>
        -- the value of a list is the last non-empty value (UpdateEmpty)
        (match execL fuel s env rest with
         | (s, c) => (s, updateEmpty c v))
      | r => r
  /-- a block: a fresh scope with its let/const (uninitialised) and its function declarations -/
  def execBlock : Nat → St → List Nat → List Stmt → St × Comp
    | 0, s, _, _ => (s, .fuel)
    | fuel + 1, s, env, body =>
      let (s, i) := newScope s (lexNames body)
      let s := hoistFuns s i (i :: env) (funDecls body)
      execL fuel s (i :: env) body
  def exec : Nat → St → List Nat → Stmt → St × Comp
    | 0, s, _, _ => (s, .fuel)
    | fuel + 1, s, env, st =>
      match st with
      | .expr e => (match evalE fuel s env e with | .ok s v => (s, .normal (some v)) | .thr s v => (s, .thr v) | .fuel => (s, .fuel))
      | .print args =>
        (match evalArgs fuel s env args with
         | .ok s vs => ({ s with out := " ".intercalate (vs.map toStr) :: s.out }, .normal (some .undef))
         | .thr s v => (s, .thr v)
         | .fuel => (s, .fuel))
      | .decl k x init =>
        (match init with
         | none =>
           if k == .var then (s, .normal none)
           else (match resolve s env x with
                 | some (i, _) => (writeScope s i (fun sc => setIn sc x .undef), .normal none)
                 | none => (s, .normal none))
         | some e =>
           (match evalE fuel s env e with
            | .ok s v =>
              (match resolve s env x with
               | some (i, _) => (writeScope s i (fun sc => setIn sc x v), .normal none)
               | none => (s, .normal none))
            | .thr s v => (s, .thr v)
            | .fuel => (s, .fuel)))
      | .fdecl _ _ _ => (s, .normal none)
      | .block body => execBlock fuel s env body
      | .ite c t e =>
        (match evalE fuel s env c with
         | .ok s vc =>
           let r := if truthy vc then exec fuel s env t else (match e with | some st => exec fuel s env st | none => (s, .normal none))
           (r.1, updateEmpty r.2 (some .undef))
         | .thr s v => (s, .thr v)
         | .fuel => (s, .fuel))
      | .while_ c body => loop fuel s env none [] (some c) none body none .undef
      | .doWhile body c => loop fuel s env none [] none (some c) body none .undef
      | .for_ k x init c upd body => execFor fuel s env [] k x init c upd body
      | .labeled l st =>
        (match st with
         | .while_ c body => loop fuel s env none [l] (some c) none body none .undef
         | .doWhile body c => loop fuel s env none [l] none (some c) body none .undef
         | .for_ k x init c upd body => execFor fuel s env [l] k x init c upd body
         | _ =>
           (match exec fuel s env st with
            | (s, .brk (some l') v) => if l' == l then (s, .normal v) else (s, .brk (some l') v)
            | r => r))
      | .brk l => (s, .brk l none)
      | .cont l => (s, .cont l none)
      | .ret e =>
        (match e with
         | none => (s, .ret .undef)
         | some e => (match evalE fuel s env e with | .ok s v => (s, .ret v) | .thr s v => (s, .thr v) | .fuel => (s, .fuel)))
      | .throw e => (match evalE fuel s env e with | .ok s v => (s, .thr v) | .thr s v => (s, .thr v) | .fuel => (s, .fuel))
      | .try_ body param handler fin =>
        let r1 := execBlock fuel s env body
        let r2 : St × Comp :=
          match r1, handler with
          | (s1, .thr v), some h =>
            (match param with
             | some p =>
               let (s1, i) := newScope s1 [{ name := p, val := some v, mutable := true }]
               execBlock fuel s1 (i :: env) h
             | none => execBlock fuel s1 env h)
          | r, _ => r
        (match fin with
         | none => (r2.1, updateEmpty r2.2 (some .undef))
         | some f =>
           (match r2.2 with
            | .fuel => r2
            | _ =>
              match execBlock fuel r2.1 env f with
              | (s3, .normal _) => (s3, updateEmpty r2.2 (some .undef))
              | r3 => r3))
  /-- ForLoopEvaluation: `var` initialises in the enclosing scope; `let`/`const` get a loop scope that is copied for the
      first and for every following iteration (CreatePerIterationEnvironment) -/
  def execFor : Nat → St → List Nat → List String → DeclKind → String → Expr → Expr → Expr → Stmt → St × Comp
    | 0, s, _, _, _, _, _, _, _, _ => (s, .fuel)
    | fuel + 1, s, env, labels, k, x, init, c, upd, body =>
      match k with
      | .var =>
        (match exec fuel s env (.expr (.assign x init)) with
         | (s, .normal _) => loop fuel s env none labels (some c) none body (some upd) .undef
         | r => r)
      | _ =>
        let (s, i) := newScope s [{ name := x, val := none, mutable := k == .let_ }]
        (match evalE fuel s (i :: env) init with
         | .ok s v =>
           let s := writeScope s i (fun sc => setIn sc x v)
           let (s, j) := newScope s (s.scopes.getD i [])
           loop fuel s (j :: env) (some x) labels (some c) none body (some upd) .undef
         | .thr s v => (s, .thr v)
         | .fuel => (s, .fuel))
  /-- LoopEvaluation for while / do-while / for: `labels` are the loop's own label set, `perIter` the name of a
      let-bound loop variable whose scope (the head of `env`) is copied before every iteration's update, `v` the value so far -/
  def loop : Nat → St → List Nat → Option String → List String → Option Expr → Option Expr → Stmt → Option Expr → Val → St × Comp
    | 0, s, _, _, _, _, _, _, _, _ => (s, .fuel)
    | fuel + 1, s, env, perIter, labels, pre, post, body, upd, v =>
      -- the leading test (while / for)
      let test : R Bool := match pre with
        | none => .ok s true
        | some c => (match evalE fuel s env c with | .ok s vc => .ok s (truthy vc) | .thr s e => .thr s e | .fuel => .fuel)
      match test with
      | .thr s e => (s, .thr e)
      | .fuel => (s, .fuel)
      | .ok s false => (s, .normal (some v))
      | .ok s true =>
        match exec fuel s env body with
        | (s, c) =>
          -- LoopContinues
          let v' := match c.value with | some x => x | none => v
          let continues : Bool := match c with
            | .normal _ => true
            | .cont none _ => true
            | .cont (some l) _ => labels.contains l
            | _ => false
          if !continues then
            (match c with
             | .brk none _ => (s, .normal (some v'))
             | .brk (some l) x => if labels.contains l then (s, .normal (some v')) else (s, .brk (some l) (match x with | some y => some y | none => some v'))
             | .cont l x => (s, .cont l (match x with | some y => some y | none => some v'))
             | c => (s, c))
          else
            -- per-iteration copy of the let binding, then the update expression, then the trailing test (do-while)
            let (s, env) := match perIter, env with
              | some _, i :: rest => let (s, j) := newScope s (s.scopes.getD i []); (s, j :: rest)
              | _, _ => (s, env)
            let afterUpd : R Unit := match upd with
              | none => .ok s ()
              | some u => (match evalE fuel s env u with | .ok s _ => .ok s () | .thr s e => .thr s e | .fuel => .fuel)
            match afterUpd with
            | .thr s e => (s, .thr e)
            | .fuel => (s, .fuel)
            | .ok s () =>
              let test2 : R Bool := match post with
                | none => .ok s true
                | some c => (match evalE fuel s env c with | .ok s vc => .ok s (truthy vc) | .thr s e => .thr s e | .fuel => .fuel)
              match test2 with
              | .thr s e => (s, .thr e)
              | .fuel => (s, .fuel)
              | .ok s false => (s, .normal (some v'))
              | .ok s true => loop fuel s env perIter labels pre post body upd v'
end

/-- a script: global scope with hoisted vars, top-level let/const and function declarations -/
def runScript (fuel : Nat) (body : List Stmt) : St × Comp :=
  let s0 : St := { scopes := [[]], closures := [], out := [] }
  let s := (varNamesL body).foldl (fun s x => declare s 0 { name := x, val := some .undef, mutable := true }) s0
  let s := (lexNames body).foldl (fun s b => declare s 0 b) s
  let s := hoistFuns s 0 [0] (funDecls body)
  execL fuel s [0] body

end BoaVerif.C01
