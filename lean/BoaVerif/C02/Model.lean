/-
  C02 model: the Integer32 fast paths of the arithmetic, bitwise, shift and update operators
  (core/engine/src/value/operations.rs: add/sub/mul/div/rem/pow/bit*/sh*/neg and the `*_fast` twins;
  vm/opcode/unary_ops/{increment,decrement}.rs), with Rust's own failure modes made explicit: an arithmetic
  overflow, a division or remainder by zero and `i32::MIN / -1`, `i32::MIN % -1` are `R.panic`.
  Integers are mathematical (`Int`); the i32 range is a predicate. Import-free.
-/
namespace BoaVerif.C02

def MIN : Int := -2147483648
def MAX : Int := 2147483647
def inRange (v : Int) : Prop := MIN ≤ v ∧ v ≤ MAX
instance (v : Int) : Decidable (inRange v) := by unfold inRange; exact inferInstance

/-- outcome of a fast path -/
inductive R
  | int (v : Int)            -- an Integer32 value
  | num (v : Int)            -- a double holding exactly this integer
  | negZero | nan | posInf | negInf
  | quot (x y : Int)         -- the double nearest to x / y
  | prod (x y : Int)         -- the double nearest to x * y
  | powf (x y : Int)         -- f64::from(x).powi(y)
  | panic (why : String)
  deriving Repr, DecidableEq

def R.isPanic : R → Bool | .panic _ => true | _ => false

-- ------------------------------------------------------------------ Rust primitives on i32
def checked (v : Int) : Option Int := if inRange v then some v else none
def checkedAdd (x y : Int) := checked (x + y)
def checkedSub (x y : Int) := checked (x - y)
def checkedMul (x y : Int) := checked (x * y)
def checkedNeg (x : Int) := checked (-x)
/-- `i32::checked_div`: None on a zero divisor and on MIN / -1 -/
def checkedDiv (x y : Int) : Option Int := if y = 0 then none else if x = MIN ∧ y = -1 then none else some (Int.tdiv x y)
/-- the `%` operator: panics on a zero divisor and on MIN % -1 (in every build profile) -/
def rustRem (x y : Int) : Except String Int :=
  if y = 0 then .error "attempt to calculate the remainder with a divisor of zero"
  else if x = MIN ∧ y = -1 then .error "attempt to calculate the remainder with overflow"
  else .ok (Int.tmod x y)
/-- `i32::wrapping_rem`: panics on a zero divisor only -/
def wrappingRem (x y : Int) : Except String Int :=
  if y = 0 then .error "attempt to calculate the remainder with a divisor of zero"
  else if x = MIN ∧ y = -1 then .ok 0
  else .ok (Int.tmod x y)
/-- the `*` operator with overflow checks -/
def rustMul (x y : Int) : Except String Int := if inRange (x * y) then .ok (x * y) else .error "attempt to multiply with overflow"
/-- `i32::checked_pow` (None iff the mathematical power leaves the range; see the trusted base) -/
def checkedPow (x : Int) (n : Nat) : Option Int := checked (x ^ n)

def b32 (x : Int) : BitVec 32 := BitVec.ofInt 32 x
/-- `y as u32` reduced modulo 32, the amount `wrapping_sh*` shifts by -/
def shAmt (y : Int) : Nat := (b32 y).toNat % 32

-- ------------------------------------------------------------------ the fast paths (Integer32, Integer32)
def quotF (x y : Int) : R :=
  if y = 0 then (if x = 0 then .nan else if 0 < x then .posInf else .negInf)
  else if x = 0 then (if y < 0 then .negZero else .num 0)
  else if Int.tmod x y = 0 then .num (Int.tdiv x y)
  else .quot x y

def add (x y : Int) : R := match checkedAdd x y with | some v => .int v | none => .num (x + y)
def sub (x y : Int) : R := match checkedSub x y with | some v => .int v | none => .num (x - y)
def mul (x y : Int) : R :=
  match checkedMul x y with
  | some v => if v ≠ 0 ∨ 0 ≤ min x y then .int v else .negZero
  | none => .prod x y
def div (x y : Int) : R :=
  match checkedDiv x y with
  | some d =>
    match rustMul y d with
    | .error e => .panic e
    | .ok p => if p = x ∧ (x ≠ 0 ∨ 0 < y) then .int d else quotF x y
  | none => quotF x y
def rem (x y : Int) : R :=
  if y = 0 then .nan
  else match wrappingRem x y with
    | .error e => .panic e
    | .ok r => if r = 0 ∧ x < 0 then .negZero else .int r
/-- the remainder as it was written before the repair (`x % y`) -/
def remOld (x y : Int) : R :=
  if y = 0 then .nan
  else match rustRem x y with
    | .error e => .panic e
    | .ok r => if r = 0 ∧ x < 0 then .negZero else .int r
def pow (x y : Int) : R :=
  if 0 ≤ y then (match checkedPow x y.toNat with | some v => .int v | none => .powf x y) else .powf x y
def band (x y : Int) : R := .int (b32 x &&& b32 y).toInt
def bor (x y : Int) : R := .int (b32 x ||| b32 y).toInt
def bxor (x y : Int) : R := .int (b32 x ^^^ b32 y).toInt
def shl (x y : Int) : R := .int (b32 x <<< shAmt y).toInt
def shr (x y : Int) : R := .int ((b32 x).sshiftRight (shAmt y)).toInt
def ushr (x y : Int) : R :=
  let v : Int := ((b32 x) >>> shAmt y).toNat
  if v ≤ MAX then .int v else .num v
def neg (x : Int) : R :=
  if x = 0 then .negZero else match checkedNeg x with | some v => .int v | none => .num (-x)
def inc (x : Int) : R := if x < MAX then .int (x + 1) else .num (x + 1)
def dec (x : Int) : R := if MIN < x then .int (x - 1) else .num (x - 1)

inductive Op | add | sub | mul | div | rem | pow | band | bor | bxor | shl | shr | ushr | neg | inc | dec
  deriving Repr, DecidableEq

def eval : Op → Int → Int → R
  | .add, x, y => add x y | .sub, x, y => sub x y | .mul, x, y => mul x y | .div, x, y => div x y
  | .rem, x, y => rem x y | .pow, x, y => pow x y | .band, x, y => band x y | .bor, x, y => bor x y
  | .bxor, x, y => bxor x y | .shl, x, y => shl x y | .shr, x, y => shr x y | .ushr, x, y => ushr x y
  | .neg, x, _ => neg x | .inc, x, _ => inc x | .dec, x, _ => dec x

end BoaVerif.C02
