/- C02 — the integer fast paths cannot fail internally. Property theorems. -/
import BoaVerif.C02.Model
namespace BoaVerif.C02

theorem checked_some {v w : Int} (h : checked v = some w) : w = v ∧ inRange w := by
  unfold checked at h
  split at h
  · cases h; exact ⟨rfl, by assumption⟩
  · cases h

/-- |y · (x quot y)| ≤ |x|: the product the division fast path computes to test exactness cannot overflow -/
theorem mul_tdiv_inRange (x y : Int) (hx : inRange x) (hy : inRange y) (hy0 : y ≠ 0) (hnot : ¬(x = MIN ∧ y = -1)) : inRange (y * Int.tdiv x y) := by
  have hle : (y * Int.tdiv x y).natAbs ≤ x.natAbs := by
    rw [Int.natAbs_mul, Int.natAbs_tdiv]
    exact Nat.mul_div_le _ _
  have hsplit := Int.mul_tdiv_add_tmod x y
  have hmod : (Int.tmod x y).natAbs < y.natAbs := by
    rw [Int.natAbs_tmod]; exact Nat.mod_lt _ (by omega)
  have hsign : x ≤ 0 → Int.tmod x y ≤ 0 := by
    intro hx0
    have h1 := Int.tmod_nonneg y (a := -x) (by omega)
    rw [Int.neg_tmod] at h1
    omega
  have hsign2 : 0 ≤ x → 0 ≤ Int.tmod x y := fun h => Int.tmod_nonneg y h
  generalize y * Int.tdiv x y = a at hle hsplit
  generalize Int.tmod x y = b at hmod hsign hsign2 hsplit
  unfold inRange MIN MAX at *
  by_cases hxn : 0 ≤ x
  · have := hsign2 hxn
    omega
  · have := hsign (by omega)
    by_cases hxm : x = -2147483648
    · -- x = MIN: a = MIN - b with b ≤ 0; a = 2^31 would need y = -1
      omega
    · omega

theorem wrappingRem_ok (x y : Int) (hy0 : y ≠ 0) : wrappingRem x y = .ok (if x = MIN ∧ y = -1 then 0 else Int.tmod x y) := by
  unfold wrappingRem; rw [if_neg hy0]; split <;> rfl

theorem rem_unfold (x y : Int) (hy0 : y ≠ 0) :
    rem x y = (if (if x = MIN ∧ y = -1 then 0 else Int.tmod x y) = 0 ∧ x < 0 then .negZero else .int (if x = MIN ∧ y = -1 then 0 else Int.tmod x y)) := by
  unfold rem; rw [if_neg hy0, wrappingRem_ok x y hy0]

/-- NO PANIC: on operands in the i32 range, no fast path reaches an arithmetic overflow, a zero divisor or `MIN % -1` -/
theorem fast_paths_never_panic (op : Op) (x y : Int) (hx : inRange x) (hy : inRange y) : (eval op x y).isPanic = false := by
  cases op <;> simp only [eval]
  · unfold add; split <;> rfl
  · unfold sub; split <;> rfl
  · unfold mul; split
    · split <;> rfl
    · rfl
  · -- div
    unfold div
    split
    · rename_i d hd
      unfold checkedDiv at hd
      split at hd
      · cases hd
      · split at hd
        · cases hd
        · rename_i hy0 hnot
          cases hd
          have := mul_tdiv_inRange x y hx hy hy0 hnot
          unfold rustMul
          rw [if_pos this]
          simp only
          split
          · rfl
          · unfold quotF; repeat (first | rfl | split)
    · unfold quotF; repeat (first | rfl | split)
  · -- rem
    by_cases hy0 : y = 0
    · unfold rem; rw [if_pos hy0]; rfl
    · rw [rem_unfold x y hy0]
      generalize (if x = MIN ∧ y = -1 then 0 else Int.tmod x y) = r
      split <;> rfl
  · unfold pow; repeat (first | rfl | split)
  · rfl
  · rfl
  · rfl
  · rfl
  · rfl
  · unfold ushr; simp only; split <;> rfl
  · unfold neg; repeat (first | rfl | split)
  · unfold inc; split <;> rfl
  · unfold dec; split <;> rfl

/-- the repair was needed: as written before, the remainder fast path panics on (MIN, -1) -/
theorem remOld_panics : (remOld MIN (-1)).isPanic = true := by decide

/-- NO SILENT WRAP: an Integer32 result is in the i32 range -/
theorem int_results_in_range (op : Op) (x y v : Int) (hx : inRange x) (hy : inRange y) (h : eval op x y = .int v) : inRange v := by
  cases op <;> simp only [eval] at h
  · unfold add checkedAdd at h; split at h
    · rename_i hc; cases h; exact (checked_some hc).2
    · cases h
  · unfold sub checkedSub at h; split at h
    · rename_i hc; cases h; exact (checked_some hc).2
    · cases h
  · unfold mul checkedMul at h; split at h
    · rename_i hc; split at h
      · cases h; exact (checked_some hc).2
      · cases h
    · cases h
  · -- div: d = x quot y with |d| ≤ |x|, and (MIN, -1) excluded
    unfold div at h
    split at h
    · rename_i d hd
      split at h
      · cases h
      · split at h
        · rename_i p hp hpx
          cases h
          unfold rustMul at hp
          split at hp
          · cases hp
            unfold checkedDiv at hd
            split at hd
            · cases hd
            · split at hd
              · cases hd
              · rename_i hy0 hnot
                cases hd
                -- y * v = x with y ≠ 0: |v| ≤ |x|
                have hyv : y * Int.tdiv x y = x := hpx.1
                generalize Int.tdiv x y = v at hyv
                have hab : v.natAbs ≤ x.natAbs := by
                  have : x.natAbs = y.natAbs * v.natAbs := by rw [← hyv, Int.natAbs_mul]
                  have hy1 : 1 ≤ y.natAbs := by omega
                  rw [this]
                  exact Nat.le_mul_of_pos_left _ hy1
                unfold inRange MIN MAX at *
                by_cases hv : v = 2147483648
                · subst hv
                  have : x.natAbs = 2147483648 := by omega
                  have hxm : x = -2147483648 := by omega
                  subst hxm
                  have : y = -1 := by omega
                  exact absurd ⟨rfl, this⟩ hnot
                · omega
          · cases hp
        · unfold quotF at h; repeat (first | cases h | split at h)
    · unfold quotF at h; repeat (first | cases h | split at h)
  · -- rem: |x rem y| < |y|
    by_cases hy0 : y = 0
    · unfold rem at h; rw [if_pos hy0] at h; cases h
    · rw [rem_unfold x y hy0] at h
      generalize hr : (if x = MIN ∧ y = -1 then 0 else Int.tmod x y) = r at h
      split at h
      · cases h
      · cases h
        have h1 : (Int.tmod x y).natAbs < y.natAbs := by rw [Int.natAbs_tmod]; exact Nat.mod_lt _ (by omega)
        unfold inRange MIN MAX at *
        split at hr <;> omega
  · unfold pow checkedPow at h
    split at h
    · split at h
      · rename_i hc; cases h; exact (checked_some hc).2
      · cases h
    · cases h
  · unfold band at h; cases h
    have h1 := BitVec.le_toInt (b32 x &&& b32 y); have h2 := BitVec.toInt_lt (x := b32 x &&& b32 y)
    unfold inRange MIN MAX; omega
  · unfold bor at h; cases h
    have h1 := BitVec.le_toInt (b32 x ||| b32 y); have h2 := BitVec.toInt_lt (x := b32 x ||| b32 y)
    unfold inRange MIN MAX; omega
  · unfold bxor at h; cases h
    have h1 := BitVec.le_toInt (b32 x ^^^ b32 y); have h2 := BitVec.toInt_lt (x := b32 x ^^^ b32 y)
    unfold inRange MIN MAX; omega
  · unfold shl at h; cases h
    have h1 := BitVec.le_toInt (b32 x <<< shAmt y); have h2 := BitVec.toInt_lt (x := b32 x <<< shAmt y)
    unfold inRange MIN MAX; omega
  · unfold shr at h; cases h
    have h1 := BitVec.le_toInt ((b32 x).sshiftRight (shAmt y)); have h2 := BitVec.toInt_lt (x := (b32 x).sshiftRight (shAmt y))
    unfold inRange MIN MAX; omega
  · unfold ushr at h; simp only at h; split at h
    · cases h; unfold inRange MIN MAX at *; omega
    · cases h
  · unfold neg checkedNeg at h
    split at h
    · cases h
    · split at h
      · rename_i hc; cases h; exact (checked_some hc).2
      · cases h
  · unfold inc at h; split at h
    · cases h; unfold inRange MIN MAX at *; omega
    · cases h
  · unfold dec at h; split at h
    · cases h; unfold inRange MIN MAX at *; omega
    · cases h

-- ------------------------------------------------------------------ exactness of the integer results
theorem add_exact (x y v : Int) (h : add x y = .int v) : v = x + y := by
  unfold add checkedAdd at h; split at h
  · rename_i hc; cases h; exact (checked_some hc).1
  · cases h

theorem sub_exact (x y v : Int) (h : sub x y = .int v) : v = x - y := by
  unfold sub checkedSub at h; split at h
  · rename_i hc; cases h; exact (checked_some hc).1
  · cases h

/-- an integer product is exact and is not a case where JavaScript requires -0 -/
theorem mul_exact (x y v : Int) (h : mul x y = .int v) : v = x * y ∧ (v ≠ 0 ∨ (0 ≤ x ∧ 0 ≤ y)) := by
  unfold mul checkedMul at h; split at h
  · rename_i hc; split at h
    · rename_i hcond; cases h
      refine ⟨(checked_some hc).1, ?_⟩
      rcases hcond with h1 | h1
      · exact Or.inl h1
      · exact Or.inr (by omega)
    · cases h
  · cases h

/-- an integer quotient is exact and is not a case where JavaScript requires -0 -/
theorem div_exact (x y v : Int) (h : div x y = .int v) : y * v = x ∧ y ≠ 0 ∧ (x ≠ 0 ∨ 0 < y) := by
  unfold div at h
  split at h
  · rename_i d hd
    split at h
    · cases h
    · split at h
      · rename_i p hp hpx
        cases h
        unfold rustMul at hp
        split at hp
        · cases hp
          unfold checkedDiv at hd
          split at hd
          · cases hd
          · rename_i hy0; exact ⟨hpx.1, hy0, hpx.2⟩
        · cases hp
      · unfold quotF at h; repeat (first | cases h | split at h)
  · unfold quotF at h; repeat (first | cases h | split at h)

/-- an integer remainder is the truncated remainder and is not a case where JavaScript requires -0 -/
theorem rem_exact (x y v : Int) (h : rem x y = .int v) : y ≠ 0 ∧ (v ≠ 0 ∨ 0 ≤ x) ∧ (¬(x = MIN ∧ y = -1) → v = Int.tmod x y) := by
  by_cases hy0 : y = 0
  · unfold rem at h; rw [if_pos hy0] at h; cases h
  · rw [rem_unfold x y hy0] at h
    generalize hr : (if x = MIN ∧ y = -1 then 0 else Int.tmod x y) = r at h
    split at h
    · cases h
    · rename_i hcond
      cases h
      refine ⟨hy0, by omega, fun hn => by rw [if_neg hn] at hr; exact hr.symm⟩

theorem neg_exact (x v : Int) (h : neg x = .int v) : v = -x ∧ x ≠ 0 := by
  unfold neg checkedNeg at h
  split at h
  · cases h
  · rename_i hx0; split at h
    · rename_i hc; cases h; exact ⟨(checked_some hc).1, hx0⟩
    · cases h

-- non-vacuity: both kinds of outcome occur on operands in range
example : inRange MIN ∧ inRange (-1) ∧ div MIN (-1) = .num 2147483648 ∧ rem MIN (-1) = .negZero ∧ div 0 (-5) = .negZero ∧ div 6 3 = .int 2 ∧ mul 0 (-3) = .negZero := by
  decide

end BoaVerif.C02
