/- C20 — determinism of property-key order under any storage order; realm isolation. Property theorems. -/
import BoaVerif.C20.Model
import BoaVerif.Gen.Statics
namespace BoaVerif.C20

-- ------------------------------------------------------------------ sorting is a function of the set of keys
theorem insertNat_perm (n : Nat) (l : List Nat) : (insertNat n l).Perm (n :: l) := by
  induction l with
  | nil => exact List.Perm.refl _
  | cons m r ih =>
    unfold insertNat
    split
    · exact List.Perm.refl _
    · exact ((List.Perm.cons m ih).trans (List.Perm.swap n m r))

theorem sortNat_perm (l : List Nat) : (sortNat l).Perm l := by
  induction l with
  | nil => exact List.Perm.refl _
  | cons n r ih => exact (insertNat_perm n (sortNat r)).trans (List.Perm.cons n ih)

theorem insertNat_sorted (n : Nat) (l : List Nat) (h : l.Pairwise (· ≤ ·)) : (insertNat n l).Pairwise (· ≤ ·) := by
  induction l with
  | nil => simp [insertNat]
  | cons m r ih =>
    unfold insertNat
    rw [List.pairwise_cons] at h
    split
    · rename_i hle
      refine List.pairwise_cons.mpr ⟨?_, List.pairwise_cons.mpr h⟩
      intro a ha
      rcases List.mem_cons.mp ha with rfl | ha
      · exact hle
      · exact Nat.le_trans hle (h.1 a ha)
    · rename_i hnle
      refine List.pairwise_cons.mpr ⟨?_, ih h.2⟩
      intro a ha
      have := (insertNat_perm n r).mem_iff.mp ha
      rcases List.mem_cons.mp this with rfl | ha
      · omega
      · exact h.1 a ha

theorem sortNat_sorted (l : List Nat) : (sortNat l).Pairwise (· ≤ ·) := by
  induction l with
  | nil => simp [sortNat]
  | cons n r ih => exact insertNat_sorted n _ ih

theorem sorted_perm_eq : ∀ (a b : List Nat), a.Pairwise (· ≤ ·) → b.Pairwise (· ≤ ·) → a.Perm b → a = b := by
  intro a
  induction a with
  | nil => intro b _ _ h; exact (List.Perm.nil_eq h)
  | cons x xs ih =>
    intro b ha hb h
    cases b with
    | nil => exact absurd h.symm (by intro h'; have := h'.length_eq; simp at this)
    | cons y ys =>
      rw [List.pairwise_cons] at ha hb
      have hx : x ∈ y :: ys := h.mem_iff.mp (List.mem_cons_self)
      have hy : y ∈ x :: xs := h.mem_iff.mpr (List.mem_cons_self)
      have hxy : x = y := by
        rcases List.mem_cons.mp hx with rfl | hx
        · rfl
        · rcases List.mem_cons.mp hy with rfl | hy
          · rfl
          · have := hb.1 x hx; have := ha.1 y hy; omega
      subst hxy
      rw [ih ys ha.2 hb.2 (List.Perm.cons_inv h)]

/-- THE ORDER OF INDEX KEYS DOES NOT DEPEND ON THE STORAGE: whatever order a hash map (seed, addresses, history of
    rehashes) yields, the reported order is the same -/
theorem sortNat_storage_independent (a b : List Nat) (h : a.Perm b) : sortNat a = sortNat b :=
  sorted_perm_eq _ _ (sortNat_sorted a) (sortNat_sorted b) ((sortNat_perm a).trans (h.trans (sortNat_perm b).symm))

/-- a storage is admissible when it only chooses a position -/
def Admissible (place : Storage) : Prop := ∀ n l, (place n l).Perm (n :: l)

theorem apply_related (p1 p2 : Storage) (h1 : Admissible p1) (h2 : Admissible p2) (o1 o2 : Obj) (op : Op)
    (hi : o1.idx.Perm o2.idx) (hn : o1.named = o2.named) :
    (o1.apply p1 op).idx.Perm (o2.apply p2 op).idx ∧ (o1.apply p1 op).named = (o2.apply p2 op).named := by
  cases op with
  | set k =>
    cases k with
    | idx n =>
      simp only [Obj.apply, Obj.addIdx]
      have hc : o1.idx.contains n = o2.idx.contains n := by
        have := hi.mem_iff (a := n)
        cases h1c : o1.idx.contains n <;> cases h2c : o2.idx.contains n <;> simp_all
      rw [hc]
      split
      · exact ⟨hi, hn⟩
      · exact ⟨(h1 n _).trans ((List.Perm.cons n hi).trans (h2 n _).symm), hn⟩
    | str s => simp only [Obj.apply, Obj.addNamed]; rw [hn]; split <;> first | exact ⟨hi, hn⟩ | exact ⟨hi, rfl⟩
    | sym s => simp only [Obj.apply, Obj.addNamed]; rw [hn]; split <;> first | exact ⟨hi, hn⟩ | exact ⟨hi, rfl⟩
  | del k =>
    cases k with
    | idx n => simp only [Obj.apply, Obj.delIdx]; exact ⟨hi.erase n, hn⟩
    | str s => simp only [Obj.apply, Obj.delNamed]; rw [hn]; exact ⟨hi, rfl⟩
    | sym s => simp only [Obj.apply, Obj.delNamed]; rw [hn]; exact ⟨hi, rfl⟩

theorem run_related (p1 p2 : Storage) (h1 : Admissible p1) (h2 : Admissible p2) (ops : List Op) (o1 o2 : Obj)
    (hi : o1.idx.Perm o2.idx) (hn : o1.named = o2.named) :
    (ops.foldl (Obj.apply p1) o1).idx.Perm (ops.foldl (Obj.apply p2) o2).idx ∧
    (ops.foldl (Obj.apply p1) o1).named = (ops.foldl (Obj.apply p2) o2).named := by
  induction ops generalizing o1 o2 with
  | nil => exact ⟨hi, hn⟩
  | cons op r ih =>
    obtain ⟨a, b⟩ := apply_related p1 p2 h1 h2 o1 o2 op hi hn
    exact ih _ _ a b

/-- OWN KEYS ARE A FUNCTION OF THE HISTORY ALONE: any two admissible storages — two hash seeds, two allocation
    histories — report the same key order after the same operations, for every sequence of operations -/
theorem ownKeys_storage_independent (p1 p2 : Storage) (h1 : Admissible p1) (h2 : Admissible p2) (ops : List Op) :
    (Obj.run p1 ops).ownKeys = (Obj.run p2 ops).ownKeys := by
  obtain ⟨a, b⟩ := run_related p1 p2 h1 h2 ops Obj.empty Obj.empty (List.Perm.refl _) rfl
  unfold Obj.ownKeys Obj.run
  rw [sortNat_storage_independent _ _ a, b]

theorem placeFront_admissible : Admissible placeFront := fun _ _ => List.Perm.refl _
theorem placeBack_admissible : Admissible placeBack := fun n l => by
  unfold placeBack
  exact List.perm_append_singleton n l

-- ------------------------------------------------------------------ the model's order is the specification's
def notIdx (k : Key) : Bool := !k.isIdx

theorem idxOf_append (a b : List Key) : idxOf (a ++ b) = idxOf a ++ idxOf b := by
  induction a with
  | nil => rfl
  | cons k r ih => cases k <;> simp [idxOf, ih]

theorem mem_idxOf (l : List Key) (n : Nat) : n ∈ idxOf l ↔ Key.idx n ∈ l := by
  induction l with
  | nil => simp [idxOf]
  | cons k r ih => cases k <;> simp [idxOf, ih]

theorem idxOf_erase_idx (l : List Key) (n : Nat) : idxOf (l.erase (.idx n)) = (idxOf l).erase n := by
  induction l with
  | nil => rfl
  | cons k r ih =>
    cases k with
    | idx m =>
      by_cases h : m = n
      · subst h; simp [idxOf]
      · have h1 : (Key.idx m == Key.idx n) = false := by simp [h]
        have h2 : (m == n) = false := by simp [h]
        rw [List.erase_cons, h1]
        simp only [idxOf, Bool.false_eq_true, ↓reduceIte]
        rw [List.erase_cons, h2]
        simp [ih]
    | str s => rw [List.erase_cons]; simp [idxOf, ih]
    | sym s => rw [List.erase_cons]; simp [idxOf, ih]

theorem idxOf_erase_named (l : List Key) (k : Key) (hk : k.isIdx = false) : idxOf (l.erase k) = idxOf l := by
  induction l with
  | nil => rfl
  | cons a r ih =>
    rw [List.erase_cons]
    by_cases h : a = k
    · subst h; cases a <;> simp_all [idxOf, Key.isIdx]
    · have : (a == k) = false := by simp [h]
      rw [this]; cases a <;> simp [idxOf, ih]

theorem filter_erase_idx (l : List Key) (n : Nat) : (l.erase (.idx n)).filter notIdx = l.filter notIdx := by
  induction l with
  | nil => rfl
  | cons a r ih =>
    rw [List.erase_cons]
    by_cases h : a = .idx n
    · subst h; simp [notIdx, Key.isIdx]
    · have : (a == Key.idx n) = false := by simp [h]
      rw [this]; simp [List.filter_cons, ih]

theorem filter_erase_named (l : List Key) (k : Key) (hk : k.isIdx = false) : (l.filter notIdx).erase k = (l.erase k).filter notIdx := by
  induction l with
  | nil => rfl
  | cons a r ih =>
    by_cases ha : notIdx a = true
    · rw [List.filter_cons, if_pos ha, List.erase_cons, List.erase_cons]
      by_cases h : a = k
      · subst h; simp
      · have : (a == k) = false := by simp [h]
        rw [this]; simp [ha, ih]
    · have hane : a ≠ k := by intro h; subst h; simp [notIdx, hk] at ha
      have : (a == k) = false := by simp [hane]
      rw [List.filter_cons, if_neg ha, List.erase_cons, this]
      simp [ha, ih]

def Rel (o : Obj) (live : List Key) : Prop := o.idx.Perm (idxOf live) ∧ o.named = live.filter notIdx

theorem rel_step (place : Storage) (hp : Admissible place) (o : Obj) (live : List Key) (op : Op) (h : Rel o live) :
    Rel (o.apply place op) (liveKeys live op) := by
  obtain ⟨hi, hn⟩ := h
  have named_mem : ∀ k : Key, k.isIdx = false → (o.named.contains k = live.contains k) := by
    intro k hk
    rw [hn]
    have : k ∈ live.filter notIdx ↔ k ∈ live := by simp [List.mem_filter, notIdx, hk]
    cases h1 : (live.filter notIdx).contains k <;> cases h2 : live.contains k <;> simp_all
  have add_named : ∀ k : Key, k.isIdx = false → Rel (o.addNamed k) (liveKeys live (.set k)) := by
    intro k hk
    simp only [Obj.addNamed, liveKeys]
    rw [named_mem k hk]
    split
    · exact ⟨hi, hn⟩
    · refine ⟨?_, ?_⟩
      · rw [idxOf_append]; cases k <;> simp_all [idxOf, Key.isIdx]
      · simp only; rw [hn, List.filter_append]; simp [List.filter_cons, notIdx, hk]
  have del_named : ∀ k : Key, k.isIdx = false → Rel (o.delNamed k) (liveKeys live (.del k)) := by
    intro k hk
    simp only [Obj.delNamed, liveKeys]
    refine ⟨?_, ?_⟩
    · simp only; rw [idxOf_erase_named live k hk]; exact hi
    · simp only; rw [hn, filter_erase_named live k hk]
  cases op with
  | set k =>
    cases k with
    | idx n =>
      simp only [Obj.apply, Obj.addIdx, liveKeys]
      have hc : o.idx.contains n = live.contains (.idx n) := by
        have h1 := hi.mem_iff (a := n)
        have h2 := mem_idxOf live n
        cases h3 : o.idx.contains n <;> cases h4 : live.contains (Key.idx n) <;> simp_all
      rw [hc]
      split
      · exact ⟨hi, hn⟩
      · refine ⟨?_, ?_⟩
        · simp only; rw [idxOf_append]
          simp only [idxOf]
          exact (hp n _).trans ((List.Perm.cons n hi).trans (List.perm_append_singleton n _).symm)
        · simp only; rw [hn, List.filter_append]; simp [notIdx, Key.isIdx]
    | str s => exact add_named (.str s) rfl
    | sym s => exact add_named (.sym s) rfl
  | del k =>
    cases k with
    | idx n =>
      simp only [Obj.apply, Obj.delIdx, liveKeys]
      refine ⟨?_, ?_⟩
      · simp only; rw [idxOf_erase_idx]; exact hi.erase n
      · simp only; rw [hn, filter_erase_idx]
    | str s => exact del_named (.str s) rfl
    | sym s => exact del_named (.sym s) rfl

theorem rel_run (place : Storage) (hp : Admissible place) (ops : List Op) (o : Obj) (live : List Key) (h : Rel o live) :
    Rel (ops.foldl (Obj.apply place) o) (ops.foldl liveKeys live) := by
  induction ops generalizing o live with
  | nil => exact h
  | cons op r ih => exact ih _ _ (rel_step place hp o live op h)

theorem filter_str_notIdx (l : List Key) : (l.filter notIdx).filter Key.isStr = l.filter Key.isStr := by
  rw [List.filter_filter]; apply List.filter_congr; intro k _; cases k <;> rfl

theorem filter_sym_notIdx (l : List Key) : (l.filter notIdx).filter Key.isSym = l.filter Key.isSym := by
  rw [List.filter_filter]; apply List.filter_congr; intro k _; cases k <;> rfl

/-- THE MODEL'S ORDER IS THE SPECIFICATION'S: for every admissible storage and every history, the reported keys are
    the ascending array indices, then the string keys, then the symbols, each in order of (latest) creation -/
theorem ownKeys_eq_spec (place : Storage) (hp : Admissible place) (ops : List Op) : (Obj.run place ops).ownKeys = specKeys ops := by
  obtain ⟨hi, hn⟩ := rel_run place hp ops Obj.empty [] ⟨List.Perm.refl _, rfl⟩
  unfold Obj.ownKeys specKeys Obj.run
  simp only
  rw [sortNat_storage_independent _ _ hi, hn, filter_str_notIdx, filter_sym_notIdx]


-- ------------------------------------------------------------------ realms
theorem runIn_other (w : World) (r r' : Nat) (ops : List ROp) (h : r' ≠ r) : (runIn w r ops).1 r' = w r' := by
  unfold runIn; simp [h]

theorem runIn_trace_local (w w' : World) (r : Nat) (ops : List ROp) (h : w r = w' r) : (runIn w r ops).2 = (runIn w' r ops).2 := by
  unfold runIn; simp [h]

theorem history_other (w : World) (h : List (Nat × List ROp)) (r : Nat) (hne : ∀ e ∈ h, e.1 ≠ r) : (runHistory w h) r = w r := by
  induction h generalizing w with
  | nil => rfl
  | cons e t ih =>
    obtain ⟨q, ops⟩ := e
    unfold runHistory
    rw [ih _ (fun e he => hne e (List.mem_cons_of_mem _ he))]
    exact runIn_other w q r ops (fun hh => hne (q, ops) (List.mem_cons_self) hh.symm)

/-- ISOLATION: whatever scripts ran before in OTHER realms (including ones that overwrite every slot they can reach),
    a script prints what it prints in a world where nothing ran -/
theorem isolation (w : World) (h : List (Nat × List ROp)) (r : Nat) (p : List ROp) (hne : ∀ e ∈ h, e.1 ≠ r) :
    (runIn (runHistory w h) r p).2 = (runIn w r p).2 :=
  runIn_trace_local _ _ r p (history_other w h r hne)

/-- the hypothesis is needed: a history in the SAME realm is visible -/
example : (runIn (runHistory (fun _ _ => 0) [(1, [.set 0 5])]) 1 [.get 0]).2 = [5] ∧ (runIn (fun _ _ => 0) 1 [.get 0]).2 = [0] := by
  constructor <;> simp [runIn, runHistory, runR, stepR]

-- ------------------------------------------------------------------ the inventory of state shared by all contexts of a thread
/-- every `static` / `thread_local!` item found in the engine's crates by the translator carries a classification
    (a reason why it is not script-visible mutable state); an item added to the source without one breaks this theorem -/
theorem statics_all_classified : Gen.statics.all (fun s => s.2 != 0) = true := by decide

end BoaVerif.C20
