/-
  C20 model, two parts.
  (1) Property-key order. An ordinary object keeps its array-index keys in a table whose iteration order is whatever the
      storage (a hash map, a dense vector, …) happens to produce, and its string / symbol keys in insertion order.
      `ownKeys` is what [[OwnPropertyKeys]] reports. `specKeys` is ECMA-262 10.1.11.1 stated on the history of operations.
  (2) Realms. A world is a family of realm states; a script runs in one realm.
  Import-free.
-/
namespace BoaVerif.C20

inductive Key
  | idx (n : Nat)      -- array index
  | str (s : Nat)      -- string key that is not an array index (identified by a number)
  | sym (s : Nat)      -- symbol key
  deriving Repr, DecidableEq

def Key.isIdx : Key → Bool | .idx _ => true | _ => false
def Key.isStr : Key → Bool | .str _ => true | _ => false
def Key.isSym : Key → Bool | .sym _ => true | _ => false

inductive Op
  | set (k : Key)      -- define or overwrite the property
  | del (k : Key)
  deriving Repr

/-- insertion sort on naturals -/
def insertNat (n : Nat) : List Nat → List Nat
  | [] => [n]
  | m :: r => if n ≤ m then n :: m :: r else m :: insertNat n r

def sortNat : List Nat → List Nat
  | [] => []
  | n :: r => insertNat n (sortNat r)

structure Obj where
  idx : List Nat        -- index keys, in STORAGE order
  named : List Key      -- string and symbol keys, in insertion order
  deriving Repr

def Obj.empty : Obj := { idx := [], named := [] }

/-- where the storage puts a new index key: any function whose result has the same elements -/
abbrev Storage := Nat → List Nat → List Nat

def Obj.addNamed (o : Obj) (k : Key) : Obj := if o.named.contains k then o else { o with named := o.named ++ [k] }
def Obj.delNamed (o : Obj) (k : Key) : Obj := { o with named := o.named.erase k }
def Obj.addIdx (place : Storage) (o : Obj) (n : Nat) : Obj := if o.idx.contains n then o else { o with idx := place n o.idx }
def Obj.delIdx (o : Obj) (n : Nat) : Obj := { o with idx := o.idx.erase n }

def Obj.apply (place : Storage) (o : Obj) : Op → Obj
  | .set (.idx n) => o.addIdx place n
  | .set (.str s) => o.addNamed (.str s)
  | .set (.sym s) => o.addNamed (.sym s)
  | .del (.idx n) => o.delIdx n
  | .del (.str s) => o.delNamed (.str s)
  | .del (.sym s) => o.delNamed (.sym s)

def Obj.run (place : Storage) (ops : List Op) : Obj := ops.foldl (Obj.apply place) Obj.empty

def Obj.ownKeys (o : Obj) : List Key :=
  (sortNat o.idx).map .idx ++ o.named.filter Key.isStr ++ o.named.filter Key.isSym

/-- the specification on the history: the live keys in the order of their (latest) creation -/
def liveKeys : List Key → Op → List Key
  | l, .set k => if l.contains k then l else l ++ [k]
  | l, .del k => l.erase k

def idxOf : List Key → List Nat
  | [] => []
  | .idx n :: r => n :: idxOf r
  | _ :: r => idxOf r

def specKeys (ops : List Op) : List Key :=
  let live := ops.foldl liveKeys []
  (sortNat (idxOf live)).map .idx ++ live.filter Key.isStr ++ live.filter Key.isSym

-- two storages used by the driver: newest first, and "hash" order (by n mod 7, then arrival)
def placeFront : Storage := fun n l => n :: l
def placeBack : Storage := fun n l => l ++ [n]

-- ------------------------------------------------------------------------------------------------ realms
abbrev RealmState := Nat → Int          -- slot (a global or a property of an intrinsic) ↦ value
abbrev World := Nat → RealmState

inductive ROp
  | set (slot : Nat) (v : Int)
  | get (slot : Nat)
  | copy (dst src : Nat)
  | add (dst src : Nat)
  deriving Repr

def stepR (s : RealmState) : ROp → RealmState × List Int
  | .set k v => (fun j => if j = k then v else s j, [])
  | .get k => (s, [s k])
  | .copy d c => (fun j => if j = d then s c else s j, [])
  | .add d c => (fun j => if j = d then s d + s c else s j, [])

def runR : RealmState → List ROp → RealmState × List Int
  | s, [] => (s, [])
  | s, op :: r => let (s1, t1) := stepR s op; let (s2, t2) := runR s1 r; (s2, t1 ++ t2)

/-- run a script in realm `r` of a world -/
def runIn (w : World) (r : Nat) (ops : List ROp) : World × List Int :=
  let res := runR (w r) ops
  (fun j => if j = r then res.1 else w j, res.2)

/-- a history: scripts run one after the other, each in its realm -/
def runHistory (w : World) : List (Nat × List ROp) → World
  | [] => w
  | (r, ops) :: h => runHistory (runIn w r ops).1 h

end BoaVerif.C20
