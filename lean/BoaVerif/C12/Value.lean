/- Hand-written part of the C12 model: how the generated dispatch tables are executed by
   `match self.value() & MASK_KIND { … }`, the constructors of NanBoxedValue, and the
   enum representation (`legacy.rs`) the NaN-boxed one must refine. -/
import BoaVerif.Gen.Bits
namespace BoaVerif.C12
open BoaVerif.Gen.Bits

/-- first arm whose pattern equals the scrutinee (Rust `match` on constants) -/
def dispatch (arms : List (BitVec 64 × Arm)) (dflt : Kind) (v : BitVec 64) : Kind :=
  match arms with
  | [] => dflt
  | (m, a) :: rest =>
    bif (v &&& MASK_KIND) == m then
      match a with
      | .kind k => k
      | .other n u => bif v == VALUE_NULL then n else u
    else dispatch rest dflt v

def variantKind (v : BitVec 64) : Kind := dispatch as_variant_arms as_variant_arms_default v
def typeKind (v : BitVec 64) : Kind := dispatch get_type_arms get_type_arms_default v

/-- which pointer kind (if any) `Clone` / `Drop` adjust the reference count of -/
def refDispatch (arms : List (BitVec 64 × Kind)) (v : BitVec 64) : Option Kind :=
  match arms with
  | [] => none
  | (m, k) :: rest => bif (v &&& MASK_KIND) == m then some k else refDispatch rest v

def cloneKind (v : BitVec 64) : Option Kind := refDispatch clone_arms v
def dropKind (v : BitVec 64) : Option Kind := refDispatch drop_arms v

/-- the classification predicate of each kind (what `JsValue::is_*` answer) -/
def holds : Kind → BitVec 64 → Bool
  | .float, v => is_float v
  | .int32, v => is_integer32 v
  | .boolean, v => is_bool v
  | .null, v => nb_is_null v
  | .undefined, v => nb_is_null_or_undefined v && !nb_is_null v
  | .object, v => is_object v
  | .string, v => is_string v
  | .symbol, v => is_symbol v
  | .bigint, v => is_bigint v

def b2n (b : Bool) : BitVec 4 := bif b then 1#4 else 0#4

/-- how many of the nine classification predicates hold for a word -/
def predCount (v : BitVec 64) : BitVec 4 :=
  b2n (holds .float v) + b2n (holds .int32 v) + b2n (holds .boolean v) + b2n (holds .null v) +
  b2n (holds .undefined v) + b2n (holds .object v) + b2n (holds .string v) + b2n (holds .symbol v) +
  b2n (holds .bigint v)

/-- injective numbering of kinds (lets goals about kinds be bit-blasted) -/
def Kind.code : Kind → BitVec 4
  | .float => 0#4 | .int32 => 1#4 | .boolean => 2#4 | .null => 3#4 | .undefined => 4#4
  | .object => 5#4 | .string => 6#4 | .symbol => 7#4 | .bigint => 8#4

def optCode : Option Kind → BitVec 4
  | none => 15#4
  | some k => k.code

/-- The enum representation (value/inner/legacy.rs): the abstract JavaScript value.
    Heap references are 48-bit non-null addresses. Doubles are bit patterns. -/
inductive EnumVal
  | null | undefined
  | boolean (b : Bool)
  | int32 (i : BitVec 32)
  | float (bits : BitVec 64)
  | ref (k : Kind) (addr : BitVec 64)
  deriving DecidableEq, Repr

/-- The NaN-boxed constructors (`NanBoxedValue::null/undefined/boolean/integer32/float64/object…`). -/
def encode : EnumVal → Option (BitVec 64)
  | .null => some VALUE_NULL
  | .undefined => some VALUE_UNDEFINED
  | .boolean b => some (tag_bool b)
  | .int32 i => some (tag_i32 i)
  | .float f => some (tag_f64 f)
  | .ref .object a => tag_pointer a MASK_OBJECT
  | .ref .string a => tag_pointer a MASK_STRING
  | .ref .symbol a => tag_pointer a MASK_SYMBOL
  | .ref .bigint a => tag_pointer a MASK_BIGINT
  | .ref _ _ => none

/-- `as_variant` on a stored word -/
def decode (v : BitVec 64) : EnumVal :=
  match variantKind v with
  | .null => .null
  | .undefined => .undefined
  | .boolean => .boolean (untag_bool v)
  | .int32 => .int32 (untag_i32 v)
  | .float => .float v
  | k => .ref k (untag_pointer v)

/-- what the enum representation itself stores for a double: `JsValue::rational`/`From<f64>`
    keep the f64 as is; reading NaN back gives *a* NaN. Observable equality on doubles
    identifies all NaNs (scripts cannot see a payload except through typed arrays, which
    copy bytes of a canonicalised value). -/
def canonFloat (b : BitVec 64) : BitVec 64 := bif isNaNBits b then 0x7FF8000000000000#64 else b

def EnumVal.observe : EnumVal → EnumVal
  | .float f => .float (canonFloat f)
  | v => v

/-- `NanBoxedValue::to_boolean` (heap kinds: `heapTruthy` is what the pointee says — non-empty string,
    non-zero BigInt; objects and symbols are truthy) -/
def toBoolean (heapTruthy : Bool) (v : BitVec 64) : Bool :=
  match variantKind v with
  | .symbol | .object => true
  | .null | .undefined => false
  | .int32 => untag_i32 v != 0#32
  | .boolean => untag_bool v
  | .string | .bigint => heapTruthy
  | .float => (v &&& 0x7FFFFFFFFFFFFFFF#64) != 0#64 && !isNaNBits v

/-- `JsValue::as_i32`: an Integer32, or a double whose bits are exactly those of an int32 (so not -0) -/
def asI32 (v : BitVec 64) : Option (BitVec 32) :=
  match variantKind v with
  | .int32 => some (untag_i32 v)
  | .float =>
    -- is there an int32 i with f64::from(i).to_bits() == v ?  decode sign / exponent / mantissa
    let sign := v.getLsbD 63
    let e := ((v >>> 52) &&& 0x7FF#64).toNat
    let m := (v &&& 0x000FFFFFFFFFFFFF#64).toNat
    if v == 0#64 then some 0#32
    else if e < 1023 || e > 1023 + 31 then none
    else
      let shift := 52 - (e - 1023)           -- number of fractional mantissa bits
      let full := m + 2^52
      if full % 2^shift != 0 then none
      else
        let mag : Nat := full / 2^shift
        if sign then (if mag ≤ 2^31 then some (BitVec.ofInt 32 (-(mag : Int))) else none)
        else (if mag < 2^31 then some (BitVec.ofNat 32 mag) else none)
  | _ => none

def validRef (k : Kind) (a : BitVec 64) : Bool :=
  (k == .object || k == .string || k == .symbol || k == .bigint) &&
  (a &&& 0x0000FFFFFFFFFFFF#64) == a && a != 0#64

def EnumVal.valid : EnumVal → Bool
  | .ref k a => validRef k a
  | _ => true

end BoaVerif.C12
