/- C12 — value tagging is lossless, unambiguous and configuration-independent.
   Property theorems only. Every statement is about BoaVerif.Gen.Bits, which is REGENERATED
   from nan_boxed.rs on every run, so the theorems are re-checked against the current source.
   Proofs are by bit-blasting (`bv_decide`): each call contributes an axiom
   `<theorem>._native.bv_decide.ax_*` (trusting the compiled LRAT checker); these are
   reported by name in the evidence. -/
import BoaVerif.C12.Value
import Std.Tactic.BVDecide
namespace BoaVerif.C12
open BoaVerif.Gen.Bits

macro "unfold_bits" : tactic => `(tactic|
  simp only [is_float, is_integer32, is_bool, is_object, is_string, is_symbol, is_bigint, is_negative_zero,
    nb_is_null, nb_is_undefined, nb_is_null_or_undefined, tag_f64, tag_i32, untag_i32, tag_bool, untag_bool,
    tag_pointer, untag_pointer, isNaNBits, canonFloat,
    MASK_KIND, MASK_NAN, MASK_INT32, MASK_BOOLEAN, MASK_OTHER, MASK_OBJECT, MASK_STRING, MASK_SYMBOL, MASK_BIGINT,
    TAG_INF, TAG_NAN, TAG_INT32, TAG_BOOLEAN, TAG_OTHER, TAG_OBJECT, TAG_STRING, TAG_SYMBOL, TAG_BIGINT,
    MASK_INT32_VALUE, MASK_POINTER_VALUE, MASK_BOOLEAN_VALUE, VALUE_NULL, VALUE_UNDEFINED, VALUE_FALSE, VALUE_TRUE,
    VALUE_NEGATIVE_ZERO] at *)

macro "unfold_dispatch" : tactic => `(tactic|
  simp only [variantKind, typeKind, cloneKind, dropKind, dispatch, refDispatch, as_variant_arms, as_variant_arms_default,
    get_type_arms, get_type_arms_default, clone_arms, drop_arms, predKinds] at *)

theorem Kind.code_inj {a b : Kind} (h : a.code = b.code) : a = b := by
  cases a <;> cases b <;> first | rfl | (exact absurd h (by decide))

theorem optCode_inj {a b : Option Kind} (h : optCode a = optCode b) : a = b := by
  cases a with
  | none => cases b with
    | none => rfl
    | some y => cases y <;> exact absurd h (by decide)
  | some x => cases b with
    | none => cases x <;> exact absurd h (by decide)
    | some y => exact congrArg some (Kind.code_inj h)

theorem holds_cond (c : Bool) (a b : Kind) (v : BitVec 64) :
    holds (bif c then a else b) v = (bif c then holds a v else holds b v) := by cases c <;> rfl

/-- reduce a goal about kinds to a goal about bit-vectors -/
macro "kind_blast" : tactic => `(tactic| (
  (try simp only [variantKind, typeKind, cloneKind, dropKind, dispatch, refDispatch, as_variant_arms, as_variant_arms_default,
    get_type_arms, get_type_arms_default, clone_arms, drop_arms, predCount, b2n, Bool.apply_cond Kind.code,
    Bool.apply_cond optCode, holds_cond]) <;>
  (try simp only [holds, Kind.code, optCode]) <;>
  (try unfold_bits) <;>
  bv_decide))

/-- all 2^32 int32s survive: the stored word is recognised as an integer and reads back unchanged -/
theorem i32_roundtrip (v : BitVec 32) :
    is_integer32 (tag_i32 v) = true ∧ untag_i32 (tag_i32 v) = v ∧ variantKind (tag_i32 v) = Kind.int32 := by
  refine ⟨?_, ?_, Kind.code_inj ?_⟩
  · unfold_bits; bv_decide
  · unfold_bits; bv_decide
  · kind_blast

/-- every non-NaN double (incl. -0, ±∞, subnormals) is stored as its own bits and is a float -/
theorem float_roundtrip (b : BitVec 64) (h : isNaNBits b = false) :
    tag_f64 b = b ∧ is_float (tag_f64 b) = true ∧ variantKind (tag_f64 b) = Kind.float := by
  refine ⟨?_, ?_, Kind.code_inj ?_⟩
  · unfold_bits; bv_decide
  · unfold_bits; bv_decide
  · kind_blast

/-- every NaN bit pattern is stored as the canonical NaN, which is a float -/
theorem nan_canonical (b : BitVec 64) (h : isNaNBits b = true) :
    tag_f64 b = 0x7FF8000000000000#64 ∧ isNaNBits (tag_f64 b) = true ∧ is_float (tag_f64 b) = true := by
  unfold_bits
  refine ⟨?_, ?_, ?_⟩ <;> bv_decide

/-- a stored double — whatever its bit pattern, NaN payloads included — never reads back as another type:
    `is_float` holds, it is the only classification that holds, every dispatch treats it as a double and
    neither Clone nor Drop touches a reference count for it -/
theorem float_never_other (b : BitVec 64) :
    holds .float (tag_f64 b) = true ∧ predCount (tag_f64 b) = 1#4 ∧
    variantKind (tag_f64 b) = Kind.float ∧ typeKind (tag_f64 b) = Kind.float
    ∧ cloneKind (tag_f64 b) = none ∧ dropKind (tag_f64 b) = none := by
  refine ⟨?_, ?_, Kind.code_inj ?_, Kind.code_inj ?_, optCode_inj ?_, optCode_inj ?_⟩ <;> kind_blast

/-- for EVERY 64-bit word (stored by a constructor or not) at most one classification predicate holds;
    when one holds it is the variant `as_variant` dispatches to, and `get_type` agrees (int32 is a Number) -/
theorem kinds_disjoint (v : BitVec 64) :
    (predCount v = 0#4 ∨ predCount v = 1#4) ∧ (predCount v = 1#4 → holds (variantKind v) v = true) ∧
    typeKind v = (bif (variantKind v).code == Kind.int32.code then Kind.float else variantKind v) := by
  refine ⟨?_, ?_, Kind.code_inj ?_⟩ <;> kind_blast

/-- the words with no classification are exactly the NaN-space words with tag nibble 1..7, which no
    constructor produces (`words_stored_classified` below) -/
theorem unclassified_words (v : BitVec 64) :
    predCount v = 0#4 ↔ ((v &&& MASK_NAN) = MASK_NAN ∧ (v &&& 0x0008000000000000#64) = 0#64 ∧ (v &&& 0x0007000000000000#64) ≠ 0#64) := by
  constructor
  · intro h; revert h; kind_blast
  · intro h; revert h; kind_blast

/-- the reference count is adjusted by Clone and by Drop for exactly the four heap kinds, and for the same kind -/
theorem refcount_dispatch (v : BitVec 64) :
    cloneKind v = dropKind v ∧
    optCode (cloneKind v) =
      (bif (variantKind v).code == Kind.object.code || (variantKind v).code == Kind.string.code ||
           (variantKind v).code == Kind.symbol.code || (variantKind v).code == Kind.bigint.code
       then (variantKind v).code else 15#4) := by
  refine ⟨optCode_inj ?_, ?_⟩ <;> kind_blast

theorem bool_roundtrip (b : Bool) :
    is_bool (tag_bool b) = true ∧ untag_bool (tag_bool b) = b ∧ variantKind (tag_bool b) = Kind.boolean
    ∧ tag_bool b = (if b then VALUE_TRUE else VALUE_FALSE) := by
  cases b <;> decide

theorem null_undefined_roundtrip :
    variantKind VALUE_NULL = Kind.null ∧ variantKind VALUE_UNDEFINED = Kind.undefined ∧
    nb_is_null VALUE_NULL = true ∧ nb_is_undefined VALUE_UNDEFINED = true ∧
    nb_is_null VALUE_UNDEFINED = false ∧ nb_is_undefined VALUE_NULL = false := by decide

/-- heap references: every 48-bit address survives tagging with each pointer mask -/
theorem pointer_roundtrip_word (p : BitVec 64) (h : (p &&& 0x0000FFFFFFFFFFFF#64) = p) :
    tag_pointer p MASK_OBJECT = some (p ||| MASK_OBJECT) ∧ tag_pointer p MASK_STRING = some (p ||| MASK_STRING) ∧
    tag_pointer p MASK_SYMBOL = some (p ||| MASK_SYMBOL) ∧ tag_pointer p MASK_BIGINT = some (p ||| MASK_BIGINT) := by
  have hne : ((p &&& MASK_POINTER_VALUE) != p) = false := by simp [MASK_POINTER_VALUE, h]
  have he : (p &&& MASK_POINTER_VALUE) = p := by simpa [MASK_POINTER_VALUE] using h
  simp [tag_pointer, he]

theorem pointer_roundtrip (p : BitVec 64) (h : (p &&& 0x0000FFFFFFFFFFFF#64) = p) :
    (untag_pointer (p ||| MASK_OBJECT) = p ∧ variantKind (p ||| MASK_OBJECT) = Kind.object) ∧
    (untag_pointer (p ||| MASK_STRING) = p ∧ variantKind (p ||| MASK_STRING) = Kind.string) ∧
    (untag_pointer (p ||| MASK_SYMBOL) = p ∧ variantKind (p ||| MASK_SYMBOL) = Kind.symbol) ∧
    (untag_pointer (p ||| MASK_BIGINT) = p ∧ variantKind (p ||| MASK_BIGINT) = Kind.bigint) := by
  refine ⟨⟨?_, Kind.code_inj ?_⟩, ⟨?_, Kind.code_inj ?_⟩, ⟨?_, Kind.code_inj ?_⟩, ⟨?_, Kind.code_inj ?_⟩⟩
  all_goals first | kind_blast | (unfold_bits; bv_decide)

/-- an address that does not fit in 48 bits is refused (panic branch), never silently truncated -/
theorem pointer_too_wide_refused (p m : BitVec 64) (h : (p &&& 0x0000FFFFFFFFFFFF#64) ≠ p) :
    tag_pointer p m = none := by
  have hne : ((p &&& MASK_POINTER_VALUE) != p) = true := by simpa [MASK_POINTER_VALUE] using h
  simp [tag_pointer, hne]

/-- configuration independence: decoding what the NaN-boxed constructors stored gives back the
    value the enum representation holds, up to NaN canonicalisation (unobservable to scripts) -/
theorem nanbox_refines_enum (x : EnumVal) (hx : x.valid = true) :
    ∃ w, encode x = some w ∧ decode w = x.observe := by
  cases x with
  | null => exact ⟨_, rfl, by decide⟩
  | undefined => exact ⟨_, rfl, by decide⟩
  | boolean b => exact ⟨_, rfl, by cases b <;> decide⟩
  | int32 i =>
    refine ⟨_, rfl, ?_⟩
    have h := i32_roundtrip i
    simp only [decode, h.2.2, h.2.1, EnumVal.observe]
  | float f =>
    refine ⟨_, rfl, ?_⟩
    have h := float_never_other f
    simp only [decode, h.2.2.1]
    simp only [EnumVal.observe, canonFloat, tag_f64]
  | ref k a =>
    simp only [EnumVal.valid, validRef, Bool.and_eq_true, beq_iff_eq, bne_iff_ne, Bool.or_eq_true] at hx
    obtain ⟨⟨hk, ha⟩, _⟩ := hx
    have hw := pointer_roundtrip_word a ha
    have hp := pointer_roundtrip a ha
    rcases hk with ((hk | hk) | hk) | hk <;> subst hk
    · exact ⟨_, hw.1, by simp only [decode, hp.1.2, hp.1.1, EnumVal.observe]⟩
    · exact ⟨_, hw.2.1, by simp only [decode, hp.2.1.2, hp.2.1.1, EnumVal.observe]⟩
    · exact ⟨_, hw.2.2.1, by simp only [decode, hp.2.2.1.2, hp.2.2.1.1, EnumVal.observe]⟩
    · exact ⟨_, hw.2.2.2, by simp only [decode, hp.2.2.2.2, hp.2.2.2.1, EnumVal.observe]⟩

/-- every word a constructor stores has exactly one classification, and it is its own kind -/
theorem words_stored_classified (x : EnumVal) (hx : x.valid = true) (w : BitVec 64) (h : encode x = some w) :
    predCount w = 1#4 ∧ holds (variantKind w) w = true := by
  have hk := kinds_disjoint w
  suffices hs : predCount w = 1#4 from ⟨hs, hk.2.1 hs⟩
  cases x with
  | null => cases h; decide
  | undefined => cases h; decide
  | boolean b => cases h; cases b <;> decide
  | int32 i => cases h; kind_blast
  | float f => cases h; exact (float_never_other f).2.1
  | ref k a =>
    simp only [EnumVal.valid, validRef, Bool.and_eq_true, beq_iff_eq, bne_iff_ne, Bool.or_eq_true] at hx
    obtain ⟨⟨hk', ha⟩, _⟩ := hx
    have hw := pointer_roundtrip_word a ha
    rcases hk' with ((hk' | hk') | hk') | hk' <;> subst hk' <;> simp only [encode] at h
    · rw [hw.1] at h; cases h; revert ha; kind_blast
    · rw [hw.2.1] at h; cases h; revert ha; kind_blast
    · rw [hw.2.2.1] at h; cases h; revert ha; kind_blast
    · rw [hw.2.2.2] at h; cases h; revert ha; kind_blast

/-- distinct abstract values get distinct stored words (no two values are confused) -/
theorem encode_injective (x y : EnumVal) (hx : x.valid = true) (hy : y.valid = true)
    (h : encode x = encode y) : x.observe = y.observe := by
  obtain ⟨w, h1, h2⟩ := nanbox_refines_enum x hx
  obtain ⟨w', h1', h2'⟩ := nanbox_refines_enum y hy
  rw [h1, h1'] at h
  cases h
  rw [← h2, ← h2']

-- non-vacuity: the hypotheses are satisfiable by non-trivial values
example : isNaNBits 0xFFF8000000000001#64 = true ∧ isNaNBits 0x8000000000000000#64 = false := by decide
example : (EnumVal.ref Kind.object 0x00007F00DEADBEE0#64).valid = true := by decide
example : (0x00007F00DEADBEE0#64 &&& 0x0000FFFFFFFFFFFF#64) = 0x00007F00DEADBEE0#64 := by decide

end BoaVerif.C12
