/- The nine JsVariant kinds, and the shape of an arm of a tag-dispatch `match`. -/
namespace BoaVerif.C12

inductive Kind
  | float | int32 | boolean | null | undefined | object | string | symbol | bigint
  deriving DecidableEq, Repr

/-- right-hand side of an arm of `match self.value() & MASK_KIND`:
    either one kind, or the nested `match self.value() { VALUE_NULL => a, _ => b }` -/
inductive Arm
  | kind (k : Kind)
  | other (ifNull : Kind) (otherwise : Kind)
  deriving DecidableEq, Repr

def Kind.name : Kind → String
  | .float => "float" | .int32 => "int32" | .boolean => "boolean" | .null => "null"
  | .undefined => "undefined" | .object => "object" | .string => "string"
  | .symbol => "symbol" | .bigint => "bigint"

end BoaVerif.C12
