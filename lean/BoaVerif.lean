import BoaVerif.Common.Proto
