import BoaVerif.Common.Proto
import BoaVerif.C14.Model
open BoaVerif BoaVerif.Proto BoaVerif.C14

def parseInt? (s : String) : Option Int :=
  if s.startsWith "-" then (s.drop 1).toString.toNat?.map (fun n => -(n : Int)) else s.toNat?.map (fun n => (n : Int))

def parseVal (s : String) : Option Val :=
  let n := (s.drop 2).toString
  if s.startsWith "i:" then (parseInt? n).map .i32
  else if s.startsWith "f:" then (parseInt? n).map (fun i => .f64 (.int i))
  else if s.startsWith "d:" then n.toNat?.map (fun k => .f64 (.dbl k))
  else if s.startsWith "o:" then n.toNat?.map .other
  else none

def bit (s : String) (i : Nat) : Bool := (s.toList[i]?) == some '1'

def parseDesc (v a : String) : Option Desc :=
  if v == "acc" then some { value := .other 0, accessor := true, writable := false, enumerable := bit a 1, configurable := bit a 2 }
  else (parseVal v).map (fun x => { value := x, writable := bit a 0, enumerable := bit a 1, configurable := bit a 2 })

def showSem : Sem → String
  | .num (.int i) => s!"n{i}"
  | .num (.dbl k) => s!"d{k}"
  | .other k => s!"o{k}"

def b01 (b : Bool) : String := if b then "1" else "0"

def showDesc (d : Desc) : String :=
  if d.accessor then s!"acc:-{b01 d.enumerable}{b01 d.configurable}"
  else s!"{showSem d.value.sem}:{b01 d.writable}{b01 d.enumerable}{b01 d.configurable}"

def stepStorage (s : Indexed) (toks : List String) : Indexed × String :=
  match toks with
  | ["reset"] => (.denseI32 [], "ok")
  | ["insert", k, v, a] =>
    (match k.toNat?, parseDesc v a with
     | some k, some d => let (s', r) := s.insert k d; (s', s!"r={b01 r} v={s'.variantName}")
     | _, _ => (s, "bad-op"))
  | ["remove", k] =>
    (match k.toNat? with
     | some k => let (s', r) := s.remove k; (s', s!"r={b01 r} v={s'.variantName}")
     | none => (s, "bad-op"))
  | ["get", k] =>
    (match k.toNat? with
     | some k => (s, match s.get k with | some d => showDesc d | none => "none")
     | none => (s, "bad-op"))
  | ["has", k] => (match k.toNat? with | some k => (s, b01 (s.containsKey k)) | none => (s, "bad-op"))
  | ["dump"] =>
    let keys := sortNat s.keys
    let all := keys.filterMap (fun k => (s.get k).map (fun d => s!"{k}={showDesc d}"))
    (s, " ".intercalate all ++ " | " ++ ",".intercalate (keys.map toString))
  | _ => (s, "bad-op")

def showSemVal : Option Sem → String
  | some x => showSem x
  | none => "undef"

def dumpJs (a : JsArr) : String :=
  let keys := sortNat a.st.keys
  let all := keys.filterMap (fun k => (a.st.get k).map (fun d => s!"{k}={showDesc d}"))
  (s!"v={a.st.variantName} len={a.len} " ++ " ".intercalate all).trimAsciiEnd.toString

structure DS where
  s : Indexed := .denseI32 []
  js : JsArr := {}

def step (st : DS) (toks : List String) : DS × String :=
  match toks with
  | ["jsreset"] => ({ st with js := {} }, "ok")
  | ["aset", k, v] =>
    (match k.toNat?, parseVal v with
     | some k, some v => let a := jsSet st.js k v; ({ st with js := a }, dumpJs a)
     | _, _ => (st, "bad-op"))
  | ["aget", k] => (match k.toNat? with | some k => (st, showSemVal (jsGet st.js k)) | none => (st, "bad-op"))
  | ["apush", v] =>
    (match parseVal v with
     | some v => let (threw, a) := jsPush st.js v; ({ st with js := a }, (if threw then "throw " else "") ++ dumpJs a)
     | none => (st, "bad-op"))
  | ["ashift"] => let (r, threw, a) := jsShift st.js; ({ st with js := a }, s!"r={if threw then "throw" else showSemVal r} {dumpJs a}")
  | ["alock"] => let a : JsArr := { st.js with lenWritable := false }; ({ st with js := a }, dumpJs a)
  | ["adel", k] =>
    (match k.toNat? with
     | some k => let a : JsArr := { st.js with st := (st.js.st.remove k).1 }; ({ st with js := a }, dumpJs a)
     | none => (st, "bad-op"))
  | _ => let (s', out) := stepStorage st.s toks; ({ st with s := s' }, out)

def main : IO Unit := serve step {}
