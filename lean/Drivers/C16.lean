import BoaVerif.Common.Proto
import BoaVerif.C16.Model
open BoaVerif BoaVerif.Proto BoaVerif.C16

def parseV (s : String) : Option VExp :=
  if s == "@" then some .arg
  else if s.startsWith "#" then (s.drop 1).toString.toNat?.map .num
  else if s.startsWith "$" then (s.drop 1).toString.toNat?.map .var
  else none

def optBody (s : String) : Option (Option Nat) := if s == "-" then some none else s.toNat?.map some

/-- ops of one body; returns the ops and the tokens starting at `R` -/
partial def parseOps : List String → Option (List Op × List String)
  | "p" :: t :: r => do let n ← t.toNat?; let (ops, rest) ← parseOps r; some (.print n :: ops, rest)
  | "n" :: i :: r => do let n ← i.toNat?; let (ops, rest) ← parseOps r; some (.newP n :: ops, rest)
  | "r" :: i :: v :: r => do let n ← i.toNat?; let e ← parseV v; let (ops, rest) ← parseOps r; some (.resolve n e :: ops, rest)
  | "j" :: i :: v :: r => do let n ← i.toNat?; let e ← parseV v; let (ops, rest) ← parseOps r; some (.reject n e :: ops, rest)
  | "t" :: i :: f :: g :: j :: r => do
    let n ← i.toNat?; let f' ← optBody f; let g' ← optBody g; let j' ← j.toNat?
    let (ops, rest) ← parseOps r; some (.thenP n f' g' j' :: ops, rest)
  | "q" :: j :: v :: r => do let n ← j.toNat?; let e ← parseV v; let (ops, rest) ← parseOps r; some (.resolved n e :: ops, rest)
  | "x" :: j :: v :: r => do let n ← j.toNat?; let e ← parseV v; let (ops, rest) ← parseOps r; some (.rejected n e :: ops, rest)
  | "a" :: b :: j :: r => do let n ← b.toNat?; let j' ← j.toNat?; let (ops, rest) ← parseOps r; some (.callAsync n j' :: ops, rest)
  | "R" :: r => some ([], "R" :: r)
  | _ => none

partial def parseBodies : List String → Option (List Body)
  | [] => some []
  | "B" :: t :: r => do
    let tag ← t.toNat?
    let (ops, rest) ← parseOps r
    match rest with
    | "R" :: "ret" :: v :: r2 => do let e ← parseV v; let bs ← parseBodies r2; some ({ tag := tag, ops := ops, res := .ret e } :: bs)
    | "R" :: "thr" :: v :: r2 => do let e ← parseV v; let bs ← parseBodies r2; some ({ tag := tag, ops := ops, res := .thr e } :: bs)
    | "R" :: "aw" :: v :: nx :: r2 => do
      let e ← parseV v; let n ← nx.toNat?; let bs ← parseBodies r2; some ({ tag := tag, ops := ops, res := .awaitThen e n } :: bs)
    | _ => none
  | _ => none

def showVal : Val → String
  | .num n => toString n
  | .prom _ => "P"
  | .err => "E"

def step (_ : Unit) (toks : List String) : Unit × String :=
  match toks with
  | "run" :: chunks :: rest =>
    (match (chunks.splitOn ",").mapM String.toNat?, parseBodies rest with
     | some ks, some bodies =>
       let s0 := evalMain bodies
       let s1 := ks.foldl (fun st k => drain bodies k st) s0
       let s2 := drain bodies 4000 s1
       ((), s!"{if s2.queue.isEmpty then "quiet" else "busy"} sync={s0.trace.length} " ++ " ".intercalate (s2.trace.reverse.map (fun p => s!"{p.1}:{showVal p.2}")))
     | _, _ => ((), "bad-op"))
  | _ => ((), "bad-op")

def main : IO Unit := serve step ()
