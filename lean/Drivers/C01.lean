import BoaVerif.Common.Proto
import BoaVerif.C01.Model
import BoaVerif.C01.Coerce
open BoaVerif BoaVerif.Proto BoaVerif.C01

abbrev P (α : Type) := List String → Option (α × List String)

def unhex (s : String) : String :=
  let cs := s.toList
  let rec go : List Char → List Char
    | a :: b :: r =>
      match hexDigit? a, hexDigit? b with
      | some x, some y => Char.ofNat (x * 16 + y) :: go r
      | _, _ => go r
    | _ => []
  String.ofList (go cs)

def pNames : Nat → P (List String)
  | 0, r => some ([], r)
  | k + 1, x :: r => (pNames k r).map (fun p => (x :: p.1, p.2))
  | _, [] => none

def parseOp : String → Option BinOp
  | "add" => some .add | "sub" => some .sub | "mul" => some .mul | "lt" => some .lt | "le" => some .le
  | "seq" => some .seq | "sne" => some .sne | _ => none

def parseKind : String → Option DeclKind
  | "v" => some .var | "l" => some .let_ | "c" => some .const_ | _ => none

mutual
  partial def pExpr : P Expr
    | "n" :: x :: r => x.toInt?.map (fun n => (.lit (.num n), r))
    | "b" :: x :: r => some (.lit (.bool (x == "1")), r)
    | "s" :: x :: r => some (.lit (.str (unhex x)), r)
    | "u" :: r => some (.lit .undef, r)
    | "v" :: x :: r => some (.var x, r)
    | "t" :: x :: r => some (.typeof x, r)
    | "=" :: x :: r => (pExpr r).map (fun p => (.assign x p.1, p.2))
    | "o" :: op :: r => do
      let o ← parseOp op
      let (a, r1) ← pExpr r
      let (b, r2) ← pExpr r1
      some (.bin o a b, r2)
    | "&" :: r => do let (a, r1) ← pExpr r; let (b, r2) ← pExpr r1; some (.and a b, r2)
    | "|" :: r => do let (a, r1) ← pExpr r; let (b, r2) ← pExpr r1; some (.or a b, r2)
    | "!" :: r => (pExpr r).map (fun p => (.not p.1, p.2))
    | "?" :: r => do let (c, r1) ← pExpr r; let (a, r2) ← pExpr r1; let (b, r3) ← pExpr r2; some (.cond c a b, r3)
    | "c" :: r => do
      let (f, r1) ← pExpr r
      match r1 with
      | k :: r2 => do let n ← k.toNat?; let (args, r3) ← pExprs n r2; some (.call f args, r3)
      | [] => none
    | "f" :: k :: r => do
      let n ← k.toNat?
      let (ps, r1) ← pNames n r
      match r1 with
      | m :: r2 => do let mm ← m.toNat?; let (body, r3) ← pStmts mm r2; some (.func ps body, r3)
      | [] => none
    | _ => none
  partial def pExprs : Nat → P (List Expr)
    | 0, r => some ([], r)
    | k + 1, r => do let (e, r1) ← pExpr r; let (es, r2) ← pExprs k r1; some (e :: es, r2)
  partial def pStmts : Nat → P (List Stmt)
    | 0, r => some ([], r)
    | k + 1, r => do let (s, r1) ← pStmt r; let (ss, r2) ← pStmts k r1; some (s :: ss, r2)
  partial def pBlock : P (List Stmt)
    | m :: r => do let n ← m.toNat?; pStmts n r
    | [] => none
  partial def pStmt : P Stmt
    | "X" :: r => (pExpr r).map (fun p => (.expr p.1, p.2))
    | "P" :: k :: r => do let n ← k.toNat?; let (es, r1) ← pExprs n r; some (.print es, r1)
    | "D" :: k :: x :: "0" :: r => (parseKind k).map (fun kk => (.decl kk x none, r))
    | "D" :: k :: x :: "1" :: r => do let kk ← parseKind k; let (e, r1) ← pExpr r; some (.decl kk x (some e), r1)
    | "F" :: name :: k :: r => do
      let n ← k.toNat?
      let (ps, r1) ← pNames n r
      let (body, r2) ← pBlock r1
      some (.fdecl name ps body, r2)
    | "B" :: r => (pBlock r).map (fun p => (.block p.1, p.2))
    | "I" :: r => do
      let (c, r1) ← pExpr r
      let (t, r2) ← pStmt r1
      match r2 with
      | "1" :: r3 => do let (e, r4) ← pStmt r3; some (.ite c t (some e), r4)
      | "0" :: r3 => some (.ite c t none, r3)
      | _ => none
    | "W" :: r => do let (c, r1) ← pExpr r; let (b, r2) ← pStmt r1; some (.while_ c b, r2)
    | "O" :: r => do let (b, r1) ← pStmt r; let (c, r2) ← pExpr r1; some (.doWhile b c, r2)
    | "R" :: k :: x :: r => do
      let kk ← parseKind k
      let (i, r1) ← pExpr r
      let (c, r2) ← pExpr r1
      let (u, r3) ← pExpr r2
      let (b, r4) ← pStmt r3
      some (.for_ kk x i c u b, r4)
    | "L" :: l :: r => (pStmt r).map (fun p => (.labeled l p.1, p.2))
    | "K" :: l :: r => some (.brk (if l == "-" then none else some l), r)
    | "C" :: l :: r => some (.cont (if l == "-" then none else some l), r)
    | "T" :: "0" :: r => some (.ret none, r)
    | "T" :: "1" :: r => (pExpr r).map (fun p => (.ret (some p.1), p.2))
    | "H" :: r => (pExpr r).map (fun p => (.throw p.1, p.2))
    | "Y" :: r => do
      let (body, r1) ← pBlock r
      match r1 with
      | param :: hflag :: r2 =>
        let p := if param == "-" then none else some param
        (match hflag with
         | "1" => do
           let (h, r3) ← pBlock r2
           match r3 with
           | "1" :: r4 => do let (f, r5) ← pBlock r4; some (.try_ body p (some h) (some f), r5)
           | "0" :: r4 => some (.try_ body p (some h) none, r4)
           | _ => none
         | "0" =>
           (match r2 with
            | "1" :: r4 => do let (f, r5) ← pBlock r4; some (.try_ body p none (some f), r5)
            | _ => none)
         | _ => none)
      | _ => none
    | _ => none
end

def hexOf (s : String) : String :=
  String.join (s.toUTF8.toList.map (fun b =>
    let d := b.toNat
    String.ofList [Char.ofNat (if d / 16 < 10 then 48 + d / 16 else 87 + d / 16), Char.ofNat (if d % 16 < 10 then 48 + d % 16 else 87 + d % 16)]))

def showVal : Val → String
  | .undef => "undefined:undefined"
  | .nan => "number:NaN"
  | .num n => "number:" ++ showInt n
  | .bool b => "boolean:" ++ (if b then "true" else "false")
  | .str s => "str:" ++ s
  | .err c => "error:" ++ c
  | .fn _ => "object"

-- ------------------------------------------------------------------ second model: operators and coercions
namespace Co

def pPrim (t : String) : Option Coerce.Prim :=
  match t.toList with
  | ['u'] => some .undef
  | ['n'] => some .null
  | ['t'] => some (.bool true)
  | ['f'] => some (.bool false)
  | ['N'] => some .nan
  | 'i' :: r => (String.ofList r).toInt?.map .num
  | 's' :: r => some (.str (unhex (String.ofList r)))
  | _ => none

def pRet (t : String) : Option (Option Coerce.Ret) :=
  match t.toList with
  | ['-'] => some none
  | ['O'] => some (some .object)
  | 'T' :: r => (String.ofList r).toNat?.map (fun n => some (.throws n))
  | 'P' :: r => (pPrim (String.ofList r)).map (fun p => some (.prim p))
  | _ => none

def pVal (t : String) : Option Coerce.Val :=
  match t.toList with
  | 'o' :: r =>
    (match (String.ofList r).splitOn ":" with
     | [i, v, s] => do
       let id ← i.toNat?
       let vo ← pRet v
       let ts ← pRet s
       some (.obj { id := id, valueOf := vo, toStr := ts })
     | _ => none)
  | _ => (pPrim t).map .prim

def pBin : String → Option Coerce.BinOp
  | "add" => some .add | "sub" => some .sub | "mul" => some .mul | "lt" => some .lt | "gt" => some .gt | "le" => some .le | "ge" => some .ge
  | "eq" => some .eq | "ne" => some .ne | "seq" => some .seq | "sne" => some .sne | _ => none
def pUn : String → Option Coerce.UnOp
  | "neg" => some .neg | "plus" => some .plus | "not" => some .not | "typeof" => some .typeof | "template" => some .template
  | "string" => some .string | "number" => some .number | _ => none

def showRes (r : Coerce.R Coerce.Val) : String :=
  let log := if r.2.isEmpty then "-" else ",".intercalate r.2
  match r.1 with
  | .ok (.prim p) =>
    let ty := Coerce.typeOf (.prim p)
    "ok " ++ ty ++ ":" ++ hexOf (Coerce.toStringP p) ++ " " ++ log
  | .ok (.obj _) => "ok object:- " ++ log
  | .error .typeError => "err TypeError " ++ log
  | .error (.thrown t) => "err thrown:" ++ toString t ++ " " ++ log

def run : List String → String
  | [op, a, b] => (match pBin op, pVal a, pVal b with | some o, some x, some y => showRes (Coerce.binary o x y []) | _, _, _ => "bad-op")
  | [op, a] => (match pUn op, pVal a with | some o, some x => showRes (Coerce.unary o x []) | _, _ => "bad-op")
  | _ => "bad-op"
end Co

def step (_ : Unit) (toks : List String) : Unit × String :=
  match toks with
  | "run" :: m :: rest =>
    (match m.toNat?.bind (fun n => pStmts n rest) with
     | some (body, []) =>
       let (s, c) := runScript 2500 body
       let comp := match c with
         | .normal v => "ok " ++ hexOf (match v with | some x => showVal x | none => "undefined:undefined")
         | .thr v => "err " ++ hexOf (showVal v)
         | .ret v => "ret " ++ hexOf (showVal v)
         | .brk _ _ => "brk -"
         | .cont _ _ => "cont -"
         | .fuel => "fuel -"
       ((), comp ++ " " ++ ",".intercalate (s.out.reverse.map hexOf))
     | _ => ((), "bad-op"))
  | "co" :: rest => ((), Co.run rest)
  | _ => ((), "bad-op")

def main : IO Unit := serve step ()
