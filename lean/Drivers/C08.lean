import BoaVerif.Common.Proto
import BoaVerif.C08.Model
open BoaVerif BoaVerif.Proto BoaVerif.C08

/-- prefix encoding of behaviours: D | E <tag> k | T | L | C callee k | Y body handler k | F body fin k -/
partial def parseBeh : List String → Option (Beh × List String)
  | "D" :: r => some (.done, r)
  | "T" :: r => some (.throwHere, r)
  | "L" :: r => some (.limitHere, r)
  | "E" :: t :: r => do
    let n ← t.toNat?
    let (k, r1) ← parseBeh r
    some (.emit n k, r1)
  | "C" :: r => do
    let (c, r1) ← parseBeh r
    let (k, r2) ← parseBeh r1
    some (.call c k, r2)
  | "Y" :: r => do
    let (b, r1) ← parseBeh r
    let (h, r2) ← parseBeh r1
    let (k, r3) ← parseBeh r2
    some (.tryCatch b h k, r3)
  | "F" :: r => do
    let (b, r1) ← parseBeh r
    let (f, r2) ← parseBeh r1
    let (k, r3) ← parseBeh r2
    some (.tryFinally b f k, r3)
  | _ => none

def showRes : Res → String
  | .normal => "normal" | .thrown => "thrown" | .limited => "limited"

def parseRoute : String → Option Route
  | "d" => some .direct
  | "n" => some .viaNative
  | _ => none

def step (_ : Unit) (toks : List String) : Unit × String :=
  match toks with
  | ["loop", form, limit, n, count] =>
    (match (if form == "pre" then some LoopForm.preTest else if form == "post" then some LoopForm.postTest else none),
           limit.toNat?, n.toNat?, count.toNat? with
     | some f, some l, some n, some c =>
       let r := runLoop l f n c
       ((), s!"bodies={r.1} count={r.2.1} {if r.2.2 == .completed then "completed" else "limited"}")
     | _, _, _, _ => ((), "bad-op"))
  | "run" :: rest =>
    (match parseBeh rest with
     | some (b, []) => let r := run b; ((), s!"{showRes r.2} " ++ " ".intercalate (r.1.map toString))
     | _ => ((), "bad-op"))
  | "nest" :: limit :: frames :: host :: routes =>
    (match limit.toNat?, frames.toNat?, host.toNat?, routes.mapM parseRoute with
     | some l, some f, some h, some rs =>
       (match nest l { frames := f, host := h } rs with
        | some d => ((), s!"ok frames={d.frames} host={d.host}")
        | none => ((), "refused"))
     | _, _, _, _ => ((), "bad-op"))
  | _ => ((), "bad-op")

def main : IO Unit := serve step ()
