import BoaVerif.Common.Proto
import BoaVerif.C13.Model
open BoaVerif BoaVerif.Proto BoaVerif.C13

def yn (b : Bool) : String := if b then "1" else "0"

def step (_ : Unit) (toks : List String) : Unit × String :=
  match toks with
  | ["acc", bits, d, k] =>
    (match hexNat? bits, d.toNat?, k.toInt? with
     | some b, some d, some k => ((), yn (acceptsDec d k b))
     | _, _, _ => ((), "bad-op"))
  | ["short", bits, s, n, k] =>
    (match hexNat? bits, s.toNat?, n.toInt?, k.toNat? with
     | some b, some s, some n, some k => ((), yn (shortestOk b s n k))
     | _, _, _, _ => ((), "bad-op"))
  | ["closest", bits, n, num, den] =>
    (match hexNat? bits, n.toNat?, num.toNat?, den.toNat? with
     | some b, some n, some num, some den => ((), yn (closestOk b n num den))
     | _, _, _, _ => ((), "bad-op"))
  | ["digits", r, n] =>
    (match r.toNat?, n.toNat? with
     | some r, some n => ((), String.ofList ((toDigits r n).map digitChar))
     | _, _ => ((), "bad-op"))
  | ["ofdigits", r, s] =>
    (match r.toNat?, s.toList.mapM charDigit with
     | some r, some ds => if ds.all (· < r) then ((), toString (ofDigits r ds)) else ((), "bad-digit")
     | _, _ => ((), "bad-op"))
  | _ => ((), "bad-op")

def main : IO Unit := serve step ()
