import BoaVerif.Common.Proto
import BoaVerif.C15.Bytes
open BoaVerif BoaVerif.Proto BoaVerif.C15

def parseKind : String → Option Kind
  | "i8" => some .i8 | "u8" => some .u8 | "u8c" => some .u8c | "i16" => some .i16 | "u16" => some .u16
  | "i32" => some .i32 | "u32" => some .u32 | "f64" => some .f64 | "bi64" => some .bi64 | "bu64" => some .bu64
  | _ => none

def parseOptNat (s : String) : Option (Option Nat) := if s == "-" then some none else s.toNat?.map some

def parseVal (s : String) : Option Val :=
  if s.startsWith "d:" then (hexNat? (s.drop 2).toString).map .num
  else if s.startsWith "n:" then
    let t := (s.drop 2).toString
    if t.startsWith "-" then (t.drop 1).toString.toNat?.map (fun n => .big (-(n : Int)))
    else t.toNat?.map (fun n => .big (n : Int))
  else none

def parseIntTok (t : String) : Option Int :=
  if t.startsWith "-" then (t.drop 1).toString.toNat?.map (fun n => -(n : Int)) else t.toNat?.map (fun n => (n : Int))
def parseOptInt (s : String) : Option (Option Int) := if s == "-" then some none else (parseIntTok s).map some

def parseOp (toks : List String) : Option Op :=
  match toks with
  | ["buf", l, m] => do some (.newBuf (← l.toNat?) (← parseOptNat m))
  | ["resize", n] => n.toNat?.map .resize
  | ["view", k, o, l] => do some (.newView (← parseKind k) (← o.toNat?) (← parseOptNat l))
  | ["len", v] => v.toNat?.map .len
  | ["get", v, i] => do some (.get (← v.toNat?) (← i.toNat?))
  | ["set", v, i, x] => do some (.set (← v.toNat?) (← i.toNat?) (← parseVal x))
  | ["bytes"] => some .bytes
  | ["dvget", k, o, le] => do some (.dvGet (← parseKind k) (← o.toNat?) (le == "1"))
  | ["dvset", k, o, le, x] => do some (.dvSet (← parseKind k) (← o.toNat?) (le == "1") (← parseVal x))
  | ["detach"] => some .detach
  | ["copy", d, sv, o] => do some (.copy (← d.toNat?) (← sv.toNat?) (← o.toNat?))
  | ["scopy", d, sv, o] => do some (.copy (← d.toNat?) (← sv.toNat?) (← o.toNat?))   -- same bytes, source held in a SharedArrayBuffer
  | ["fill", v, x, st, e] => do some (.fill (← v.toNat?) (← parseVal x) (← parseIntTok st) (← parseOptInt e))
  | ["cw", v, t, st, e] => do some (.copyWithin (← v.toNat?) (← parseIntTok t) (← parseIntTok st) (← parseOptInt e))
  | _ => none

def step' (s : St) (toks : List String) : St × String :=
  match toks with
  | ["reset"] => ({}, "ok")
  | ["toint32", h] => (s, match hexNat? h with | some b => toString (f64ToInt32 b) | none => "bad-op")
  | _ => match parseOp toks with
    | none => (s, "bad-op")
    | some op => step s op

def main : IO Unit := serve step' {}
