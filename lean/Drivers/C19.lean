import BoaVerif.Common.Proto
import BoaVerif.C19.Model
open BoaVerif BoaVerif.Proto BoaVerif.C19

def hex4 (n : Nat) : String :=
  String.ofList [Char.ofNat (hexUp (n / 4096)), Char.ofNat (hexUp (n / 256 % 16)), Char.ofNat (hexUp (n / 16 % 16)), Char.ofNat (hexUp (n % 16))]

def parseUnits : List Char → Option (List Nat)
  | [] => some []
  | a :: b :: c :: d :: r =>
    match hexVal a.toNat, hexVal b.toNat, hexVal c.toNat, hexVal d.toNat, parseUnits r with
    | some x1, some x2, some x3, some x4, some t => some ((x1 * 4096 + x2 * 256 + x3 * 16 + x4) :: t)
    | _, _, _, _, _ => none
  | _ => none

def step (_ : Unit) (toks : List String) : Unit × String :=
  match toks with
  | ["print", hex] =>
    (match parseUnits (if hex == "-" then [] else hex.toList) with
     | some units =>
       let p := printString units
       let back := match p with
         | _ :: body => (lexStrBody (body.length + 1) body).map (·.1)
         | [] => none
       ((), String.join (p.map hex4) ++ (if back == some units then " rt" else " NO-ROUNDTRIP"))
     | none => ((), "bad-op"))
  | _ => ((), "bad-op")

def main : IO Unit := serve step ()
