import BoaVerif.Common.Proto
import BoaVerif.C19.Model
import BoaVerif.C19.Prec
open BoaVerif BoaVerif.Proto BoaVerif.C19

def hex4 (n : Nat) : String :=
  String.ofList [Char.ofNat (hexUp (n / 4096)), Char.ofNat (hexUp (n / 256 % 16)), Char.ofNat (hexUp (n / 16 % 16)), Char.ofNat (hexUp (n % 16))]

def parseUnits : List Char → Option (List Nat)
  | [] => some []
  | a :: b :: c :: d :: r =>
    match hexVal a.toNat, hexVal b.toNat, hexVal c.toNat, hexVal d.toNat, parseUnits r with
    | some x1, some x2, some x3, some x4, some t => some ((x1 * 4096 + x2 * 256 + x3 * 16 + x4) :: t)
    | _, _, _, _, _ => none
  | _ => none

namespace PrecDrv
open BoaVerif.C19.Prec

def pTok (t : String) : Option Tok :=
  match t with
  | "+" => some (.op .add) | "-" => some (.op .sub) | "*" => some (.op .mul) | "/" => some (.op .div)
  | "(" => some .lp | ")" => some .rp
  | n => n.toNat?.map .num

def opName : Op → String | .add => "add" | .sub => "sub" | .mul => "mul" | .div => "div"

def shape : E → String
  | .num n => s!"(num {n})"
  | .neg e => s!"(neg {shape e})"
  | .paren e => s!"(paren {shape e})"
  | .bin o l r => s!"(bin {opName o} {shape l} {shape r})"

def tokStr : Tok → String
  | .num n => toString n | .op .add => "+" | .op .sub => "-" | .op .mul => "*" | .op .div => "/" | .lp => "(" | .rp => ")"

/-- `prec <tokens…>`: the tree the model's parser builds, and whether printing and parsing it again is the identity -/
def run (toks : List String) : String :=
  match toks.mapM pTok with
  | none => "bad-op"
  | some ts =>
    match parse ts with
    | none => "reject"
    | some e => "tree " ++ shape e ++ (if pr e == ts && parse (pr e) == some e then " fix" else " NOFIX")
end PrecDrv

def step (_ : Unit) (toks : List String) : Unit × String :=
  match toks with
  | ["print", hex] =>
    (match parseUnits (if hex == "-" then [] else hex.toList) with
     | some units =>
       let p := printString units
       let back := match p with
         | _ :: body => (lexStrBody (body.length + 1) body).map (·.1)
         | [] => none
       ((), String.join (p.map hex4) ++ (if back == some units then " rt" else " NO-ROUNDTRIP"))
     | none => ((), "bad-op"))
  | "prec" :: rest => ((), PrecDrv.run rest)
  | _ => ((), "bad-op")

def main : IO Unit := serve step ()
