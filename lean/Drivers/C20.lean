import BoaVerif.Common.Proto
import BoaVerif.C20.Model
open BoaVerif BoaVerif.Proto BoaVerif.C20

def pKey (s : String) : Option Key :=
  match s.toList with
  | 'i' :: r => (String.ofList r).toNat?.map .idx
  | 's' :: r => (String.ofList r).toNat?.map .str
  | 'y' :: r => (String.ofList r).toNat?.map .sym
  | _ => none

def pOps : List String → Option (List Op)
  | [] => some []
  | "s" :: k :: r => do let kk ← pKey k; let t ← pOps r; some (.set kk :: t)
  | "d" :: k :: r => do let kk ← pKey k; let t ← pOps r; some (.del kk :: t)
  | _ => none

def showKey : Key → String
  | .idx n => s!"i{n}" | .str n => s!"s{n}" | .sym n => s!"y{n}"

def showKeys (l : List Key) : String := if l.isEmpty then "-" else ",".intercalate (l.map showKey)

/-- a third storage: "hash" order — grouped by residue mod 7, newest first inside a group -/
def placeHash : Storage := fun n l =>
  let (a, b) := l.partition (fun m => m % 7 < n % 7)
  a ++ n :: b

def pROps : List String → Option (List ROp)
  | [] => some []
  | "set" :: a :: b :: r => do let x ← a.toNat?; let y ← b.toInt?; let t ← pROps r; some (.set x y :: t)
  | "get" :: a :: r => do let x ← a.toNat?; let t ← pROps r; some (.get x :: t)
  | "copy" :: a :: b :: r => do let x ← a.toNat?; let y ← b.toNat?; let t ← pROps r; some (.copy x y :: t)
  | "add" :: a :: b :: r => do let x ← a.toNat?; let y ← b.toNat?; let t ← pROps r; some (.add x y :: t)
  | _ => none

/-- `keys <ops>`: own keys under three storages and by the specification.
    `realm <r> <ops>` / `reset`: run a script in realm r of the driver's world, answer its trace. -/
def step (w : World) : List String → World × String
  | "keys" :: r =>
    match pOps r with
    | some ops =>
      (w, s!"front={showKeys (Obj.run placeFront ops).ownKeys} back={showKeys (Obj.run placeBack ops).ownKeys} hash={showKeys (Obj.run placeHash ops).ownKeys} spec={showKeys (specKeys ops)}")
    | none => (w, "bad-op")
  | "realm" :: r :: rest =>
    match r.toNat?, pROps rest with
    | some rr, some ops => let res := runIn w rr ops; (res.1, if res.2.isEmpty then "-" else ",".intercalate (res.2.map toString))
    | _, _ => (w, "bad-op")
  | ["reset"] => (fun _ _ => 0, "ok")
  | _ => (w, "bad-op")

def main : IO Unit := serve step (fun _ _ => 0)
