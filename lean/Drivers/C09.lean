import BoaVerif.Common.Proto
import BoaVerif.C09.Model
open BoaVerif BoaVerif.Proto BoaVerif.C09

def parseOp (toks : List String) : Option Op :=
  match toks with
  | ["alloc"] => some .alloc
  | ["clone", n] => n.toNat?.map .clone
  | ["drop", n] => n.toNat?.map .drop
  | ["link", a, b] => do some (.link (← a.toNat?) (← b.toNat?))
  | ["unlink", a, b] => do some (.unlink (← a.toNat?) (← b.toNat?))
  | ["eph", k, "-"] => do some (.ephNew (← k.toNat?) none)
  | ["eph", k, v] => do some (.ephNew (← k.toNat?) (some (← v.toNat?)))
  | ["ephclone", e] => e.toNat?.map .ephClone
  | ["ephdrop", e] => e.toNat?.map .ephDrop
  | ["ephstore", a, e] => do some (.ephStore (← a.toNat?) (← e.toNat?))
  | ["ephunstore", a, e] => do some (.ephUnstore (← a.toNat?) (← e.toNat?))
  | ["collect"] => some .collect
  | ["collectb", a] => a.toNat?.map .collectBorrowed
  | _ => none

def natsStr (l : List Nat) : String := ",".intercalate (l.map toString)

def dedup (l : List Nat) : List Nat := l.foldl (fun acc x => if acc.contains x then acc else acc ++ [x]) []

def observe (h : Heap) : String :=
  let ids := List.range h.nodes.length
  let alive := ids.filter (fun i => match h.nodes[i]? with | some n => n.dropped == 0 | none => false)
  let fin := ids.filterMap (fun i => match h.nodes[i]? with
    | some n => if n.finalized > 0 then some s!"{i}:{n.finalized}" else none | none => none)
  let dbl := ids.filterMap (fun i => match h.nodes[i]? with
    | some n => if n.dropped > 1 then some s!"{i}:{n.dropped}" else none | none => none)
  let ev := (dedup h.extE).map (fun e => match h.ephs[e]? with
    | some x => s!"{e}:{if x.data.isSome then 1 else 0}" | none => s!"{e}:?")
  s!"alive={natsStr alive} fin={",".intercalate fin} dbl={",".intercalate dbl} eph={",".intercalate ev}"

def step' (h : Heap) (toks : List String) : Heap × String :=
  match toks with
  | ["reset"] => ({}, "ok")
  | _ => match parseOp toks with
    | none => (h, "bad-op")
    | some op => let h' := step h op; (h', observe h')

def main : IO Unit := serve step' {}
