import BoaVerif.Common.Proto
import BoaVerif.C02.Model
open BoaVerif BoaVerif.Proto BoaVerif.C02

def pOp : String → Option Op
  | "add" => some .add | "sub" => some .sub | "mul" => some .mul | "div" => some .div | "rem" => some .rem | "pow" => some .pow
  | "band" => some .band | "bor" => some .bor | "bxor" => some .bxor | "shl" => some .shl | "shr" => some .shr | "ushr" => some .ushr
  | "neg" => some .neg | "inc" => some .inc | "dec" => some .dec | _ => none

def showR : R → String
  | .int v => s!"int {v}" | .num v => s!"num {v}" | .negZero => "negzero" | .nan => "nan" | .posInf => "inf" | .negInf => "-inf"
  | .quot x y => s!"quot {x} {y}" | .prod x y => s!"prod {x} {y}" | .powf x y => s!"powf {x} {y}" | .panic w => s!"panic {w}"

/-- `op <name> <x> <y>`; operands must be in the i32 range -/
def step (_ : Unit) : List String → Unit × String
  | ["op", name, a, b] =>
    match pOp name, a.toInt?, b.toInt? with
    | some o, some x, some y =>
      if decide (inRange x) && decide (inRange y) then ((), showR (eval o x y)) else ((), "bad-op")
    | _, _, _ => ((), "bad-op")
  | _ => ((), "bad-op")

def main : IO Unit := serve step ()
