import BoaVerif.Common.Proto
import BoaVerif.C07.Model
open BoaVerif BoaVerif.Proto BoaVerif.C07

/-- parse `fp:rp:argc:regs:ee:envs:envfp` -/
def parseFrame (s : String) : Option (Frame × Nat) :=
  match (s.splitOn ":").mapM String.toNat? with
  | some [fp, rp, argc, regs, ee, _, _] => some ({ fp := fp, rp := rp, regs := regs, exitEarly := ee == 1 }, argc)
  | _ => none

/-- the laws `push_frame` establishes, checked on a snapshot of the real VM (frames outermost first):
    rp = fp + argc + 2 for every frame, and the chain is well-formed w.r.t. the stack length -/
def checkSnap (len : Nat) (fs : List (Frame × Nat)) : String :=
  let inner := fs.reverse                      -- innermost first, as the model keeps them
  let lawOk := inner.all (fun p => p.1.rp == p.1.fp + p.2 + 2)
  let wf := wfFrames (inner.map (·.1)) len
  if lawOk && wf then "wf" else s!"not-wf law={lawOk} chain={wf}"

def step (_ : Unit) (toks : List String) : Unit × String :=
  match toks with
  | "snap" :: lenTok :: _host :: frames =>
    (match (lenTok.drop 4).toString.toNat?, frames.mapM parseFrame with
     | some len, some fs => ((), checkSnap len fs)
     | _, _ => ((), "bad-op"))
  | ["entry", d, argc, regs] =>
    -- what the model predicts for the depths after ANY host entry made at stack depth d: unchanged (theorem `balanced`);
    -- evaluated on a sample behaviour to exercise the executable definitions
    (match d.toNat?, argc.toNat?, regs.toNat? with
     | some d, some argc, some regs =>
       let b := Beh.call 2 3 (.call 0 2 (.throwHere 3 false .ret) .ret false .ret) .ret true (.limitHere 1)
       let r := hostEntry { frames := [], stackLen := d } argc regs b
       ((), s!"frames={r.1.frames.length} stack={r.1.stackLen}")
     | _, _, _ => ((), "bad-op"))
  | _ => ((), "bad-op")

def main : IO Unit := serve step ()
