import BoaVerif.Common.Proto
import BoaVerif.C06.Model
open BoaVerif BoaVerif.Proto BoaVerif.C06

/-- state: one model cache per access site (site id ↦ IC) -/
abbrev St := List (Nat × IC)

def getIC (s : St) (site : Nat) : IC := match s.find? (fun p => p.1 == site) with | some p => p.2 | none => {}
def putIC (s : St) (site : Nat) (ic : IC) : St := (site, ic) :: s.filter (fun p => p.1 != site)

def step (s : St) (toks : List String) : St × String :=
  match toks with
  | ["reset"] => ([], "ok")
  | ["set", site, shape, idx, attrs] =>
    (match site.toNat?, shape.toNat?, idx.toNat?, attrs.toNat? with
     | some site, some shape, some idx, some attrs =>
       let ic := (getIC s site).set shape ⟨idx, attrs⟩
       (putIC s site ic, s!"ok n={ic.entries.length} mega={if ic.megamorphic then 1 else 0}")
     | _, _, _, _ => (s, "bad-op"))
  | ["dead", site, i] =>
    (match site.toNat?, i.toNat? with
     | some site, some i => (putIC s site ((getIC s site).swapRemove i), "ok")
     | _, _ => (s, "bad-op"))
  | ["get", site, shape] =>
    (match site.toNat?, shape.toNat? with
     | some site, some shape =>
       let ic := getIC s site
       (s, match ic.get shape with
           | some sl => s!"hit {sl.index} {sl.attrs} live={ic.entries.length}"
           | none => s!"miss live={ic.entries.length}")
     | _, _ => (s, "bad-op"))
  | _ => (s, "bad-op")

def main : IO Unit := serve step []
