import Std.Data.HashMap
import BoaVerif.Common.Proto
import BoaVerif.C03.Model
import BoaVerif.C08.Model
open BoaVerif BoaVerif.Proto BoaVerif.C03

def splitNE (s : String) (sep : String) : List String := (s.splitOn sep).filter (fun x => !x.isEmpty && x != "-")

def parseNats (s : String) : Option (List Nat) := (splitNE s ".").mapM String.toNat?

def parseIdx (s : String) : Option (List (String × Nat)) :=
  (splitNE s ".").mapM (fun kv => match kv.splitOn "=" with
    | [k, v] => v.toNat?.map (fun n => (k, n))
    | _ => none)

def parseInstr (s : String) : Option Instr :=
  match s.splitOn "," with
  | [pc, next, op, regs, idx, addrs, names] => do
    some { pc := ← pc.toNat?, next := ← next.toNat?, op := op, regs := ← parseNats regs, idx := ← parseIdx idx,
           addrs := ← parseNats addrs, names := splitNE names "." }
  | _ => none

def parseHandler (s : String) : Option Handler :=
  match (s.splitOn ":").mapM String.toNat? with
  | some [a, b, c, d] => some { start := a, stop := b, target := c, envCount := d }
  | _ => none

def parseKinds (s : String) : List CKind :=
  s.toList.filterMap (fun c => match c with | 'S' => some .str | 'B' => some .bigint | 'F' => some .func | 'C' => some .scope | _ => none)

def parseBinds (s : String) : Option (List BScope) :=
  (splitNE s ".").mapM (fun t => if t == "G" then some .global else (t.drop 1).toString.toNat?.map .stack)

def field (toks : List String) (name : String) : String :=
  match toks.find? (fun t => t.startsWith (name ++ "=")) with
  | some t => (t.drop (name.length + 1)).toString
  | none => ""

def parseBlock (toks : List String) : Option Block := do
  let hd := toks.takeWhile (· != "|")
  let rest := (toks.dropWhile (· != "|")).filter (· != "|")
  let instrs ← rest.mapM parseInstr
  let handlers ← (splitNE (field hd "handlers") ";").mapM parseHandler
  some { instrs := instrs, regCount := ← (field hd "regs").toNat?, consts := parseKinds (field hd "consts"),
         binds := ← parseBinds (field hd "binds"), nIC := ← (field hd "nic").toNat?, handlers := handlers,
         entryEnv := ← (field hd "env0").toNat?, envFp := (field hd "fp").toNat? }

def showSigma (a : Sigma) : String := s!"arg={a.arg} env={a.env} bind={a.bind}"

/-- why an annotation is rejected: the first annotated point whose local condition fails -/
def diagnose (b : Block) (annot : Annot) : String :=
  if !(annot.contains (0, entry b)) then "entry-not-annotated" else
  match b.handlers.find? (fun h => (instrAt b h.target).isNone) with
  | some h => s!"handler-target-not-instruction {h.target}"
  | none =>
    match annot.reverse.find? (fun p => !(pointOk b annot p)) with
    | none => "?"
    | some p =>
      match instrAt b p.1 with
      | none => s!"pc={p.1} not-an-instruction-start"
      | some i =>
        if !(operandsOk b i) then
          (match Gen.Opcodes.table.find? (fun r => r.1 == i.op) with
           | none => s!"pc={p.1} op={i.op} opcode-not-in-table"
           | some r =>
             if r.2.length == i.names.length && r.2.all (fun f => i.names.contains f.1) then s!"pc={p.1} op={i.op} operand-out-of-range regs={i.regs} of {b.regCount} idx={i.idx} addrs={i.addrs}"
             else s!"pc={p.1} op={i.op} operands-differ-from-table dump={i.names}")
        else if !(locatorsOk b i p.2) then s!"pc={p.1} op={i.op} binding-locator-beyond-environment-chain env={p.2.env}"
        else match successors b i p.2 with
          | none => s!"pc={p.1} op={i.op} depth-underflow-or-handler-deeper-than-chain at {showSigma p.2}"
          | some succs =>
            match succs.find? (fun q => !(annot.contains q)) with
            | some q => s!"pc={p.1} op={i.op} -> {q.1} state {showSigma q.2} not closed (unbounded depth?)"
            | none => "?"

/-- the first address annotated with two different states -/
def mergeConflict (annot : Annot) : String :=
  match annot.reverse.find? (fun p => annot.any (fun q => p.1 == q.1 && (p.2.arg != q.2.arg || p.2.env != q.2.env || p.2.bind != q.2.bind))) with
  | some p =>
    let others := (annot.reverse.filter (fun q => q.1 == p.1)).map (fun q => showSigma q.2)
    s!"pc={p.1} merge " ++ " / ".intercalate others
  | none => "?"

/-- ranking inference (untrusted): longest distance to a counter / an exit in the graph cut at the counters, by
    repeated reverse sweeps (most edges go forward) -/
def inferRank (b : Block) : C08.Rank :=
  let sweep (m : Std.HashMap Nat Nat) : Std.HashMap Nat Nat :=
    b.instrs.reverse.foldl (fun m i =>
      if C08.isCounter i then m.insert i.pc 0
      else m.insert i.pc (1 + ((C08.succPcs b i).map (fun s => m.getD s 0)).foldl max 0)) m
  let rec go (fuel : Nat) (m : Std.HashMap Nat Nat) : Std.HashMap Nat Nat :=
    match fuel with
    | 0 => m
    | fuel + 1 =>
      let m' := sweep m
      if b.instrs.all (fun i => m'.getD i.pc 0 == m.getD i.pc 0) then m' else go fuel m'
  let m := go 12 {}
  b.instrs.map (fun i => (i.pc, m.getD i.pc 0))

def step (_ : Unit) (toks : List String) : Unit × String :=
  match toks with
  | "block" :: rest =>
    (match parseBlock rest with
     | none => ((), "bad-op")
     | some b =>
       let annot := inferBlock b
       let rk := inferRank b
       let guarded := C08.rankOk b rk
       let g := if guarded then s!"1 maxrank={C08.maxRank rk}" else "0 maxrank=-"
       let dump := " ".intercalate (annot.reverse.map (fun p => s!"{p.1}:{p.2.arg}:{p.2.env}:{p.2.bind}"))
       if check b annot then ((), s!"ok guarded={g} n={annot.length} " ++ dump)
       else if checkRel b annot && functional annot then
         let bad := annot.reverse.filter (fun p => !(handlerDepthOk b p))
         let descr := " ".intercalate (bad.map (fun p => s!"pc={p.1}/op={((instrAt b p.1).map (·.op)).getD "?"}/env={p.2.env}"))
         ((), s!"shallow guarded={g} {descr} | " ++ dump)
       else if checkRel b annot then
         let bad := annot.reverse.filter (fun p => !(handlerDepthOk b p))
         let shallow := ",".intercalate (bad.map (fun p => s!"{p.1}/op={((instrAt b p.1).map (·.op)).getD "?"}/"))
         let argBindAgree := annot.all (fun p => annot.all (fun q => p.1 != q.1 || (p.2.arg == q.2.arg && p.2.bind == q.2.bind)))
         let atHandler := match annot.reverse.find? (fun p => annot.any (fun q => p.1 == q.1 && (p.2.arg != q.2.arg || p.2.env != q.2.env || p.2.bind != q.2.bind))) with
           | some p => b.handlers.any (fun h => h.target == p.1)
           | none => false
         ((), s!"merge guarded={g} envbind={if envBindFunctional annot then 1 else 0} disp={if functionalDisp annot then 1 else 0} envonly={if argBindAgree then 1 else 0} athandler={if atHandler then 1 else 0} shallow={if shallow.isEmpty then "-" else shallow} {mergeConflict annot} | " ++ dump)
       else ((), s!"reject guarded={g} " ++ diagnose b annot))
  | _ => ((), "bad-op")

def main : IO Unit := serve step ()
