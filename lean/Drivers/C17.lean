import BoaVerif.Common.Proto
import BoaVerif.C17.Model
open BoaVerif BoaVerif.Proto BoaVerif.C17

def field (toks : List String) (name : String) : String :=
  match toks.find? (fun t => t.startsWith (name ++ "=")) with
  | some t => (t.drop (name.length + 1)).toString
  | none => ""

def natsOf (s : String) : List Nat := ((s.splitOn ",").filter (fun x => !x.isEmpty)).filterMap String.toNat?

def step (_ : Unit) (toks : List String) : Unit × String :=
  match toks with
  | "run" :: rest =>
    let depsStr := field rest "deps"
    let deps := ((depsStr.splitOn ";").filter (fun x => !x.isEmpty)).map (fun e =>
      match e.splitOn ":" with
      | [_, ds] => natsOf ds
      | _ => [])
    let throws := (field rest "throws").toList.map (fun c => c == '1')
    let roots := natsOf (field rest "roots")
    let g : Graph := { deps := deps, throws := throws }
    let (final, outs) := roots.foldl (fun (acc : St × List String) r =>
      let s' := evaluate g acc.1 r
      (s', acc.2 ++ [match outcome s' with | some e => toString e | none => "-"])) (St.init, [])
    ((), s!"trace={",".intercalate (final.trace.map toString)} outcomes={",".intercalate outs}")
  | _ => ((), "bad-op")

def main : IO Unit := serve step ()
