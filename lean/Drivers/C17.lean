import BoaVerif.Common.Proto
import BoaVerif.C17.Model
import BoaVerif.C17.Async
open BoaVerif BoaVerif.Proto BoaVerif.C17

def field (toks : List String) (name : String) : String :=
  match toks.find? (fun t => t.startsWith (name ++ "=")) with
  | some t => (t.drop (name.length + 1)).toString
  | none => ""

def natsOf (s : String) : List Nat := ((s.splitOn ",").filter (fun x => !x.isEmpty)).filterMap String.toNat?

def step (_ : Unit) (toks : List String) : Unit × String :=
  match toks with
  | "run" :: rest =>
    let depsStr := field rest "deps"
    let deps := ((depsStr.splitOn ";").filter (fun x => !x.isEmpty)).map (fun e =>
      match e.splitOn ":" with
      | [_, ds] => natsOf ds
      | _ => [])
    let throws := (field rest "throws").toList.map (fun c => c == '1')
    let roots := natsOf (field rest "roots")
    let g : Graph := { deps := deps, throws := throws }
    let (final, outs) := roots.foldl (fun (acc : St × List String) r =>
      let s' := evaluate g acc.1 r
      (s', acc.2 ++ [match outcome s' with | some e => toString e | none => "-"])) (St.init, [])
    ((), s!"trace={",".intercalate (final.trace.map toString)} outcomes={",".intercalate outs}")
  | "arun" :: rest =>
    let depsStr := field rest "deps"
    let deps := ((depsStr.splitOn ";").filter (fun x => !x.isEmpty)).map (fun e =>
      match e.splitOn ":" with
      | [_, ds] => natsOf ds
      | _ => [])
    let awaits := natsOf (field rest "awaits")
    let roots := natsOf (field rest "roots")
    let g : Async.AGraph := { deps := deps, awaits := awaits, throws := (field rest "throws").toList.map (fun c => c == '1') }
    let (final, outs) := roots.foldl (fun (acc : Async.St × List String) r =>
      let s' := Async.evaluate g acc.1 r
      (s', acc.2 ++ [Async.outcomeOf s' r])) (Async.St.init deps.length, [])
    ((), s!"trace={",".intercalate (final.trace.map Async.showEv)} outcomes={",".intercalate outs}")
  | _ => ((), "bad-op")

def main : IO Unit := serve step ()
