import BoaVerif.Common.Proto
import BoaVerif.C04.Model
open BoaVerif BoaVerif.Proto BoaVerif.C04

abbrev P (α : Type) := List String → Option (α × List String)

partial def pExpr : P Expr
  | "n" :: x :: r => x.toInt?.map (fun n => (.lit n, r))
  | "v" :: x :: r => x.toNat?.map (fun n => (.var n, r))
  | "+" :: r => do let (a, r1) ← pExpr r; let (b, r2) ← pExpr r1; some (.add a b, r2)
  | "*" :: r => do let (a, r1) ← pExpr r; let (b, r2) ← pExpr r1; some (.mul a b, r2)
  | "<" :: r => do let (a, r1) ← pExpr r; let (b, r2) ← pExpr r1; some (.lt a b, r2)
  | "c" :: k :: r => do let kk ← k.toNat?; let (a, r1) ← pExpr r; some (.callOut kk a, r1)
  | _ => none

partial def pStmt : P Stmt
  | "=" :: x :: r => do let n ← x.toNat?; let (e, r1) ← pExpr r; some (.assign n e, r1)
  | "p" :: r => do let (e, r1) ← pExpr r; some (.print e, r1)
  | ";" :: r => do let (a, r1) ← pStmt r; let (b, r2) ← pStmt r1; some (.seq a b, r2)
  | "i" :: r => do let (c, r1) ← pExpr r; let (t, r2) ← pStmt r1; let (e, r3) ← pStmt r2; some (.ite c t e, r3)
  | "l" :: n :: r => do let k ← n.toNat?; let (c, r1) ← pExpr r; let (b, r2) ← pStmt r1; some (.loop k c b, r2)
  | _ => none

def pTable (s : String) : Option (List (Name × Name)) :=
  if s == "-" then some [] else
  (s.splitOn ",").mapM (fun e => match e.splitOn ":" with
    | [a, b] => do let x ← a.toNat?; let y ← b.toNat?; some (x, y)
    | _ => none)

def showTrace (t : List Int) : String := ",".intercalate (t.map toString)

/-- `run <table> <program…>` → `ref=<trace> opt=<trace> regs=<variables 0..7 placed in registers>` -/
def step (_ : Unit) : List String → Unit × String
  | "run" :: tbl :: prog =>
    match pTable tbl, pStmt prog with
    | some t, some (st, []) =>
      let init : Store := fun _ => 0
      let a := (execRef (tableOut t) st (init, [])).2
      let b := (execOpt (tableOut t) (tablePlacement t) st ({ regs := init, env := init }, [])).2
      let regs := (List.range 8).filter (fun x => tablePlacement t x)
      ((), s!"ref={showTrace a} opt={showTrace b} regs={",".intercalate (regs.map toString)}")
    | _, _ => ((), "bad-op")
  | _ => ((), "bad-op")

def main : IO Unit := serve step ()
