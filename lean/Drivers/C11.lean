import BoaVerif.Common.Proto
import BoaVerif.C11.Model
open BoaVerif BoaVerif.Proto BoaVerif.C11

def parseLit (s : String) : Option JsStr :=
  let body := (s.drop 2).toString
  let nums : Option (List Nat) := if body.isEmpty then some [] else (body.splitOn ",").mapM hexNat?
  match nums with
  | none => none
  | some ns => if s.startsWith "l:" then some (.latin1 ns) else if s.startsWith "u:" then some (.utf16 ns) else none

def hexList (l : List Nat) : String := ",".intercalate (l.map hexOfNat)
def showStr (s : JsStr) : String := (if s.isLatin1 then "l:" else "u:") ++ hexList s.units
def optHex (o : Option Nat) : String := match o with | some n => hexOfNat n | none => "-"
def b01 (b : Bool) : String := if b then "1" else "0"

def construct (ctor : String) (l : JsStr) : Option JsStr :=
  let n := l.len
  match ctor with
  | "seq" => some l
  | "intern" => some l
  | "builder" => some l
  | "slice" =>
    let padded := match l with
      | .latin1 v => JsStr.latin1 ([0x78] ++ v ++ [0x79])
      | .utf16 v => JsStr.utf16 ([0x78] ++ v ++ [0x79])
    some (padded.slice 1 (1 + n))
  | "concat" => some (concatArray [sliceUnchecked l 0 (n / 2), sliceUnchecked l (n / 2) n])
  | "str" => (Spec.toStdString l.units).map fromStr
  | _ => none

def answer (ca : String) (la : JsStr) (cb : String) (lb : JsStr) (i j e : Nat) : String :=
  match construct ca la, construct cb lb with
  | some a, some b =>
    let cmp := match a.cmp b with | .lt => "-1" | .eq => "0" | .gt => "1"
    let cp := match a.codePointAt i with
      | some (.unicode c) => "U" ++ hexOfNat c
      | some (.unpaired u) => "S" ++ hexOfNat u
      | none => "-"
    let std := match a.toStdString with | some cps => hexList cps | none => "err"
    let eqs := match Spec.toStdString lb.units with
      | some cps => b01 (a.eqStr cps) ++ b01 (a.eqStr cps)
      | none => "-"
    joinSp [
      "va=" ++ (if a.isLatin1 then "l" else "u"), "vb=" ++ (if b.isLatin1 then "l" else "u"),
      "eq=" ++ b01 (a.eq b), "cmp=" ++ cmp, "ha=" ++ hexList a.hashWrites, "len=" ++ hexOfNat a.len,
      "get=" ++ optHex (a.getUnit i), "sw=" ++ b01 (a.startsWith b), "ew=" ++ b01 (a.endsWith b),
      "io=" ++ optHex (a.indexOf b i), "cp=" ++ cp, "ct=" ++ b01 (a.contains e),
      "tr=" ++ showStr a.trim, "ts=" ++ showStr a.trimStart, "te=" ++ showStr a.trimEnd,
      "sl=" ++ showStr (a.slice i j), "cc=" ++ showStr (concatArray [a, b]), "std=" ++ std, "eqs=" ++ eqs]
  | _, _ => "bad-op"

/-- the same answer computed by the specification functions on plain code-unit arrays -/
def specAnswer (a b : List Nat) (i j e : Nat) : String :=
  let cmp := match Spec.cmp a b with | .lt => "-1" | .eq => "0" | .gt => "1"
  let cp := match Spec.codePointAt a i with
    | some (.unicode c) => "U" ++ hexOfNat c
    | some (.unpaired u) => "S" ++ hexOfNat u
    | none => "-"
  let std := match Spec.toStdString a with | some cps => hexList cps | none => "err"
  let eqs := match Spec.toStdString b with
    | some cps => b01 (Spec.eqStr a cps) ++ b01 (Spec.eqStr a cps)
    | none => "-"
  joinSp [
    "eq=" ++ b01 (Spec.eq a b), "cmp=" ++ cmp, "ha=" ++ hexList (Spec.hashWrites a), "len=" ++ hexOfNat (Spec.len a),
    "get=" ++ optHex (Spec.getUnit a i), "sw=" ++ b01 (Spec.startsWith a b), "ew=" ++ b01 (Spec.endsWith a b),
    "io=" ++ optHex (Spec.indexOf a b i), "cp=" ++ cp, "ct=" ++ b01 (Spec.contains a e),
    "tr=" ++ hexList (Spec.trim a), "ts=" ++ hexList (Spec.trimStart a), "te=" ++ hexList (Spec.trimEnd a),
    "sl=" ++ hexList (Spec.slice a i j), "cc=" ++ hexList (Spec.concat [a, b]), "std=" ++ std, "eqs=" ++ eqs]

def step (_ : Unit) (toks : List String) : Unit × String :=
  match toks with
  | ["pair", ca, sa, cb, sb, i, j, e] =>
    match parseLit sa, parseLit sb, i.toNat?, j.toNat?, hexNat? e with
    | some la, some lb, some i, some j, some e => ((), answer ca la cb lb i j e)
    | _, _, _, _, _ => ((), "bad-op")
  | ["spec", _, sa, _, sb, i, j, e] =>
    match parseLit sa, parseLit sb, i.toNat?, j.toNat?, hexNat? e with
    | some la, some lb, some i, some j, some e => ((), specAnswer la.units lb.units i j e)
    | _, _, _, _, _ => ((), "bad-op")
  | _ => ((), "bad-op")

def main : IO Unit := serve step ()
