import BoaVerif.Common.Proto
import BoaVerif.Common.Sexp
import BoaVerif.C05.Concrete
open BoaVerif BoaVerif.Proto BoaVerif.C05

def hexToStr (h : String) : Option String :=
  -- groups of 4 hex digits = UTF-16 units; only BMP non-surrogate strings are produced by the generator
  let cs := h.toList
  let rec go (cs : List Char) (acc : List Char) (fuel : Nat) : Option (List Char) :=
    match fuel with
    | 0 => none
    | fuel + 1 =>
      match cs with
      | [] => some acc.reverse
      | a :: b :: c :: d :: rest =>
        match hexNat? (String.ofList [a, b, c, d]) with
        | some n => go rest (Char.ofNat n :: acc) fuel
        | none => none
      | _ => none
  (go cs [] (cs.length + 1)).map String.ofList

def strToHex (s : String) : String :=
  String.join (s.toList.map (fun c =>
    let h := hexOfNat c.toNat
    String.ofList (List.replicate (4 - h.length) '0') ++ h))

def parseInt? (s : String) : Option Int :=
  if s.startsWith "-" then (s.drop 1).toString.toNat?.map (fun n => -(n : Int)) else s.toNat?.map (fun n => (n : Int))

def parseUn : String → Option UnOp
  | "neg" => some .neg | "plus" => some .plus | "not" => some .not | "typeof" => some .typeof
  | "void" => some .void | "delete" => some .delete | _ => none
def parseBin : String → Option BinOp
  | "add" => some .add | "sub" => some .sub | "mul" => some .mul | "div" => some .div | "exp" => some .exp
  | "mod" => some .mod | "lt" => some .lt | "le" => some .le | "gt" => some .gt | "ge" => some .ge
  | "eq" => some .eq | "ne" => some .ne | "seq" => some .seq | "sne" => some .sne | "band" => some .band
  | "bor" => some .bor | _ => none
def parseLog : String → Option LogOp
  | "and" => some .and | "or" => some .or | "coalesce" => some .coalesce | _ => none

partial def toExpr : Sexp → Option Expr
  | .list [.atom "lit", .atom "undef"] => some (.lit .undef)
  | .list [.atom "lit", .atom "null"] => some (.lit .null)
  | .list [.atom "lit", .atom "true"] => some (.lit (.bool true))
  | .list [.atom "lit", .atom "false"] => some (.lit (.bool false))
  | .list [.atom "lit", .atom "i", .atom n] => (parseInt? n).map (fun z => .lit (.int z))
  | .list [.atom "lit", .atom "n", .atom "3fe0000000000000"] => some (.lit .half)
  | .list [.atom "lit", .atom "big", .atom n] => (parseInt? n).map (fun z => .lit (.big z))
  | .list [.atom "lit", .atom "s", .atom h] => (hexToStr (h.drop 1).toString).map (fun s => .lit (.str s))
  | .list [.atom "id", .atom x] => some (.ident x)
  | .list [.atom "paren", e] => (toExpr e).map .paren
  | .list [.atom "un", .atom op, e] => do some (.unary (← parseUn op) (← toExpr e))
  | .list [.atom "bin", .atom op, a, b] => do some (.bin (← parseBin op) (← toExpr a) (← toExpr b))
  | .list [.atom "log", .atom op, a, b] => do some (.logical (← parseLog op) (← toExpr a) (← toExpr b))
  | .list [.atom "comma", a, b] => do some (.comma (← toExpr a) (← toExpr b))
  | .list [.atom "call", .atom f, a] => do some (.call f (← toExpr a))
  | .list [.atom "assign", .atom x, e] => do some (.assign x (← toExpr e))
  | _ => none

def toOptExpr : Sexp → Option (Option Expr)
  | .atom "-" => some none
  | e => (toExpr e).map some

partial def toStmt : Sexp → Option Stmt
  | .list [.atom "expr", e] => (toExpr e).map .expr
  | .list [.atom "empty"] => some .empty
  | .list [.atom "if", c, t] => do some (.ifS (← toExpr c) (← toStmt t) none)
  | .list [.atom "if", c, t, e] => do some (.ifS (← toExpr c) (← toStmt t) (some (← toStmt e)))
  | .list [.atom "while", c, b] => do some (.whileS (← toExpr c) (← toStmt b))
  | .list [.atom "for", i, c, u, b] => do some (.forS (← toOptExpr i) (← toOptExpr c) (← toOptExpr u) (← toStmt b))
  | .list (.atom "block" :: ss) => (ss.mapM toStmt).map .block
  | .list [.atom "var", .atom x, i] => do some (.varDecl x (← toOptExpr i))
  | .list [.atom "fun", .atom f] => some (.funDecl f)
  | _ => none

def litStr : Lit → String
  | .undef => "(lit undef)" | .null => "(lit null)" | .bool b => s!"(lit {b})" | .int i => s!"(lit i {i})"
  | .big n => s!"(lit big {n})" | .half => "(lit n 3fe0000000000000)" | .str s => if s == "\x00out-of-domain" then "(OOD)" else "(lit s x" ++ strToHex s ++ ")"

def unStr : UnOp → String
  | .neg => "neg" | .plus => "plus" | .not => "not" | .typeof => "typeof" | .void => "void" | .delete => "delete"
def binStr : BinOp → String
  | .add => "add" | .sub => "sub" | .mul => "mul" | .div => "div" | .exp => "exp" | .mod => "mod" | .lt => "lt" | .le => "le"
  | .gt => "gt" | .ge => "ge" | .eq => "eq" | .ne => "ne" | .seq => "seq" | .sne => "sne" | .band => "band" | .bor => "bor"
def logStr : LogOp → String | .and => "and" | .or => "or" | .coalesce => "coalesce"

def exprStr : Expr → String
  | .lit l => litStr l
  | .ident x => s!"(id {x})"
  | .unary op e => s!"(un {unStr op} {exprStr e})"
  | .bin op a b => s!"(bin {binStr op} {exprStr a} {exprStr b})"
  | .logical op a b => s!"(log {logStr op} {exprStr a} {exprStr b})"
  | .comma a b => s!"(comma {exprStr a} {exprStr b})"
  | .call f a => s!"(call {f} {exprStr a})"
  | .assign x e => s!"(assign {x} {exprStr e})"
  | .paren e => s!"(paren {exprStr e})"

def optExprStr : Option Expr → String | none => "-" | some e => exprStr e

partial def stmtStr : Stmt → String
  | .expr e => s!"(expr {exprStr e})"
  | .empty => "(empty)"
  | .ifS c t none => s!"(if {exprStr c} {stmtStr t})"
  | .ifS c t (some e) => s!"(if {exprStr c} {stmtStr t} {stmtStr e})"
  | .whileS c b => s!"(while {exprStr c} {stmtStr b})"
  | .forS i c u b => s!"(for {optExprStr i} {optExprStr c} {optExprStr u} {stmtStr b})"
  | .block ss => "(block" ++ String.join (ss.map (fun s => " " ++ stmtStr s)) ++ ")"
  | .varDecl x i => s!"(var {x} {optExprStr i})"
  | .funDecl f => s!"(fun {f})"

/-- the concrete semantics, except that an out-of-domain operation is "not foldable" instead of the poison literal -/
def concreteStrict : LitSem where
  binop := fun op a b => match concrete.binop op a b with | some r => if r == ood then none else some r | none => none
  unop := fun op l => match concrete.unop op l with | some r => if r == ood then none else some r | none => none
  truthy := concrete.truthy
  nullish := concrete.nullish

/-- request: `opt <bits> <program s-expression>`; answer: the optimized program -/
def step (_ : Unit) (toks : List String) : Unit × String :=
  match toks with
  | "opt" :: bits :: rest =>
    match bits.toNat?, Sexp.parse (joinSp rest) with
    | some b, some (.list (.atom "program" :: ss)) =>
      match ss.mapM toStmt with
      | some prog =>
        let o : Options := { constantFolding := b / 2 % 2 == 1, strengthReduction := b / 4 % 2 == 1, deadCode := b / 8 % 2 == 1 }
        let out := optStmtList concrete o prog
        -- the poison literal of the concrete semantics can be DROPPED by a later rule (comma, logical): run again with a
        -- semantics in which an out-of-domain operation is not foldable; any difference means the domain was left
        let out2 := optStmtList concreteStrict o prog
        let r1 := "(program" ++ String.join (out.map (fun s => " " ++ stmtStr s)) ++ ")"
        let r2 := "(program" ++ String.join (out2.map (fun s => " " ++ stmtStr s)) ++ ")"
        ((), if r1 == r2 then r1 else "(OOD)")
      | none => ((), "unsupported")
    | _, _ => ((), "bad-op")
  | _ => ((), "bad-op")

def main : IO Unit := serve step ()
