import BoaVerif.Common.Proto
import BoaVerif.C12.Value
open BoaVerif BoaVerif.Proto BoaVerif.C12 BoaVerif.Gen.Bits

def hex16 (v : BitVec 64) : String :=
  let s := hexOfNat v.toNat
  String.ofList (List.replicate (16 - s.length) '0') ++ s

def predNames (v : BitVec 64) : String :=
  let ks : List Kind := [.float, .int32, .boolean, .null, .undefined, .object, .string, .symbol, .bigint]
  ",".intercalate ((ks.filter (fun k => holds k v)).map Kind.name)

def tail (w : BitVec 64) : String :=
  let asi := match asI32 w with | some i => hexOfNat i.toNat | none => "-"
  s!" tb={if toBoolean true w then 1 else 0} asi32={asi}"

def describe (w : BitVec 64) : String :=
  (match decode w with
  | .null => s!"null preds={predNames w} type={(typeKind w).name}"
  | .undefined => s!"undefined preds={predNames w} type={(typeKind w).name}"
  | .boolean b => s!"boolean {if b then 1 else 0} preds={predNames w} type={(typeKind w).name}"
  | .int32 i => s!"int32 {hexOfNat i.toNat} preds={predNames w} type={(typeKind w).name}"
  | .float f => s!"float {hex16 f} preds={predNames w} type={(typeKind w).name}"
  | .ref k _ => s!"{k.name} preds={predNames w} type={(typeKind w).name}") ++ tail w

def step (_ : Unit) (toks : List String) : Unit × String :=
  match toks with
  | ["f64", h] => match hexNat? h with
    | some n => ((), describe (tag_f64 (BitVec.ofNat 64 n)))
    | none => ((), "bad-op")
  | ["js", h] => match hexNat? h with
    | some n => let w := tag_f64 (BitVec.ofNat 64 n)
                ((), s!"number {hex16 (match decode w with | .float f => f | _ => 0)}")
    | none => ((), "bad-op")
  | ["i32", h] => match hexNat? h with
    | some n => ((), describe (tag_i32 (BitVec.ofNat 32 n)))
    | none => ((), "bad-op")
  | ["bool", b] => ((), describe (tag_bool (b == "1")))
  | ["null"] => ((), describe VALUE_NULL)
  | ["undefined"] => ((), describe VALUE_UNDEFINED)
  | ["heap", k, h] =>
    match hexNat? h with
    | none => ((), "bad-op")
    | some n =>
      let m := match k with
        | "object" => some MASK_OBJECT | "string" => some MASK_STRING
        | "symbol" => some MASK_SYMBOL | "bigint" => some MASK_BIGINT | _ => none
      match m with
      | none => ((), "bad-op")
      | some m => match tag_pointer (BitVec.ofNat 64 n) m with
        | none => ((), "panic")
        | some w => ((), describe w ++ s!" clone={(optCode (cloneKind w)).toNat} drop={(optCode (dropKind w)).toNat}")
  | _ => ((), "bad-op")

def main : IO Unit := serve step ()
