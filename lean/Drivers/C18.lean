import BoaVerif.Common.Proto
import BoaVerif.C18.Model
open BoaVerif BoaVerif.Proto BoaVerif.C18

def hex4 (n : Nat) : String :=
  String.ofList [Char.ofNat (hexChar (n / 4096)), Char.ofNat (hexChar (n / 256 % 16)), Char.ofNat (hexChar (n / 16 % 16)), Char.ofNat (hexChar (n % 16))]

def hexUnits (s : List Nat) : String := String.join (s.map hex4)

/-- 4 hex digits per code unit -/
def parseUnits : List Char → Option (List Nat)
  | [] => some []
  | a :: b :: c :: d :: r =>
    match hexVal a.toNat, hexVal b.toNat, hexVal c.toNat, hexVal d.toNat, parseUnits r with
    | some x1, some x2, some x3, some x4, some t => some ((x1 * 4096 + x2 * 256 + x3 * 16 + x4) :: t)
    | _, _, _, _, _ => none
  | _ => none

mutual
  partial def canon : JV → String
    | .null => "n"
    | .bool true => "t"
    | .bool false => "f"
    | .num t => "d" ++ String.ofList (t.map Char.ofNat) ++ ";"
    | .str s => "s" ++ hexUnits s ++ ";"
    | .arr xs => "[" ++ ",".intercalate (canonL xs) ++ "]"
    | .obj kvs => "{" ++ ",".intercalate (canonO kvs) ++ "}"
  partial def canonL : JL → List String
    | .nil => []
    | .cons v t => canon v :: canonL t
  partial def canonO : JO → List String
    | .nil => []
    | .cons k v t => ("k" ++ hexUnits k ++ ";" ++ canon v) :: canonO t
end

def step (_ : Unit) (toks : List String) : Unit × String :=
  match toks with
  | ["parse", hex] =>
    (match parseUnits (if hex == "-" then [] else hex.toList) with
     | none => ((), "bad-op")
     | some units =>
       match parse units with
       | some v => ((), "ok " ++ canon v ++ " " ++ hexUnits (stringify v))
       | none => ((), "reject"))
  | ["quote", hex] =>
    (match parseUnits (if hex == "-" then [] else hex.toList) with
     | none => ((), "bad-op")
     | some units => ((), hexUnits (quote units)))
  | _ => ((), "bad-op")

def main : IO Unit := serve step ()
