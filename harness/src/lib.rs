//! Shared pieces of the verification harness: PRNG, engine runner with a
//! `print` trace, canonical rendering of completions, panic capture.
#![allow(clippy::all)]

use boa_engine::{Context, JsError, JsResult, JsValue, NativeFunction, Script, Source, js_string};
use std::cell::RefCell;

/// splitmix64 — every random choice in the harness derives from one of these.
#[derive(Clone, Debug)]
pub struct Rng(pub u64);
impl Rng {
    pub fn new(seed: u64) -> Self {
        Rng(seed ^ 0x9E37_79B9_7F4A_7C15)
    }
    pub fn next(&mut self) -> u64 {
        self.0 = self.0.wrapping_add(0x9E37_79B9_7F4A_7C15);
        let mut z = self.0;
        z = (z ^ (z >> 30)).wrapping_mul(0xBF58_476D_1CE4_E5B9);
        z = (z ^ (z >> 27)).wrapping_mul(0x94D0_49BB_1331_11EB);
        z ^ (z >> 31)
    }
    pub fn below(&mut self, n: u64) -> u64 {
        if n == 0 { 0 } else { self.next() % n }
    }
    pub fn chance(&mut self, num: u64, den: u64) -> bool {
        self.below(den) < num
    }
    pub fn pick<'a, T>(&mut self, xs: &'a [T]) -> &'a T {
        &xs[self.below(xs.len() as u64) as usize]
    }
}

thread_local! {
    pub static OUT: RefCell<Vec<String>> = const { RefCell::new(Vec::new()) };
}

fn print(_t: &JsValue, args: &[JsValue], ctx: &mut Context) -> JsResult<JsValue> {
    let mut parts = Vec::new();
    for a in args {
        parts.push(a.to_string(ctx)?.to_std_string_escaped());
    }
    OUT.with(|o| o.borrow_mut().push(parts.join(" ")));
    Ok(JsValue::undefined())
}

/// host function `__detach(arrayBuffer)`: detaches a buffer through the public embedder API
fn detach(_t: &JsValue, args: &[JsValue], _ctx: &mut Context) -> JsResult<JsValue> {
    let obj = args.first().and_then(JsValue::as_object).ok_or_else(|| boa_engine::JsNativeError::typ().with_message("not an object"))?;
    let buf = boa_engine::object::builtins::JsArrayBuffer::from_object(obj)?;
    let _ = buf.detach(&JsValue::undefined()); // idempotent: detaching twice is not an error for the harness
    Ok(JsValue::undefined())
}

/// host function `__storage(obj)`: which IndexedProperties variant currently backs the object's index keys
fn storage(_t: &JsValue, args: &[JsValue], _ctx: &mut Context) -> JsResult<JsValue> {
    use boa_engine::object::IndexProperties;
    let Some(obj) = args.first().and_then(JsValue::as_object) else { return Ok(JsValue::undefined()); };
    let o = obj.borrow();
    let name = match o.properties().index_properties() {
        IndexProperties::DenseI32(_) => "DenseI32", IndexProperties::DenseF64(_) => "DenseF64",
        IndexProperties::DenseElement(_) => "DenseElement", IndexProperties::SparseElement(_) => "SparseElement",
        IndexProperties::SparseProperty(_) => "SparseProperty",
    };
    Ok(JsValue::new(boa_engine::JsString::from(name)))
}

/// host function `__gc()`: run a full collection now
fn gc_now(_t: &JsValue, _args: &[JsValue], _ctx: &mut Context) -> JsResult<JsValue> {
    boa_gc::force_collect();
    Ok(JsValue::undefined())
}

pub fn take_out() -> Vec<String> {
    OUT.with(|o| std::mem::take(&mut *o.borrow_mut()))
}

/// Engine limits used for a run.
#[derive(Clone, Copy, Debug)]
pub struct Limits {
    pub instructions: usize,
    pub loop_iter: Option<u64>,
    pub recursion: Option<usize>,
    pub stack: Option<usize>,
}
impl Default for Limits {
    fn default() -> Self {
        Limits { instructions: 1 << 24, loop_iter: None, recursion: None, stack: None }
    }
}

pub fn new_context(l: Limits) -> Context {
    let ctx = Context::builder().instructions_remaining(l.instructions).build().expect("context");
    setup_context(ctx, l)
}

/// a context whose jobs go to a caller-supplied executor
pub fn new_context_with_executor<Q: boa_engine::job::JobExecutor + 'static>(l: Limits, exec: std::rc::Rc<Q>) -> Context {
    let ctx = Context::builder().instructions_remaining(l.instructions).job_executor(exec).build().expect("context");
    setup_context(ctx, l)
}

/// a context whose module requests go to a caller-supplied loader
pub fn new_context_with_loader<L: boa_engine::module::ModuleLoader + 'static>(l: Limits, loader: std::rc::Rc<L>) -> Context {
    let ctx = Context::builder().instructions_remaining(l.instructions).module_loader(loader).build().expect("context");
    setup_context(ctx, l)
}

fn setup_context(mut ctx: Context, l: Limits) -> Context {
    if let Some(v) = l.loop_iter { ctx.runtime_limits_mut().set_loop_iteration_limit(v); }
    if let Some(v) = l.recursion { ctx.runtime_limits_mut().set_recursion_limit(v); }
    if let Some(v) = l.stack { ctx.runtime_limits_mut().set_stack_size_limit(v); }
    register_natives(&mut ctx);
    ctx
}

/// the host functions of the harness, registered on the global object of the CURRENT realm
pub fn register_natives(ctx: &mut Context) {
    ctx.register_global_builtin_callable(js_string!("print"), 0, NativeFunction::from_fn_ptr(print)).expect("print");
    ctx.register_global_builtin_callable(js_string!("__detach"), 1, NativeFunction::from_fn_ptr(detach)).expect("detach");
    ctx.register_global_builtin_callable(js_string!("__storage"), 1, NativeFunction::from_fn_ptr(storage)).expect("storage");
    ctx.register_global_builtin_callable(js_string!("__gc"), 0, NativeFunction::from_fn_ptr(gc_now)).expect("gc");
}

/// Canonical rendering of a completion value (no addresses, no timings).
pub fn render_value(v: &JsValue, ctx: &mut Context) -> String {
    if let Some(s) = v.as_string() {
        return format!("str:{}", s.to_std_string_escaped());
    }
    if v.is_object() {
        return "object".to_string();
    }
    if v.is_symbol() {
        return "symbol".to_string();
    }
    let t = v.type_of();
    match v.to_string(ctx) {
        Ok(s) => format!("{}:{}", t, s.to_std_string_escaped()),
        Err(_) => format!("{}:?", t),
    }
}

/// Class of an error completion: "SyntaxError", "TypeError", …, "RuntimeLimit",
/// "NoInstructionsRemain", "EnginePanic", "throw:<rendered value>".
pub fn render_error(e: &JsError, ctx: &mut Context) -> String {
    if let Some(engine) = e.as_engine() {
        let s = format!("{engine}");
        let d = format!("{engine:?}");
        if d.contains("NoInstructionsRemain") { return "NoInstructionsRemain".into(); }
        if d.contains("RuntimeLimit") { return format!("RuntimeLimit:{s}"); }
        if d.contains("Panic") { return format!("EnginePanic:{s}"); }
        return format!("Engine:{d}");
    }
    if let Some(n) = e.as_native() {
        return format!("{}", native_kind(n));
    }
    match e.as_opaque() {
        Some(v) => {
            // error objects thrown by scripts: use their constructor name when they are Error instances
            if let Some(o) = v.as_object() {
                if let Ok(n) = o.get(js_string!("name"), ctx) {
                    if let Some(s) = n.as_string() {
                        return format!("throwobj:{}", s.to_std_string_escaped());
                    }
                }
                return "throwobj".into();
            }
            format!("throw:{}", render_value(v, ctx))
        }
        None => "error:?".into(),
    }
}

pub fn native_kind(n: &boa_engine::JsNativeError) -> String {
    let d = format!("{:?}", n.kind());
    // Debug of the kind enum: take the identifier prefix
    let id: String = d.chars().take_while(|c| c.is_alphanumeric()).collect();
    match id.as_str() {
        "Aggregate" => "AggregateError".into(),
        "Error" => "Error".into(),
        "Eval" => "EvalError".into(),
        "Range" => "RangeError".into(),
        "Reference" => "ReferenceError".into(),
        "Syntax" => "SyntaxError".into(),
        "Type" => "TypeError".into(),
        "Uri" => "URIError".into(),
        other => other.to_string(),
    }
}

#[derive(Clone, Debug, PartialEq, Eq)]
pub struct Trace {
    pub out: Vec<String>,
    pub completion: String,
    /// human-readable error text (never compared)
    pub detail: String,
    /// result of draining the job queue after the evaluation ("ok" / "err <class>")
    pub jobs: String,
}
impl Trace {
    pub fn to_json(&self) -> serde_json::Value {
        serde_json::json!({"out": self.out, "completion": self.completion, "detail": self.detail, "jobs": self.jobs})
    }
}

/// Evaluate `src` as a script in `ctx`, then drain the job queue.
pub fn eval_in(ctx: &mut Context, src: &[u8]) -> Trace {
    let _ = take_out();
    let r = ctx.eval(Source::from_bytes(src));
    let (completion, detail) = match r {
        Ok(v) => (format!("ok {}", render_value(&v, ctx)), String::new()),
        Err(e) => (format!("err {}", render_error(&e, ctx)), format!("{e}")),
    };
    let jobs = match ctx.run_jobs() {
        Ok(()) => "ok".to_string(),
        Err(e) => format!("err {}", render_error(&e, ctx)),
    };
    Trace { out: take_out(), completion, detail, jobs }
}

/// Run with a panic guard. A Rust panic is rendered as completion "panic <message>".
pub fn guarded<F: FnOnce() -> Trace + std::panic::UnwindSafe>(f: F) -> Trace {
    match std::panic::catch_unwind(f) {
        Ok(t) => t,
        Err(p) => {
            let msg = if let Some(s) = p.downcast_ref::<&str>() { s.to_string() }
                else if let Some(s) = p.downcast_ref::<String>() { s.clone() } else { "?".into() };
            let out = take_out();
            Trace { out, completion: format!("panic {msg}"), detail: String::new(), jobs: String::new() }
        }
    }
}

pub fn eval_fresh(src: &[u8], l: Limits) -> Trace {
    let src = src.to_vec();
    guarded(move || {
        let mut ctx = new_context(l);
        eval_in(&mut ctx, &src)
    })
}

pub fn parse_script(ctx: &mut Context, src: &[u8]) -> Result<Script, JsError> {
    Script::parse(Source::from_bytes(src), None, ctx)
}

/// silence the default panic hook (we render panics ourselves)
pub fn quiet_panics() {
    std::panic::set_hook(Box::new(|_| {}));
}

pub fn arg_u64(name: &str, default: u64) -> u64 {
    let mut it = std::env::args();
    while let Some(a) = it.next() {
        if a == name {
            if let Some(v) = it.next() { return v.parse().unwrap_or(default); }
        }
    }
    default
}
pub fn arg_str(name: &str) -> Option<String> {
    let mut it = std::env::args();
    while let Some(a) = it.next() {
        if a == name { return it.next(); }
    }
    None
}
