//! C12 correspondence: line server answering the same requests as lean/Drivers/C12.lean,
//! using the real JsValue.
use boa_engine::value::JsVariant;
use boa_engine::{Context, JsBigInt, JsObject, JsString, JsSymbol, JsValue, Source, js_string};
use std::io::{BufRead, Write};

fn preds(v: &JsValue) -> String {
    let mut p = Vec::new();
    // is_number covers both numeric kinds; split through the variant-free accessors
    if v.is_number() && v.as_i32().is_some() && matches!(v.variant(), JsVariant::Integer32(_)) { p.push("int32"); }
    else if v.is_number() { p.push("float"); }
    if v.is_boolean() { p.push("boolean"); }
    if v.is_null() { p.push("null"); }
    if v.is_undefined() { p.push("undefined"); }
    if v.is_object() { p.push("object"); }
    if v.is_string() { p.push("string"); }
    if v.is_symbol() { p.push("symbol"); }
    if v.is_bigint() { p.push("bigint"); }
    if v.is_null_or_undefined() != (v.is_null() || v.is_undefined()) { p.push("null_or_undefined-inconsistent"); }
    p.join(",")
}
fn type_kind(v: &JsValue) -> &'static str {
    match v.type_of() {
        "number" => "float", "boolean" => "boolean", "undefined" => "undefined", "string" => "string",
        "symbol" => "symbol", "bigint" => "bigint",
        "object" | "function" => if v.is_null() { "null" } else { "object" },
        _ => "?",
    }
}
fn describe(v: &JsValue) -> String {
    let head = match v.variant() {
        JsVariant::Null => "null".to_string(),
        JsVariant::Undefined => "undefined".to_string(),
        JsVariant::Boolean(b) => format!("boolean {}", u8::from(b)),
        JsVariant::Integer32(i) => format!("int32 {:x}", i as u32),
        JsVariant::Float64(f) => format!("float {:016x}", f.to_bits()),
        JsVariant::Object(_) => "object".into(),
        JsVariant::String(_) => "string".into(),
        JsVariant::Symbol(_) => "symbol".into(),
        JsVariant::BigInt(_) => "bigint".into(),
    };
    let asi = match v.as_i32() { Some(i) => format!("{:x}", i as u32), None => "-".into() };
    format!("{head} preds={} type={} tb={} asi32={asi}", preds(v), type_kind(v), u8::from(v.to_boolean()))
}

/// clone/drop bookkeeping probe: `canary` is a string owned by the heap value (or, for strings, the
/// value itself); its refcount tells whether the heap value is alive without touching freed memory.
/// `per_clone` = how much one JsValue clone adds to the canary's count (1 for strings, 0 otherwise).
fn refcount_probe(mut make: impl FnMut(&JsString) -> JsValue, code: u32, per_clone: usize) -> String {
    let canary = JsString::from(format!("canary-{code}-padding-so-it-is-heap-allocated"));
    let rc = |c: &JsString| c.refcount().unwrap_or(0);
    let base = rc(&canary);
    let v = make(&canary);
    let held = rc(&canary);
    let mut clone_ok = held == base + 1;
    let mut drop_ok = true;
    let c1 = v.clone();
    let c2 = c1.clone();
    if rc(&canary) != held + 2 * per_clone { clone_ok = false; }
    drop(v);
    boa_gc::force_collect();
    if rc(&canary) != held + per_clone { clone_ok = false; }
    drop(c1);
    boa_gc::force_collect();
    if rc(&canary) != held { clone_ok = false; }
    if clone_ok {
        let d = describe(&c2);
        if !d.starts_with(["object", "string", "symbol"][(code - 5) as usize]) { clone_ok = false; }
        drop(c2);
        boa_gc::force_collect();
        if rc(&canary) != base { drop_ok = false; }
    } else {
        std::mem::forget(c2);
    }
    format!("clone={} drop={}", if clone_ok { code.to_string() } else { "X".into() }, if drop_ok { code.to_string() } else { "X".into() })
}

fn main() {
    bvh::quiet_panics();
    let stdin = std::io::stdin();
    let mut out = std::io::BufWriter::new(std::io::stdout());
    let mut ctx: Context = bvh::new_context(bvh::Limits::default());
    for line in stdin.lock().lines() {
        let line = line.unwrap();
        let t: Vec<&str> = line.split_whitespace().collect();
        let ans = match t.as_slice() {
            ["f64", h] => {
                let b = u64::from_str_radix(h, 16).unwrap();
                let v = JsValue::rational(f64::from_bits(b));
                let w = v.clone();
                drop(v);
                describe(&w)
            }
            ["i32", h] => {
                let b = u32::from_str_radix(h, 16).unwrap();
                let v = JsValue::new(b as i32);
                let w = v.clone();
                drop(v);
                describe(&w)
            }
            ["bool", b] => describe(&JsValue::new(*b == "1")),
            ["null"] => describe(&JsValue::null()),
            ["undefined"] => describe(&JsValue::undefined()),
            ["js", h] => {
                // manufacture the bit pattern inside a script, pass it through a JS variable, an array
                // slot, a Float64Array element and a DataView, and read the bytes back
                let src = format!(
                    "var dv=new DataView(new ArrayBuffer(16)); dv.setBigUint64(0, 0x{h}n); var x=dv.getFloat64(0); \
                     var a=[x]; var f=new Float64Array(1); f[0]=a[0]; var y=f[0]; dv.setFloat64(8,y); \
                     typeof y + ' ' + dv.getBigUint64(8).toString(16).padStart(16,'0')");
                match ctx.eval(Source::from_bytes(src.as_bytes())) {
                    Ok(v) => v.as_string().map(|s| s.to_std_string_escaped()).unwrap_or_else(|| "non-string".into()),
                    Err(e) => format!("error {e}"),
                }
            }
            ["heap", k, _addr] => {
                match *k {
                    "string" => {
                        let v = JsValue::new(js_string!("x"));
                        format!("{} {}", describe(&v), refcount_probe(|c| JsValue::new(c.clone()), 6, 1))
                    }
                    "symbol" => {
                        let sym = JsSymbol::new(Some(js_string!("d"))).unwrap();
                        let h = sym.hash();
                        let v = JsValue::new(sym);
                        let c1 = v.clone(); let c2 = c1.clone(); drop(v); drop(c1);
                        let ok = c2.as_symbol().map(|s| s.hash()) == Some(h);
                        format!("{} clone={} drop=7", describe(&c2), if ok { "7" } else { "X" })
                    }
                    "object" => {
                        let v = JsValue::new(JsObject::with_null_proto());
                        let r = refcount_probe(|c| {
                            let o = JsObject::with_null_proto();
                            o.set(js_string!("k"), JsValue::new(c.clone()), false, &mut ctx).unwrap();
                            JsValue::new(o)
                        }, 5, 0);
                        format!("{} {}", describe(&v), r)
                    }
                    "bigint" => {
                        let v = JsValue::new(JsBigInt::from(12345678901234567890u64));
                        let c1 = v.clone(); let c2 = c1.clone(); drop(v); drop(c1);
                        let ok = c2.as_bigint().map(|b| b.to_string_radix(10)) == Some("12345678901234567890".into());
                        format!("{} clone={} drop=8", describe(&c2), if ok { "8" } else { "X" })
                    }
                    _ => "bad-op".into(),
                }
            }
            _ => "bad-op".into(),
        };
        writeln!(out, "{ans}").unwrap();
        out.flush().unwrap();
    }
    out.flush().unwrap();
}
