//! C16 correspondence: runs scripts with different ways of entering the engine and of draining the job queue.
//! Input: scripts separated by `//// <id> mode=<sync|chunk|budget> n=<k>` headers.
//!   sync   : Context::eval, then run_jobs once (SimpleJobExecutor)
//!   chunk  : a FIFO executor that runs at most n promise jobs per run_jobs call; run_jobs is called until it is empty
//!   budget : Script::evaluate_async_with_budget(n) driven by a manual poll loop, then run_jobs
//! Output: one JSON line per script: {"id","out":[...],"completion","calls"}.
use boa_engine::job::{Job, JobExecutor, PromiseJob};
use boa_engine::{Context, JsResult, Script, Source};
use std::cell::{Cell, RefCell};
use std::collections::VecDeque;
use std::io::Read;
use std::rc::Rc;

#[derive(Default)]
struct Chunked { queue: RefCell<VecDeque<PromiseJob>>, chunk: Cell<usize>, other: Cell<usize> }

impl JobExecutor for Chunked {
    fn enqueue_job(self: Rc<Self>, job: Job, _context: &mut Context) {
        match job {
            Job::PromiseJob(p) => self.queue.borrow_mut().push_back(p),
            _ => self.other.set(self.other.get() + 1),
        }
    }
    fn run_jobs(self: Rc<Self>, context: &mut Context) -> JsResult<()> {
        for _ in 0..self.chunk.get().max(1) {
            let Some(job) = self.queue.borrow_mut().pop_front() else { break };
            job.call(context)?;
        }
        Ok(())
    }
}


fn main() {
    bvh::quiet_panics();
    let mut input = String::new();
    std::io::stdin().read_to_string(&mut input).unwrap();
    let mut cases: Vec<(String, String)> = Vec::new();
    for line in input.lines() {
        if let Some(h) = line.strip_prefix("//// ") { cases.push((h.to_string(), String::new())); }
        else if let Some(c) = cases.last_mut() { c.1.push_str(line); c.1.push('\n'); }
    }
    for (header, body) in cases {
        let mut it = header.split_whitespace();
        let id = it.next().unwrap_or("?").to_string();
        let mut mode = "sync".to_string();
        let mut n = 1usize;
        for kv in it {
            if let Some((k, v)) = kv.split_once('=') {
                match k { "mode" => mode = v.to_string(), "n" => n = v.parse().unwrap_or(1), _ => {} }
            }
        }
        let r = std::panic::catch_unwind(std::panic::AssertUnwindSafe(|| {
            let _ = bvh::take_out();
            let mut calls = 0usize;
            let completion;
            if mode == "chunk" {
                let exec = Rc::new(Chunked::default());
                exec.chunk.set(n);
                let mut ctx = bvh::new_context_with_executor(bvh::Limits::default(), exec.clone());
                let r = ctx.eval(Source::from_bytes(body.as_bytes()));
                completion = match r { Ok(v) => format!("ok {}", bvh::render_value(&v, &mut ctx)), Err(e) => format!("err {}", bvh::render_error(&e, &mut ctx)) };
                while !exec.queue.borrow().is_empty() && calls < 100_000 {
                    calls += 1;
                    if let Err(e) = ctx.run_jobs() { return (bvh::take_out(), format!("{completion} | jobs err {}", bvh::render_error(&e, &mut ctx)), calls); }
                }
            } else if mode == "budget" {
                let mut ctx = bvh::new_context(bvh::Limits::default());
                let script = match Script::parse(Source::from_bytes(body.as_bytes()), None, &mut ctx) {
                    Ok(s) => s,
                    Err(e) => return (bvh::take_out(), format!("err {}", bvh::render_error(&e, &mut ctx)), 0),
                };
                let r = {
                    let fut = script.evaluate_async_with_budget(&mut ctx, n as u32);
                    let mut fut = std::pin::pin!(fut);
                    let waker = futures_lite::future::block_on(async { std::task::Waker::noop().clone() });
                    let mut cx = std::task::Context::from_waker(&waker);
                    loop {
                        calls += 1;
                        if let std::task::Poll::Ready(v) = fut.as_mut().poll(&mut cx) { break v; }
                        if calls > 10_000_000 { break Err(boa_engine::JsNativeError::error().with_message("poll budget").into()); }
                    }
                };
                completion = match r { Ok(v) => format!("ok {}", bvh::render_value(&v, &mut ctx)), Err(e) => format!("err {}", bvh::render_error(&e, &mut ctx)) };
                let _ = ctx.run_jobs();
            } else {
                let mut ctx = bvh::new_context(bvh::Limits::default());
                let r = ctx.eval(Source::from_bytes(body.as_bytes()));
                completion = match r { Ok(v) => format!("ok {}", bvh::render_value(&v, &mut ctx)), Err(e) => format!("err {}", bvh::render_error(&e, &mut ctx)) };
                calls = 1;
                let _ = ctx.run_jobs();
            }
            (bvh::take_out(), completion, calls)
        }));
        let (out, completion, calls) = r.unwrap_or_else(|_| (bvh::take_out(), "panic".to_string(), 0));
        println!("{}", serde_json::json!({"id": id, "out": out, "completion": completion, "calls": calls}));
    }
}
