//! C17 correspondence: module graphs through a counting in-memory loader.
//! Request (one per line): `run deps=0:1,2;1:3;2:3;3: throws=0100 roots=0,0,2 [style=<0|1>]`
//! Module k is generated as: its imports (in order), `print(k)`, an exported binding, and `throw` if its bit is set.
//! Answer: `trace=<bodies run> outcomes=<per Evaluate: - or the module whose error rejected it> loads=<max host loads of one
//! (referrer, specifier) pair> parses=<max parses of one specifier> live=<ok|bad>`
use boa_engine::builtins::promise::PromiseState;
use boa_engine::module::{Module, ModuleLoader, ModuleRequest, Referrer};
use boa_engine::{Context, JsResult, JsString, Source};
use std::cell::RefCell;
use std::collections::HashMap;
use std::io::{BufRead, Write};
use std::rc::Rc;

#[derive(Default)]
struct Loader {
    sources: RefCell<HashMap<String, String>>,
    cache: RefCell<HashMap<String, Module>>,
    parses: RefCell<HashMap<String, usize>>,
    loads: RefCell<HashMap<(String, String), usize>>,
}

impl Loader {
    fn get(&self, name: &str, ctx: &mut Context) -> JsResult<Module> {
        if let Some(m) = self.cache.borrow().get(name) { return Ok(m.clone()); }
        let src = self.sources.borrow().get(name).cloned().ok_or_else(|| boa_engine::JsNativeError::typ().with_message(format!("no module {name}")))?;
        *self.parses.borrow_mut().entry(name.to_string()).or_insert(0) += 1;
        let path = std::path::PathBuf::from(format!("/{name}.js"));
        let m = Module::parse(Source::from_bytes(src.as_bytes()).with_path(&path), None, ctx)?;
        self.cache.borrow_mut().insert(name.to_string(), m.clone());
        Ok(m)
    }
}

impl ModuleLoader for Loader {
    async fn load_imported_module(self: Rc<Self>, referrer: Referrer, request: ModuleRequest, context: &RefCell<&mut Context>) -> JsResult<Module> {
        let name = request.specifier().to_std_string_escaped();
        let from = referrer.path().map_or_else(|| "<host>".to_string(), |p| p.display().to_string());
        *self.loads.borrow_mut().entry((from, name.clone())).or_insert(0) += 1;
        self.get(&name, &mut context.borrow_mut())
    }
}

fn field<'a>(toks: &[&'a str], name: &str) -> &'a str {
    toks.iter().find_map(|t| t.strip_prefix(name).and_then(|r| r.strip_prefix('='))).unwrap_or("")
}

fn main() {
    bvh::quiet_panics();
    let stdin = std::io::stdin();
    let out = std::io::stdout();
    let mut out = out.lock();
    for line in stdin.lock().lines() {
        let line = line.unwrap();
        let toks: Vec<&str> = line.split_whitespace().collect();
        if toks.first() == Some(&"raw") {
            // raw roots=a,b  name=<hex source> ...   : hand-written module texts (top-level await scenarios)
            let ans = std::panic::catch_unwind(|| {
                let loader = Rc::new(Loader::default());
                let mut roots: Vec<String> = Vec::new();
                for t in &toks[1..] {
                    if let Some((k, v)) = t.split_once('=') {
                        if k == "roots" { roots = v.split(',').map(str::to_string).collect(); }
                        else {
                            let bytes: Vec<u8> = (0..v.len() / 2).map(|i| u8::from_str_radix(&v[2 * i..2 * i + 2], 16).unwrap_or(b'?')).collect();
                            loader.sources.borrow_mut().insert(k.to_string(), String::from_utf8_lossy(&bytes).to_string());
                        }
                    }
                }
                let _ = bvh::take_out();
                let mut ctx = bvh::new_context_with_loader(bvh::Limits::default(), loader.clone());
                let mut outcomes = Vec::new();
                for r in &roots {
                    let m = match loader.get(r, &mut ctx) { Ok(m) => m, Err(e) => { outcomes.push(format!("load-error:{e}")); continue; } };
                    let p = m.load_link_evaluate(&mut ctx);
                    let _ = ctx.run_jobs();
                    outcomes.push(match p.state() {
                        PromiseState::Fulfilled(_) => "-".to_string(),
                        PromiseState::Rejected(e) => e.as_object().and_then(|o| o.get(JsString::from("message"), &mut ctx).ok()).and_then(|v| v.as_string().map(|s| s.to_std_string_escaped())).unwrap_or_else(|| "?".into()),
                        PromiseState::Pending => "pending".to_string(),
                    });
                }
                format!("trace={} outcomes={}", bvh::take_out().join(","), outcomes.join(","))
            });
            writeln!(out, "{}", ans.unwrap_or_else(|_| "panic".to_string())).unwrap();
            continue;
        }
        if toks.first() != Some(&"run") { continue; }
        let ans = std::panic::catch_unwind(|| {
            let deps: Vec<Vec<usize>> = field(&toks, "deps").split(';').filter(|e| !e.is_empty()).map(|e| {
                e.split(':').nth(1).unwrap_or("").split(',').filter_map(|x| x.parse().ok()).collect()
            }).collect();
            let throws: Vec<bool> = field(&toks, "throws").chars().map(|c| c == '1').collect();
            let roots: Vec<usize> = field(&toks, "roots").split(',').filter_map(|x| x.parse().ok()).collect();
            let style = field(&toks, "style");
            let loader = Rc::new(Loader::default());
            for (k, ds) in deps.iter().enumerate() {
                let mut src = String::new();
                for (i, d) in ds.iter().enumerate() {
                    if style == "1" { src.push_str(&format!("import {{v as v{d}_{i}, bump as b{d}_{i}}} from \"m{d}\";\n")); }
                    else { src.push_str(&format!("import * as n{d}_{i} from \"m{d}\";\n")); }
                }
                src.push_str(&format!("print('{k}');\nexport let v = {k};\nexport function bump() {{ v += 100; return v; }}\n"));
                if throws.get(k).copied().unwrap_or(false) { src.push_str(&format!("throw new Error('E{k}');\n")); }
                loader.sources.borrow_mut().insert(format!("m{k}"), src);
            }
            // live bindings: an extra root that imports module 0's `v`, bumps it through module 0's own function and reads the import again
            loader.sources.borrow_mut().insert("live".to_string(), "import {v, bump} from \"m0\"; const before = v; bump(); print('live ' + (v === before + 100));\n".to_string());
            let _ = bvh::take_out();
            let mut ctx = bvh::new_context_with_loader(bvh::Limits::default(), loader.clone());
            let mut outcomes = Vec::new();
            for r in &roots {
                let m = match loader.get(&format!("m{r}"), &mut ctx) { Ok(m) => m, Err(e) => { outcomes.push(format!("load-error:{e}")); continue; } };
                let p = m.load_link_evaluate(&mut ctx);
                let _ = ctx.run_jobs();
                outcomes.push(match p.state() {
                    PromiseState::Fulfilled(_) => "-".to_string(),
                    PromiseState::Rejected(e) => {
                        let msg = e.as_object().and_then(|o| o.get(JsString::from("message"), &mut ctx).ok()).and_then(|v| v.as_string().map(|s| s.to_std_string_escaped())).unwrap_or_else(|| "?".into());
                        msg.strip_prefix('E').map_or(format!("other:{msg}"), str::to_string)
                    }
                    PromiseState::Pending => "pending".to_string(),
                });
            }
            let trace = bvh::take_out();
            // live-binding probe, only meaningful if module 0 evaluated
            let live = if throws.iter().any(|t| *t) { "skipped".to_string() } else {
                match loader.get("live", &mut ctx) {
                    Ok(m) => { let p = m.load_link_evaluate(&mut ctx); let _ = ctx.run_jobs(); let o = bvh::take_out(); if matches!(p.state(), PromiseState::Fulfilled(_)) && o == vec!["live true".to_string()] { "ok".into() } else { format!("bad:{o:?}") } }
                    Err(e) => format!("bad:{e}"),
                }
            };
            let loads = loader.loads.borrow().values().copied().max().unwrap_or(0);
            let parses = loader.parses.borrow().values().copied().max().unwrap_or(0);
            format!("trace={} outcomes={} loads={loads} parses={parses} live={live}", trace.join(","), outcomes.join(","))
        });
        writeln!(out, "{}", ans.unwrap_or_else(|_| "panic".to_string())).unwrap();
    }
}
