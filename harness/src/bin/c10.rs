//! C10 correspondence: the same script with and without a collection before every allocation, and the collector's
//! statistics after the context is gone.
//! Input: scripts separated by `//// <id> stress=<0|1>` headers. Output per script:
//!   {"id","out":[..],"completion","jobs","collections":n,"left":[strong, weak, maps]}  (what is still allocated after drop + collect,
//!   minus what was allocated before the context was created)
use std::io::Read;

fn main() {
    bvh::quiet_panics();
    let mut input = String::new();
    std::io::stdin().read_to_string(&mut input).unwrap();
    let mut cases: Vec<(String, String)> = Vec::new();
    for line in input.lines() {
        if let Some(h) = line.strip_prefix("//// ") { cases.push((h.to_string(), String::new())); }
        else if let Some(c) = cases.last_mut() { c.1.push_str(line); c.1.push('\n'); }
    }
    for (header, body) in cases {
        let mut it = header.split_whitespace();
        let id = it.next().unwrap_or("?").to_string();
        let mut stress = false;
        for kv in it { if kv == "stress=1" { stress = true; } }
        // everything of the previous script is gone: this is the baseline
        boa_gc::force_collect();
        let base = boa_gc::verif::stats();
        let src = body.into_bytes();
        let t = bvh::guarded(std::panic::AssertUnwindSafe(|| {
            let mut ctx = bvh::new_context(bvh::Limits::default());
            boa_gc::verif::set_stress(stress);
            let mut t = bvh::eval_in(&mut ctx, &src);
            // further host turns: collect, drain the job queue (a failing job must not stop the host from trying again),
            // then let the script report through `__final`
            if src.windows(7).any(|w| w == b"__final") {
                for _ in 0..6 {
                    boa_gc::force_collect();
                    let _ = ctx.run_jobs();
                }
                let r = ctx.eval(boa_engine::Source::from_bytes(b"__final();"));
                if let Err(e) = r { t.detail = format!("final: {e}"); }
                t.out.extend(bvh::take_out());
            }
            boa_gc::verif::set_stress(false);
            drop(ctx);
            t
        }));
        boa_gc::verif::set_stress(false);
        boa_gc::force_collect();
        boa_gc::force_collect();
        let after = boa_gc::verif::stats();
        let mut j = t.to_json();
        j["id"] = serde_json::Value::String(id);
        j["collections"] = serde_json::json!(after.4 - base.4);
        j["left"] = serde_json::json!([after.0 as i64 - base.0 as i64, after.1 as i64 - base.1 as i64, after.2 as i64 - base.2 as i64]);
        println!("{j}");
    }
}
