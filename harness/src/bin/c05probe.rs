use boa_engine::{Context, Source, optimizer::OptimizerOptions};
use boa_ast::scope::Scope;
use boa_interner::ToInternedString;
use boa_parser::Parser;
fn main() {
    let src = std::env::args().nth(1).unwrap();
    let mut ctx = Context::default();
    ctx.set_optimizer_options(OptimizerOptions::OPTIMIZE_ALL);
    let mut parser = Parser::new(Source::from_bytes(src.as_bytes()));
    let script = parser.parse_script(&Scope::new_global(), ctx.interner_mut()).unwrap();
    let mut sl = script.statements().clone();
    println!("before: {}", sl.to_interned_string(ctx.interner()));
    ctx.optimize_statement_list(&mut sl);
    println!("after:  {}", sl.to_interned_string(ctx.interner()));
    println!("{:?}", sl.statements().first());
}
