//! C13 correspondence: number <-> text conversions of the real engine, one request per line.
//!   tostr <bits>            String(x)
//!   num <hextext>           Number(text)                      -> bits
//!   lit <hextext>           evaluate the text as a numeric literal expression -> bits
//!   pf <hextext>            parseFloat(text)                  -> bits
//!   pi <hextext> <radix|->  parseInt(text, radix)             -> bits
//!   radix <bits> <r>        x.toString(r)
//!   fixed|exp|prec <bits> <arg|->   x.toFixed / toExponential / toPrecision
//! String results are printed as `s <text>`, numbers as `n <bits hex>`, exceptions as `throw <class>`.
use boa_engine::{Context, JsValue, Source, js_string};
use std::io::{BufRead, Write};

fn unhex(s: &str) -> Vec<u8> {
    if s == "-" { return Vec::new(); }
    (0..s.len() / 2).map(|i| u8::from_str_radix(&s[2 * i..2 * i + 2], 16).unwrap_or(b'?')).collect()
}

fn show(r: Result<JsValue, boa_engine::JsError>, ctx: &mut Context) -> String {
    match r {
        Ok(v) => {
            if let Some(s) = v.as_string() { format!("s {}", s.to_std_string_escaped()) }
            else if let Some(n) = v.as_number() { format!("n {:016x}", n.to_bits()) }
            else { format!("other {}", bvh::render_value(&v, ctx)) }
        }
        Err(e) => format!("throw {}", bvh::render_error(&e, ctx)),
    }
}

fn main() {
    bvh::quiet_panics();
    let stdin = std::io::stdin();
    let out = std::io::stdout();
    let mut out = out.lock();
    let mut ctx = bvh::new_context(bvh::Limits::default());
    let mut count = 0u32;
    for line in stdin.lock().lines() {
        let line = line.unwrap();
        let t: Vec<&str> = line.split_whitespace().collect();
        if t.is_empty() { continue; }
        count += 1;
        if count % 4096 == 0 { ctx = bvh::new_context(bvh::Limits::default()); }
        let ans = std::panic::catch_unwind(std::panic::AssertUnwindSafe(|| {
            let ctx = &mut ctx;
            let global = ctx.global_object();
            let setx = |ctx: &mut Context, bits: &str| {
                let x = f64::from_bits(u64::from_str_radix(bits, 16).unwrap_or(0));
                let _ = global.set(js_string!("__x"), JsValue::new(x), false, ctx);
            };
            let sett = |ctx: &mut Context, hex: &str| {
                let bytes = unhex(hex);
                let s = boa_engine::JsString::from(String::from_utf8_lossy(&bytes).as_ref());
                let _ = global.set(js_string!("__t"), JsValue::new(s), false, ctx);
            };
            match t[0] {
                "tostr" => { setx(ctx, t[1]); let r = ctx.eval(Source::from_bytes(b"String(__x)")); show(r, ctx) }
                "num" => { sett(ctx, t[1]); let r = ctx.eval(Source::from_bytes(b"Number(__t)")); show(r, ctx) }
                "pf" => { sett(ctx, t[1]); let r = ctx.eval(Source::from_bytes(b"parseFloat(__t)")); show(r, ctx) }
                "pi" => {
                    sett(ctx, t[1]);
                    let src = if t[2] == "-" { "parseInt(__t)".to_string() } else { format!("parseInt(__t, {})", t[2]) };
                    let r = ctx.eval(Source::from_bytes(src.as_bytes())); show(r, ctx)
                }
                "lit" => {
                    let mut src = b"(".to_vec(); src.extend(unhex(t[1])); src.extend(b")");
                    let r = ctx.eval(Source::from_bytes(&src)); show(r, ctx)
                }
                "radix" | "fixed" | "exp" | "prec" => {
                    setx(ctx, t[1]);
                    let m = match t[0] { "radix" => "toString", "fixed" => "toFixed", "exp" => "toExponential", _ => "toPrecision" };
                    let src = if t[2] == "-" { format!("__x.{m}()") } else { format!("__x.{m}({})", t[2]) };
                    let r = ctx.eval(Source::from_bytes(src.as_bytes())); show(r, ctx)
                }
                _ => "bad-op".to_string(),
            }
        }));
        let ans = ans.unwrap_or_else(|_| "panic".to_string());
        writeln!(out, "{ans}").unwrap();
    }
}
