//! C07/C08 harness: a history of host entries on ONE context; after every entry the VM depths are reported.
//! stdin lines:
//!   fresh                         new context (limits reset to defaults)
//!   limits <loop|-> <rec|-> <stack|->
//!   eval <hex-encoded utf8 js>
//!   call <global function name> <int args...>
//!   construct <global function name> <int args...>
//!   jobs
//! answer: `<completion> | out=<printed lines joined by ;> | frames=<n> stack=<n>`
//! A native `probe()` is available to scripts: it prints the VM snapshot (hook) through the normal print trace;
//! `reenter(src)` evaluates `src` from inside a native call.
use boa_engine::{Context, JsResult, JsValue, NativeFunction, Source, js_string};
use bvh::{Limits, new_context, render_error, render_value, take_out};
use std::io::{BufRead, Write};

fn probe(_t: &JsValue, _a: &[JsValue], ctx: &mut Context) -> JsResult<JsValue> {
    let snap = boa_engine::verif::vm_snapshot(ctx);
    bvh::OUT.with(|o| o.borrow_mut().push(format!("probe {snap}")));
    Ok(JsValue::undefined())
}
fn reenter(_t: &JsValue, args: &[JsValue], ctx: &mut Context) -> JsResult<JsValue> {
    let src = args.first().and_then(JsValue::as_string).map(|s| s.to_std_string_escaped()).unwrap_or_default();
    ctx.eval(Source::from_bytes(src.as_bytes()))
}
fn make(l: Limits) -> Context {
    let mut ctx = new_context(l);
    ctx.register_global_builtin_callable(js_string!("probe"), 0, NativeFunction::from_fn_ptr(probe)).unwrap();
    ctx.register_global_builtin_callable(js_string!("reenter"), 1, NativeFunction::from_fn_ptr(reenter)).unwrap();
    ctx
}
fn unhex(h: &str) -> Vec<u8> { (0..h.len() / 2).map(|i| u8::from_str_radix(&h[2 * i..2 * i + 2], 16).unwrap()).collect() }

fn main() {
    bvh::quiet_panics();
    let stdin = std::io::stdin();
    let mut out = std::io::BufWriter::new(std::io::stdout());
    let mut limits = Limits { instructions: 1 << 26, ..Limits::default() };
    let mut ctx = make(limits);
    for line in stdin.lock().lines() {
        let line = line.unwrap();
        let t: Vec<&str> = line.split_whitespace().collect();
        let _ = take_out();
        let completion = std::panic::catch_unwind(std::panic::AssertUnwindSafe(|| -> String {
            let fmt = |r: JsResult<JsValue>, ctx: &mut Context| match r {
                Ok(v) => format!("ok {}", render_value(&v, ctx)),
                Err(e) => format!("err {}", render_error(&e, ctx)),
            };
            match t.as_slice() {
                ["fresh"] => { limits = Limits { instructions: 1 << 26, ..Limits::default() }; ctx = make(limits); "ok".into() }
                ["limits", l, r, s] => {
                    limits.loop_iter = l.parse().ok(); limits.recursion = r.parse().ok(); limits.stack = s.parse().ok();
                    let rl = ctx.runtime_limits_mut();
                    if let Some(v) = limits.loop_iter { rl.set_loop_iteration_limit(v); }
                    if let Some(v) = limits.recursion { rl.set_recursion_limit(v); }
                    if let Some(v) = limits.stack { rl.set_stack_size_limit(v); }
                    "ok".into()
                }
                ["eval", h] => { let r = ctx.eval(Source::from_bytes(&unhex(h))); fmt(r, &mut ctx) }
                ["call", name, args @ ..] | ["construct", name, args @ ..] => {
                    let f = ctx.global_object().get(boa_engine::JsString::from(*name), &mut ctx);
                    match f {
                        Ok(v) => match v.as_object() {
                            Some(o) => {
                                let a: Vec<JsValue> = args.iter().map(|x| JsValue::new(x.parse::<i32>().unwrap_or(0))).collect();
                                if t[0] == "call" { let r = o.call(&JsValue::undefined(), &a, &mut ctx); fmt(r, &mut ctx) }
                                else { let r = o.construct(&a, None, &mut ctx).map(JsValue::from); fmt(r, &mut ctx) }
                            }
                            None => "err not-callable".into(),
                        },
                        Err(e) => format!("err {}", render_error(&e, &mut ctx)),
                    }
                }
                ["jobs"] => match ctx.run_jobs() { Ok(()) => "ok".into(), Err(e) => format!("err {}", render_error(&e, &mut ctx)) },
                _ => "bad-op".into(),
            }
        })).unwrap_or_else(|p| {
            let msg = p.downcast_ref::<&str>().map(|s| (*s).to_string()).or_else(|| p.downcast_ref::<String>().cloned()).unwrap_or_default();
            format!("panic {msg}")
        });
        let printed = take_out().join(";");
        let (frames, stack) = boa_engine::verif::vm_depths(&ctx);
        writeln!(out, "{completion} | out={printed} | frames={frames} stack={stack}").unwrap();
        out.flush().unwrap();
    }
}
