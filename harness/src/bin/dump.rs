//! Dump the compiled code blocks (hook) of each script given on stdin (`//// id` headers).
use boa_engine::{Context, Script, Source};
use std::io::Read;
fn main() {
    bvh::quiet_panics();
    let mut input = String::new();
    std::io::stdin().read_to_string(&mut input).unwrap();
    let mut cases: Vec<(String, String)> = Vec::new();
    for line in input.lines() {
        if let Some(h) = line.strip_prefix("//// ") { cases.push((h.to_string(), String::new())); }
        else if let Some(c) = cases.last_mut() { c.1.push_str(line); c.1.push('\n'); }
    }
    for (header, body) in cases {
        let id = header.split_whitespace().next().unwrap_or("?").to_string();
        let run = header.split_whitespace().any(|t| t == "run=1");
        let cons: u8 = header.split_whitespace().find_map(|t| t.strip_prefix("cons=")).and_then(|v| v.parse().ok()).unwrap_or(0);
        boa_ast::scope::verif::set_conservative(cons);
        let r = std::panic::catch_unwind(|| {
            let mut ctx = Context::builder().instructions_remaining(1 << 20).build().unwrap();
            match Script::parse(Source::from_bytes(body.as_bytes()), None, &mut ctx) {
                Err(e) => format!("#### {id} parse-error {e}\n"),
                Ok(s) => match s.codeblock(&mut ctx) {
                    Ok(cb) => {
                        let mut out = format!("#### {id} ok\n{}", boa_engine::verif::dump_code_blocks(&cb));
                        if run {
                            // execute with the per-instruction probe on; report each distinct observation once
                            boa_engine::verif::set_probe(true);
                            let _ = boa_engine::verif::take_probe();
                            let r = s.evaluate(&mut ctx);
                            let _ = ctx.run_jobs();
                            boa_engine::verif::set_probe(false);
                            let mut seen = std::collections::BTreeSet::new();
                            for rec in boa_engine::verif::take_probe() { seen.insert(rec); }
                            out.push_str(&format!("#### run {}\n", if r.is_ok() { "ok" } else { "err" }));
                            for (bid, pc, t, e, b, fp) in seen { out.push_str(&format!("P {bid} {pc} {t} {e} {b} {fp}\n")); }
                        }
                        out
                    }
                    Err(e) => format!("#### {id} compile-error {e}\n"),
                },
            }
        });
        boa_ast::scope::verif::set_conservative(0);
        match r { Ok(s) => print!("{s}"), Err(_) => println!("#### {id} panic") }
        println!("#### end");
    }
}
