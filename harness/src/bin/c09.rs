//! C09 correspondence: the same operation lines as lean/Drivers/C09.lean applied to real boa_gc.
use boa_gc::{Ephemeron, Finalize, Gc, GcRefCell, Trace, force_collect};
use std::cell::RefCell;
use std::io::{BufRead, Write};

thread_local! {
    static FIN: RefCell<Vec<u32>> = const { RefCell::new(Vec::new()) };
    static DROP: RefCell<Vec<u32>> = const { RefCell::new(Vec::new()) };
}
struct Canary(usize);
impl Drop for Canary {
    fn drop(&mut self) { let _ = DROP.try_with(|d| { let mut d = d.borrow_mut(); if self.0 < d.len() { d[self.0] += 1; } }); }
}
type Eph = Ephemeron<Node, Vec<Gc<Node>>>;
#[derive(Trace)]
struct Node {
    #[unsafe_ignore_trace] id: usize,
    #[unsafe_ignore_trace] _canary: Canary,
    edges: GcRefCell<Vec<Gc<Node>>>,
    ephs: GcRefCell<Vec<(usize, Eph)>>,
}
impl Finalize for Node {
    fn finalize(&self) { let _ = FIN.try_with(|f| { let mut f = f.borrow_mut(); if self.id < f.len() { f[self.id] += 1; } }); }
}

#[derive(Default)]
struct World { ext: Vec<(usize, Gc<Node>)>, ext_e: Vec<(usize, Eph)>, nodes: usize, ephs: usize }

fn find(w: &World, n: usize) -> Option<usize> { w.ext.iter().position(|(i, _)| *i == n) }
fn find_e(w: &World, e: usize) -> Option<usize> { w.ext_e.iter().position(|(i, _)| *i == e) }

fn observe(w: &World) -> String {
    let alive: Vec<String> = DROP.with(|d| d.borrow().iter().enumerate().filter(|(_, c)| **c == 0).map(|(i, _)| i.to_string()).collect());
    let dbl: Vec<String> = DROP.with(|d| d.borrow().iter().enumerate().filter(|(_, c)| **c > 1).map(|(i, c)| format!("{i}:{c}")).collect());
    let fin: Vec<String> = FIN.with(|f| f.borrow().iter().enumerate().filter(|(_, c)| **c > 0).map(|(i, c)| format!("{i}:{c}")).collect());
    let mut seen = Vec::new();
    let mut ev = Vec::new();
    for (id, e) in &w.ext_e {
        if seen.contains(id) { continue; }
        seen.push(*id);
        let hv = e.has_value();
        let up = e.key().is_some();
        ev.push(if hv == up { format!("{id}:{}", u8::from(hv)) } else { format!("{id}:hv{}up{}", u8::from(hv), u8::from(up)) });
    }
    format!("alive={} fin={} dbl={} eph={}", alive.join(","), fin.join(","), dbl.join(","), ev.join(","))
}

fn main() {
    let stdin = std::io::stdin();
    let mut out = std::io::BufWriter::new(std::io::stdout());
    let mut w = World::default();
    for line in stdin.lock().lines() {
        let line = line.unwrap();
        let t: Vec<&str> = line.split_whitespace().collect();
        let p = |s: &str| s.parse::<usize>().unwrap();
        match t.as_slice() {
            ["reset"] => {
                w = World::default();
                force_collect(); force_collect(); force_collect();
                FIN.with(|f| f.borrow_mut().clear());
                DROP.with(|d| d.borrow_mut().clear());
                writeln!(out, "ok").unwrap();
                continue;
            }
            ["alloc"] => {
                let id = w.nodes; w.nodes += 1;
                FIN.with(|f| f.borrow_mut().push(0)); DROP.with(|d| d.borrow_mut().push(0));
                let g = Gc::new(Node { id, _canary: Canary(id), edges: GcRefCell::new(vec![]), ephs: GcRefCell::new(vec![]) });
                w.ext.push((id, g));
            }
            ["clone", n] => { if let Some(i) = find(&w, p(n)) { let g = w.ext[i].1.clone(); w.ext.push((p(n), g)); } }
            ["drop", n] => { if let Some(i) = find(&w, p(n)) { w.ext.remove(i); } }
            ["link", a, b] => {
                if let (Some(i), Some(j)) = (find(&w, p(a)), find(&w, p(b))) {
                    let h = w.ext[j].1.clone();
                    w.ext[i].1.edges.borrow_mut().push(h);
                }
            }
            ["unlink", a, b] => {
                if let Some(i) = find(&w, p(a)) {
                    let mut e = w.ext[i].1.edges.borrow_mut();
                    if let Some(k) = e.iter().position(|g| g.id == p(b)) { e.remove(k); }
                }
            }
            ["eph", k, v] => {
                let vi = if *v == "-" { None } else { Some(p(v)) };
                if let Some(i) = find(&w, p(k)) {
                    let val = match vi { None => Some(vec![]), Some(x) => find(&w, x).map(|j| vec![w.ext[j].1.clone()]) };
                    if let Some(val) = val {
                        let id = w.ephs; w.ephs += 1;
                        let e = Ephemeron::new(&w.ext[i].1, val);
                        w.ext_e.push((id, e));
                    }
                }
            }
            ["ephclone", e] => { if let Some(i) = find_e(&w, p(e)) { let c = w.ext_e[i].1.clone(); w.ext_e.push((p(e), c)); } }
            ["ephdrop", e] => { if let Some(i) = find_e(&w, p(e)) { w.ext_e.remove(i); } }
            ["ephstore", a, e] => {
                if let (Some(i), Some(j)) = (find(&w, p(a)), find_e(&w, p(e))) {
                    let c = w.ext_e[j].1.clone();
                    w.ext[i].1.ephs.borrow_mut().push((p(e), c));
                }
            }
            ["ephunstore", a, e] => {
                if let Some(i) = find(&w, p(a)) {
                    let mut v = w.ext[i].1.ephs.borrow_mut();
                    if let Some(k) = v.iter().position(|(id, _)| *id == p(e)) { v.remove(k); }
                }
            }
            ["collect"] => force_collect(),
            ["collectb", a] => {
                if let Some(i) = find(&w, p(a)) {
                    let guard = w.ext[i].1.edges.borrow_mut();
                    force_collect();
                    drop(guard);
                }
            }
            _ => { writeln!(out, "bad-op").unwrap(); continue; }
        }
        writeln!(out, "{}", observe(&w)).unwrap();
        out.flush().unwrap();
    }
}
