fn main() {
    bvh::quiet_panics();
    let t = bvh::eval_fresh(b"print(1+1); 'x'+1", bvh::Limits::default());
    println!("{}", t.to_json());
}
