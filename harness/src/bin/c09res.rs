//! C09 known-finding witness: a finalizer that resurrects a node (stores a clone of a handle it owns).
//! Reports, without dereferencing possibly freed memory, whether the resurrected node's payload was
//! dropped while a live handle to it exists.
use boa_gc::{Finalize, Gc, GcRefCell, Trace, force_collect};
use std::cell::RefCell;

thread_local! {
    static STASH: RefCell<Vec<Gc<Node>>> = const { RefCell::new(Vec::new()) };
    static DROPS: RefCell<Vec<u32>> = const { RefCell::new(Vec::new()) };
}
struct Canary(usize);
impl Drop for Canary {
    fn drop(&mut self) { let _ = DROPS.try_with(|d| d.borrow_mut()[self.0] += 1); }
}
#[derive(Trace)]
struct Node {
    #[unsafe_ignore_trace] _canary: Canary,
    #[unsafe_ignore_trace] resurrect_edges: bool,
    edges: GcRefCell<Vec<Gc<Node>>>,
}
impl Finalize for Node {
    fn finalize(&self) {
        if self.resurrect_edges {
            for e in self.edges.borrow().iter() {
                let _ = STASH.try_with(|s| s.borrow_mut().push(e.clone()));
            }
        }
    }
}
fn node(id: usize, r: bool) -> Gc<Node> {
    DROPS.with(|d| d.borrow_mut().push(0));
    Gc::new(Node { _canary: Canary(id), resurrect_edges: r, edges: GcRefCell::new(vec![]) })
}

fn main() {
    let t = node(0, false);
    {
        let a = node(1, false); // allocated before b => finalized before b
        a.edges.borrow_mut().push(t.clone());
        let b = node(2, true);
        b.edges.borrow_mut().push(a.clone());
    }
    force_collect();
    let stash = STASH.with(|s| s.borrow().len());
    let dropped_a = DROPS.with(|d| d.borrow()[1]);
    let dropped_t = DROPS.with(|d| d.borrow()[0]);
    println!("stash={stash} dropped_resurrected={dropped_a} dropped_t={dropped_t}");
    // never touch the stash again: the handle may dangle
    STASH.with(|s| std::mem::forget(std::mem::take(&mut *s.borrow_mut())));
    std::mem::forget(t);
    std::process::exit(0);
}
