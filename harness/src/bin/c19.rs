//! C19 correspondence: parse / print / re-parse of source texts.
//! Input: sources separated by `//// <id>` headers (raw bytes in between; a header `//// <id> hex=<hex bytes>` carries
//! the source as hex so that arbitrary byte strings can be sent).
//! Output: one JSON line per source:
//!   {"id","parse":"ok"|"err","pos":[line,col]|null,"lines":n,"lastcol":m,"p1":text,"reparse":"ok"|"err","p2":text,
//!    "ast_eq":bool,"interned":[strings not occurring in the source]}
use boa_ast::scope::Scope;
use boa_interner::{Interner, ToInternedString};
use boa_parser::{Parser, Source};
use std::io::Read;

fn parse(src: &[u8], interner: &mut Interner) -> Result<boa_ast::Script, boa_parser::Error> {
    Parser::new(Source::from_bytes(src)).parse_script(&Scope::new_global(), interner)
}

fn err_pos(e: &boa_parser::Error) -> Option<(u32, u32)> {
    use boa_parser::Error;
    match e {
        Error::Expected { span, .. } | Error::Unexpected { span, .. } => Some((span.start().line_number(), span.start().column_number())),
        Error::General { position, .. } => Some((position.line_number(), position.column_number())),
        Error::Lex { err } => { let s = format!("{err}"); let _ = s; None }
        _ => None,
    }
}

/// shape of an arithmetic expression statement (numbers, unary minus, + - * /, parentheses) as an S-expression;
/// anything else is "?" — used to compare boa's tree with the Lean precedence model's
fn shape(e: &boa_ast::Expression) -> String {
    use boa_ast::Expression as X;
    use boa_ast::expression::literal::LiteralKind;
    use boa_ast::expression::operator::{binary::{ArithmeticOp, BinaryOp}, unary::UnaryOp};
    match e {
        X::Literal(l) => match l.kind() { LiteralKind::Int(i) => format!("(num {i})"), LiteralKind::Num(n) => format!("(num {n})"), _ => "?".into() },
        X::Parenthesized(p) => format!("(paren {})", shape(p.expression())),
        X::Unary(u) if u.op() == UnaryOp::Minus => format!("(neg {})", shape(u.target())),
        X::Binary(b) => {
            let o = match b.op() {
                BinaryOp::Arithmetic(ArithmeticOp::Add) => "add", BinaryOp::Arithmetic(ArithmeticOp::Sub) => "sub",
                BinaryOp::Arithmetic(ArithmeticOp::Mul) => "mul", BinaryOp::Arithmetic(ArithmeticOp::Div) => "div", _ => return "?".into(),
            };
            format!("(bin {o} {} {})", shape(b.lhs()), shape(b.rhs()))
        }
        _ => "?".into(),
    }
}

fn script_shape(s: &boa_ast::Script) -> String {
    use boa_ast::{Statement, StatementListItem};
    let items = s.statements().statements();
    if items.len() != 1 { return "?".into(); }
    match &items[0] {
        StatementListItem::Statement(st) => match st.as_ref() { Statement::Expression(e) => shape(e), _ => "?".into() },
        _ => "?".into(),
    }
}

fn main() {
    bvh::quiet_panics();
    let mut input = Vec::new();
    std::io::stdin().read_to_end(&mut input).unwrap();
    let text = String::from_utf8_lossy(&input).to_string();
    let mut cases: Vec<(String, Vec<u8>)> = Vec::new();
    for line in text.lines() {
        if let Some(h) = line.strip_prefix("//// ") {
            let mut it = h.split_whitespace();
            let id = it.next().unwrap_or("?").to_string();
            let mut body = Vec::new();
            for kv in it {
                if let Some(hex) = kv.strip_prefix("hex=") {
                    body = (0..hex.len() / 2).map(|i| u8::from_str_radix(&hex[2 * i..2 * i + 2], 16).unwrap_or(b'?')).collect();
                }
            }
            cases.push((id, body));
        } else if let Some(c) = cases.last_mut() {
            c.1.extend_from_slice(line.as_bytes());
            c.1.push(b'\n');
        }
    }
    for (id, src) in cases {
        let r = std::panic::catch_unwind(|| {
            let mut interner = Interner::default();
            let src_text = String::from_utf8_lossy(&src).to_string();
            let lines = src_text.split('\n').count();
            let lastcol = src_text.split('\n').last().map_or(0, |l| l.chars().count());
            match parse(&src, &mut interner) {
                Err(e) => serde_json::json!({"id": id, "parse": "err", "pos": err_pos(&e).map(|(l, c)| vec![l, c]), "lines": lines, "lastcol": lastcol, "msg": format!("{e}")}),
                Ok(ast1) => {
                    // strings interned by parsing that do not occur in the source (escape-free sources only make this meaningful)
                    let foreign: Vec<String> = interner.verif_dynamic_strings().into_iter().filter(|s| !s.is_empty() && !src_text.contains(s.as_str())).collect();
                    let p1 = ast1.to_interned_string(&interner);
                    let shape1 = script_shape(&ast1);
                    let mut interner2 = Interner::default();
                    match parse(p1.as_bytes(), &mut interner2) {
                        Err(e) => serde_json::json!({"id": id, "parse": "ok", "p1": p1, "reparse": "err", "msg": format!("{e}"), "interned": foreign}),
                        Ok(ast2) => {
                            let p2 = ast2.to_interned_string(&interner2);
                            let mut interner3 = Interner::default();
                            // the second parse of the printed text, through the same interner, must give an equal AST
                            let ast_eq = match parse(p2.as_bytes(), &mut interner2) { Ok(a) => a.statements() == ast2.statements(), Err(_) => false };
                            let p3 = match parse(p2.as_bytes(), &mut interner3) { Ok(a) => a.to_interned_string(&interner3), Err(e) => format!("<err {e}>") };
                            serde_json::json!({"id": id, "parse": "ok", "p1": p1, "reparse": "ok", "p2": p2, "p3": p3, "ast_eq": ast_eq, "interned": foreign, "shape": shape1, "shape2": script_shape(&ast2)})
                        }
                    }
                }
            }
        });
        match r {
            Ok(j) => println!("{j}"),
            Err(_) => println!("{}", serde_json::json!({"id": id, "parse": "panic"})),
        }
    }
}
