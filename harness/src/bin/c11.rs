//! C11 correspondence: line server mirroring lean/Drivers/C11.lean with real boa_string values.
use boa_string::{CodePoint, JsStr, JsString, Latin1JsStringBuilder, Utf16JsStringBuilder};
use std::hash::{Hash, Hasher};
use std::io::{BufRead, Write};

#[derive(Clone)]
enum Lit { L(Vec<u8>), U(Vec<u16>) }

fn parse_lit(s: &str) -> Lit {
    let (v, body) = s.split_at(2);
    let nums: Vec<u32> = if body.is_empty() { vec![] } else { body.split(',').map(|x| u32::from_str_radix(x, 16).unwrap()).collect() };
    if v == "l:" { Lit::L(nums.iter().map(|&n| n as u8).collect()) } else { Lit::U(nums.iter().map(|&n| n as u16).collect()) }
}
fn lit_str(l: &Lit) -> JsStr<'_> { match l { Lit::L(v) => JsStr::latin1(v), Lit::U(v) => JsStr::utf16(v) } }
fn fresh(l: &Lit) -> JsString {
    // concat with the empty string allocates a fresh sequence string of the same encoding (no interning)
    JsString::concat(lit_str(l), JsStr::latin1(&[]))
}
fn sub(l: &Lit, a: usize, b: usize) -> Lit { match l { Lit::L(v) => Lit::L(v[a..b].to_vec()), Lit::U(v) => Lit::U(v[a..b].to_vec()) } }
fn units(l: &Lit) -> Vec<u16> { match l { Lit::L(v) => v.iter().map(|&b| u16::from(b)).collect(), Lit::U(v) => v.clone() } }

fn construct(ctor: &str, l: &Lit) -> JsString {
    let n = units(l).len();
    match ctor {
        "seq" => fresh(l),
        "intern" => JsString::from(lit_str(l)),
        "slice" => {
            let padded = match l {
                Lit::L(v) => { let mut p = vec![0x78u8]; p.extend(v); p.push(0x79); Lit::L(p) }
                Lit::U(v) => { let mut p = vec![0x78u16]; p.extend(v); p.push(0x79); Lit::U(p) }
            };
            fresh(&padded).slice(1, 1 + n)
        }
        "concat" => {
            let (a, b) = (sub(l, 0, n / 2), sub(l, n / 2, n));
            JsString::concat(lit_str(&a), lit_str(&b))
        }
        "str" => {
            let s = String::from_utf16(&units(l)).expect("generator sends valid text for ctor str");
            JsString::from(s.as_str())
        }
        "builder" => match l {
            Lit::L(v) => {
                let mut b = Latin1JsStringBuilder::new();
                for &x in v { b.push(x); }
                // SAFETY-free path: `build` refuses non-ASCII, fall back to the documented latin1 constructor
                let ascii = v.iter().all(|x| *x < 128);
                if ascii { b.build().unwrap() } else { fresh(l) }
            }
            Lit::U(v) => { let mut b = Utf16JsStringBuilder::new(); for &x in v { b.push(x); } b.build() }
        },
        _ => panic!("ctor"),
    }
}

#[derive(Default)]
struct Rec(Vec<String>);
impl Hasher for Rec {
    fn finish(&self) -> u64 { 0 }
    fn write(&mut self, b: &[u8]) { self.0.push(format!("raw{}", b.len())); }
    fn write_usize(&mut self, i: usize) { self.0.push(format!("{i:x}")); }
    fn write_u16(&mut self, i: u16) { self.0.push(format!("{i:x}")); }
}
fn show(s: &JsString) -> String {
    let v = if s.as_str().is_latin1() { "l" } else { "u" };
    format!("{v}:{}", s.iter().map(|u| format!("{u:x}")).collect::<Vec<_>>().join(","))
}
fn opt<T: std::fmt::LowerHex>(o: Option<T>) -> String { o.map(|x| format!("{x:x}")).unwrap_or_else(|| "-".into()) }

fn main() {
    bvh::quiet_panics();
    let stdin = std::io::stdin();
    let mut out = std::io::BufWriter::new(std::io::stdout());
    for line in stdin.lock().lines() {
        let line = line.unwrap();
        let t: Vec<&str> = line.split_whitespace().collect();
        let ans = std::panic::catch_unwind(|| {
            if t.len() != 8 || t[0] != "pair" { return "bad-op".to_string(); }
            let (la, lb) = (parse_lit(t[2]), parse_lit(t[4]));
            let a = construct(t[1], &la);
            let b = construct(t[3], &lb);
            let i: usize = t[5].parse().unwrap();
            let j: usize = t[6].parse().unwrap();
            let e = u8::from_str_radix(t[7], 16).unwrap();
            let mut f = Vec::new();
            f.push(format!("sa={}", u8::from(a.is_static())));
            f.push(format!("sb={}", u8::from(b.is_static())));
            f.push(format!("va={}", if a.as_str().is_latin1() { "l" } else { "u" }));
            f.push(format!("vb={}", if b.as_str().is_latin1() { "l" } else { "u" }));
            f.push(format!("eq={}", u8::from(a == b)));
            f.push(format!("cmp={}", match a.cmp(&b) { std::cmp::Ordering::Less => -1, std::cmp::Ordering::Equal => 0, std::cmp::Ordering::Greater => 1 }));
            let mut h = Rec::default(); a.hash(&mut h);
            f.push(format!("ha={}", h.0.join(",")));
            f.push(format!("len={:x}", a.len()));
            f.push(format!("get={}", opt(a.code_unit_at(i))));
            f.push(format!("sw={}", u8::from(a.starts_with(b.as_str()))));
            f.push(format!("ew={}", u8::from(a.ends_with(b.as_str()))));
            f.push(format!("io={}", opt(a.index_of(b.as_str(), i))));
            f.push(format!("cp={}", if i < a.len() { match a.code_point_at(i) { CodePoint::Unicode(c) => format!("U{:x}", c as u32), CodePoint::UnpairedSurrogate(s) => format!("S{s:x}") } } else { "-".into() }));
            f.push(format!("ct={}", u8::from(a.contains(e))));
            f.push(format!("tr={}", show(&a.trim())));
            f.push(format!("ts={}", show(&a.trim_start())));
            f.push(format!("te={}", show(&a.trim_end())));
            f.push(format!("sl={}", show(&a.slice(i, j))));
            f.push(format!("cc={}", show(&JsString::concat(a.as_str(), b.as_str()))));
            f.push(format!("std={}", match a.to_std_string() { Ok(s) => s.chars().map(|c| format!("{:x}", c as u32)).collect::<Vec<_>>().join(","), Err(_) => "err".into() }));
            f.push(format!("eqs={}", match String::from_utf16(&units(&lb)) { Ok(s) => format!("{}{}", u8::from(a == s.as_str()), u8::from(a.as_str() == s.as_str())), Err(_) => "-".into() }));
            f.join(" ")
        }).unwrap_or_else(|_| "panic".to_string());
        writeln!(out, "{ans}").unwrap();
    }
    out.flush().unwrap();
}
