//! C05 mechanism tie: parse each script, dump the AST of the modelled fragment as an S-expression,
//! run `Context::optimize_statement_list` with the requested option bits, dump again.
use boa_ast::declaration::{Binding, Declaration};
use boa_ast::expression::literal::LiteralKind;
use boa_ast::expression::operator::assign::{AssignOp, AssignTarget};
use boa_ast::expression::operator::binary::{ArithmeticOp, BinaryOp, BitwiseOp, LogicalOp, RelationalOp};
use boa_ast::expression::operator::unary::UnaryOp;
use boa_ast::scope::Scope;
use boa_ast::statement::iteration::ForLoopInitializer;
use boa_ast::{Expression, Statement, StatementList, StatementListItem};
use boa_engine::{Context, Source, optimizer::OptimizerOptions};
use boa_interner::Interner;
use boa_parser::Parser;
use std::io::Read;

fn hex(s: &str) -> String { s.encode_utf16().map(|u| format!("{u:04x}")).collect::<Vec<_>>().join("") }
fn name(sym: boa_interner::Sym, i: &Interner) -> String { i.resolve_expect(sym).to_string() }

fn expr(e: &Expression, i: &Interner) -> String {
    match e {
        Expression::Literal(l) => match l.kind() {
            LiteralKind::Undefined => "(lit undef)".into(),
            LiteralKind::Null => "(lit null)".into(),
            LiteralKind::Bool(b) => format!("(lit {b})"),
            LiteralKind::Int(n) => format!("(lit i {n})"),
            LiteralKind::Num(n) => format!("(lit n {:016x})", n.to_bits()),
            LiteralKind::String(s) => format!("(lit s x{})", hex(&name(*s, i))),
            LiteralKind::BigInt(b) => format!("(lit big {b})"),
        },
        Expression::Identifier(id) => format!("(id {})", name(id.sym(), i)),
        Expression::Parenthesized(p) => format!("(paren {})", expr(p.expression(), i)),
        Expression::Unary(u) => {
            let op = match u.op() {
                UnaryOp::Minus => "neg", UnaryOp::Plus => "plus", UnaryOp::Not => "not", UnaryOp::TypeOf => "typeof",
                UnaryOp::Void => "void", UnaryOp::Delete => "delete", UnaryOp::Tilde => return "(unsupported tilde)".into(),
            };
            format!("(un {op} {})", expr(u.target(), i))
        }
        Expression::Binary(b) => {
            let (l, r) = (expr(b.lhs(), i), expr(b.rhs(), i));
            match b.op() {
                BinaryOp::Arithmetic(a) => format!("(bin {} {l} {r})", match a {
                    ArithmeticOp::Add => "add", ArithmeticOp::Sub => "sub", ArithmeticOp::Mul => "mul",
                    ArithmeticOp::Div => "div", ArithmeticOp::Exp => "exp", ArithmeticOp::Mod => "mod" }),
                BinaryOp::Relational(o) => match o {
                    RelationalOp::LessThan => format!("(bin lt {l} {r})"),
                    RelationalOp::LessThanOrEqual => format!("(bin le {l} {r})"),
                    RelationalOp::GreaterThan => format!("(bin gt {l} {r})"),
                    RelationalOp::GreaterThanOrEqual => format!("(bin ge {l} {r})"),
                    RelationalOp::Equal => format!("(bin eq {l} {r})"),
                    RelationalOp::NotEqual => format!("(bin ne {l} {r})"),
                    RelationalOp::StrictEqual => format!("(bin seq {l} {r})"),
                    RelationalOp::StrictNotEqual => format!("(bin sne {l} {r})"),
                    _ => "(unsupported relop)".into(),
                },
                BinaryOp::Bitwise(o) => match o {
                    BitwiseOp::And => format!("(bin band {l} {r})"),
                    BitwiseOp::Or => format!("(bin bor {l} {r})"),
                    _ => "(unsupported bitop)".into(),
                },
                BinaryOp::Logical(o) => format!("(log {} {l} {r})", match o {
                    LogicalOp::And => "and", LogicalOp::Or => "or", LogicalOp::Coalesce => "coalesce" }),
                BinaryOp::Comma => format!("(comma {l} {r})"),
            }
        }
        Expression::Call(c) => match (c.function(), c.args()) {
            (Expression::Identifier(f), [a]) => format!("(call {} {})", name(f.sym(), i), expr(a, i)),
            _ => "(unsupported call)".into(),
        },
        Expression::Assign(a) => match (a.op(), a.lhs()) {
            (AssignOp::Assign, AssignTarget::Identifier(id)) => format!("(assign {} {})", name(id.sym(), i), expr(a.rhs(), i)),
            _ => "(unsupported assign)".into(),
        },
        _ => "(unsupported expr)".into(),
    }
}

fn opt_expr(e: Option<&Expression>, i: &Interner) -> String { e.map_or_else(|| "-".into(), |e| expr(e, i)) }

fn stmt(s: &Statement, i: &Interner) -> String {
    match s {
        Statement::Expression(e) => format!("(expr {})", expr(e, i)),
        Statement::Empty => "(empty)".into(),
        Statement::If(f) => match f.else_node() {
            Some(e) => format!("(if {} {} {})", expr(f.cond(), i), stmt(f.body(), i), stmt(e, i)),
            None => format!("(if {} {})", expr(f.cond(), i), stmt(f.body(), i)),
        },
        Statement::WhileLoop(w) => format!("(while {} {})", expr(w.condition(), i), stmt(w.body(), i)),
        Statement::ForLoop(f) => {
            let init = match f.init() {
                None => "-".to_string(),
                Some(ForLoopInitializer::Expression(e)) => expr(e, i),
                Some(_) => "(unsupported forinit)".into(),
            };
            format!("(for {init} {} {} {})", opt_expr(f.condition(), i), opt_expr(f.final_expr(), i), stmt(f.body(), i))
        }
        Statement::Block(b) => format!("(block{})", list(b.statement_list(), i)),
        Statement::Var(v) => {
            let vars = v.0.as_ref();
            if vars.len() != 1 { return "(unsupported multivar)".into(); }
            match vars[0].binding() {
                Binding::Identifier(id) => format!("(var {} {})", name(id.sym(), i), opt_expr(vars[0].init(), i)),
                Binding::Pattern(_) => "(unsupported pattern)".into(),
            }
        }
        _ => "(unsupported stmt)".into(),
    }
}

fn list(l: &StatementList, i: &Interner) -> String {
    let mut out = String::new();
    for item in l.statements() {
        out.push(' ');
        match item {
            StatementListItem::Statement(s) => out.push_str(&stmt(s, i)),
            StatementListItem::Declaration(d) => match &**d {
                Declaration::FunctionDeclaration(f) if f.body().statements().is_empty() && f.parameters().as_ref().is_empty() =>
                    out.push_str(&format!("(fun {})", name(f.name().sym(), i))),
                _ => out.push_str("(unsupported decl)"),
            },
        }
    }
    out
}

fn main() {
    bvh::quiet_panics();
    let mut input = String::new();
    std::io::stdin().read_to_string(&mut input).unwrap();
    let mut cases: Vec<(String, String)> = Vec::new();
    for line in input.lines() {
        if let Some(h) = line.strip_prefix("//// ") { cases.push((h.to_string(), String::new())); }
        else if let Some(c) = cases.last_mut() { c.1.push_str(line); c.1.push('\n'); }
    }
    for (header, body) in cases {
        let mut it = header.split_whitespace();
        let id = it.next().unwrap_or("?").to_string();
        let bits: u8 = it.next().and_then(|s| s.strip_prefix("opt=")).and_then(|s| s.parse().ok()).unwrap_or(14);
        let r = std::panic::catch_unwind(|| {
            let mut ctx = Context::default();
            let mut parser = Parser::new(Source::from_bytes(body.as_bytes()));
            let script = match parser.parse_script(&Scope::new_global(), ctx.interner_mut()) {
                Ok(s) => s,
                Err(e) => return serde_json::json!({"id": id, "error": format!("{e}")}),
            };
            let mut sl = script.statements().clone();
            let before = format!("(program{})", list(&sl, ctx.interner()));
            ctx.set_optimizer_options(OptimizerOptions::from_bits_truncate(bits));
            ctx.optimize_statement_list(&mut sl);
            let after = format!("(program{})", list(&sl, ctx.interner()));
            serde_json::json!({"id": id, "before": before, "after": after})
        });
        match r {
            Ok(j) => println!("{j}"),
            Err(_) => println!("{}", serde_json::json!({"id": id, "error": "panic"})),
        }
    }
}
