//! C14 correspondence (storage layer): the same operation lines as lean/Drivers/C14.lean applied to a real PropertyMap.
use boa_engine::object::{IndexProperties, PropertyMap};
use boa_engine::property::{PropertyDescriptor, PropertyKey};
use boa_engine::value::JsVariant;
use boa_engine::{JsValue, js_string, JsString};
use boa_engine::{Context, Source};
use std::io::{BufRead, Write};

/// the array `a` of the JS-level mode: storage variant, `length`, and contents read from its PropertyMap
fn js_dump(ctx: &mut Context) -> String {
    let a = ctx.global_object().get(js_string!("a"), ctx).unwrap();
    let o = a.as_object().unwrap();
    let len = o.get(js_string!("length"), ctx).unwrap().to_number(ctx).unwrap() as u64;
    let b = o.borrow();
    let m = b.properties();
    let mut all: Vec<(u32, String)> = m.index_properties().map(|(k, d)| (k, show_desc(&d))).collect();
    all.sort();
    format!("v={} len={} {}", variant(m), len, all.iter().map(|(k, d)| format!("{k}={d}")).collect::<Vec<_>>().join(" ")).trim_end().to_string()
}
fn js_run(ctx: &mut Context, k: Option<u32>, v: Option<JsValue>, src: &str) -> String {
    let g = ctx.global_object();
    if let Some(k) = k { g.set(js_string!("k"), JsValue::new(k), false, ctx).unwrap(); }
    if let Some(v) = v { g.set(js_string!("v"), v, false, ctx).unwrap(); }
    match ctx.eval(Source::from_bytes(src.as_bytes())) {
        Ok(r) => show_val(&r),
        Err(e) => format!("throw {e}"),
    }
}

fn val(s: &str) -> JsValue {
    let (t, n) = s.split_at(2);
    let k: i64 = n.parse().unwrap();
    match t {
        "i:" => JsValue::new(k as i32),
        "f:" => JsValue::rational(k as f64),
        "d:" => JsValue::rational(k as f64 + 0.5),
        "o:" => JsValue::new(JsString::from(format!("s{k}"))),
        _ => panic!("val"),
    }
}
fn show_val(v: &JsValue) -> String {
    // observable content only: an Integer32 and a Float64 with the same value print alike
    match v.variant() {
        JsVariant::Integer32(i) => format!("n{i}"),
        JsVariant::Float64(f) => if f == f.trunc() && f.abs() < 2147483648.0 && !(f == 0.0 && f.is_sign_negative()) { format!("n{}", f as i64) } else { format!("d{}", (f - 0.5) as i64) },
        JsVariant::String(s) => format!("o{}", &s.to_std_string_escaped()[1..]),
        JsVariant::Undefined => "undef".into(),
        _ => "?".into(),
    }
}
fn desc(s: &str, attrs: &str) -> PropertyDescriptor {
    let b: Vec<bool> = attrs.chars().map(|c| c == '1').collect();
    if s == "acc" {
        PropertyDescriptor::builder().get(JsValue::undefined()).set(JsValue::undefined()).enumerable(b[1]).configurable(b[2]).build()
    } else {
        PropertyDescriptor::builder().value(val(s)).writable(b[0]).enumerable(b[1]).configurable(b[2]).build()
    }
}
fn show_desc(d: &PropertyDescriptor) -> String {
    let f = |o: Option<bool>| match o { Some(true) => '1', Some(false) => '0', None => '-' };
    if d.is_accessor_descriptor() {
        format!("acc:-{}{}", f(d.enumerable()), f(d.configurable()))
    } else {
        format!("{}:{}{}{}", d.value().map(show_val).unwrap_or_else(|| "-".into()), f(d.writable()), f(d.enumerable()), f(d.configurable()))
    }
}
fn variant(m: &PropertyMap) -> &'static str {
    match m.index_properties() {
        IndexProperties::DenseI32(_) => "DenseI32", IndexProperties::DenseF64(_) => "DenseF64",
        IndexProperties::DenseElement(_) => "DenseElement", IndexProperties::SparseElement(_) => "SparseElement",
        IndexProperties::SparseProperty(_) => "SparseProperty",
    }
}
fn main() {
    let _ = js_string!("x");
    let stdin = std::io::stdin();
    let mut out = std::io::BufWriter::new(std::io::stdout());
    let mut m = PropertyMap::default();
    let mut ctx: Option<Context> = None;
    for line in stdin.lock().lines() {
        let line = line.unwrap();
        let t: Vec<&str> = line.split_whitespace().collect();
        let key = |s: &str| PropertyKey::from(s.parse::<u32>().unwrap());
        let ans = match t.as_slice() {
            ["reset"] => { m = PropertyMap::default(); "ok".to_string() }
            ["insert", k, v, a] => { let r = m.insert(&key(k), desc(v, a)); format!("r={} v={}", u8::from(r), variant(&m)) }
            ["remove", k] => { let r = m.remove(&key(k)); format!("r={} v={}", u8::from(r), variant(&m)) }
            ["get", k] => m.get(&key(k)).map(|d| show_desc(&d)).unwrap_or_else(|| "none".into()),
            ["has", k] => format!("{}", u8::from(m.contains_key(&key(k)))),
            ["dump"] => {
                let mut all: Vec<(u32, String)> = m.index_properties().map(|(k, d)| (k, show_desc(&d))).collect();
                all.sort();
                let mut keys: Vec<u32> = m.index_property_keys().collect();
                keys.sort_unstable();
                format!("{} | {}", all.iter().map(|(k, d)| format!("{k}={d}")).collect::<Vec<_>>().join(" "),
                        keys.iter().map(u32::to_string).collect::<Vec<_>>().join(","))
            }
            // JS-level mode: the operations run through the VM and the builtins on a real array; what is compared is the
            // storage the engine ends up with (variant and contents), i.e. the dense fast paths against the model's
            ["jsreset"] => { let mut c = bvh::new_context(bvh::Limits::default()); js_run(&mut c, None, None, "var a = []; 0"); ctx = Some(c); "ok".to_string() }
            ["aset", k, v] => { let c = ctx.as_mut().unwrap(); js_run(c, Some(k.parse().unwrap()), Some(val(v)), "a[k] = v; 0"); js_dump(c) }
            ["aget", k] => { let c = ctx.as_mut().unwrap(); js_run(c, Some(k.parse().unwrap()), None, "a[k]") }
            ["apush", v] => { let c = ctx.as_mut().unwrap(); let r = js_run(c, None, Some(val(v)), "a.push(v); 0"); format!("{}{}", if r.starts_with("throw") { "throw " } else { "" }, js_dump(c)) }
            ["ashift"] => { let c = ctx.as_mut().unwrap(); let r = js_run(c, None, None, "a.shift()"); format!("r={} {}", if r.starts_with("throw") { "throw" } else { r.as_str() }, js_dump(c)) }
            ["alock"] => { let c = ctx.as_mut().unwrap(); js_run(c, None, None, "Object.defineProperty(a, 'length', {writable: false}); 0"); js_dump(c) }
            ["adel", k] => { let c = ctx.as_mut().unwrap(); js_run(c, Some(k.parse().unwrap()), None, "delete a[k]; 0"); js_dump(c) }
            _ => "bad-op".into(),
        };
        writeln!(out, "{ans}").unwrap();
    }
    out.flush().unwrap();
}
