//! C14 correspondence (storage layer): the same operation lines as lean/Drivers/C14.lean applied to a real PropertyMap.
use boa_engine::object::{IndexProperties, PropertyMap};
use boa_engine::property::{PropertyDescriptor, PropertyKey};
use boa_engine::value::JsVariant;
use boa_engine::{JsValue, js_string, JsString};
use std::io::{BufRead, Write};

fn val(s: &str) -> JsValue {
    let (t, n) = s.split_at(2);
    let k: i64 = n.parse().unwrap();
    match t {
        "i:" => JsValue::new(k as i32),
        "f:" => JsValue::rational(k as f64),
        "d:" => JsValue::rational(k as f64 + 0.5),
        "o:" => JsValue::new(JsString::from(format!("s{k}"))),
        _ => panic!("val"),
    }
}
fn show_val(v: &JsValue) -> String {
    // observable content only: an Integer32 and a Float64 with the same value print alike
    match v.variant() {
        JsVariant::Integer32(i) => format!("n{i}"),
        JsVariant::Float64(f) => if f == f.trunc() && f.abs() < 2147483648.0 && !(f == 0.0 && f.is_sign_negative()) { format!("n{}", f as i64) } else { format!("d{}", (f - 0.5) as i64) },
        JsVariant::String(s) => format!("o{}", &s.to_std_string_escaped()[1..]),
        JsVariant::Undefined => "undef".into(),
        _ => "?".into(),
    }
}
fn desc(s: &str, attrs: &str) -> PropertyDescriptor {
    let b: Vec<bool> = attrs.chars().map(|c| c == '1').collect();
    if s == "acc" {
        PropertyDescriptor::builder().get(JsValue::undefined()).set(JsValue::undefined()).enumerable(b[1]).configurable(b[2]).build()
    } else {
        PropertyDescriptor::builder().value(val(s)).writable(b[0]).enumerable(b[1]).configurable(b[2]).build()
    }
}
fn show_desc(d: &PropertyDescriptor) -> String {
    let f = |o: Option<bool>| match o { Some(true) => '1', Some(false) => '0', None => '-' };
    if d.is_accessor_descriptor() {
        format!("acc:-{}{}", f(d.enumerable()), f(d.configurable()))
    } else {
        format!("{}:{}{}{}", d.value().map(show_val).unwrap_or_else(|| "-".into()), f(d.writable()), f(d.enumerable()), f(d.configurable()))
    }
}
fn variant(m: &PropertyMap) -> &'static str {
    match m.index_properties() {
        IndexProperties::DenseI32(_) => "DenseI32", IndexProperties::DenseF64(_) => "DenseF64",
        IndexProperties::DenseElement(_) => "DenseElement", IndexProperties::SparseElement(_) => "SparseElement",
        IndexProperties::SparseProperty(_) => "SparseProperty",
    }
}
fn main() {
    let _ = js_string!("x");
    let stdin = std::io::stdin();
    let mut out = std::io::BufWriter::new(std::io::stdout());
    let mut m = PropertyMap::default();
    for line in stdin.lock().lines() {
        let line = line.unwrap();
        let t: Vec<&str> = line.split_whitespace().collect();
        let key = |s: &str| PropertyKey::from(s.parse::<u32>().unwrap());
        let ans = match t.as_slice() {
            ["reset"] => { m = PropertyMap::default(); "ok".to_string() }
            ["insert", k, v, a] => { let r = m.insert(&key(k), desc(v, a)); format!("r={} v={}", u8::from(r), variant(&m)) }
            ["remove", k] => { let r = m.remove(&key(k)); format!("r={} v={}", u8::from(r), variant(&m)) }
            ["get", k] => m.get(&key(k)).map(|d| show_desc(&d)).unwrap_or_else(|| "none".into()),
            ["has", k] => format!("{}", u8::from(m.contains_key(&key(k)))),
            ["dump"] => {
                let mut all: Vec<(u32, String)> = m.index_properties().map(|(k, d)| (k, show_desc(&d))).collect();
                all.sort();
                let mut keys: Vec<u32> = m.index_property_keys().collect();
                keys.sort_unstable();
                format!("{} | {}", all.iter().map(|(k, d)| format!("{k}={d}")).collect::<Vec<_>>().join(" "),
                        keys.iter().map(u32::to_string).collect::<Vec<_>>().join(","))
            }
            _ => "bad-op".into(),
        };
        writeln!(out, "{ans}").unwrap();
    }
    out.flush().unwrap();
}
