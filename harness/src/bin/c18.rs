//! C18 correspondence: the engine's JSON.parse / JSON.stringify, one request per line.
//!   parse <4-hex-per-code-unit | ->      JSON.parse(text)         -> `ok <canonical>` | `E <error class>`
//!   stringify <canonical>                JSON.stringify(value)    -> `s <4-hex-per-code-unit>` | `E <class>` | `undefined`
//!   roundtrip <canonical>                JSON.parse(JSON.stringify(value)) -> `ok <canonical>`
//! canonical: n | t | f | d<16 hex bits>; | s<units>; | [v,v] | {k<units>;v,...}   (keys in the engine's own-key order)
use boa_engine::{Context, JsObject, JsResult, JsString, JsValue, js_string, object::builtins::JsArray, property::PropertyKey};
use std::io::{BufRead, Write};

fn units(hex: &str) -> Vec<u16> {
    if hex == "-" { return Vec::new(); }
    (0..hex.len() / 4).map(|i| u16::from_str_radix(&hex[4 * i..4 * i + 4], 16).unwrap_or(0x3f)).collect()
}
fn hexu(s: &JsString) -> String { s.iter().map(|u| format!("{u:04x}")).collect() }

fn dump(v: &JsValue, ctx: &mut Context, out: &mut String, depth: usize) -> JsResult<()> {
    if depth > 3000 { out.push('?'); return Ok(()); }
    if v.is_null() { out.push('n'); }
    else if let Some(b) = v.as_boolean() { out.push(if b { 't' } else { 'f' }); }
    else if let Some(n) = v.as_number() { out.push_str(&format!("d{:016x};", n.to_bits())); }
    else if let Some(s) = v.as_string() { out.push('s'); out.push_str(&hexu(&s)); out.push(';'); }
    else if let Some(o) = v.as_object() {
        if o.is_array() {
            let len = o.get(js_string!("length"), ctx)?.to_length(ctx)?;
            out.push('[');
            for i in 0..len {
                if i > 0 { out.push(','); }
                let e = o.get(i, ctx)?;
                dump(&e, ctx, out, depth + 1)?;
            }
            out.push(']');
        } else {
            out.push('{');
            let keys = o.own_property_keys(ctx)?;
            let mut first = true;
            for k in keys {
                let name = match &k { PropertyKey::String(s) => s.clone(), PropertyKey::Index(i) => JsString::from(i.get().to_string()), PropertyKey::Symbol(_) => continue };
                if !first { out.push(','); }
                first = false;
                out.push('k'); out.push_str(&hexu(&name)); out.push(';');
                // own data property read without invoking the prototype chain
                let val = o.get(k.clone(), ctx)?;
                dump(&val, ctx, out, depth + 1)?;
            }
            out.push('}');
        }
    } else { out.push('u'); }
    Ok(())
}

fn build(s: &[u8], pos: &mut usize, ctx: &mut Context) -> JsResult<JsValue> {
    let c = s[*pos];
    *pos += 1;
    Ok(match c {
        b'n' => JsValue::null(),
        b't' => JsValue::new(true),
        b'f' => JsValue::new(false),
        b'd' => {
            let end = *pos + s[*pos..].iter().position(|&b| b == b';').unwrap();
            let bits = u64::from_str_radix(std::str::from_utf8(&s[*pos..end]).unwrap(), 16).unwrap_or(0);
            *pos = end + 1;
            JsValue::new(f64::from_bits(bits))
        }
        b's' => {
            let end = *pos + s[*pos..].iter().position(|&b| b == b';').unwrap();
            let u = units(std::str::from_utf8(&s[*pos..end]).unwrap());
            *pos = end + 1;
            JsValue::new(JsString::from(&u[..]))
        }
        b'[' => {
            let arr = JsArray::new(ctx)?;
            while s[*pos] != b']' {
                if s[*pos] == b',' { *pos += 1; }
                let v = build(s, pos, ctx)?;
                arr.push(v, ctx)?;
            }
            *pos += 1;
            arr.into()
        }
        b'{' => {
            let o = JsObject::with_object_proto(ctx.intrinsics());
            while s[*pos] != b'}' {
                if s[*pos] == b',' { *pos += 1; }
                *pos += 1; // 'k'
                let end = *pos + s[*pos..].iter().position(|&b| b == b';').unwrap();
                let u = units(std::str::from_utf8(&s[*pos..end]).unwrap());
                *pos = end + 1;
                let v = build(s, pos, ctx)?;
                o.create_data_property_or_throw(JsString::from(&u[..]), v, ctx)?;
            }
            *pos += 1;
            o.into()
        }
        _ => JsValue::undefined(),
    })
}

fn main() {
    bvh::quiet_panics();
    let stdin = std::io::stdin();
    let out = std::io::stdout();
    let mut out = out.lock();
    let mut ctx = bvh::new_context(bvh::Limits::default());
    let mut count = 0u32;
    for line in stdin.lock().lines() {
        let line = line.unwrap();
        let t: Vec<&str> = line.split_whitespace().collect();
        if t.len() < 2 { continue; }
        count += 1;
        if count % 2048 == 0 { ctx = bvh::new_context(bvh::Limits::default()); }
        let ans = std::panic::catch_unwind(std::panic::AssertUnwindSafe(|| {
            let ctx = &mut ctx;
            let json = ctx.global_object().get(js_string!("JSON"), ctx).unwrap();
            let json = json.as_object().unwrap();
            let call = |name: &str, arg: JsValue, ctx: &mut Context| -> JsResult<JsValue> {
                let f = json.get(JsString::from(name), ctx)?;
                f.as_callable().unwrap().call(&JsValue::undefined(), &[arg], ctx)
            };
            let show_parse = |r: JsResult<JsValue>, ctx: &mut Context| match r {
                Ok(v) => { let mut s = String::new(); match dump(&v, ctx, &mut s, 0) { Ok(()) => format!("ok {s}"), Err(e) => format!("E dump {}", bvh::render_error(&e, ctx)) } }
                Err(e) => format!("E {}", bvh::render_error(&e, ctx)),
            };
            match t[0] {
                "parse" => {
                    let text = JsString::from(&units(t[1])[..]);
                    let r = call("parse", JsValue::new(text), ctx);
                    show_parse(r, ctx)
                }
                "stringify" | "roundtrip" => {
                    let mut pos = 0;
                    let v = match build(t[1].as_bytes(), &mut pos, ctx) { Ok(v) => v, Err(e) => return format!("E build {}", bvh::render_error(&e, ctx)) };
                    match call("stringify", v, ctx) {
                        Ok(s) => match s.as_string() {
                            Some(js) => {
                                if t[0] == "stringify" { format!("s {}", hexu(&js)) }
                                else { let r = call("parse", JsValue::new(js), ctx); show_parse(r, ctx) }
                            }
                            None => "undefined".to_string(),
                        },
                        Err(e) => format!("E {}", bvh::render_error(&e, ctx)),
                    }
                }
                _ => "bad-op".to_string(),
            }
        }));
        writeln!(out, "{}", ans.unwrap_or_else(|_| "panic".to_string())).unwrap();
    }
}
