//! Shared engine runner: evaluates a batch of scripts, each in a fresh context (or a shared one),
//! and prints one JSON line per script: {"id":..,"out":[..],"completion":".."}.
//! Input (stdin): scripts separated by header lines `//// <id> [key=value ...]`.
//!   keys: reuse=1 (keep the context of the previous script), reset=1 (drop the kept context first), loop=<n> rec=<n> stack=<n> (runtime limits),
//!         budget=<n> (instruction budget), opt=<bits> (optimizer options; absent = default),
//!         cons=<bits> (conservative compilation hook: 1 every binding in an environment, 2 no const cache, 4 no hoisting, 8 no fused branches),
//!         ic=0 (inline caches off, hook), ic=2 (caches on, but no entries for properties found on the prototype), icrec=1 (record InlineCache get/set events into "ic")
use boa_engine::optimizer::OptimizerOptions;
use bvh::{Limits, eval_in, guarded, new_context};
use std::io::Read;

fn main() {
    // Debug builds of the engine use large native frames: give the evaluation thread a stack that the engine's own
    // recursion limit (not the operating system's 8 MB default) bounds. Unbounded native recursion still overflows it.
    let t = std::thread::Builder::new().stack_size(1 << 30).spawn(real_main).expect("thread");
    if t.join().is_err() {
        std::process::exit(101);
    }
}

fn real_main() {
    bvh::quiet_panics();
    // the input is bytes: script bodies need not be valid UTF-8 (C02 feeds raw byte strings)
    let mut input: Vec<u8> = Vec::new();
    std::io::stdin().read_to_end(&mut input).unwrap();
    let mut cases: Vec<(String, Vec<u8>)> = Vec::new();
    for line in input.split(|b| *b == b'\n') {
        if let Some(h) = line.strip_prefix(b"//// ") {
            cases.push((String::from_utf8_lossy(h).into_owned(), Vec::new()));
        } else if let Some(c) = cases.last_mut() {
            c.1.extend_from_slice(line);
            c.1.push(b'\n');
        }
    }
    let mut shared: Option<boa_engine::Context> = None;
    for (header, body) in cases {
        let mut it = header.split_whitespace();
        let id = it.next().unwrap_or("?").to_string();
        let mut l = Limits::default();
        let mut reuse = false;
        let mut opt: Option<u8> = None;
        let mut ic_on = true;
        let mut ic_proto = true;
        let mut ic_rec = false;
        let mut cons: u8 = 0;
        for kv in it {
            if let Some((k, v)) = kv.split_once('=') {
                match k {
                    "reuse" => reuse = v == "1",
                    "reset" => { if v == "1" { shared = None; } }
                    "loop" => l.loop_iter = v.parse().ok(),
                    "rec" => l.recursion = v.parse().ok(),
                    "stack" => l.stack = v.parse().ok(),
                    "budget" => l.instructions = v.parse().unwrap_or(l.instructions),
                    "opt" => opt = v.parse().ok(),
                    "ic" => { ic_on = v != "0"; ic_proto = v != "2"; }
                    "icrec" => ic_rec = v == "1",
                    "cons" => cons = v.parse().unwrap_or(0),
                    _ => {}
                }
            }
        }
        let mut ctx = if reuse { shared.take().unwrap_or_else(|| new_context(l)) } else { new_context(l) };
        if let Some(bits) = opt {
            ctx.set_optimizer_options(OptimizerOptions::from_bits_truncate(bits));
        }
        boa_engine::verif::set_inline_caches(ic_on);
        boa_engine::verif::set_prototype_entries(ic_proto);
        boa_engine::verif::record_ic_events(ic_rec);
        let _ = boa_engine::verif::take_ic_events();
        boa_ast::scope::verif::set_conservative(cons);
        let src = body;
        let mut cell = Some(ctx);
        let t = guarded(std::panic::AssertUnwindSafe(|| {
            let c = cell.as_mut().unwrap();
            eval_in(c, &src)
        }));
        if reuse && !t.completion.starts_with("panic") { shared = cell.take(); }
        let mut j = t.to_json();
        j["id"] = serde_json::Value::String(id);
        if ic_rec {
            j["ic"] = serde_json::json!(boa_engine::verif::take_ic_events());
        }
        boa_ast::scope::verif::set_conservative(0);
        boa_engine::verif::set_inline_caches(true);
        boa_engine::verif::set_prototype_entries(true);
        boa_engine::verif::record_ic_events(false);
        println!("{j}");
    }
}
