//! C02 runner for the integer fast paths: for each request `op <name> <x> <y>` (i32 operands) computes the result
//! three ways — the public `JsValue` operator methods, the VM on `function (a, b) { return a OP b; }` called with
//! Integer32 arguments (the `*_fast` paths of the opcode handlers), and the VM on a local variable update for
//! inc/dec — and prints `api=<r> vm=<r>`; r is `int v`, `num v` (integer-valued double), `negzero`, `nan`, `inf`,
//! `-inf`, `f <bits>` or `panic <message>` / `err <class>`.
use boa_engine::{Context, JsValue, Source};
use std::io::BufRead;

fn render(v: &JsValue) -> String {
    if let Some(i) = v.as_i32() { return format!("int {i}"); }
    if let Some(f) = v.as_number() {
        if f.is_nan() { return "nan".into(); }
        if f == f64::INFINITY { return "inf".into(); }
        if f == f64::NEG_INFINITY { return "-inf".into(); }
        if f == 0.0 && f.is_sign_negative() { return "negzero".into(); }
        if f.fract() == 0.0 && f.abs() < 1e300 { return format!("num {f:.0}"); }
        return format!("f {:016x}", f.to_bits());
    }
    "other".into()
}

fn guarded<F: FnOnce() -> String + std::panic::UnwindSafe>(f: F) -> String {
    match std::panic::catch_unwind(f) {
        Ok(s) => s,
        Err(p) => {
            let msg = if let Some(s) = p.downcast_ref::<&str>() { s.to_string() } else if let Some(s) = p.downcast_ref::<String>() { s.clone() } else { "?".into() };
            format!("panic {msg}")
        }
    }
}

fn main() {
    let mut ctx = bvh::new_context(bvh::Limits { instructions: usize::MAX / 2, ..Default::default() });
    let ops = [("add", "+"), ("sub", "-"), ("mul", "*"), ("div", "/"), ("rem", "%"), ("pow", "**"), ("band", "&"), ("bor", "|"), ("bxor", "^"),
               ("shl", "<<"), ("shr", ">>"), ("ushr", ">>>")];
    let mut src = String::new();
    for (n, o) in ops { src.push_str(&format!("function f_{n}(a, b) {{ return a {o} b; }}\n")); }
    src.push_str("function f_neg(a, b) { return -a; }\nfunction f_inc(a, b) { let x = a; x++; return x; }\nfunction f_dec(a, b) { let x = a; x--; return x; }\n");
    src.push_str("function g_inc(a, b) { var o = {v: a}; return ++o.v; }\nfunction g_dec(a, b) { var o = {v: a}; return --o.v; }\n");
    ctx.eval(Source::from_bytes(src.as_bytes())).expect("prelude");
    bvh::quiet_panics();
    let stdin = std::io::stdin();
    for line in stdin.lock().lines() {
        let line = line.unwrap();
        let t: Vec<&str> = line.split_whitespace().collect();
        if t.len() != 4 || t[0] != "op" { println!("bad-op"); continue; }
        let (name, x, y) = (t[1], t[2].parse::<i32>(), t[3].parse::<i32>());
        let (Ok(x), Ok(y)) = (x, y) else { println!("bad-op"); continue; };
        let (a, b) = (JsValue::new(x), JsValue::new(y));
        let api = {
            let (a, b) = (a.clone(), b.clone());
            let c = std::panic::AssertUnwindSafe(&mut ctx);
            guarded(move || {
                let c = c;
                let ctx: &mut Context = c.0;
                let r = match name {
                    "add" => a.add(&b, ctx), "sub" => a.sub(&b, ctx), "mul" => a.mul(&b, ctx), "div" => a.div(&b, ctx), "rem" => a.rem(&b, ctx),
                    "pow" => a.pow(&b, ctx), "band" => a.bitand(&b, ctx), "bor" => a.bitor(&b, ctx), "bxor" => a.bitxor(&b, ctx),
                    "shl" => a.shl(&b, ctx), "shr" => a.shr(&b, ctx), "ushr" => a.ushr(&b, ctx), "neg" => a.neg(ctx),
                    _ => return "-".into(),
                };
                match r { Ok(v) => render(&v), Err(e) => format!("err {}", bvh::render_error(&e, ctx)) }
            })
        };
        let vm = {
            let (a, b) = (a.clone(), b.clone());
            let fname = format!("f_{name}");
            let c = std::panic::AssertUnwindSafe(&mut ctx);
            guarded(move || {
                let c = c;
                let ctx: &mut Context = c.0;
                let f = ctx.global_object().get(boa_engine::JsString::from(fname.as_str()), ctx).expect("fn");
                let Some(f) = f.as_callable() else { return "-".into(); };
                match f.call(&JsValue::undefined(), &[a, b], ctx) { Ok(v) => render(&v), Err(e) => format!("err {}", bvh::render_error(&e, ctx)) }
            })
        };
        let vm2 = if name == "inc" || name == "dec" {
            let a = a.clone();
            let fname = format!("g_{name}");
            let c = std::panic::AssertUnwindSafe(&mut ctx);
            guarded(move || {
                let c = c;
                let ctx: &mut Context = c.0;
                let f = ctx.global_object().get(boa_engine::JsString::from(fname.as_str()), ctx).expect("fn");
                let Some(f) = f.as_callable() else { return "-".into(); };
                match f.call(&JsValue::undefined(), &[a], ctx) { Ok(v) => render(&v), Err(e) => format!("err {}", bvh::render_error(&e, ctx)) }
            })
        } else { "-".into() };
        println!("api={api}|vm={vm}|vm2={vm2}");
    }
}
