//! C20 runner: several contexts, several realms per context, in one process.
//! Input (stdin): scripts separated by header lines `//// <id> ctx=<n> realm=<m> [drop=1] [budget=<n>]`.
//! A context / realm is created the first time its number is used; `drop=1` drops the context after the script.
//! Host functions (every realm): print, `__share(name, value)` / `__shared(name)` (values handed between the realms of
//! ONE context). Argument `--pad <n>`: allocate and leak n bytes in odd-sized pieces first (moves every later address).
//! Output: one JSON line per script.
use boa_engine::{Context, JsResult, JsValue, NativeFunction, js_string, realm::Realm};
use bvh::{Limits, eval_in, guarded, new_context, register_natives};
use std::cell::RefCell;
use std::collections::HashMap;
use std::io::Read;

thread_local! {
    static SHARED: RefCell<HashMap<String, JsValue>> = RefCell::new(HashMap::new());
    static CUR: RefCell<String> = const { RefCell::new(String::new()) };
}

fn share(_t: &JsValue, args: &[JsValue], ctx: &mut Context) -> JsResult<JsValue> {
    let name = args.first().cloned().unwrap_or_default().to_string(ctx)?.to_std_string_escaped();
    let key = format!("{}/{}", CUR.with(|c| c.borrow().clone()), name);
    SHARED.with(|s| s.borrow_mut().insert(key, args.get(1).cloned().unwrap_or_default()));
    Ok(JsValue::undefined())
}
fn shared(_t: &JsValue, args: &[JsValue], ctx: &mut Context) -> JsResult<JsValue> {
    let name = args.first().cloned().unwrap_or_default().to_string(ctx)?.to_std_string_escaped();
    let key = format!("{}/{}", CUR.with(|c| c.borrow().clone()), name);
    Ok(SHARED.with(|s| s.borrow().get(&key).cloned()).unwrap_or_default())
}
fn natives(ctx: &mut Context) {
    register_natives(ctx);
    ctx.register_global_builtin_callable(js_string!("__share"), 2, NativeFunction::from_fn_ptr(share)).expect("share");
    ctx.register_global_builtin_callable(js_string!("__shared"), 1, NativeFunction::from_fn_ptr(shared)).expect("shared");
}

struct Slot { ctx: Context, realms: HashMap<u32, Realm> }

fn main() {
    bvh::quiet_panics();
    let args: Vec<String> = std::env::args().collect();
    if let Some(i) = args.iter().position(|a| a == "--pad") {
        let n: usize = args.get(i + 1).and_then(|v| v.parse().ok()).unwrap_or(0);
        let mut left = n;
        let mut k = 17usize;
        while left > 0 {
            let sz = (k % 4093 + 1).min(left);
            std::mem::forget(vec![0u8; sz]);
            left -= sz;
            k = k.wrapping_mul(31).wrapping_add(7);
        }
    }
    let mut input = String::new();
    std::io::stdin().read_to_string(&mut input).unwrap();
    let mut cases: Vec<(String, String)> = Vec::new();
    for line in input.lines() {
        if let Some(h) = line.strip_prefix("//// ") { cases.push((h.to_string(), String::new())); }
        else if let Some(c) = cases.last_mut() { c.1.push_str(line); c.1.push('\n'); }
    }
    let mut slots: HashMap<u32, Slot> = HashMap::new();
    for (header, body) in cases {
        let mut it = header.split_whitespace();
        let id = it.next().unwrap_or("?").to_string();
        let (mut c, mut r, mut drop_after) = (0u32, 0u32, false);
        let mut l = Limits::default();
        l.loop_iter = Some(100_000);
        for kv in it {
            if let Some((k, v)) = kv.split_once('=') {
                match k {
                    "ctx" => c = v.parse().unwrap_or(0),
                    "realm" => r = v.parse().unwrap_or(0),
                    "drop" => drop_after = v == "1",
                    "budget" => l.instructions = v.parse().unwrap_or(l.instructions),
                    _ => {}
                }
            }
        }
        let slot = slots.entry(c).or_insert_with(|| {
            let mut ctx = new_context(l);
            CUR.with(|x| *x.borrow_mut() = format!("c{c}"));
            natives(&mut ctx);
            Slot { ctx, realms: HashMap::new() }
        });
        CUR.with(|x| *x.borrow_mut() = format!("c{c}"));
        if r != 0 && !slot.realms.contains_key(&r) {
            let realm = slot.ctx.create_realm().expect("realm");
            let old = slot.ctx.enter_realm(realm.clone());
            natives(&mut slot.ctx);
            slot.ctx.enter_realm(old);
            slot.realms.insert(r, realm);
        }
        let src = body.into_bytes();
        let t = guarded(std::panic::AssertUnwindSafe(|| {
            if r == 0 {
                eval_in(&mut slot.ctx, &src)
            } else {
                let realm = slot.realms.get(&r).unwrap().clone();
                let old = slot.ctx.enter_realm(realm);
                let t = eval_in(&mut slot.ctx, &src);
                slot.ctx.enter_realm(old);
                t
            }
        }));
        let mut j = t.to_json();
        j["id"] = serde_json::Value::String(id);
        println!("{j}");
        if drop_after || j["completion"].as_str().is_some_and(|s| s.starts_with("panic")) {
            SHARED.with(|s| s.borrow_mut().retain(|k, _| !k.starts_with(&format!("c{c}/"))));
            slots.remove(&c);
        }
    }
    SHARED.with(|s| s.borrow_mut().clear());
}
