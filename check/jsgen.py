"""Shared generator of closed, deterministic, terminating JavaScript programs (used by C01, C02, C03, C04, C08, C10,
C19, C20). Every random choice comes from the splitmix64 stream passed in. Programs report through print().
Loops are bounded by construction (counters), recursion by an explicit depth argument."""


class JsGen:
    def __init__(self, r, max_depth=4, features=None):
        self.r = r
        self.max_depth = max_depth
        self.uid = 0
        self.features = features or {}
        self.fn_depth = 0
        self.in_gen = False
        self.in_async = False
        self.loop_depth = 0
        self.labels = []
        self.scope = [["g0", "g1", "g2"]]     # variable names visible (all initialised before use)
        self.funcs = []                        # callable names: (name, arity)
        self.in_function = False
        self.try_depth = 0

    # ---------------------------------------------------------------- helpers
    def pick(self, xs):
        return xs[self.r() % len(xs)]

    def chance(self, num, den):
        return self.r() % den < num

    def fresh(self, p="v"):
        self.uid += 1
        return "%s%d" % (p, self.uid)

    def var(self):
        names = [n for s in self.scope for n in s]
        return self.pick(names)

    # ------------------------------------------------------------ expressions
    def lit(self):
        k = self.r() % 14
        if k < 5:
            return str(self.pick([0, 1, 2, 3, 7, 10, 255, 256, 65535, 2147483647, -1, -2147483648, 4294967295, 1e21, 0.5, -0.0, 1.5]))
        if k < 7:
            return self.pick(['"a"', '"b"', '""', '"10"', "'x y'", '"\\n"', '"\\u00e9"'])
        if k < 8:
            return self.pick(["true", "false"])
        if k < 9:
            return self.pick(["null", "undefined", "NaN", "Infinity"])
        if k < 10:
            return self.pick(["10n", "0n", "-3n"])
        if k < 11:
            return "[%s]" % ", ".join(self.expr(1) for _ in range(self.r() % 3))
        if k < 12:
            return "({%s})" % ", ".join("%s: %s" % (self.pick(["a", "b", "c"]), self.expr(1)) for _ in range(self.r() % 3))
        if k < 13:
            return "`t${%s}u`" % self.expr(1)
        return self.pick(["/a+/g", "[]", "({})"])

    def expr(self, d):
        r = self.r
        if d <= 0 or r() % 6 == 0:
            return self.var() if r() % 2 else self.lit()
        k = r() % 100
        if k < 22:
            op = self.pick(["+", "-", "*", "/", "%", "**", "<<", ">>", ">>>", "&", "|", "^", "<", "<=", ">", ">=", "==", "!=", "===", "!==", "in", "instanceof"])
            a, b = self.expr(d - 1), self.expr(d - 1)
            if op == "in":
                b = "({a: 1, b: 2})"
            if op == "instanceof":
                b = self.pick(["Object", "Array", "Function"])
            if op == "**":
                a = "(%s)" % a
            return "(%s %s %s)" % (a, op, b)
        if k < 30:
            return "(%s %s %s)" % (self.expr(d - 1), self.pick(["&&", "||", "??"]), self.expr(d - 1))
        if k < 36:
            return "(%s ? %s : %s)" % (self.expr(d - 1), self.expr(d - 1), self.expr(d - 1))
        if k < 44:
            v = self.var()
            op = self.pick(["=", "+=", "-=", "*=", "??=", "||=", "&&=", "|=", "<<="])
            return "(%s %s %s)" % (v, op, self.expr(d - 1))
        if k < 48:
            v = self.var()
            return self.pick(["(%s++)", "(++%s)", "(%s--)", "(--%s)"]) % v
        if k < 54:
            if r() % 4 == 0:
                # sign chains and signs in front of updates, written with the spaces that keep the tokens apart
                v = self.var()
                return "(%s)" % self.pick(["- -%s", "+ +%s", "- +%s", "- --%s", "+ ++%s", "- - -%s", "%s - -%s" % (v, "%s"), "%s + +%s" % (v, "%s")]) % v
            return "(%s%s)" % (self.pick(["!", "-", "+", "~", "typeof ", "void "]), self.expr(d - 1))
        if k < 62 and self.funcs:
            name, ar = self.pick(self.funcs)
            args = [self.expr(d - 1) for _ in range(max(0, ar + (r() % 3) - 1))]
            if r() % 6 == 0:
                args.append("...[%s]" % self.expr(d - 1))
            return "%s(%s)" % (name, ", ".join(args))
        if k < 68:
            return "(%s, %s)" % (self.expr(d - 1), self.expr(d - 1))
        if k < 74:
            o = self.expr(d - 1)
            return self.pick(["(%s).a", "(%s)['b']", "(%s)?.a", "(%s)?.[0]", "(%s).length", "(%s)?.a?.b"]) % o
        if k < 78:
            return "((%s) => %s)(%s)" % (self.fresh("p"), self.expr(d - 1) if False else self.var(), self.expr(d - 1))
        if k < 82:
            p = self.fresh("p")
            self.scope.append([p])
            body = self.expr(d - 1)
            self.scope.pop()
            return "(function(%s) { return %s; })(%s)" % (p, body, self.expr(d - 1))
        if k < 85:
            return "[%s, ...[%s]].length" % (self.expr(d - 1), self.expr(d - 1))
        if k < 88:
            return "String(%s)" % self.expr(d - 1)
        if k < 90 and self.in_gen:
            return "(yield %s)" % self.expr(d - 1)
        if k < 92 and self.in_async:
            return "(await %s)" % self.expr(d - 1)
        if k < 94:
            return "new (function() { this.a = %s; })().a" % self.expr(d - 1)
        if k < 96:
            return "({...(%s), z: 1}).z" % self.lit()
        if k < 98:
            return "[%s].map(function(x) { return x; })[0]" % self.expr(d - 1)
        return self.lit()

    # -------------------------------------------------------------- statements
    def block(self, d, extra=None):
        self.scope.append(list(extra or []))
        n = 1 + self.r() % 3
        body = " ".join(self.stmt(d) for _ in range(n))
        self.scope.pop()
        return "{ %s }" % body

    def decl(self, d):
        kind = self.pick(["var", "let", "const", "let"])
        if self.r() % 5 == 0:
            a, b = self.fresh(), self.fresh()
            pat = self.pick(["[%s, %s = 5]" % (a, b), "{a: %s, b: %s = %s}" % (a, b, self.lit()), "[%s, ...%s]" % (a, b), "{a: %s, ...%s}" % (a, b)])
            src = self.pick(["[1, 2, 3]", "({a: 1, b: 2, c: 3})", "[%s]" % self.expr(d - 1), "({a: %s})" % self.expr(d - 1)])
            if pat.startswith("[") and not src.startswith("["):
                src = "[1, 2]"
            if pat.startswith("{") and src.startswith("["):
                src = "({a: 4})"
            s = "%s %s = %s;" % (kind, pat, src)
            self.scope[-1] += [a, b]
            return s
        n = self.fresh()
        s = "%s %s = %s;" % (kind, n, self.expr(d - 1))
        if kind != "const":
            self.scope[-1].append(n)
        else:
            self.scope[-1].append(n) if False else None
        return s

    def func(self, d):
        name = self.fresh("f")
        ar = self.r() % 3
        params = [self.fresh("p") for _ in range(ar)]
        plist = list(params)
        if ar and self.r() % 3 == 0:
            plist[-1] = "%s = %s" % (params[-1], self.lit())
        if self.r() % 5 == 0:
            rp = self.fresh("rest")
            plist.append("..." + rp)
            params.append(rp)
        kind = self.r() % 10
        save = (self.in_gen, self.in_async, self.loop_depth, self.labels, self.in_function)
        self.in_gen = kind == 7
        self.in_async = kind == 8
        self.loop_depth, self.labels, self.in_function = 0, [], True
        self.fn_depth += 1
        body = self.block(d - 1, params)
        ret = " return %s;" % self.var() if self.r() % 2 else ""
        self.fn_depth -= 1
        self.in_gen, self.in_async, self.loop_depth, self.labels, self.in_function = save
        body = body[:-1] + ret + " }"
        if kind == 7:
            text = "function* %s(%s) %s" % (name, ", ".join(plist), body)
            use = "print('%s', [...%s(%s)].length);" % (name, name, ", ".join(self.lit() for _ in range(ar)))
            return text + " " + use
        if kind == 8:
            text = "async function %s(%s) %s" % (name, ", ".join(plist), body)
            use = "%s(%s).then(function(v) { print('%s', typeof v); }, function(e) { print('%s rejected'); });" % (name, ", ".join(self.lit() for _ in range(ar)), name, name)
            return text + " " + use
        text = "function %s(%s) %s" % (name, ", ".join(plist), body)
        self.funcs.append((name, ar))
        return text

    def klass(self, d):
        name = self.fresh("K")
        base = ""
        has_base = self.r() % 3 == 0
        if has_base:
            base = " extends " + self.pick(["Object", "Array", "(class { m() { return 1; } })"])
        members = []
        if self.r() % 2:
            members.append("constructor(a) { %s this.a = a; }" % ("super();" if has_base else ""))
        members.append("m(x) { return %s; }" % self.expr(1))
        if self.r() % 2:
            members.append("get g() { return this.a; } set g(v) { this.a = v; }")
        if self.r() % 2:
            members.append("static s = %s;" % self.lit())
        if self.r() % 2:
            members.append("f = %s;" % self.lit())
        if self.r() % 3 == 0:
            members.append("#p = 1; q() { return this.#p; }")
        if self.r() % 4 == 0:
            members.append("static { print('static block'); }")
        return "class %s%s { %s } print('%s', typeof new %s(1).m);" % (name, base, " ".join(members), name, name)

    def stmt(self, d):
        r = self.r
        if d <= 0:
            return "print(%s);" % self.expr(1) if r() % 2 else "%s;" % self.expr(2)
        k = r() % 100
        if k < 14:
            return "print(%s);" % self.expr(2)
        if k < 26:
            return self.decl(d)
        if k < 32:
            return "%s;" % self.expr(3)
        if k < 40:
            s = "if (%s) %s" % (self.expr(2), self.block(d - 1))
            if r() % 2:
                s += " else %s" % self.block(d - 1)
            return s
        if k < 52:
            return self.loop(d)
        if k < 60:
            return self.tryst(d)
        if k < 66 and self.fn_depth < 2:
            return self.func(d)
        if k < 70:
            cases = []
            for _ in range(1 + r() % 3):
                cases.append("case %s: %s %s" % (self.lit(), self.stmt(d - 1), "break;" if r() % 2 else ""))
            if r() % 2:
                # anywhere among the cases: clause order matters with fall-through
                cases.insert(r() % (len(cases) + 1), "default: %s %s" % (self.stmt(d - 1), "break;" if r() % 2 else ""))
            return "switch (%s) { %s }" % (self.expr(1), " ".join(cases))
        if k < 74 and self.loop_depth > 0:
            if self.labels and r() % 2:
                return "%s %s;" % (self.pick(["break", "continue"]), self.pick(self.labels))
            return self.pick(["break;", "continue;"])
        if k < 77 and self.in_function:
            return "return %s;" % self.expr(2)
        if k < 80:
            # a throw at the top level would leave the rest of the program unreachable
            can_throw = self.try_depth > 0 or self.in_function
            return "throw %s;" % self.expr(1) if (can_throw and self.chance(1, 3)) else "print(typeof %s);" % self.var()
        if k < 84 and self.fn_depth < 2:
            return self.klass(d)
        if k < 87:
            return self.block(d - 1)
        if k < 89 and not self.features.get("strict"):
            return "with ({w1: 1, %s: 2}) { print(w1); }" % self.var()
        if k < 91:
            return "print(eval(%r));" % ("1 + " + self.lit().replace("'", "\""))
        if k < 93:
            # a block whose binding is captured by a closure: it needs a real environment, which every way out of the
            # block (return, break, continue, throw, fall-through) has to pop
            n = self.fresh("c")
            self.scope.append([n])
            inner = self.stmt(d - 1)
            self.scope.pop()
            return "{ let %s = %s; (() => %s)(); %s }" % (n, self.expr(1), n, inner)
        if k < 95:
            a = self.var()
            return "[%s, %s] = [%s, %s];" % (a, a, self.expr(1), self.expr(1))
        if k < 97:
            return "print(`${%s} ${%s}`);" % (self.expr(1), self.expr(1))
        return ";"

    def loop(self, d):
        r = self.r
        c = self.fresh("i")
        label = ""
        lab = None
        if r() % 4 == 0:
            lab = self.fresh("L")
            label = lab + ": "
        self.loop_depth += 1
        if lab:
            self.labels.append(lab)
        k = r() % 7
        n = 1 + r() % 3
        if k == 0:
            s = "%sfor (let %s = 0; %s < %d; %s++) %s" % (label, c, c, n, c, self.block(d - 1, [c]))
        elif k == 1:
            s = "var %s = 0; %swhile (%s < %d) { %s++; %s }" % (c, label, c, n, c, self.stmt(d - 1))
        elif k == 2:
            s = "var %s = 0; %sdo { %s++; %s } while (%s < %d);" % (c, label, c, self.stmt(d - 1), c, n)
        elif k == 3:
            s = "%sfor (var %s in {a: 1, b: 2}) %s" % (label, c, self.block(d - 1, [c]))
        elif k == 4:
            s = "%sfor (const %s of [1, 2, 3]) %s" % (label, c, self.block(d - 1))
        elif k == 5:
            s = "%sfor (let [%s] of [[1], [2]]) %s" % (label, c, self.block(d - 1, [c]))
        else:
            if self.in_async:
                s = "%sfor await (const %s of [1, 2]) %s" % (label, c, self.block(d - 1))
            else:
                s = "%sfor (var %s = 0, %s2 = 5; %s < %d; %s++, %s2--) %s" % (label, c, c, c, n, c, c, self.block(d - 1, [c]))
        self.loop_depth -= 1
        if lab:
            self.labels.pop()
        return s

    def tryst(self, d):
        r = self.r
        self.try_depth += 1
        s = "try %s" % self.block(d - 1)
        self.try_depth -= 1
        k = r() % 3
        if k != 1:
            e = self.fresh("e")
            pat = e if r() % 4 else "{message: %s}" % e
            s += " catch (%s) %s" % (pat, self.block(d - 1, [e])) if r() % 5 else " catch %s" % self.block(d - 1)
        if k != 0:
            s += " finally %s" % self.block(d - 1)
        return s

    def program(self, n_stmts=None):
        n = n_stmts or (3 + self.r() % 6)
        head = "var g0 = 1, g1 = 'a', g2 = {a: 1, b: [1, 2]};\n"
        if self.features.get("strict"):
            head = "'use strict';\n" + head
        return head + "\n".join(self.stmt(self.max_depth) for _ in range(n))


def gen_program(r, depth=4, strict=False):
    return JsGen(r, depth, {"strict": strict}).program()
