#!/usr/bin/env python3
"""python3 check/run.py CXX --tier quick|thorough [--replay file]
exit 0: property held on everything explored; exit 1: VIOLATION line printed;
exit 2: infrastructure failure (no VIOLATION line)."""
import argparse
import importlib
import os
import sys
import traceback

sys.path.insert(0, os.path.dirname(os.path.abspath(__file__)))
import lib  # noqa: E402


def main():
    ap = argparse.ArgumentParser()
    ap.add_argument("pid")
    ap.add_argument("--tier", default=os.environ.get("VERIF_TIER", "quick"), choices=["quick", "thorough"])
    ap.add_argument("--replay")
    a = ap.parse_args()
    seed = int(os.environ.get("VERIF_SEED", "1") or "1")
    os.chdir(lib.ROOT)
    mod = importlib.import_module("props." + a.pid.lower())
    ck = lib.Check(a.pid, a.tier, seed, replay=a.replay)
    try:
        mod.run(ck)
        ck.finish()
    except lib.Infra as e:
        print("INFRA-FAILURE property=%s: %s" % (a.pid, e), file=sys.stderr)
        sys.exit(2)
    except SystemExit:
        raise
    except Exception:
        traceback.print_exc()
        print("INFRA-FAILURE property=%s: unexpected exception in the check" % a.pid, file=sys.stderr)
        sys.exit(2)


if __name__ == "__main__":
    main()
