"""Single source for MANIFEST.json: python3 check/registry.py writes it."""
import json
import os

ROOT = os.path.dirname(os.path.dirname(os.path.abspath(__file__)))
BASELINE = ("cd /repo && cargo nextest run --workspace --no-fail-fast --tool-config-file pb:/w/lib/nextest.toml "
            "--profile pb --test-threads 8 --offline")

COMMON_NOTE = ("Trusted: Lean 4.33.0 kernel; axioms per theorem as printed by #print axioms (captured in the evidence; "
               "allowed: propext, Classical.choice, Quot.sound unless stated); the Lean compiler for the driver; rustc/cargo; "
               "the harness/generators/canonicalisers in /verif; the theorem is about the hand-written Lean model, tied to "
               "/repo's current source by the correspondence run named in the technique field. ")

# property id -> dict(level, text, technique, note, design_ref)
CLAIMED = {
    "C01": dict(
        level="proof",
        text="A Lean reference interpreter for a core fragment written from ECMA-262's own notions: completion records with completion values "
             "and UpdateEmpty, environments as mutable scope records (var hoisting, let/const with the temporal dead zone, per-iteration copies "
             "of for-let bindings, closures over the chain), function-declaration hoisting, labels, break/continue, return, throw, "
             "try/catch/finally, integer/boolean/string values with NaN from undefined. Theorems about it (the laws the engine is compared "
             "against): updateEmpty_value / updateEmpty_idem / updateEmpty_kind, execL_abrupt (nothing after an abrupt statement runs), "
             "execL_normal, finally_overrides (an abruptly completing finally block overrides any earlier completion), finally_transparent. "
             "The interpreter is the executable spec: on generated programs of the fragment the engine's printed trace AND its completion "
             "(value, or class of the uncaught error) must equal the model's. A second model, C01.Coerce, covers operators and coercions over primitives and objects whose "
             "valueOf / toString are absent, return a primitive, return an object or throw, recording the ORDER of those calls: ToPrimitive / "
             "OrdinaryToPrimitive with its three hints, ToNumber, ToString, + - * < > <= >= == != === !==, unary - + !, typeof, template literals, "
             "String(), Number(); theorems toPrimitive_prim, toPrimitive_string_first, toPrimitive_valueOf_first, toPrimitive_typeError, "
             "binary_prims_silent, binary_left_failure_stops (left operand first: nothing of the right operand runs after the left conversion "
             "fails), arith_result_numeric; 1500 (thorough 60000) generated operator cases must give the model's value, type, error and call "
             "order on the engine. The clauses about the origin of the text and the way the engine is entered are differentials on richer "
             "programs (script / function call / indirect eval / new Function).",
        technique="Lean 4 reference interpreter (completion records, environments) with proved completion laws + a second Lean model of operators and coercions (ToPrimitive order, IsLessThan, IsLooselyEqual) with proved laws + model-predicted vs real trace and completion on generated programs and operator cases + entry-route differentials",
        note="PARTIAL: property access, generators, destructuring and classes are outside both Lean models (covered only by the route differentials and a list of hand-derived expectations, which are tests).",
    ),
    "C04": dict(
        level="proof",
        text="Lean model of the two storage disciplines for the variables of an activation: the reference machine keeps every variable in "
             "the environment that callees and closures share, the optimised machine keeps the variables the scope analysis calls local in "
             "registers nothing outside the activation can reach; code outside the activation is an arbitrary transformer of the shared "
             "environment. Theorems: exec_sim / placement_unobservable (for EVERY program of the model's language, every placement and every "
             "behaviour of outside code that neither reads nor writes a register-resident variable, both machines print the same trace and "
             "stay related), const_cache_valid (a register copy of a binding nothing assigns to equals every later read), tableOut_respects / "
             "table_programs_agree (the concrete outside functions of the correspondence run meet the hypothesis), and an example that the "
             "hypothesis is needed (a callee reading a register-resident variable sees a stale value). Tie: toy programs are rendered to "
             "JavaScript and run on the engine in the default and in the conservative configuration (hook: every binding in an environment, "
             "no constant cache, no hoisting, no fused branches); both must print the model's trace, and the engine's compiled code must not "
             "keep in a register a variable the model's condition forbids. The property itself — trace(default) = trace(S conservative) for "
             "subsets S — is decided on fixed shapes and on a generator biased to captures in loop heads and default parameters, eval, with, "
             "generators, temporal dead zones, operands that write the variable read next to them, relational loop heads with constant, "
             "mutated and coercing bounds.",
        technique="Lean 4 simulation proof (register placement vs environment placement, constant cache) + model-vs-engine correspondence on translated toy programs incl. placement inclusion read from compiled code + default-vs-conservative configuration differential (hook)",
        note="PARTIAL: the model's language has integers, assignment, branches, bounded loops and opaque outside calls; closures proper, eval, with, "
             "generators and the temporal dead zone are decided by the configuration differential only.",
    ),
    "C20": dict(
        level="proof",
        text="Three models. (1) [[OwnPropertyKeys]] over a storage whose iteration order is arbitrary: theorems sortNat_storage_independent, "
             "ownKeys_eq_spec (the model's order IS ECMA-262's: ascending array indices, then strings, then symbols in creation order) "
             "and ownKeys_storage_independent — for EVERY sequence of property definitions and deletions and ANY two admissible storages (two "
             "hash seeds, two allocation histories, dense or sparse) the reported key order is the same, i.e. a function of the history "
             "alone; the engine's Reflect.ownKeys (and eight derived enumerations) must equal the model's specification order on generated "
             "histories that cross every index-storage variant. (2) A world of realm states: runIn_other, runIn_trace_local, history_other, "
             "isolation (whatever scripts ran in other realms, a script prints what it prints in an untouched world) — tied by running "
             "multi-realm / multi-context slot scripts on the engine and on the model. (3) The inventory of `static` / `thread_local!` items "
             "of core/*/src, REGENERATED from the source on every run, with theorem statics_all_classified (no shared item without a "
             "recorded reason why it is not script-visible mutable state). The property itself is decided by the differential: the same "
             "program after hostile histories (every reachable intrinsic deleted / overwritten / turned into throwing accessors, shape and "
             "symbol churn, pending jobs) in other contexts and in sibling realms, in another process with a padded heap and reversed "
             "evaluation order, must print byte-identical traces; objects handed across realms keep their own realm's intrinsics.",
        technique="Lean 4 proofs (key order independent of storage order; realm frame/isolation theorems; regenerated shared-state inventory with a classification theorem) + model-vs-engine correspondence on key histories and realm-slot scripts + repeated-run differentials under hostile histories, padded heaps and separate processes",
        note="PARTIAL: the reasons in the statics classification are human judgement (the theorem checks completeness only); address and hash-seed "
             "variation is what the OS / allocator / std give across processes and --pad, not an exhaustive exploration.",
    ),
    "C02": dict(
        level="proof",
        text="PROVED core: a Lean model of the Integer32 fast paths of + - * / % ** & | ^ << >> >>> unary minus ++ -- (value/operations.rs and "
             "its `*_fast` twins, the Inc/Dec opcode handlers) in which Rust's own failure modes — arithmetic overflow, zero divisor, "
             "MIN / -1, MIN % -1 — are explicit outcomes. Theorems for ALL operands in the i32 range: fast_paths_never_panic, "
             "int_results_in_range (no silent wrap), add/sub/mul/div/rem/neg_exact (an integer result is the mathematical one and never a "
             "case where JavaScript requires -0), mul_tdiv_inRange (the product the division path computes cannot overflow), and "
             "remOld_panics (the remainder as written before the repair fails on (MIN, -1)). Tie: model and engine — the public JsValue "
             "operators and the VM's opcode handlers — run on every pair of a 42x42 grid of edge values plus random pairs and must agree on "
             "value and representation. EXPLORED rest (not a proof): byte strings, token-level mutations, token soup, generated programs, a "
             "lexer-edge corpus (numeric / regex / escape / template / identifier boundaries), cache-shape programs (every descriptor kind read, "
             "written, deleted and redefined through shared functions) and a sweep that calls every builtin function reachable from the global "
             "object with edge receivers and arguments — on fresh and reused contexts under catch_unwind with the documented limits; a panic, "
             "abort or EnginePanic is a failing input.",
        technique="Lean 4 proof that the integer fast paths cannot panic, wrap or lose -0 (model with explicit Rust failure modes) + model-vs-engine correspondence over an exhaustive edge grid and random operands; the remainder of the property (lexer, parser, compiler, other handlers, builtins) by catch_unwind exploration of raw, mutated and generated inputs",
        note="PARTIAL: only the integer operator core is proved; for everything else the check is exploration (fuzzing), which the brief does not "
             "accept as proof — it can find a failing input, it cannot show absence.",
    ),
    "C17": dict(
        level="proof",
        text="Lean model of Evaluate / InnerModuleEvaluation for modules without top-level await, as in ECMA-262 16.2.1.5.3: DFS and ancestor "
             "indices, the stack, cycle roots popping their strongly connected component, an error marking every module still on the stack. "
             "Theorems, for EVERY graph (cycles, self-imports, repeated requests, any number of throwing bodies) and every sequence of Evaluate "
             "calls: visit_grows / visit_once (invariants of the walk), bodies_run_once (no module body runs twice, ever), "
             "reevaluate_runs_nothing (evaluating a module that already has a status runs no body, changes no status and returns the recorded "
             "error if there is one), walked_has_status (so that applies to every module an earlier Evaluate reached), deps_walked_before_body (when a module's body runs, every module it requests has already been walked), "
             "deps_before_dependents / acyclic_dep_ran_earlier (DEPENDENCY ORDER of the final trace: if x's body ran, every module d it requests ran its body EARLIER in the trace unless x is reachable from d, i.e. unless the request lies on a cycle — proved by an invariant threaded through the whole walk that ties the evaluated / evaluating statuses to the trace, the spec's stack and the chain of calls in progress, see Order.lean), "
             "evaluated_ran (a module recorded as evaluated did run), fuel_suffices (the fuel the model's Evaluate passes is never what stops the walk, on any graph: a measure on unvisited modules). The model is the "
             "executable spec: on generated graphs served by a counting in-memory loader the engine's sequence of bodies and the outcome of "
             "every Evaluate must equal the model's; host loads and parses are counted (at most one per module); imported bindings are "
             "checked to be live.",
        technique="Lean 4 invariant proofs over a model of InnerModuleEvaluation (once-only, idempotent re-evaluation, dependency order of the trace for all graphs, fuel sufficiency) + model-predicted vs real evaluation order and outcomes on generated module graphs",
        note="top-level await and throwing async modules are covered by a second, executable Lean model (C17/Async.lean: pending counts, async parents, cycle roots, GatherAvailableAncestors, AsyncModuleExecutionRejected over the host's job queue) whose exact trace and Evaluate outcomes are compared with the engine on generated graphs, by the dependency-order and error-propagation oracles on the same graphs, and by hand-derived scenarios; its theorems (AsyncTheorems.lean) cover the host-facing contract only. Dynamic import and synthetic/JSON modules are outside both models; 'an error rejects exactly its dependents' is carried by the model's statuses and compared, not stated as a theorem.",
    ),
    "C10": dict(
        level="proof",
        text="Lean theorems over the C09 model of boa_gc's collector, as corollaries of its safety/completeness: gc_unobservable (from any handle "
             "the script holds, every chain of field reads yields the same object identities after a collection as before: same fields, same "
             "liveness, at every depth), cleared_only_if_unreachable (an object freed by a collection was unreachable from every handle: a WeakRef "
             "can only lose an unreachable target), freed_once (finalizer/drop counters of a freed object never move again), "
             "drop_all_reclaims (with no handle left one collection frees every object, cycles included). The model's tie to boa_gc is C09's "
             "correspondence. The property's own differential runs on the engine: every program without and with a collection before every "
             "allocation (hook) must print the same trace; WeakRef/FinalizationRegistry programs; collector box counts return to their "
             "baseline after the context is dropped.",
        technique="Lean 4 corollaries of the collector model's safety/completeness theorems + engine differential under collect-before-every-allocation (hook) + leak accounting after context drop",
        note="Ephemeron-free fragment (as C09); the engine's tracing code (derive(Trace)) is exercised, not modelled. Needs boa_gc::verif hooks.",
    ),
    "C19": dict(
        level="proof",
        text="PARTIAL. Two Lean models. (1) The data-carrying part of the printer/parser pair: lex_unit / string_print_lex (for EVERY string "
             "value - quotes, backslashes, line terminators, control characters, U+2028/9, lone surrogates anywhere - lexing the literal the "
             "printer writes gives the value back and stops after the closing quote), escUnit_one_line (the printed literal never contains a raw "
             "line terminator or control character); tied to the printer by correspondence on generated string values. (2) The structural core: "
             "a precedence grammar (numbers, unary minus, + - * /, parentheses) with EXPLICIT parenthesis nodes as in boa's AST, the printer that "
             "writes the nodes in order and the recursive-descent parser with one loop per precedence level. Theorems: good / parse_print (for "
             "every well-formed tree of any depth and width, parsing the printed tokens returns the tree), built / parse_wf (every tree the parser "
             "builds is well-formed: operands of an operator bind at least as tightly on the left and strictly tighter on the right), "
             "parse_print_parse (for EVERY accepted token sequence, print-then-parse is the identity from the first parse on). Tied to boa by "
             "correspondence: on generated and mutated token sequences boa's parser must accept exactly what the model accepts (inside the "
             "model's alphabet), build the same tree shape (dumped by the harness), and its print/re-parse must be a fixpoint. The rest of the "
             "grammar is explored on the engine itself, not proved: for a construct corpus, generated programs, token-level mutations and noise "
             "texts - the parser returns (no panic), an error position lies inside the text, the printed program parses again, parse-print is a "
             "fixpoint from the first printed form on (equal text and equal AST), the printed program evaluates to the same trace, and parsing "
             "interns only substrings of the text (hook).",
        technique="Lean 4 proofs: round trip of printed string literals; print/parse identity and idempotence for a precedence grammar with explicit parentheses (structural induction with fuel bounds) + correspondence of both models with boa's printer and parser (values, tree shapes, verdicts); engine-level exploration (parse/print/re-parse fixpoint, trace equality, error positions, interner contents) for the rest of the grammar",
        note="Outside the Lean models: statements, assignment/conditional/logical operators, templates, regular expressions, numeric literal forms, "
             "ASI; parser termination on arbitrary text is observed, not proved.",
    ),
    "C16": dict(
        level="proof",
        text="Lean state-machine model of ECMA-262 promise jobs: promise records with reaction lists, the resolving functions' alreadyResolved "
             "latch, PerformPromiseThen, NewPromiseReactionJob, NewPromiseResolveThenableJob (incl. self-resolution TypeError), PromiseResolve, "
             "Await with async-function segments, and the host's FIFO queue. Theorems: drain_add / drain_chunks / drain_idle / "
             "drain_split_complete (ANY way of splitting the host's job loop into run_jobs calls whose turns add up to at least the number "
             "needed ends in the same state: same trace, same promise states), enqueue_appends / stepQueue_takes_head (jobs are only ever "
             "appended and only the head runs: FIFO), settle_settled (a settled promise never changes and never schedules again), "
             "resolve_latched (resolving functions act once). The model is the executable spec: generated promise programs are rendered to "
             "JavaScript and the engine's trace must equal the model's, in 7 scheduling modes (drained once; a custom executor running 1/2/5 jobs "
             "per run_jobs call; evaluate_async_with_budget 1/7/100).",
        technique="Lean 4 proofs over a promise/job-queue state machine (scheduling independence, FIFO, settle-once) + model-predicted vs real traces of generated promise programs under 7 scheduling modes",
        note="exactly-once is proved per step (settle_schedules_each_once, performThen_pending, performThen_settled: a reaction is stored or scheduled, never both; settling schedules each stored one once, in order); its lift to whole runs is checked by the traces. Async generator BODIES are outside the Lean model; their request queue is modelled as the specification states it (agen_fifo: for every interleaving of AsyncGeneratorEnqueue and AsyncGeneratorCompleteStep the settled promises are a prefix of the requests) and generated request sequences are checked against that FIFO oracle (ECMA-262 27.6.3) and across scheduling modes; combinators and user thenables only scheduling-independence (engine-only).",
    ),
    "C18": dict(
        level="proof",
        text="Lean model of the JSON grammar over UTF-16 code units (white space, literals, the number grammar, strings with every escape, arrays, "
             "objects), of JSON.parse's value mapping (duplicate keys keep the first position and the last value, __proto__ is an ordinary key) "
             "and of JSON.stringify's serialisation (QuoteJSONString with well-formed escaping of unpaired surrogates). Theorems: parse_stringify "
             "(THE WHOLE-VALUE ROUND TRIP: for every value tree of any depth and width whose numbers are valid tokens, whose strings are "
             "arbitrary sequences of 16-bit code units and whose objects have distinct keys, parsing the serialised text returns the value; "
             "mutual structural induction over values, element lists and member lists: rtV / rtL / rtO, fuel bounds szV_le / szL_le / szO_le), "
             "parse_unit and string_roundtrip (for EVERY sequence of code units - quotes, backslashes, control characters, lone surrogates in "
             "any position - parsing the quoted form returns the sequence and stops after the closing quote), quoteUnit_no_control (the "
             "serialiser never emits a raw control character), hex_roundtrip, objSet_fresh. The completeness direction (every accepted text "
             "is grammatical) is not proved. The model is tied to the engine by correspondence on generated texts (valid renderings in two "
             "styles, single-unit mutations, fixed near-misses): same verdict and same value tree; same stringify text; engine-only "
             "parse(stringify(v)) = v.",
        technique="Lean 4 model of the JSON grammar/serialiser with a whole-value round-trip proof (mutual induction) + differential correspondence (verdict, value tree, serialised text) on generated and mutated texts",
        note="reviver/replacer/indent/toJSON/rawJSON not covered; numbers compared by value (their text is C13). Known finding C18-nesting-128.",
    ),
    "C13": dict(
        level="proof",
        text="Lean theorems over exact natural-number arithmetic for binary64 (N b = magnitude of bit pattern b in units of 2^-1074, M b = "
             "midpoint above b): N_step / N_mono / M_strict (bit patterns are ordered like the values, across every exponent boundary, from "
             "subnormals to +inf), rounding_unique (any real - in particular any decimal numeral - is accepted by the round-to-nearest-even "
             "relation `accepts` for at most one double, so a text that passes the toString check for x and a number that passes the parse "
             "check for that text are the same double: Number(String(x)) = x), accepts_convex, no_coarser_on_grid (if the two neighbouring "
             "multiples of the coarser decimal unit do not round to x then no shorter numeral does: the shortest-digits check needs only two "
             "probes), radix_roundtrip / digits_lt (parseInt(n.toString(r), r) = n for every n and radix). The conversion algorithms are external "
             "crates, so the tie is a verified result checker: every engine result (String(x), Number(text), literals, parseFloat, parseInt, "
             "toString(radix) on integers, toFixed/toExponential/toPrecision) on generated hard inputs (exact midpoints with up to 770 digits and "
             "their neighbours, layout boundaries, subnormals) is decided by the Lean driver with accepts / shortestOk / closestOk.",
        technique="Lean 4 proofs over an exact-arithmetic model of binary64 rounding + Lean-evaluated result checking of every engine conversion (correspondence) + ECMA-262 layout oracle",
        note="ryu-js / fast_float2 are checked per result, not verified; non-integer radix output and parseInt beyond 20 digits are implementation-approximated by the spec and excluded. Known finding C13-tofixed-small (ryu-js).",
    ),
    "C08": dict(
        level="proof",
        text="Lean theorems: steps_bounded / work_bounded (with a ranking certificate accepted by the executable rankOk, any control-flow "
             "path of a block has at most (counters+1)*(R+1) instructions: the loop counter lies on every cycle, so an activation's own work "
             "is bounded by the loop-iteration limit), counterRun_spec (exactly limit+1 counter passes succeed per activation), "
             "loop_unaffected_pre/post, loop_stopped_pre/post, loop_work_bounded (for both lowered loop shapes: a loop under the limit "
             "runs unchanged, one over it is stopped, bodies run <= limit+2 whatever it wanted), limit_unstoppable (for ANY nesting of call "
             "routes, catch blocks, finally blocks and continuations around the point where a limit is hit, the whole evaluation ends with "
             "the error and nothing after that point contributes output), nest_unaffected / nest_stopped / leave_enter (recursion-depth "
             "accounting of check_runtime_limits over direct and native re-entry routes; the budget is returned on every exit). The ranking "
             "check runs on every block the compiler emits for a loop corpus (8 loop heads x 11 ways round the loop x 5 activation kinds) "
             "and generated programs; the dynamic model is tied to the engine by predicted-vs-real trace and completion over a grid of "
             "limits, 37 re-entry routes, wrappers and budget-return sequences.",
        technique="Lean 4 proofs (ranking certificate for loop-counter coverage; induction over loop/behaviour/nesting models) + ranking check on every compiled block + model-predicted vs real traces over a grid of limits and re-entry routes",
        note="Stack-size threshold is exercised but not modelled; modules and host-defined job queues are not covered; needs the boa_verif dump hook for the static part.",
    ),
    "C03": dict(
        level="proof",
        text="Lean theorems about an abstract machine over dumped code blocks (state = address x depths of value stack above the "
             "registers, environment chain above env_fp, pending binding references, plus the constants held by JumpTable dispatch "
             "registers): check_sound (an annotation accepted by the executable check contains EVERY state reachable along ANY path, "
             "of any length, incl. exception edges), wellformed_everywhere / never_stuck (each reachable instruction decodes, operands "
             "inside register file / constant / binding / IC / scope tables, jump and handler targets are instruction starts, no depth "
             "underflows, handler environment counts never exceed the chain), depths_agree (depths are a function of the address), "
             "operands_in_range, locator_in_chain (a Stack(i) locator names an existing environment: i < env_fp + depth), handler_edge. "
             "The compiled blocks of generated programs (every block, recursively through function constants) are the input of the proved "
             "check; the opcode/operand table is regenerated from vm/opcode/mod.rs on every run; the hand-written effect table, entry and "
             "handler-entry states and env_fp propagation are validated by a per-instruction probe of the running VM (every observed "
             "(pc, depths, env_fp) must be a state of the accepted annotation).",
        technique="Lean 4 proof of a bytecode verifier (closure/induction over reachability) run on every compiled block + translator for the opcode table + per-instruction probe correspondence",
        note="Needs the boa_verif hooks (dump_code_blocks, probe). Blocks compiled at run time (eval, Function()) are not dumped; opcodes the generators never produce have an unvalidated effect entry (listed in the evidence).",
    ),
    "C07": dict(
        level="proof",
        text="Lean theorems about a model of the VM's frame chain and value-stack length (push_frame, handle_return, handle_throw, "
             "handle_exception_at, the uncatchable branch of handle_error, JsObject::call/construct/Script::evaluate around them, as they "
             "are after the fix commits): exec_spec (the loop invariant for every behaviour tree), balanced (ANY host entry — returning, "
             "throwing with handlers at any depth or none, cut off by a limit at any depth, with any number of pending temporaries — "
             "leaves frames and stack depth unchanged), balanced_refused, reusable (any sequence of entries). Tied to the code through "
             "hooks: real depths after every host entry of generated histories, snapshots of the real frame chain checked against the "
             "model's push_frame laws by the Lean driver, and a reuse-vs-fresh battery.",
        technique="Lean 4 invariant proof by induction over behaviour trees + hook-based correspondence (vm_depths / vm_snapshot) on generated host-entry histories",
        note="Needs the boa_verif hooks. Not modelled: environments, generator stack swapping, modules.",
    ),
    "C06": dict(
        level="proof",
        text="Lean theorems about the polymorphic inline cache and its use by get_by_name: ic_capacity, megamorphic_latch, "
             "get_returns_stored, own_entry_valid (an own-property entry is right for every object of that shape: layout is a function "
             "of the shape id), proto_entry_valid (a prototype entry is right while the prototype keeps its shape), "
             "cached_eq_uncached_partial (with valid entries a cached access returns exactly the uncached result, hit or miss) and the "
             "refutation proto_entry_stale (the unrestricted statement is false on this tree). The cache state machine is tied to the code by "
             "trace validation: every InlineCache get/set/clean-up the engine performs on generated histories (hook) is replayed through the "
             "model; the property's own differential (caches on vs off, hook) runs on the same histories. PARTIAL: prototype entries are a "
             "recorded known finding; shape transitions are not modelled.",
        technique="Lean 4 proofs about an inline-cache model + trace validation of recorded cache events + caches-on/off differential",
        note="Needs the boa_verif hooks (cache switch, event recording).",
    ),
    "C14": dict(
        level="proof",
        text="Lean refinement theorems for IndexedProperties: refine_insert / refine_remove / refine_contains / refine_push_dense / "
             "refine_to_sparse (each storage operation, from any of the five variants and through every variant switch, is the "
             "corresponding operation on the finite map index -> observable descriptor, incl. the returned flags) and "
             "storage_independent (no sequence of operations distinguishes two storages that denote the same map). Tied to the code by a "
             "line-by-line correspondence on a real PropertyMap (incl. the active variant) and by the property's own differential: the same "
             "content built through six recipes landing in different storage forms, same array operations, structural dumps compared after "
             "every step and with the array-like form. The code that BYPASSES the storage API is modelled too (FastPaths.lean): the VM's dense "
             "paths for a[i] and a[i] = v (get_dense_property / set_dense_property), the dense path of Array.prototype.shift, and the generic "
             "shift algorithm written over get/insert/remove: abs_getDense, abs_setDense, abs_shiftDense (each denotes the map operation), "
             "shiftGeneric_abs (closed form of steps 4-7 on ANY variant, holes included), shift_fast_eq_generic (fast path = generic algorithm), "
             "jsSet_abs / jsGet_abs / jsShift_abs, jsShift_readonly_length (both paths of shift honour a read-only `length`: TypeError, length unchanged) and js_storage_independent (a[k], a[k] = v, a.push(v) and a.shift() — results, exceptions, contents, length — cannot tell two storages of the same "
             "observable state apart). Tie: a real array driven through the VM and the builtins, storage variant + length + contents compared with the "
             "model after every operation.",
        technique="Lean 4 refinement proofs (5 storage variants -> finite map; VM dense get/set and Array.prototype.shift fast paths = generic algorithm) + PropertyMap and real-array correspondence + cross-storage JS differential",
        note="The other Array.prototype algorithms are compared across storage forms, not specified in Lean; the key order reported over an arbitrarily ordered index storage is proved under C20 (ownKeys_eq_spec, ownKeys_storage_independent).",
    ),
    "C05": dict(
        level="proof",
        text="Lean theorems about a model of the three optimizer passes (post-order walker with the 10-iteration cap, constant folding "
             "incl. comma/logical rewrites, strength reduction, dead-code elimination with the hoisted-declaration guard): "
             "optimize_expr_sound and optimize_sound_partial — for every program, option subset, world and state the optimized program "
             "performs the same events in the same order and declares the same hoisted names — parametric in the literal arithmetic the "
             "optimizer shares with the runtime (hypotheses S.Laws). The model is tied to the code by comparing boa's optimized AST with the "
             "model's on generated programs (S-expression dumps), and the property's own differential (each option subset vs optimizer off) "
             "runs on richer programs with observable valueOf/toString/getter logs. PARTIAL: statement completion values are outside the "
             "model (known finding C05-dce-completion).",
        technique="Lean 4 structural-induction proofs over an optimizer model + AST-to-AST correspondence with boa's optimizer + option-subset trace differential",
        note="The literal operator semantics is a parameter (S.Laws assumed: x/2 = x*0.5, x**2 = x*x for non-BigInt literals, truthiness of booleans).",
    ),
    "C15": dict(
        level="proof",
        text="Lean theorems: f64ToInt32_spec (the bit manipulation of f64_to_int32 equals ToInt32 for every one of the 2^64 bit patterns), "
             "conv_modular / conv32_modular (ToInt8..ToUint32 as implemented are the specification's modular conversions for every double, "
             "no magnitude restriction after the fix), inbounds_access (every element access of a view that is not out of bounds lies inside "
             "the buffer, for every geometry and every buffer length), oob_has_no_elements, bytes_roundtrip (both byte orders, every width), "
             "write_frame, set_get; copyWithin_loop_eq_memmove (the specification's directional byte-at-a-time loop of %TypedArray%.prototype.copyWithin "
             "equals the engine's single memmove of a snapshot, for every buffer, either overlap direction and every count below the limit), "
             "copyWithin_frame (no byte outside [to, to+count) changes), copyWithin_ranges (an in-bounds view yields byte ranges inside the view), copyWithin_args_inbounds (whatever integers a script passes — negative, huge, end before start — the derived element ranges lie inside the view), fillBytes_frame / fillBytes_reads (%TypedArray%.prototype.fill keeps the length, changes no byte outside the elements [k, final) and every element of the range reads back as the stored value). The byte model (buffers fixed/resizable/detached, fixed and length-tracking views, DataView) is tied to the "
             "engine by a correspondence run over operation histories rendered to JavaScript.",
        technique="Lean 4 proofs (omega, induction) over a byte-level model + differential correspondence run of JS histories against the engine",
        note="Not modelled: Float32/Float16 rounding, subarray/slice/sort, copyWithin with non-integer arguments, SharedArrayBuffer/Atomics; raw memory code in array_buffer/utils.rs is modelled by its logical effect.",
    ),
    "C09": dict(
        level="proof",
        text="Lean theorems about a step-by-step model of Collector::collect (trace_non_roots, mark_heap, finalize, second mark_heap, "
             "sweep): mark_is_reachability (worklist marking = reachability, any heap, any queue), trace_terminates, "
             "mark_heap_is_reachability, roots_are_external_handles (saturating non-root counting under the reference-count invariant), "
             "safety and completeness/exactly-once for one collection of any heap without ephemerons. PARTIAL: the ephemeron fix-point, "
             "weak maps and the preservation of the reference-count invariant along histories are covered by the executable model and the "
             "correspondence run (all short histories + random long ones, observation after every operation), not by theorems; finalizer "
             "resurrection is a recorded known finding.",
        technique="Lean 4 invariant proofs over a model of the collector + differential correspondence run against boa_gc with an abstract reachability oracle",
        note="Modelled, not verified: unsafe pointer code of boa_gc; finalizers assumed not to create handles (NoResurrect).",
    ),
    "C11": dict(
        level="proof",
        text="Lean theorems for every JsStr operation on both encodings: op_agrees_with_units (each of 17 operations equals the same "
             "operation on the plain code-unit array), rep_independent, eq/cmp/hash consistency, whitespace_tables_agree (all 256 "
             "Latin-1 units), eqStr_correct, constructors_denote, derived_wf — for all strings of any length. The hand-written model "
             "mirrors str.rs/lib.rs case split by case split and is tied by a correspondence run that builds real strings through six "
             "constructors (exhaustive over short sequences of an adversarial alphabet, random to length 64).",
        technique="Lean 4 refinement proofs (JsStr model -> code-unit arrays) + differential correspondence run against boa_string",
        note="Modelled, not verified: unsafe allocation/vtable code of boa_string, std's UTF-16 routines.",
    ),
    "C12": dict(
        level="proof",
        text="Lean theorems over ALL 2^32 int32s, ALL 2^64 double bit patterns and all 48-bit addresses (i32_roundtrip, float_roundtrip, "
             "nan_canonical, float_never_other, kinds_disjoint, refcount_dispatch, pointer_roundtrip, nanbox_refines_enum, encode_injective) "
             "about a model that is regenerated from nan_boxed.rs on every run; the glue around it (JsValue API, typed arrays, DataView) is "
             "tied by a correspondence run on structured bit patterns. Proof is the right level because the property quantifies over every "
             "bit pattern, which bit-blasting decides completely.",
        technique="Lean 4 theorems (bv_decide bit-blasting) over a translator-regenerated model of mod bits + correspondence run against the real JsValue",
        note="bv_decide axioms (<theorem>._native.bv_decide.ax_*) are accepted for this property and listed in the evidence. "
             "Modelled, not verified: unsafe pointer reconstruction, legacy.rs enum representation (thorough tier compares a second build).",
    ),
}

ALL = ["C%02d" % i for i in range(1, 21)]
NOT_YET = "not claimed yet: model, correspondence and first theorem for this property are not built (see DESIGN.md §7 build order)"
HOOK_COMMITS = ["ee8c1f4", "5c06b44", "e155a04", "1e55d63", "9e69b21", "f5f85fd", "f641ffa", "a4032f3", "c4c62fc", "4577c96", "e6bad84"]


def manifest():
    checks = []
    for pid in ALL:
        if pid in CLAIMED:
            c = CLAIMED[pid]
            checks.append({
                "property_id": pid,
                "quick_cmd": "python3 check/run.py %s --tier quick" % pid,
                "thorough_cmd": "python3 check/run.py %s --tier thorough" % pid,
                "evidence_file": "evidence/%s.json" % pid,
                "replay_cmd_template": "python3 check/run.py %s --replay {path}" % pid,
                "engine": "lean+bvh",
                "level_claimed": {"category": c["level"], "text": c["text"], "design_ref": c.get("design_ref", "DESIGN.md §4 " + pid)},
                "level_note": COMMON_NOTE + c.get("note", ""),
                "technique": c["technique"],
            })
    return {
        "version": 1,
        "setup_cmd": "python3 check/setup.py",
        "hooks": {
            "guard": "boa_verif",
            "enable": "RUSTFLAGS=--cfg boa_verif (set in /verif/harness/.cargo/config.toml; the harness path-depends on /repo/core/*)",
            "baseline_off_cmd": BASELINE,
            "source_commits": HOOK_COMMITS,
            "add_only": True,
        },
        "engines": [
            {"name": "lean", "path": "lean", "serves_properties": sorted(CLAIMED), "kind_free_text": "Lean 4 lake project BoaVerif: models, theorems, native per-property drivers"},
            {"name": "bvh", "path": "harness", "serves_properties": sorted(CLAIMED), "kind_free_text": "Rust harness built against /repo's working tree (correspondence side)"},
            {"name": "run.py", "path": "check", "serves_properties": sorted(CLAIMED), "kind_free_text": "verdict logic, generators, evidence"},
        ],
        "checks": checks,
        "notes": "Technique family: machine-checked proof in Lean 4 + checked tie (translator / correspondence). See DESIGN.md.",
        "not_applicable": [{"property_id": p, "reason": NOT_YET} for p in ALL if p not in CLAIMED],
    }


if __name__ == "__main__":
    with open(os.path.join(ROOT, "MANIFEST.json"), "w") as f:
        json.dump(manifest(), f, indent=1)
    print("MANIFEST.json written: %d checks" % len(manifest()["checks"]))
