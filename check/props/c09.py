"""C09 — the collector frees exactly the unreachable objects, exactly once.
tie: correspondence — the same operation histories applied to real boa_gc (payload with finalize counters
and drop canaries) and to the Lean model of Collector::collect; python keeps the abstract reachability
specification (the property's own oracle)."""
import lib


class Spec:
    """abstract specification: a graph with external handles; a collection frees exactly the unreachable"""

    def __init__(self):
        self.nodes = {}      # id -> {"edges": [], "ephs": []}   (only nodes not yet freed)
        self.ext = []
        self.ephs = {}       # id -> {"key": k or None, "val": [..]}  (boxes not yet freed)
        self.ext_e = []
        self.n_nodes = 0
        self.n_ephs = 0
        self.fin = {}

    def holds(self, n):
        return n in self.ext

    def holds_e(self, e):
        return e in self.ext_e

    def valid(self, op):
        t = op.split()
        k = t[0]
        if k in ("alloc", "collect"):
            return True
        if k == "collectb":
            return self.holds(int(t[1]))
        if k in ("clone", "drop"):
            return self.holds(int(t[1]))
        if k == "link":
            return self.holds(int(t[1])) and self.holds(int(t[2]))
        if k == "unlink":
            return self.holds(int(t[1])) and int(t[2]) in self.nodes[int(t[1])]["edges"]
        if k == "eph":
            return self.holds(int(t[1])) and (t[2] == "-" or self.holds(int(t[2])))
        if k in ("ephclone", "ephdrop"):
            return self.holds_e(int(t[1]))
        if k == "ephstore":
            return self.holds(int(t[1])) and self.holds_e(int(t[2]))
        if k == "ephunstore":
            return self.holds(int(t[1])) and int(t[2]) in self.nodes[int(t[1])]["ephs"]
        return False

    def reach(self):
        live = set()
        live_e = set(self.ext_e)
        work = list(self.ext)
        changed = True
        while changed:
            changed = False
            while work:
                n = work.pop()
                if n in live or n not in self.nodes:
                    continue
                live.add(n)
                changed = True
                work.extend(self.nodes[n]["edges"])
                for e in self.nodes[n]["ephs"]:
                    if e not in live_e:
                        live_e.add(e)
            for e in list(live_e):
                d = self.ephs.get(e)
                if d and d["key"] is not None and d["key"] in live:
                    for v in d["val"]:
                        if v not in live:
                            work.append(v)
                            changed = True
        return live, live_e

    def apply(self, op):
        if not self.valid(op):
            return
        t = op.split()
        k = t[0]
        if k == "alloc":
            self.nodes[self.n_nodes] = {"edges": [], "ephs": []}
            self.ext.append(self.n_nodes)
            self.n_nodes += 1
        elif k == "clone":
            self.ext.append(int(t[1]))
        elif k == "drop":
            self.ext.remove(int(t[1]))
        elif k == "link":
            self.nodes[int(t[1])]["edges"].append(int(t[2]))
        elif k == "unlink":
            self.nodes[int(t[1])]["edges"].remove(int(t[2]))
        elif k == "eph":
            self.ephs[self.n_ephs] = {"key": int(t[1]), "val": [] if t[2] == "-" else [int(t[2])]}
            self.ext_e.append(self.n_ephs)
            self.n_ephs += 1
        elif k == "ephclone":
            self.ext_e.append(int(t[1]))
        elif k == "ephdrop":
            self.ext_e.remove(int(t[1]))
        elif k == "ephstore":
            self.nodes[int(t[1])]["ephs"].append(int(t[2]))
        elif k == "ephunstore":
            self.nodes[int(t[1])]["ephs"].remove(int(t[2]))
        elif k in ("collect", "collectb"):
            live, live_e = self.reach()
            for n in list(self.nodes):
                if n not in live:
                    self.fin[n] = self.fin.get(n, 0) + 1
                    del self.nodes[n]
            for e in list(self.ephs):
                if e not in live_e:
                    del self.ephs[e]
                else:
                    d = self.ephs[e]
                    if d["key"] is not None and d["key"] not in live:
                        d["key"], d["val"] = None, []

    def observe(self):
        alive = ",".join(str(n) for n in sorted(self.nodes))
        fin = ",".join("%d:%d" % (n, c) for n, c in sorted(self.fin.items()))
        seen, ev = [], []
        for e in self.ext_e:
            if e not in seen:
                seen.append(e)
                ev.append("%d:%d" % (e, 1 if self.ephs[e]["key"] is not None else 0))
        return "alive=%s fin=%s dbl= eph=%s" % (alive, fin, ",".join(ev))


def candidate_ops(sp, max_nodes, max_ephs):
    ops = []
    if sp.n_nodes < max_nodes:
        ops.append("alloc")
    ids = sorted(set(sp.ext))
    for n in ids:
        ops += ["drop %d" % n, "clone %d" % n]
        for m in ids:
            ops.append("link %d %d" % (n, m))
        for m in sorted(set(sp.nodes[n]["edges"])):
            ops.append("unlink %d %d" % (n, m))
        if sp.n_ephs < max_ephs:
            ops.append("eph %d -" % n)
            for m in ids:
                ops.append("eph %d %d" % (n, m))
        for e in sorted(set(sp.ext_e)):
            ops.append("ephstore %d %d" % (n, e))
        for e in sorted(set(sp.nodes[n]["ephs"])):
            ops.append("ephunstore %d %d" % (n, e))
        if sp.nodes[n]["edges"]:
            ops.append("collectb %d" % n)
    for e in sorted(set(sp.ext_e)):
        ops += ["ephdrop %d" % e]
    ops.append("collect")
    return ops


def replay_spec(hist):
    sp = Spec()
    out = []
    for op in hist:
        sp.apply(op)
        out.append(sp.observe())
    return sp, out


def enumerate_small(depth, max_nodes, max_ephs, stride, offset):
    """all valid histories of `depth` operations (every prefix is valid), each closed by two collections"""
    hists = []
    count = [0]

    def rec(prefix):
        if len(prefix) == depth:
            count[0] += 1
            if count[0] % stride == offset:
                hists.append(prefix + ["collect", "collect"])
            return
        sp, _ = replay_spec(prefix)
        for op in candidate_ops(sp, max_nodes, max_ephs):
            if op == "clone %d" % 0 and len(prefix) > 2:
                pass
            rec(prefix + [op])
    rec([])
    return hists, count[0]


def random_history(r, n_ops, max_nodes):
    sp = Spec()
    hist = []
    for _ in range(n_ops):
        ops = candidate_ops(sp, max_nodes, max_nodes)
        # weights: favour building structure, collect ~8%
        k = r() % 100
        if k < 8:
            op = "collect"
        else:
            pool = [o for o in ops if o != "collect"]
            if k < 30:
                pref = [o for o in pool if o.startswith(("link", "eph"))]
                pool = pref or pool
            elif k < 45:
                pref = [o for o in pool if o.startswith("drop")]
                pool = pref or pool
            op = pool[r() % len(pool)] if pool else "collect"
        hist.append(op)
        sp.apply(op)
    hist += ["collect", "collect"]
    return hist


def eph_chain_histories(max_len):
    """ephemeron chains key_i -> value_{i+1}, the ephemerons allocated in every order (the order decides how many
    rounds the pending-ephemeron fix-point needs)"""
    import itertools
    out = []
    for L in range(2, max_len + 1):
        for perm in itertools.permutations(range(L)):
            h = ["alloc"] * (L + 1)
            for i in perm:
                h.append("eph %d %d" % (i, i + 1))
            h += ["drop %d" % i for i in range(1, L + 1)]
            h += ["collect", "drop 0", "collect"]
            out.append(h)
            # the same chain with the ephemeron handles stored inside a holder node instead of held externally
            h2 = ["alloc"] * (L + 2)
            for j, i in enumerate(perm):
                h2 += ["eph %d %d" % (i, i + 1), "ephstore %d %d" % (L + 1, j), "ephdrop %d" % j]
            h2 += ["drop %d" % i for i in range(1, L + 1)]
            h2 += ["collect", "drop 0", "collect", "drop %d" % (L + 1), "collect"]
            out.append(h2)
    return out


def run(ck):
    ck.trusted_base += [
        "modelled, not verified: all `unsafe` pointer code of boa_gc (Box::from_raw, vtables, NonNull casts); finalizers are "
        "assumed to create no handles (NoResurrect) — resurrection is the recorded known finding C09-resurrection",
        "python Spec class in check/props/c09.py = the abstract reachability specification (property oracle)",
    ]
    ck.prove("BoaVerif.C09.Theorems", driver="drv-c09")
    bins = ck.build_harness(["c09", "c09res"])
    # known-finding witness: finalizer resurrection (run in its own process; never dereferences the stale handle)
    rc_r, out_r, err_r = ck.run_bin(bins["c09res"])
    res = dict(kv.split("=") for kv in out_r.split()) if rc_r == 0 and out_r.strip() else {}
    if not res:
        ck.fail_input({"site": "boa_gc-resurrection-witness-crash", "input": "c09res", "expected": "a report line",
                       "actual": "rc=%s %s" % (rc_r, err_r[-300:])})
    elif int(res.get("stash", 0)) >= 1 and int(res.get("dropped_resurrected", 0)) >= 1:
        ck.fail_input({"site": "boa_gc-resurrection",
                       "input": "t; {a -> t; b -> a; b.finalize stores a clone of its handle to a}; drop a,b; collect",
                       "expected": "the resurrected node a is not freed while the stored handle is live",
                       "actual": out_r.strip()})
    r = lib.rng(ck.seed)
    quick = ck.tier == "quick"
    hists = []
    depth = 4 if quick else 5
    small, total_small = enumerate_small(depth, 3, 2, 1 if not quick else 3, ck.seed % 3 if quick else 0)
    hists += small
    # hand-written corpus (regression shapes): cycles, self loops, key reachable only from its own value, chains of ephemerons
    corpus = [
        ["alloc", "alloc", "link 0 1", "link 1 0", "drop 0", "drop 1"],
        ["alloc", "link 0 0", "link 0 0", "drop 0"],
        ["alloc", "alloc", "link 1 0", "eph 0 1", "drop 1", "drop 0", "collect"],
        ["alloc", "alloc", "alloc", "eph 0 1", "eph 1 2", "drop 1", "drop 2", "collect", "drop 0", "collect"],
        ["alloc", "alloc", "eph 0 1", "ephstore 1 0", "ephdrop 0", "drop 1", "collect", "drop 0"],
        ["alloc", "alloc", "eph 0 -", "ephstore 1 0", "ephdrop 0", "drop 0", "collect", "drop 1"],
        ["alloc", "alloc", "alloc", "link 0 1", "link 0 2", "link 1 2", "drop 1", "drop 2", "collect", "drop 0"],
        ["alloc", "alloc", "link 1 0", "link 1 0", "drop 1", "collect"],
        ["alloc", "alloc", "eph 1 0", "eph 0 1", "drop 0", "drop 1", "collect"],
        ["alloc", "alloc", "alloc", "eph 0 1", "ephstore 2 0", "ephdrop 0", "drop 1", "collect", "drop 0", "collect", "drop 2"],
    ]
    hists += [c + ["collect", "collect"] for c in corpus]
    hists += [c + ["collect"] for c in eph_chain_histories(4 if quick else 5)]
    for _ in range(300 if quick else 4000):
        hists.append(random_history(r, 10 + r() % (40 if quick else 200), 3 + r() % (8 if quick else 40)))
    for _ in range(3 if quick else 40):
        hists.append(random_history(r, 1000 if quick else 5000, 200))
    lines, spec_out = [], []
    for hst in hists:
        lines.append("reset")
        spec_out.append("ok")
        _, so = replay_spec(hst)
        lines += hst
        spec_out += so
    rc, iout, ierr = ck.run_bin(bins["c09"], input="\n".join(lines) + "\n")
    impl = iout.split("\n")[:-1]
    if rc != 0 or len(impl) != len(lines):
        idx = len(impl)
        # find the history the process died in
        last = min(idx, len(lines) - 1)
        if lines[last] == "reset" and last > 0:
            last -= 1          # died while resetting: the culprit is the history that just ended
        start = max(i for i in range(last + 1) if lines[i] == "reset")
        end = min(idx, len(lines) - 1) + 1
        ck.fail_input({"site": "boa_gc-crash", "input": lines[start + 1:end], "expected": "an answer to every operation",
                       "actual": "process ended rc=%s after %d operations of this history: %s" % (rc, idx - start, ierr[-300:])})
        lines, spec_out = lines[:idx], spec_out[:idx]
    model = ck.driver("drv-c09", lines)
    bad_spec = bad_model = 0
    start = 0
    op_kinds = {}
    collects_with_garbage = 0
    for i, (q, a) in enumerate(zip(lines, impl)):
        if q == "reset":
            start = i
            continue
        op_kinds[q.split()[0]] = op_kinds.get(q.split()[0], 0) + 1
        if q == "collect" and i > 0 and spec_out[i] != spec_out[i - 1]:
            collects_with_garbage += 1
        if a != spec_out[i]:
            bad_spec += 1
            if bad_spec <= 5:
                ck.fail_input({"site": "boa_gc", "input": lines[start + 1:i + 1], "expected": spec_out[i], "actual": a,
                               "oracle": "abstract reachability specification; Lean model says: " + model[i]})
        elif model[i] != a:
            bad_model += 1
            if bad_model <= 5:
                ck.model_drift({"input": lines[start + 1:i + 1], "model": model[i], "implementation": a})
    ck.oblige("correspondence:boa_gc==C09 model after every operation of %d histories" % len(hists), "correspondence",
              bad_model == 0, "%d disagreements" % bad_model if bad_model else None)
    ck.coverage.update({
        "evaluations": len(lines) - len(hists),
        "histories": len(hists),
        "distinct_nontrivial": len(set(tuple(h) for h in hists if any(o.startswith(("link", "eph")) for o in h))),
        "rule": "histories = all valid operation sequences of length %d over <=3 nodes / <=2 ephemerons (%d enumerated, every %s taken), "
                "a corpus of regression shapes, seeded random histories up to %d operations / 200 nodes; each closed by two collections; "
                "observation after EVERY operation: set of live payloads (drop canaries), finalize counts, double drops, has_value/upgrade of "
                "held ephemerons. distinct non-trivial = distinct histories containing at least one link or ephemeron operation"
                % (depth, total_small, "one" if not quick else "third", 1000 if quick else 5000),
        "operation_mix": op_kinds,
        "collections_that_freed_something": collects_with_garbage,
        "resurrection_witness": out_r.strip(),
        "samples": [hists[0], hists[len(small) + 2], hists[-1][:40]],
        "partial": ["theorems cover heaps without ephemerons (the early-return path of mark_heap) and finalizers that create no handles; "
                    "the ephemeron fix-point and weak maps are covered by the executable model + correspondence only",
                    "weak maps (WeakMap insert/remove) are modelled (weakMapCleanup) but not yet driven by the harness"],
    })
