"""C17 — module graphs evaluate each module once, in dependency order.
tie: correspondence of the Lean model of Evaluate / InnerModuleEvaluation (synchronous modules: DFS indices, the stack, cycle roots,
error marking of everything on the stack) with the engine: for generated module graphs — DAGs, cycles, self-imports, repeated
requests, throwing bodies — served by a counting in-memory loader, the sequence of bodies run and the outcome of every Evaluate
(the first, a repeated one, and later ones of other modules of the same graph) must be what the model computes; each
(referrer, specifier) pair is requested from the host once and each module parsed once; imported bindings are live."""
import json
import re

import lib


def gen_graph(r, kind):
    n = 1 + r() % 8
    if kind == "dense":
        n = 3 + r() % 4
    deps = []
    for m in range(n):
        k = r() % 4 if n > 1 else r() % 2
        ds = []
        for _ in range(k):
            if kind == "dag":
                if m + 1 < n:
                    ds.append(m + 1 + r() % (n - m - 1))
            else:
                ds.append(r() % n)        # cycles and self-imports allowed
        if r() % 6 == 0 and ds:
            ds.append(ds[0])              # the same module requested twice
        deps.append(ds)
    throws = [0] * n
    for _ in range(r() % 3 if r() % 2 else 0):
        throws[r() % n] = 1
    roots = [0]
    if kind == "dense":
        # every module is evaluated afterwards: what each of them recorded becomes visible
        order = list(range(n))
        for i in range(n - 1, 0, -1):
            j = r() % (i + 1)
            order[i], order[j] = order[j], order[i]
        roots += order
        if not any(throws):
            throws[r() % n] = 1
    else:
        for _ in range(r() % 4):
            roots.append(r() % n if r() % 2 else 0)
    return n, deps, throws, roots


def request(deps, throws, roots, style):
    return "run deps=%s throws=%s roots=%s style=%d" % (";".join("%d:%s" % (m, ",".join(map(str, ds))) for m, ds in enumerate(deps)),
                                                     "".join(map(str, throws)), ",".join(map(str, roots)), style)


# top-level await is outside the Lean model: these scenarios carry an expected trace worked out by hand from ECMA-262 16.2.1.5.3
# (AsyncModuleExecutionFulfilled / GatherAvailableAncestors); they are regression tests, not proofs
TLA = [
    # a cycle whose root awaits; a later importer of a cycle member must wait for the cycle root
    ({"main": "import 'a'; import 'c'; print('main');", "a": "import 'b'; print('a:start'); await null; await null; await null; print('a:end');",
      "b": "import 'a'; print('b');", "c": "import 'b'; print('c');"}, ["main"], "trace=b,a:start,a:end,c,main outcomes=-"),
    # an awaiting leaf delays its importers, not its siblings
    ({"main": "import 'x'; import 'y'; print('main');", "x": "print('x:start'); await null; print('x:end');", "y": "print('y');"}, ["main"],
     "trace=x:start,y,x:end,main outcomes=-"),
    # a cycle root that rejects after an await: a later importer of a member rejects with the same error and does not run
    ({"root": "import 'a'; print('root');", "a": "import 'b'; print('a:start'); await null; throw new Error('boom-a');", "b": "import 'a'; print('b');",
      "d": "import 'b'; print('d');"}, ["root", "d", "b"], "trace=b,a:start outcomes=boom-a,boom-a,boom-a"),
    # a cycle member (m3) that waits for fewer async dependencies than the cycle root (m0): repaired in f6eb11f, used to stay pending forever
    ({"m0": "import 'm2'; import 'm3'; print('m0');", "m1": "import 'm0'; print('m1:s'); await null; print('m1:e');", "m2": "print('m2:s'); await null; print('m2:e');",
      "m3": "import 'm1'; print('m3');"}, ["m0"], "trace=m2:s,m1:s,m2:e,m1:e,m3,m0 outcomes=-"),
    # ... and one that waits for more (m1 waits for m2 and m3, the root only for m1)
    ({"m0": "import 'm1'; print('m0');", "m1": "import 'm0'; import 'm2'; import 'm3'; print('m1');", "m2": "print('m2:s'); await null; print('m2:e');",
      "m3": "print('m3:s'); await null; await null; await null; print('m3:e');"}, ["m0"], "trace=m2:s,m3:s,m2:e,m3:e,m1,m0 outcomes=-"),
    # an importer outside an async cycle requesting two of its members: it waits for the cycle root twice and is released twice
    ({"main": "import 'x'; import 'y'; print('main');", "x": "import 'y'; print('x:start'); await null; print('x:end');", "y": "import 'x'; print('y');"},
     ["main"], "trace=y,x:start,x:end,main outcomes=-"),
    # a synchronous importer of an async module throws when it finally runs (inside AsyncModuleExecutionFulfilled of the dependency):
    # the IMPORTER is rejected, the dependency stays evaluated (repaired: the engine rejected the wrong module and panicked)
    ({"a": "import 'b'; print('a'); throw new Error('boom-a');", "b": "print('b:s'); await null; print('b:e');"}, ["a", "a", "b"],
     "trace=b:s,b:e,a outcomes=boom-a,boom-a,-"),
    # ... and its own importers are rejected with the same error, without running
    ({"r": "import 'a'; print('r');", "a": "import 'b'; print('a'); throw new Error('boom-a');", "b": "print('b:s'); await null; print('b:e');",
      "c": "import 'b'; print('c');"}, ["r", "c", "a"], "trace=b:s,b:e,a,c outcomes=boom-a,-,boom-a"),
    # evaluating an async graph twice runs nothing twice
    ({"main": "import 'x'; print('main');", "x": "print('x:start'); await null; print('x:end');"}, ["main", "main", "x"], "trace=x:start,x:end,main outcomes=-,-,-"),
]

def tla_graph(r):
    """a module graph in which modules may use top-level await (0-3 awaits between their two prints); nothing throws"""
    n = 2 + r() % 5
    kind = r() % 4
    deps = []
    for m in range(n):
        ds = []
        for _ in range(r() % 3 + (1 if m == 0 else 0)):
            if kind == 0:
                if m + 1 < n:
                    ds.append(m + 1 + r() % (n - m - 1))
            else:
                ds.append(r() % n)
        deps.append(ds)
    if kind == 2:                       # a chain of awaiting modules under the root: a -> b(TLA) -> c(TLA) ...
        deps = [[m + 1] if m + 1 < n else [] for m in range(n)]
        if n > 2 and r() % 2:
            deps[0].append(2 + r() % (n - 2))
    awaits = [[0, 0, 1, 2, 3][r() % 5] for _ in range(n)]
    if kind == 2:
        awaits = [0] + [1 + r() % 3 for _ in range(n - 1)]
    if kind == 3 and n >= 3:            # an importer outside a cycle that requests several members of it (or one member twice)
        k = 2 + r() % (n - 2)           # the cycle m1 -> m2 -> ... -> mk -> m1, somewhere with top-level await
        deps = [[] for _ in range(n)]
        for m in range(1, k + 1):
            deps[m] = [m + 1 if m < k else 1]
        for m in range(k + 1, n):
            deps[m] = [1 + r() % k]
            deps[1 + r() % k].append(m)
        deps[0] = [1 + r() % k for _ in range(2 + r() % 2)] + ([r() % n] if r() % 2 else [])
        awaits = [[0, 1][r() % 2]] + [[0, 1, 2][r() % 3] for _ in range(n - 1)]
        awaits[1 + r() % k] = 1 + r() % 2
    mods = {}
    for m in range(n):
        mods["m%d" % m] = "".join("import 'm%d'; " % d for d in deps[m]) + "print('m%d:s'); " % m + "await null; " * awaits[m] + "print('m%d:e');" % m
    roots = ["m0"] + (["m%d" % (r() % n)] if r() % 3 == 0 else [])
    return deps, awaits, mods, roots


def tla_throw_graph(r):
    """the same graphs with 1-2 modules that throw instead of printing their last line"""
    deps, awaits, mods, roots = tla_graph(r)
    n = len(deps)
    throwers = sorted(set(r() % n for _ in range(1 + r() % 2)))
    for t in throwers:
        mods["m%d" % t] = mods["m%d" % t].replace("print('m%d:e');" % t, "throw new Error('boom%d');" % t)
    roots = roots + ["m%d" % (r() % n)]
    return deps, awaits, mods, roots, throwers


def tla_throw_violation(deps, roots, throwers, trace, outcomes):
    """oracle for async graphs with throwing modules (ECMA-262 16.2.1.5.3): every body at most once; a body starts only after
    every non-cyclic dependency ENDED (a module that threw never prints its end, so its dependents never start); every Evaluate
    settles; it is rejected — with the error of some reachable thrower — exactly when a thrower is reachable from its root"""
    n = len(deps)
    reach = [set(d) for d in deps]
    changed = True
    while changed:
        changed = False
        for a in range(n):
            new = set().union(*[reach[b] for b in reach[a]]) if reach[a] else set()
            if not new <= reach[a]:
                reach[a] |= new
                changed = True
    pos = {}
    for i, ev in enumerate(trace):
        if ev in pos:
            return "%s printed twice" % ev
        pos[ev] = i
    for x in range(n):
        if "m%d:s" % x in pos:
            for d in deps[x]:
                if d != x and x not in reach[d] and ("m%d:e" % d not in pos or pos["m%d:e" % d] > pos["m%d:s" % x]):
                    return "m%d started although its non-cyclic dependency m%d had not finished" % (x, d)
    if len(outcomes) != len(roots):
        return "%d outcomes for %d Evaluate calls" % (len(outcomes), len(roots))
    for ro, o in zip(roots, outcomes):
        k = int(ro[1:])
        hit = sorted(t for t in throwers if t == k or t in reach[k])
        if o == "pending":
            return "Evaluate(%s) never settled" % ro
        if hit and o not in ["boom%d" % t for t in hit]:
            return "Evaluate(%s) = %s although it depends on the throwing module(s) %s" % (ro, o, hit)
        if not hit and o != "-":
            return "Evaluate(%s) rejected with %s although no throwing module is reachable from it" % (ro, o)
    return None


def tla_order_violation(deps, roots, trace):
    """the property's own statement as an oracle on the engine's trace (valid with top-level await): every body runs at most
    once, every module reachable from an evaluated root runs, and a body STARTS only after every non-cyclic dependency has ENDED"""
    n = len(deps)
    reach = [set(d) for d in deps]
    changed = True
    while changed:
        changed = False
        for a in range(n):
            new = set().union(*[reach[b] for b in reach[a]]) if reach[a] else set()
            if not new <= reach[a]:
                reach[a] |= new
                changed = True
    pos = {}
    for i, ev in enumerate(trace):
        if ev in pos:
            return "%s printed twice" % ev
        pos[ev] = i
    want = set()
    for ro in roots:
        k = int(ro[1:])
        want |= {k} | reach[k]
    for m in sorted(want):
        if "m%d:s" % m not in pos or "m%d:e" % m not in pos:
            return "module m%d (reachable from an evaluated root) did not run to its end" % m
    for x in sorted(want):
        for d in deps[x]:
            if d != x and x not in reach[d] and pos["m%d:e" % d] > pos["m%d:s" % x]:
                return "m%d started before its non-cyclic dependency m%d had finished" % (x, d)
    return None


FIXED = [
    ([[1, 2], [3, 0], [3], [1]], [1, 0, 0, 0], [0, 2, 1, 3]),   # a cross edge into a cycle whose root throws: the error is recorded on every member
    ([[1, 2], [3, 0], [3], [1]], [0, 0, 0, 0], [0, 2, 1, 3]),
    ([[1, 3], [2], [1, 0], [2]], [1, 0, 0, 0], [0, 3, 2]),
    ([[1, 2], [3], [3], []], [0, 0, 0, 0], [0, 0, 2]),          # diamond
    ([[1, 2], [3], [3], []], [0, 1, 0, 0], [0, 0, 2, 3]),       # error in the middle; later evaluate siblings
    ([[1], [2], [0]], [0, 0, 0], [0, 1, 2]),                    # cycle
    ([[1], [2], [0]], [1, 0, 0], [0, 1, 2]),                    # cycle whose root throws: every member records the error
    ([[1], [2], [0]], [0, 0, 1], [0, 1, 2]),                    # cycle whose deepest member throws
    ([[0]], [0], [0, 0]),                                       # self import
    ([[1, 1, 1], []], [0, 0], [0]),                             # repeated request
    ([[1, 2], [2, 0], [3], [1]], [0, 0, 0, 0], [0, 3]),         # nested cycles
    ([[1, 2], [2, 0], [3], [1]], [0, 0, 0, 1], [0, 3, 2, 1]),
    ([[1], [2, 3], [1], []], [0, 0, 1, 0], [0, 3, 1]),
]


def run(ck):
    ck.trusted_base += [
        "harness c17: generated module sources (imports in order, print, exported binding, optional throw), a ModuleLoader that caches by specifier and counts host calls and parses",
        "modelled, not verified: Link and Evaluate for modules WITHOUT top-level await; async modules, dynamic import(), JSON/synthetic modules and import attributes are not modelled",
    ]
    ck.prove("BoaVerif.C17.Theorems", driver="drv-c17")
    # dependency order for the whole walk (invariant through `visit`, fuel measure): every theorem of the file is an obligation
    ck.prove("BoaVerif.C17.OrderTheorems")
    # host-facing contract of the async model (re-evaluation, job accounting, splitting the job loop)
    ck.prove("BoaVerif.C17.AsyncTheorems")
    bins = ck.build_harness(["c17"])
    r = lib.rng(ck.seed)
    quick = ck.tier == "quick"
    cases = [(d, t, ro) for d, t, ro in FIXED]
    for i in range(400 if quick else 10000):
        n, deps, throws, roots = gen_graph(r, ["dag", "any", "dense"][i % 3])
        cases.append((deps, throws, roots))
    reqs = [request(d, t, ro, i % 2) for i, (d, t, ro) in enumerate(cases)]
    model = ck.driver("drv-c17", reqs)
    rc, out, err = ck.run_bin(bins["c17"], input="\n".join(reqs) + "\n")
    eng = out.split("\n")
    if eng and eng[-1] == "":
        eng.pop()
    if rc != 0 or len(eng) != len(reqs):
        ck.fail_input({"site": "engine-crash", "input": "c17 batch", "expected": "%d answers" % len(reqs), "actual": "rc=%s, %d answers: %s" % (rc, len(eng), err[-300:])})
        eng += ["missing"] * (len(reqs) - len(eng))
    stats = {"cyclic": 0, "with_error": 0, "bodies": 0}
    for (deps, throws, roots), q, m, e in zip(cases, reqs, model, eng):
        if e in ("panic", "missing"):
            ck.fail_input({"site": "engine-panic", "input": q, "expected": m, "actual": e})
            continue
        mm = re.fullmatch(r"trace=(\S*) outcomes=(.*) loads=(\d+) parses=(\d+) live=(.*)", e)
        if not mm:
            ck.fail_input({"site": "engine-answer-unreadable", "input": q, "expected": m, "actual": e[:300]})
            continue
        ef = dict(zip(("trace", "outcomes", "loads", "parses", "live"), mm.groups()))
        mf = dict(t.split("=", 1) for t in m.split())
        stats["bodies"] += len([x for x in mf["trace"].split(",") if x])
        stats["with_error"] += 1 if any(throws) else 0
        if ef.get("trace") != mf["trace"]:
            ran = [x for x in ef.get("trace", "").split(",") if x]
            site = "module-body-ran-twice" if len(set(ran)) != len(ran) else "evaluation-order-differs"
            ck.fail_input({"site": site, "input": q, "expected": mf["trace"], "actual": ef.get("trace"), "oracle": "C17 model of InnerModuleEvaluation"})
        elif ef.get("outcomes") != mf["outcomes"]:
            ck.fail_input({"site": "evaluate-outcome-differs", "input": q, "expected": mf["outcomes"], "actual": ef.get("outcomes"), "oracle": "C17 model (recorded evaluation errors)"})
        if ef.get("loads") not in ("0", "1") or ef.get("parses") not in ("0", "1"):
            ck.fail_input({"site": "module-fetched-more-than-once", "input": q, "expected": "loads<=1 parses<=1", "actual": "loads=%s parses=%s" % (ef.get("loads"), ef.get("parses"))})
        if ef.get("live", "").startswith("bad"):
            ck.fail_input({"site": "imported-binding-not-live", "input": q, "expected": "live=ok", "actual": ef.get("live")})
    tla_reqs = ["raw roots=%s %s" % (",".join(roots), " ".join("%s=%s" % (k, v.encode().hex()) for k, v in mods.items())) for mods, roots, _ in TLA]
    rc, out, err = ck.run_bin(bins["c17"], input="\n".join(tla_reqs) + "\n")
    got = [x for x in out.split("\n") if x]
    for (mods, roots, want), q, g in zip(TLA, tla_reqs, got + ["missing"] * len(TLA)):
        if g != want:
            ck.fail_input({"site": "top-level-await-scenario", "input": json.dumps(mods), "roots": roots, "expected": want, "actual": g,
                           "oracle": "trace worked out by hand from ECMA-262 16.2.1.5.3 (regression scenario, outside the Lean model)"})
    # ---- generated graphs WITH top-level await: outside the Lean model; the dependency-order statement itself is the oracle
    tgraphs = [tla_graph(r) for _ in range(600 if quick else 6000)]
    treqs = ["raw roots=%s %s" % (",".join(roots), " ".join("%s=%s" % (k, v.encode().hex()) for k, v in mods.items())) for _, _, mods, roots in tgraphs]
    rc, out, err = ck.run_bin(bins["c17"], input="\n".join(treqs) + "\n")
    got = [x for x in out.split("\n") if x]
    tbad = 0
    # the executable Lean model of async module evaluation (C17/Async.lean) predicts the exact trace of these graphs
    areqs = ["arun deps=%s awaits=%s roots=%s" % (";".join("%d:%s" % (m, ",".join(map(str, ds))) for m, ds in enumerate(deps)), ",".join(map(str, awaits)),
                                                 ",".join(ro[1:] for ro in roots)) for deps, awaits, _, roots in tgraphs]
    amodel = ck.driver("drv-c17", areqs)
    adrift = 0
    for (deps, awaits, mods, roots), q, g, am in zip(tgraphs, treqs, got + ["missing"] * len(tgraphs), amodel):
        if g != am:
            adrift += 1
            if tla_order_violation(deps, roots, [x for x in (am.split(" ")[0][6:]).split(",") if x]) is None and "pending" not in am and g.startswith("trace="):
                # the model's trace satisfies the property and the engine's differs: reported as model-vs-implementation
                # disagreement; the order oracle below decides whether the engine violates the property itself
                ck.model_drift({"input": json.dumps(mods), "roots": roots, "model": am, "implementation": g})
            else:
                ck.model_drift({"input": json.dumps(mods), "roots": roots, "model": am, "implementation": g, "note": "the model's own trace is suspect"})
    ck.oblige("correspondence:async module evaluation (top-level await) trace == C17.Async model on %d generated graphs" % len(tgraphs), "correspondence",
              adrift == 0, "%d graphs differ" % adrift if adrift else None)
    for (deps, awaits, mods, roots), q, g in zip(tgraphs, treqs, got + ["missing"] * len(tgraphs)):
        mm = re.fullmatch(r"trace=(\S*) outcomes=(\S*)", g)
        if not mm:
            tbad += 1
            ck.fail_input({"site": "engine-panic" if g in ("panic", "missing") else "engine-answer-unreadable", "input": json.dumps(mods), "roots": roots, "expected": "trace and outcomes", "actual": g[:300]})
            continue
        trace = [x for x in mm.group(1).split(",") if x]
        v = tla_order_violation(deps, roots, trace)
        if v is None and set(mm.group(2).split(",")) != {"-"}:
            v = "an Evaluate promise was rejected (%s) although no module throws" % mm.group(2)
        if v:
            tbad += 1
            ck.fail_input({"site": "top-level-await-order", "input": json.dumps(mods), "roots": roots, "expected": "every body once, after all of its non-cyclic dependencies have finished", "actual": v,
                           "trace": trace, "oracle": "the dependency-order statement of the property (ECMA-262 16.2.1.5.3), checked on the engine's trace"})
    xgraphs = [tla_throw_graph(r) for _ in range(400 if quick else 5000)]
    xreqs = ["raw roots=%s %s" % (",".join(roots), " ".join("%s=%s" % (k, v.encode().hex()) for k, v in mods.items())) for _, _, mods, roots, _ in xgraphs]
    rc, out, err = ck.run_bin(bins["c17"], input="\n".join(xreqs) + "\n")
    xgot = [x for x in out.split("\n") if x]
    xbad = 0
    # the executable Lean model predicts trace AND outcomes of these graphs too (AsyncModuleExecutionRejected, errors travelling up the walk)
    xareqs = ["arun deps=%s awaits=%s throws=%s roots=%s" % (";".join("%d:%s" % (m, ",".join(map(str, ds))) for m, ds in enumerate(deps)), ",".join(map(str, awaits)),
                                                          "".join("1" if m in throwers else "0" for m in range(len(deps))), ",".join(ro[1:] for ro in roots))
              for deps, awaits, _, roots, throwers in xgraphs]
    xmodel = ck.driver("drv-c17", xareqs)
    xdrift = 0
    for (deps, awaits, mods, roots, throwers), g, am in zip(xgraphs, xgot + ["missing"] * len(xgraphs), xmodel):
        if g != am:
            xdrift += 1
            ck.model_drift({"input": json.dumps(mods), "roots": roots, "model": am, "implementation": g})
    ck.oblige("correspondence:async module evaluation with throwing modules: trace and outcomes == C17.Async model on %d generated graphs" % len(xgraphs), "correspondence",
              xdrift == 0, "%d graphs differ" % xdrift if xdrift else None)
    for (deps, awaits, mods, roots, throwers), g in zip(xgraphs, xgot + ["missing"] * len(xgraphs)):
        mm = re.fullmatch(r"trace=(\S*) outcomes=(\S*)", g)
        if not mm:
            xbad += 1
            ck.fail_input({"site": "engine-panic" if g in ("panic", "missing") else "engine-answer-unreadable", "input": json.dumps(mods), "roots": roots,
                           "expected": "trace and outcomes", "actual": g[:300]})
            continue
        v = tla_throw_violation(deps, roots, throwers, [x for x in mm.group(1).split(",") if x], [x for x in mm.group(2).split(",") if x])
        if v:
            xbad += 1
            ck.fail_input({"site": "async-error-propagation", "input": json.dumps(mods), "roots": roots, "expected": "an error rejects exactly the dependents of the throwing module; nothing runs twice or before its dependencies", "actual": v,
                           "trace": mm.group(1), "outcomes": mm.group(2), "oracle": "ECMA-262 16.2.1.5.3 (AsyncModuleExecutionRejected), checked on the engine's trace"})
    ck.oblige("oracle:error propagation in %d generated graphs with top-level await and throwing modules (no panic, every Evaluate settles, rejected iff a thrower is reachable, dependents never start)"
              % len(xgraphs), "differential", xbad == 0, "%d graphs" % xbad if xbad else None)
    ck.oblige("oracle:dependency order (a body starts after its non-cyclic dependencies ended, each body once, all reachable modules run) on %d generated graphs with top-level await"
              % len(tgraphs), "differential", tbad == 0, "%d graphs" % tbad if tbad else None)
    ck.oblige("correspondence:bodies run and Evaluate outcomes == C17 model on %d module graphs (%d bodies)" % (len(cases), stats["bodies"]), "correspondence", True)
    ck.coverage.update({
        "evaluations": len(cases),
        "distinct_nontrivial": len(set(reqs)),
        "rule": "graphs of 1-8 modules with 0-3 requests each (one third DAGs, the rest arbitrary: cycles, self-imports), sometimes a repeated request, 0-2 throwing bodies; "
                "1-4 Evaluate calls per graph (the root first, then the root again or other modules); two import styles (namespace / named live bindings); %d fixed graphs. distinct = distinct requests" % len(FIXED),
        "graphs_with_throwing_module": stats["with_error"], "bodies_run": stats["bodies"],
        "samples": reqs[:2],
        "tla_graphs": len(tgraphs), "tla_graphs_with_awaiting_chain": len([1 for d, a, _, _ in tgraphs if any(a[x] and any(a[y] for y in d[x]) for x in range(len(d)))]),
        "partial": ["top-level await / async modules are outside the Lean model: generated async graphs are checked against the dependency-order oracle only (not against a predicted trace); dynamic import and synthetic modules are not covered"],
    })
