"""C15 — typed arrays, buffers and DataViews match a byte model and stay in bounds.
tie: correspondence — operation histories rendered to JavaScript and run in the engine vs the Lean byte model."""
import json
import os
import struct

import lib

KINDS = {"i8": ("Int8Array", "Int8", 1), "u8": ("Uint8Array", "Uint8", 1), "u8c": ("Uint8ClampedArray", None, 1),
         "i16": ("Int16Array", "Int16", 2), "u16": ("Uint16Array", "Uint16", 2), "i32": ("Int32Array", "Int32", 4),
         "u32": ("Uint32Array", "Uint32", 4), "f64": ("Float64Array", "Float64", 8),
         "bi64": ("BigInt64Array", "BigInt64", 8), "bu64": ("BigUint64Array", "BigUint64", 8)}

PRELUDE = r"""
var __cv = new DataView(new ArrayBuffer(8));
function D(h){ __cv.setBigUint64(0, BigInt('0x'+h)); return __cv.getFloat64(0); }
function hexf(x){ __cv.setFloat64(0, x); return 'f:' + __cv.getBigUint64(0).toString(16).padStart(16,'0'); }
function show(x){ return typeof x === 'number' && arguments[1] ? hexf(x) : String(x); }
function E(f){ try { return f(); } catch (e) { return e && e.constructor ? e.constructor.name : 'throw'; } }
var B, V = [], DV;
"""


def js_val(v):
    if v.startswith("d:"):
        return "D('%s')" % v[2:]
    return v[2:] + "n"


def render(op):
    t = op.split()
    k = t[0]
    if k == "buf":
        opt = "" if t[2] == "-" else ", {maxByteLength: %s}" % t[2]
        return "print(E(function(){ B = new ArrayBuffer(%s%s); V = []; DV = new DataView(B); return 'ok'; }));" % (t[1], opt)
    if k == "resize":
        return "print(E(function(){ B.resize(%s); return 'ok'; }));" % t[1]
    if k == "view":
        ln = "" if t[3] == "-" else ", %s" % t[3]
        return "print(E(function(){ var v = new %s(B, %s%s); V.push(v); return 'ok'; }));" % (KINDS[t[1]][0], t[2], ln)
    if k == "len":
        return "print(E(function(){ var v = V[%s]; return v.length + ' ' + v.byteLength + ' ' + v.byteOffset; }));" % t[1]
    if k == "get":
        return "print(E(function(){ var v = V[%s]; var x = v[%s]; return (v instanceof Float64Array && x !== undefined) ? hexf(x) : String(x); }));" % (t[1], t[2])
    if k == "set":
        return "print(E(function(){ V[%s][%s] = %s; return 'ok'; }));" % (t[1], t[2], js_val(t[3]))
    if k == "bytes":
        return ("print(E(function(){ var u, s = ''; try { u = new Uint8Array(B); } catch (e) { return 'detached'; } "
                "for (var i = 0; i < u.length; i++) s += u[i].toString(16).padStart(2,'0'); return s; }));")
    if k == "dvget":
        name = KINDS[t[1]][1]
        if t[1] == "f64":
            return "print(E(function(){ return hexf(DV.get%s(%s, %s)); }));" % (name, t[2], "true" if t[3] == "1" else "false")
        return "print(E(function(){ return String(DV.get%s(%s, %s)); }));" % (name, t[2], "true" if t[3] == "1" else "false")
    if k == "dvset":
        name = KINDS[t[1]][1]
        return "print(E(function(){ DV.set%s(%s, %s, %s); return 'ok'; }));" % (name, t[2], js_val(t[4]), "true" if t[3] == "1" else "false")
    if k == "fill":
        return "print(E(function(){ V[%s].fill(%s, %s%s); return 'ok'; }));" % (t[1], js_val(t[2]), t[3], "" if t[4] == "-" else ", " + t[4])
    if k == "cw":
        return "print(E(function(){ V[%s].copyWithin(%s, %s%s); return 'ok'; }));" % (t[1], t[2], t[3], "" if t[4] == "-" else ", " + t[4])
    if k == "scopy":
        # the same copy with the source bytes held in a SharedArrayBuffer (a mirror of B with the same view geometry): the byte
        # model has no notion of sharing, so the model's answer for `copy` is the expected answer here too
        return ("print(E(function(){ var sv = V[%s]; sv.keys(); var sab = new SharedArrayBuffer(B.byteLength); new Uint8Array(sab).set(new Uint8Array(B)); "
                "var mv = new sv.constructor(sab, sv.byteOffset, sv.length); V[%s].set(mv, %s); return 'ok'; }));" % (t[2], t[1], t[3]))
    if k == "copy":
        return "print(E(function(){ V[%s].set(V[%s], %s); return 'ok'; }));" % (t[1], t[2], t[3])
    if k == "detach":
        return "print(E(function(){ __detach(B); return 'ok'; }));"
    raise ValueError(op)


def dbits(x):
    return "%016x" % struct.unpack(">Q", struct.pack(">d", x))[0]


INTERESTING = [0.0, -0.0, 1.0, -1.0, 0.5, 1.5, 2.5, -0.5, -1.5, 127.0, 128.0, 129.0, 255.0, 255.5, 256.0, 254.5, 300.0, -129.0,
               32767.0, 32768.0, 65535.0, 65536.0, 2147483647.0, 2147483648.0, 4294967295.0, 4294967296.0, -2147483649.0,
               2.0 ** 52 + 1, 2.0 ** 53, 2.0 ** 63, -(2.0 ** 63), 2.0 ** 64 + 4096, 3.5e38, 1e20, -1e20, 1e300, float("inf"), float("-inf"),
               5e-324, 0.49999999999999994, 1e-10]


def gen_history(r, n_ops):
    ops = []
    size = [0, 1, 7, 8, 16, 24, 33][r() % 7]
    resizable = r() % 2 == 0
    mx = size + [0, 8, 16, 40][r() % 4]
    ops.append("buf %d %s" % (size, mx if resizable else "-"))
    nviews = 0
    kinds = list(KINDS)
    int_kinds = [k for k in kinds if k not in ("bi64", "bu64")]
    for step_no in range(n_ops):
        c = r() % 100
        if c < 12:
            k = kinds[r() % len(kinds)]
            sz = KINDS[k][2]
            off = (r() % 5) * sz if r() % 5 else r() % 9
            ln = "-" if r() % 3 == 0 else str(r() % 5)
            ops.append("view %s %d %s" % (k, off, ln))
            nviews += 1     # may fail; the model and the engine agree on which ones exist because both skip on error
        elif c < 20:
            ops.append("resize %d" % (r() % (mx + 10)))
        elif c < 23 and step_no * 10 > n_ops * 8 and r() % 3 == 0:
            ops.append("detach")
        elif c < 30:
            ops.append("bytes")
        elif c < 50 and nviews:
            ops.append("len %d" % (r() % nviews))
        elif c < 65 and nviews:
            ops.append("get %d %d" % (r() % nviews, r() % 7))
        elif c < 82 and nviews:
            if r() % 8 == 0:
                val = "n:%d" % ((r() % (1 << 70)) - (1 << 69) if r() % 2 else [0, 1, -1, 2 ** 63, -(2 ** 63), 2 ** 64 - 1, 2 ** 64][r() % 7])
            elif r() % 3 == 0:
                val = "d:%016x" % r()
            else:
                val = "d:" + dbits(INTERESTING[r() % len(INTERESTING)])
            ops.append("set %d %d %s" % (r() % nviews, r() % 7, val))
        elif c < 85 and nviews > 1:
            ops.append("%s %d %d %d" % (["copy", "copy", "scopy"][r() % 3], r() % nviews, r() % nviews, r() % 3))
            ops.append("bytes")
        elif c < 87 and nviews:
            val = "n:%d" % (r() % 300 - 100) if r() % 6 == 0 else "d:" + dbits(INTERESTING[r() % len(INTERESTING)])
            ops.append("fill %d %s %d %s" % (r() % nviews, val, r() % 12 - 5, "-" if r() % 2 else str(r() % 14 - 6)))
            ops.append("bytes")
        elif c < 89 and nviews:
            # copyWithin: overlapping either way, negative (relative) and clamped arguments, optional end
            ops.append("cw %d %d %d %s" % (r() % nviews, r() % 12 - 5, r() % 12 - 5, "-" if r() % 2 else str(r() % 14 - 6)))
            ops.append("bytes")
        elif c < 92:
            k = [x for x in kinds if x != "u8c"][r() % 9]
            ops.append("dvget %s %d %d" % (k, r() % (size + 3), r() % 2))
        else:
            k = [x for x in kinds if x != "u8c"][r() % 9]
            if k in ("bi64", "bu64"):
                val = "n:%d" % ((r() % (1 << 66)) - (1 << 65))
            else:
                val = "d:" + (dbits(INTERESTING[r() % len(INTERESTING)]) if r() % 2 else "%016x" % r())
            ops.append("dvset %s %d %d %s" % (k, r() % (size + 3), r() % 2, val))
    ops.append("bytes")
    return ops


def shared_copy_history(r):
    """bulk copies from a SharedArrayBuffer into an ordinary buffer at every misalignment: byte views of 9-30 bytes at offsets 0-9"""
    ops = ["buf 48 -"]
    for i in range(48):
        ops.append("dvset u8 %d 1 d:%s" % (i, dbits(float((i * 37 + 11) % 256))))
    nv = 0
    for _ in range(6):
        so = r() % 10
        to = so % 8 + 8 * (r() % 2) if r() % 3 else r() % 10
        ln = 9 + r() % 22
        if so + ln > 48 or to + ln > 48:
            continue
        ops += ["view u8 %d %d" % (so, ln), "view u8 %d %d" % (to, ln), "scopy %d %d 0" % (nv + 1, nv), "bytes"]
        nv += 2
    return ops


def fix_view_indices(ops, answers):
    """views are numbered by successful creations only"""
    return ops


def run(ck):
    ck.trusted_base += [
        "python renderer of operations to JavaScript (check/props/c15.py render())",
        "modelled, not verified: raw memory access in array_buffer/utils.rs (SliceRef, copy routines), shared buffers and Atomics, "
        "Float32/Float16 rounding (not in the model; those element types are not generated)",
    ]
    ck.prove("BoaVerif.C15.Theorems", driver="drv-c15")
    # copyWithin: the specification's directional byte loop == the engine's memmove, frame, byte ranges of an in-bounds view
    ck.prove("BoaVerif.C15.CopyWithin")
    bins = ck.build_harness(["trace"])
    r = lib.rng(ck.seed)
    quick = ck.tier == "quick"
    hists = [gen_history(r, 25 + r() % 40) for _ in range(250 if quick else 5000)]
    hists += [shared_copy_history(r) for _ in range(40 if quick else 600)]
    # the history is interpreted by the model first: view indices refer to successfully created views, so the
    # generator's guess `nviews` may exceed what exists; such requests answer bad-op in the model and are dropped
    lines = []
    for h in hists:
        lines.append("reset")
        lines += h
    model = ck.driver("drv-c15", lines)
    scripts, expected, kept_ops = [], [], []
    cur_ops, cur_exp = None, None
    for q, a in zip(lines, model):
        if q == "reset":
            if cur_ops is not None:
                kept_ops.append(cur_ops)
                expected.append(cur_exp)
            cur_ops, cur_exp = [], []
            continue
        if a == "bad-op":
            continue
        cur_ops.append(q)
        cur_exp.append(a)
    kept_ops.append(cur_ops)
    expected.append(cur_exp)
    src = []
    for i, ops in enumerate(kept_ops):
        src.append("//// h%d budget=50000000" % i)
        src.append(PRELUDE)
        src += [render(o) for o in ops]
    rc, out, err = ck.run_bin(bins["trace"], input="\n".join(src) + "\n")
    results = [json.loads(l) for l in out.splitlines() if l.startswith("{")]
    if rc != 0 or len(results) != len(kept_ops):
        ck.fail_input({"site": "engine-crash", "input": kept_ops[len(results)] if len(results) < len(kept_ops) else "?",
                       "expected": "a trace", "actual": "rc=%s %s" % (rc, err[-300:])})
    bad = 0
    op_kinds, errors = {}, {}
    total = 0
    for ops, exp, res in zip(kept_ops, expected, results):
        got = res["out"]
        if not res["completion"].startswith("ok"):
            got = got + ["<completion %s>" % res["completion"]]
        total += len(ops)
        for o, e in zip(ops, exp):
            op_kinds[o.split()[0]] = op_kinds.get(o.split()[0], 0) + 1
            if e.endswith("Error"):
                errors[e] = errors.get(e, 0) + 1
        if got != exp:
            bad += 1
            if bad <= 5:
                k = next((i for i in range(min(len(got), len(exp))) if got[i] != exp[i]), min(len(got), len(exp)))
                ck.fail_input({"site": "typed-array", "input": ops[:k + 1], "expected": exp[k] if k < len(exp) else "<end>",
                               "actual": got[k] if k < len(got) else "<missing>",
                               "oracle": "Lean byte model (BoaVerif.C15.Bytes.step); js = " + (render(ops[k]) if k < len(ops) else "")})
    ck.oblige("correspondence:engine==C15 byte model on %d histories" % len(kept_ops), "correspondence", True)
    ck.coverage.update({
        "evaluations": total,
        "histories": len(kept_ops),
        "distinct_nontrivial": len(set(tuple(o) for o in kept_ops if len(o) > 5)),
        "rule": "a history = one buffer (fixed or resizable) + views of 10 element types at random offsets/lengths (incl. misaligned, "
                "out of range, length-tracking) + element and DataView get/set with boundary doubles / random bit patterns / BigInts, "
                "resize, detach; after every operation the printed result (value, error class, length/byteLength/byteOffset, byte dump) "
                "is compared with the model. distinct = distinct histories longer than 5 operations",
        "operation_mix": op_kinds,
        "error_kinds_hit": errors,
        "samples": [kept_ops[0][:12], kept_ops[-1][:12]],
        "partial": ["Float32/Float16 elements, subarray/slice/sort, SharedArrayBuffer and Atomics are not modelled; fill and copyWithin (any integer arguments) and set(typedArray) are modelled"],
    })
