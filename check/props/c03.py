"""C03 — every compiled code block is well-formed on all of its paths.
tie: (i) translator: the opcode/operand table of the Lean model is regenerated from vm/opcode/mod.rs on every run;
(ii) the compiled blocks themselves are the model's input: every code block the compiler emits for a generated program
(dumped by the boa_verif hook) is translated to a Lean `Block`, an annotation is inferred and the PROVED-sound `check`
decides it for all paths; (iii) correspondence of the hand-written part of the model (opcode effects, entry state,
handler entry state, env_fp) with the VM: a per-instruction probe records the real depths while the programs run and every
observation must be a state of the accepted annotation."""
import collections
import os
import re
import sys

import bytecode
import jsgen
import lib

CORPUS = [
    # return through finally blocks, nested, with catches inside the finally block
    "function f(){ try { return 42 } finally { try { throw 1 } catch(e) { print('c') } } } print(f());",
    "function h(){ try { return 1 } finally { L: { try { return 2 } finally { break L; } } } } print(h());",
    "function g(){ for (var x of [1,2]) { try { return x } finally { try { null.x } catch {} } } } print(g());",
    "function k(a){ L: for (var i = 0; i < 3; i++) { try { if (a) continue L; return i; } finally { print('f', i); } } return 'end'; } print(k(0), k(1));",
    "function m(){ do { try { continue; } finally { print('fin'); } } while (false); switch (1) { case 1: try { break; } finally { print('s'); } } } m();",
    # leaving blocks that own an environment (captured let, with, catch parameter) through a finally block
    "function f(o){ try { with (o) { return x; } } finally { print('f'); } } print(f({x: 1}));",
    "function g(){ try { { let a = 1; var c = () => a; return c(); } } finally { let b = 2; var d = () => b; print(d()); } } print(g());",
    "function h(){ for (let i = 0; i < 2; i++) { try { let q = () => i; if (i) return q(); } finally { print(i); } } } print(h());",
    "function k(){ try { try { throw 1; } catch (e) { var z = () => e; return z(); } } finally { print('x'); } } print(k());",
    "function m(){ L: for (let i = 0; i < 2; i++) { try { let a = i; var w = () => a; if (a) break L; continue L; } finally { print(w()); } } } m();",
    "function* gg(){ try { { let a = 1; var c = () => a; yield c(); return 2; } } finally { print('gf'); } } print([...gg()].length);",
    # generators and async forms
    "function* g1(){ try { var x = yield 1; print(x); yield* [2, 3]; return 4; } finally { print('gfin'); } } var it = g1(); print(it.next().value, it.next('v').value, it.return(9).value);",
    "function* g2(){ for (var i = 0; i < 3; i++) { try { yield i; } catch (e) { print('caught', e); } } } var j = g2(); j.next(); print(j.throw('T').value); print([...g2()].length);",
    "async function a1(){ try { await 1; for await (const v of [1, Promise.resolve(2)]) { print(v); } return await 5; } catch (e) { print(e); } finally { print('afin'); } } a1().then(print);",
    "async function* ag(){ try { yield 1; var r = yield* [2, 3]; return 5; } finally { try { throw 0 } catch {} } } (async function(){ for await (const v of ag()) print(v); var q = ag(); await q.next(); print(JSON.stringify(await q.return(7))); })();",
    "async function a2(){ try { await Promise.reject(new Error('x')); } catch ({message}) { print(message); } } a2();",
    # classes: derived constructors, super calls with spread, private members, accessors, static blocks
    "class A { constructor(...a){ this.a = a; } m(){ return 1; } static s(){ return 2; } } class B extends A { #p = 3; static #q = 4; constructor(){ super(...[1, 2], 3); } m(){ return super.m() + this.#p; } get #g(){ return 1; } static t(){ return B.#q + super.s(); } has(o){ return #p in o; } } print(new B().m(), B.t(), new B().has({}));",
    "class C extends Array { } class D extends C { constructor(){ super(1, 2); this.x = new.target === D; } } print(new C(3).length, new D().x); class E extends Object { f = () => super.toString; static { print('static'); } } print(typeof new E().f());",
    "class F { static #c = 0; static inc(){ return ++F.#c; } #m(){ return this; } static [Symbol.iterator](){ return [][Symbol.iterator](); } set v(x){ this._v = x; } get v(){ return this._v; } } print(F.inc(), [...F].length); var o = new F(); o.v = 2; o.v += 3; print(o.v);",
    # calls: spread, optional, tagged templates, eval, new with spread, arguments objects
    "function f(a, b = a, {c, d = 2} = {}, ...r){ return [a, b, c, d, r.length, arguments.length].join(); } print(f(1), f(...[1, 2, {c: 3}], 4, 5), f?.(6), new Date(...[2020, 1]).getFullYear());",
    "function t(s, ...v){ return s.raw.join('|') + v.join(); } print(t`a${1}b${2}c`, String.raw`x\\n${1}`); var o = {f(){ return this.x; }, x: 1}; print(o?.f(), o.g?.(), o['f']?.(), (0, o.f)?.call(o));",
    "function m(a, b){ 'use strict'; arguments[0] = 9; return a; } function n(a, b){ arguments[0] = 9; return a; } print(m(1), n(1)); var x = 1; print(eval('var y = x + 1; y'), (0, eval)('typeof y'), eval?.('1'));",
    # binding forms: with, delete, typeof of undeclared, logical assignment on every binding kind
    "var i = 1, v; v = 'x' + (i ??= 3); print(i, v); var j; v = 'y' + (j ||= 5); print(j, v); let l = 0; l &&= 2; l ||= 3; print(l); var o = {p: null}; o.p ??= 4; o['q'] ||= 5; print(o.p, o.q);",
    "var w = {x: 1, y: 2}; with (w) { x = 5; y += x; var z = x; delete y; x ||= 7; print(typeof y, typeof nope); } print(w.x, z); function fw(o){ with (o) { return function(){ return x; }; } } print(fw({x: 3})());",
    "var d = {a: 1, get b(){ return 2; }}; delete d.a; print('a' in d, delete d['b'], delete d, typeof d, void 0); var u; print(u?.x, u ?? 'n'); try { undeclared = 1; } catch (e) {} try { 'use strict'; (function(){ 'use strict'; und2 = 1; })(); } catch (e) { print(e.name); }",
    # destructuring and iteration protocol (iterator close on break / throw)
    "var it = {[Symbol.iterator](){ return {next(){ return {done: false, value: 1}; }, return(){ print('closed'); return {}; }}; }}; for (var q of it) { break; } var [a1] = it; try { for (var q2 of it) { throw 1; } } catch {} L: for (var q3 of it) { for (var q4 of it) { continue L; } }",
    "var {a, b: {c = 5} = {}, ...rest} = {a: 1, d: 2, e: 3}; var [x, , y = 3, ...zs] = 'abcdef'; [a, x] = [x, a]; ({a, ['b' + 1]: x} = {a: 7, b1: 8}); print(a, c, Object.keys(rest), x, y, zs.length); for (var [k, v] of Object.entries({p: 1})) print(k, v); for (let {length} of ['ab']) print(length);",
    # switch, labelled blocks, comma, exponent, bigint, update expressions on members
    "function s(x){ switch (x) { case 1: return 'one'; case 2: { let y = 2; x += y; } case 3: x++; break; default: x = -1; case 4: x *= 2; } return x; } print(s(1), s(2), s(3), s(4), s(5)); B: { print('in'); if (s(1)) break B; print('not'); }",
    "var o = {n: 1, s: 'a'}; o.n++; ++o['n']; o.n **= 2; o.s += 1; var b = 2n ** 64n; b++; print(o.n, o.s, b, -b, typeof b, 2 ** -1, (-2) ** 2, 7 % -3, 1 / 0, 5 >>> 1, ~5, !o, +'3', -'x');",
    "var n = null; print(n?.a.b.c, n?.[1], n?.(), typeof n, n == undefined, n === undefined, [1, 2, 3].at(-1), [..'ab', ...[1]].length, {...{a: 1}, b: 2}.b, 'x' in {x: 1}, [] instanceof Array);".replace("..'ab'", "...'ab'"),
    # closures over loop variables, TDZ, function hoisting in blocks, default parameter scope
    "var fs = []; for (let i = 0; i < 3; i++) { fs.push(() => i); } print(fs.map(f => f()).join()); try { tdz; let tdz = 1; } catch (e) { print(e.name); } { function hoisted(){ return 1; } } print(typeof hoisted); function dp(a, b = () => a){ var a = 2; return b(); } print(dp(1));",
    "function outer(){ var x = 1; function inner(){ return x + (function(){ return x; })(); } { let x = 5; var g = () => x; } return inner() + g(); } print(outer()); var self = function me(n){ return n ? me(n - 1) + 1 : 0; }; print(self(3));",
    # getters/setters/defineProperty paths through the property opcodes, symbols, computed keys, proto literal
    "var sy = Symbol('s'); var o = {__proto__: {inherited: 1}, [sy]: 2, ['k' + 1]: 3, get g(){ return 4; }, set g(v){ this._g = v; }, m(){ return super.inherited; }, async am(){}, *gm(){}, async *agm(){}}; o.g = 9; print(o.inherited, o[sy], o.k1, o.g, o._g, o.m(), typeof o.am, typeof o.gm, typeof o.agm);",
    "var re = /a(b)?/gi; print(re.exec('xabAB').index, 'aXbX'.replace(/x/gi, '-'), `a${1}${'b'}c`.length, typeof `x`); label1: label2: for (;;) { break label1; } do ; while (0); if (0) ; else ; for (var q in null) ; for (var q of []) ;",
]


UNGUARDED = []      # (program, block) pairs without a loop-counter ranking: C08's concern, collected here


def programs(ck):
    r = lib.rng(ck.seed)
    quick = ck.tier == "quick"
    out = list(CORPUS)
    for i in range(260 if quick else 5000):
        out.append(jsgen.gen_program(r, 4, strict=(i % 4 == 0)))
    return out


def parse_answer(a):
    """-> (verdict, guarded, {pc: set(states)}, text)"""
    import re
    t = a.split()
    verdict = t[0]
    guarded = "guarded=1" in t[1:2]
    ann = {}
    for x in t:
        if re.fullmatch(r"\d+:\d+:\d+:\d+", x):
            pc, ar, en, bi = map(int, x.split(":"))
            ann.setdefault(pc, set()).add((ar, en, bi))
    return verdict, guarded, ann, a.split("|")[0][:300] if verdict in ("merge", "shallow") else " ".join(x for x in t if ":" not in x or "=" in x)[:300]


def assign_env_fp(blocks):
    """env_fp of every block of one script: a closure captures the creator's environment chain, so a function created by
    `GetFunction` at environment depth e of a block with env_fp P runs with env_fp P + e; functions of the script
    declared at top level are instantiated with the global chain (0). A function without a reachable creation site
    gets None (its locator check is skipped: nothing can call it)."""
    pos = [0]

    def build(i, fp):
        b = blocks[i]
        b["fp"] = fp
        sites = {}
        for pc, op, text in b["instrs"]:
            if op == "GetFunction":
                _, idx, _, _ = bytecode.parse_operands(text, op)
                ci = dict(idx).get("index")
                sites.setdefault(ci, set())
                for st in b["ann1"].get(pc, ()):
                    sites[ci].add(st[1])
        for ci in b["fnconsts"]:
            pos[0] += 1
            if pos[0] >= len(blocks):
                return
            es = sites.get(ci, {0} if i == 0 else set())
            build(pos[0], None if (fp is None or len(es) != 1) else fp + min(es))
    if blocks:
        build(0, 0)


def verify(ck, bins, progs, tag, run=True):
    """dump + verify + (optionally) probe a list of programs. Returns stats and reports findings on ck."""
    st = collections.Counter()
    ops_seen = collections.Counter()
    rejects = []
    CH = 250
    for base in range(0, len(progs), CH):
        chunk = progs[base:base + CH]
        src = "\n".join("//// %s%d run=%d\n%s" % (tag, base + i, 1 if run else 0, p) for i, p in enumerate(chunk))
        rc, out, err = ck.run_bin(bins["dump"], input=src + "\n")
        if rc != 0:
            ck.fail_input({"site": "engine-crash", "input": "chunk %s%d.." % (tag, base), "expected": "dump of every program",
                           "actual": "rc=%s %s" % (rc, err[-400:])})
            continue
        d = bytecode.parse_dump(out)
        meta = []
        for i, p in enumerate(chunk):
            v = d.get("%s%d" % (tag, base + i))
            if v is None:
                st["missing"] += 1
                continue
            st["status:" + v["status"]] += 1
            if v["status"] == "panic":
                ck.fail_input({"site": "compile-panic", "input": p, "expected": "a code block or a syntax error", "actual": "panic while compiling/dumping"})
            for b in v["blocks"]:
                meta.append((p, b, v))
        if not meta:
            continue
        ans1 = ck.driver("drv-c03", [bytecode.block_request(b) for _, b, _ in meta])
        for (_, b, _), a in zip(meta, ans1):
            b["ann1"] = parse_answer(a)[2]
        for i, p in enumerate(chunk):
            v = d.get("%s%d" % (tag, base + i))
            if v:
                assign_env_fp(v["blocks"])
        ans = ck.driver("drv-c03", [bytecode.block_request(b, b.get("fp")) for _, b, _ in meta])
        for (p, b, v), a in zip(meta, ans):
            st["blocks"] += 1
            st["instructions"] += len(b["instrs"])
            st["handlers"] += len(b["handlers"])
            if b.get("fp") is not None:
                st["blocks_with_env_fp"] += 1
            for _, op, _ in b["instrs"]:
                ops_seen[op] += 1
            verdict, guarded, ann, text = parse_answer(a)
            b["verdict"], b["guarded"], b["ann"] = verdict, guarded, ann
            st["verdict:" + verdict] += 1
            st["guarded:%d" % guarded] += 1
            if not guarded:
                UNGUARDED.append((p, b))
            # ---- correspondence of the model with the VM on the executed paths
            obs_bad = []
            ops = {pc: op for pc, op, _ in b["instrs"]}
            for (bid, pc), obs in v["probe"].items():
                if bid != b["id"]:
                    continue
                for o in obs:
                    st["observations"] += 1
                    if verdict in ("ok", "merge", "shallow") and o[:3] not in ann.get(pc, ()):
                        obs_bad.append((pc, ops.get(pc), o[:3], sorted(ann.get(pc, ()))))
                    if b.get("fp") is not None and o[3] != b["fp"]:
                        obs_bad.append((pc, "env_fp", o[3], b["fp"]))
            if obs_bad:
                st["blocks_model_differs"] += 1
                ck.model_drift({"input": p, "block": b["name"], "model": "pc %d %s: annotated %s" % (obs_bad[0][0], obs_bad[0][1], obs_bad[0][3]),
                                "implementation": "observed (temps, envs, binding refs) = %s" % (obs_bad[0][2],)})
            if verdict not in ("ok",):
                rejects.append((p, b, text, bool(obs_bad)))
    return st, ops_seen, rejects


def run(ck):
    ck.trusted_base += [
        "translate/opcodes.py (text-level translator of the generate_opcodes! table; fail-closed)",
        "boa_verif hooks: verif::dump_code_blocks (CodeBlock's own Display) and the per-instruction probe in Context::execute_one",
        "check/bytecode.py (parser of the disassembly: operand kinds by syntax, aliases for the four operands Display renames)",
        "modelled, not verified: the opcode effect table (C03/Model.lean `effect`), the entry state (environments pushed by "
        "function_call), the handler entry state (handle_exception_at) and env_fp propagation — each is validated against the "
        "running VM by the probe on every run; code that is compiled at run time (eval, Function()) is not dumped",
    ]
    rc, out, err = lib.sh([sys.executable, os.path.join(lib.ROOT, "translate", "opcodes.py")])
    ck.oblige("translate:vm/opcode/mod.rs->Gen/Opcodes.lean", "translator", rc == 0, None if rc == 0 else (out + err)[-800:])
    ck.prove("BoaVerif.C03.Theorems", driver="drv-c03")
    bins = ck.build_harness(["dump"])
    progs = programs(ck)
    st, ops_seen, rejects = verify(ck, bins, progs, "p")
    # ---- every block must pass the check that is proved sound
    for p, b, text, drift in rejects:
        if drift:
            continue        # the model itself is off on this block: reported as drift, not as a finding against boa
        site = "block-rejected"
        if "operand-out-of-range" in text:
            site = "operand-out-of-range"
        elif "binding-locator" in text:
            site = "binding-locator-beyond-chain"
        elif "operands-differ-from-table" in text or "opcode-not-in-table" in text:
            ck.model_drift({"input": p, "block": b["name"], "model": text, "implementation": "disassembly names operands the translated table does not"})
            continue
        elif text.startswith("merge"):
            site = "depths-disagree-at-merge"
            ops = set(re.findall(r"/op=(\w+)/", text))
            first = re.search(r"shallow=(\d+)/op=(\w+)/", text)
            if "envonly=1" in text and "athandler=1" in text and first and first.group(2) == "IteratorReturn":
                # the clean-up a return/break/continue emits on its way out of a for-of loop (PopEnvironment, IteratorReturn)
                # lies inside the range of the loop's own iterator-close handler, which restores the loop body's depth
                site = "loop-exit-cleanup-inside-handler-range"
        elif text.startswith("shallow"):
            # everything else about the block is consistent; only the handler's assumption about the chain fails
            ops = sorted(set(re.findall(r"/op=(\w+)/", text)))
            site = "handler-entered-below-its-environment-count:" + ",".join(ops)
        elif "depth-underflow" in text:
            site = "depth-underflow-or-handler-deeper-than-chain"
        ck.fail_input({"site": site, "input": p, "block": b["name"], "expected": "check (C03.check, proved sound by check_sound) accepts the block",
                       "actual": text, "oracle": "static verifier over all control-flow paths of the dumped block"})
    total_ops = None
    try:
        gen = open(os.path.join(lib.LEAN, "BoaVerif", "Gen", "Opcodes.lean")).read()
        total_ops = gen.count('  ("')
    except OSError:
        pass
    ck.oblige("correspondence:VM depths at every executed instruction ∈ accepted annotation (%d observations over %d blocks)"
              % (st["observations"], st["blocks"]), "correspondence", st["blocks_model_differs"] == 0,
              "%d blocks differ" % st["blocks_model_differs"] if st["blocks_model_differs"] else None)
    ck.coverage.update({
        "evaluations": st["blocks"],
        "programs": len(progs),
        "distinct_nontrivial": len(set(progs)),
        "rule": "a program = the fixed construct corpus (%d entries) or a generated closed program (declarations, all loop forms with labels, "
                "try/catch/finally, functions/generators/async functions, classes, with, eval, destructuring); every code block of "
                "every program (recursively through function constants) is verified; distinct = distinct program texts" % len(CORPUS),
        "blocks": st["blocks"], "instructions": st["instructions"], "handlers": st["handlers"],
        "blocks_with_env_fp": st["blocks_with_env_fp"],
        "verdicts": {k[8:]: v for k, v in st.items() if k.startswith("verdict:")},
        "script_status": {k[7:]: v for k, v in st.items() if k.startswith("status:")},
        "opcodes_seen": len(ops_seen), "opcodes_in_table": total_ops,
        "opcodes_never_seen": sorted(set(_table_ops()) - set(ops_seen))[:80],
        "probe_observations": st["observations"],
        "samples": [progs[0], progs[-1][:400]],
        "partial": ["blocks compiled at run time (eval, Function constructor, modules) are not dumped",
                    "opcodes never produced by the generated programs have an unvalidated effect entry (listed under opcodes_never_seen)"],
    })


def _table_ops():
    import re
    try:
        gen = open(os.path.join(lib.LEAN, "BoaVerif", "Gen", "Opcodes.lean")).read()
    except OSError:
        return []
    return re.findall(r'^  \("([A-Za-z0-9]+)"', gen, re.M)
