"""C20 — evaluation is deterministic and contexts / realms are isolated from each other.
model: (1) [[OwnPropertyKeys]] over a storage whose iteration order is arbitrary (lean/BoaVerif/C20: the reported order
is a function of the operation history alone); (2) a world of realm states (a script's trace depends on its own realm
only); (3) the inventory of `static` / `thread_local!` items of the engine's crates, regenerated from the source on every
run, each with a recorded reason why it is not script-visible mutable state.
tie: key-order histories and realm-slot scripts run on the engine and on the model; the property itself is decided by
repeating programs under different histories (other contexts, other realms, sabotaged intrinsics, padded heaps, separate
processes) and comparing traces byte for byte."""
import json
import os
import sys

import jsgen
import lib

IDX = [0, 1, 2, 3, 5, 7, 8, 9, 10, 11, 15, 16, 17, 31, 32, 33, 63, 64, 100, 255, 1000, 4095, 65535, 65536, 1 << 20, 2147483647, 2147483648, 4294967294]
STRS = ["a", "b", "c", "z", "-1", "01", "1.5", "4294967295", "4294967296", "1e3", " 1", "", "length2", "-0", "0x1", "9007199254740993", "Infinity", "NaN", "__proto__x", "constructor"]
NSYM = 4


def key_js(k):
    if k[0] == "i":
        return str(k[1]) if k[1] % 2 else "'%d'" % k[1]
    if k[0] == "s":
        return json.dumps(STRS[k[1]])
    return "S[%d]" % k[1]


def key_tok(k):
    return "%s%d" % ({"i": "i", "s": "s", "y": "y"}[k[0]], k[1])


def gen_history(r):
    n = 3 + r() % 14
    pool = []
    for _ in range(2 + r() % 8):
        c = r() % 10
        if c < 5:
            pool.append(("i", IDX[r() % len(IDX)] if r() % 3 else r() % 12))
        elif c < 8:
            pool.append(("s", r() % len(STRS)))
        else:
            pool.append(("y", r() % NSYM))
    ops = []
    for _ in range(n):
        k = pool[r() % len(pool)]
        ops.append(("d" if r() % 4 == 0 else "s", k))
    return ops


KEYS_PRELUDE = "const S = [Symbol('0'), Symbol('1'), Symbol('2'), Symbol('3')];\nconst STRS = %s;\n" % json.dumps(STRS) + r"""
function tok(k) { if (typeof k === 'symbol') return 'y' + k.description; const n = Number(k); if (String(n >>> 0) === k && (n >>> 0) !== 4294967295) return 'i' + k; return 's' + STRS.indexOf(k); }
function show(o) {
  const all = Reflect.ownKeys(o).map(tok);
  const names = Object.getOwnPropertyNames(o).map(tok);
  const syms = Object.getOwnPropertySymbols(o).map(tok);
  const keys = Object.keys(o).map(tok);
  const forin = []; for (const k in o) forin.push(tok(k));
  const ent = Object.entries(o).map(e => tok(e[0]));
  const asg = Reflect.ownKeys(Object.assign({}, o)).map(tok);
  const spread = Reflect.ownKeys({...o}).map(tok);
  const js = Object.keys(JSON.parse(JSON.stringify(o))).map(tok);
  const desc = Reflect.ownKeys(Object.getOwnPropertyDescriptors(o)).map(tok);
  print(all.join() || '-');
  print([names.concat(syms).join() === all.join(), keys.join() === names.join(), forin.join() === keys.join(), ent.join() === keys.join(),
         asg.join() === all.join(), spread.join() === all.join(), js.join() === keys.join(), desc.join() === all.join()].join());
}
"""


def history_js(ops, r):
    style = r() % 4
    lines = [KEYS_PRELUDE, "const o = %s;" % ["{}", "Object.create(null)", "new (class {})()", "(function(){})"][r() % 3 if style != 3 else 0]]
    for op, k in ops:
        kj = key_js(k)
        if op == "s":
            if style == 1 or (style == 2 and r() % 2):
                lines.append("Object.defineProperty(o, %s, {value: 1, writable: true, enumerable: true, configurable: true});" % kj)
            else:
                lines.append("o[%s] = %d;" % (kj, r() % 5))
        else:
            lines.append(("delete o[%s];" if r() % 2 else "Reflect.deleteProperty(o, %s);") % kj)
    lines.append("show(o);")
    return "\n".join(lines)


# ------------------------------------------------------------------------------------------------ sabotage histories
SABOTAGE = r"""
(function () {
  const R = Reflect, ownKeys = R.ownKeys, gopd = R.getOwnPropertyDescriptor, dp = R.defineProperty, del = R.deleteProperty, spo = R.setPrototypeOf;
  const G = globalThis, P = print; const seen = [], stack = [G];
  function isObj(v) { return (typeof v === 'object' && v !== null) || typeof v === 'function'; }
  while (stack.length) {
    const o = stack.pop();
    if (seen.indexOf(o) >= 0 || seen.length > 1500) continue;
    seen[seen.length] = o;
    let ks = []; try { ks = ownKeys(o); } catch (e) {}
    for (let i = 0; i < ks.length; i++) {
      let d; try { d = gopd(o, ks[i]); } catch (e) { continue; }
      if (!d) continue;
      if (isObj(d.value)) stack[stack.length] = d.value;
      if (isObj(d.get)) stack[stack.length] = d.get;
      if (isObj(d.set)) stack[stack.length] = d.set;
    }
    let p = null; try { p = R.getPrototypeOf(o); } catch (e) {}
    if (isObj(p)) stack[stack.length] = p;
  }
  let n = 0;
  for (let j = 0; j < seen.length; j++) {
    const o = seen[j];
    let ks = []; try { ks = ownKeys(o); } catch (e) {}
    for (let i = 0; i < ks.length; i++) {
      const k = ks[i];
      if (o === G && (k === 'print' || k === '__share' || k === '__shared')) continue;
      try { if (MODE === 0) { del(o, k); } else if (MODE === 1) { dp(o, k, { value: 666 }); } else { dp(o, k, { get() { throw 'sabotaged'; }, set() { throw 'sabotaged'; } }); } n++; } catch (e) {}
      try { o[k] = 667; } catch (e) {}
    }
    try { o.__sab = 1; } catch (e) {}
    try { spo(o, null); } catch (e) {}
    try { R.preventExtensions(o); } catch (e) {}
  }
  P('sabotaged', seen.length > 100, n > 100);
})();
"""

HISTORIES = [
    "const MODE = 0;" + SABOTAGE,
    "const MODE = 1;" + SABOTAGE,
    "const MODE = 2;" + SABOTAGE,
    "Array.prototype.push = function () { return 42; }; Array.prototype[Symbol.iterator] = function* () { yield 'x'; }; Object.prototype.toString = () => 'T';"
    "Object.defineProperty(Object.prototype, '0', { get() { return 'p0'; }, set(v) {}, configurable: true }); Object.prototype.zz = 1;"
    "Function.prototype.call = function () { return 'c'; }; Promise.prototype.then = function () { return this; }; String.prototype.valueOf = () => 'v';"
    "globalThis.undefined2 = 1; globalThis.g0 = 'leak'; var g1 = 'leak'; Symbol.for('leak'); Math.max = () => -1; JSON.stringify = () => 'j'; Number.prototype.toString = () => 'n';"
    "Error.prototype.name = 'E'; TypeError.prototype.name = 'TE'; RegExp.prototype.exec = () => null; Map.prototype.set = function () { return this; }; print('h3');",
    "for (let i = 0; i < 300; i++) { const o = {}; for (let j = 0; j < 12; j++) o['k' + ((i * 7 + j * 13) % 40)] = j; for (let j = 0; j < 6; j++) delete o['k' + ((i + j) % 40)]; }"
    "const m = new Map(); for (let i = 0; i < 500; i++) m.set({}, i); const s = []; for (let i = 0; i < 200; i++) s.push(Symbol('s' + i)); print('churn', m.size, s.length);"
    "function mk(n) { return n ? [mk(n - 1), mk(n - 1)] : {}; } mk(9); print('deep');",
    "function tg(s) { return s; } var T1 = tg`EVIL ${0} TEMPLATE`; var T2 = tg`second\\n ${1} raw ${2}`; Array.prototype.poisoned = 'set by an earlier context';"
    "function again() { return tg`site ${3}`; } print('templates', T1.length, T2.raw.length, again() === again());",
    "let x = 0; const t = Promise.resolve(); for (let i = 0; i < 50; i++) t.then(() => x++); class A { static #p = 1; static m() { return A.#p; } } print('jobs', A.m());"
    "const wr = new WeakRef({}); const fr = new FinalizationRegistry(() => {}); fr.register({}, 1); const wm = new WeakMap(); wm.set({}, 1); eval('var viaEval = 1'); new Function('return 1')();",
]

# programs that are sensitive to ordering / identity / hidden state
ORDER_PROGS = [
    "const o = {}; for (const k of ['b', 2, 'a', 1, '10', '9', 'c', 4294967295, 4294967294, -1, '01']) o[k] = 1; print(Object.keys(o).join()); print(JSON.stringify(o));",
    "const a = []; a[100000] = 1; a[5] = 2; a.x = 3; a[70000] = 4; a[4294967295] = 5; print(Object.keys(a).join(), a.length); for (const k in a) print(k);",
    "const m = new Map(); const ks = [{}, [], 'a', 1, NaN, 0, -0, Symbol('s'), null, undefined, 1n, () => 1]; ks.forEach((k, i) => m.set(k, i)); m.delete('a'); m.set('a', 99); print([...m.values()].join());",
    "const s = new Set(); for (let i = 0; i < 50; i++) s.add({ i }); let out = []; for (const v of s) out.push(v.i); print(out.join());",
    "const ws = []; for (let i = 0; i < 20; i++) ws.push(Symbol('s' + i)); const o = {}; ws.slice().reverse().forEach(s => o[s] = 1); print(Object.getOwnPropertySymbols(o).map(s => s.description).join());",
    "const xs = []; for (let i = 0; i < 40; i++) xs.push({ k: i % 3, i }); xs.sort((a, b) => a.k - b.k); print(xs.map(x => x.i).join());",
    "print([3, 1, 2, 10, 'b', 'a', undefined, null, NaN, -0].sort().map(String).join());",
    "class A { z() {} a() {} static s() {} 1() {} } print(Object.getOwnPropertyNames(A.prototype).join(), Object.getOwnPropertyNames(A).join());",
    "function f(a, b) { arguments.x = 1; return Reflect.ownKeys(arguments).map(String).join(); } print(f(1, 2, 3));",
    "print(Reflect.ownKeys(function foo(a) {}).join(), Reflect.ownKeys(() => 1).join(), Reflect.ownKeys(class { static x = 1 }).join());",
    "print(Object.getOwnPropertyNames(globalThis).filter(k => !k.startsWith('__')).slice(0, 80).join());",
    "print(Object.getOwnPropertyNames(Array.prototype).join()); print(Object.getOwnPropertyNames(Object).join()); print(Reflect.ownKeys(Symbol).map(String).join());",
    "print(Object.getOwnPropertyNames(String.prototype).join()); print(Object.getOwnPropertyNames(Math).join()); print(Object.getOwnPropertyNames(Promise).join());",
    "print(String(Symbol('d')), Symbol.for('k') === Symbol.for('k'), Symbol.keyFor(Symbol.for('k')), Symbol.keyFor(Symbol('k')), typeof Symbol.iterator);",
    "const o = { b: 1, a: 2 }; const p = Object.create(o); p.c = 3; p.a = 4; const out = []; for (const k in p) out.push(k); print(out.join());",
    "const t = new Uint8Array(4); t.x = 1; print(Reflect.ownKeys(t).join()); const str = new String('ab'); str[5] = 1; str.y = 2; print(Reflect.ownKeys(str).join());",
    "let log = []; Promise.resolve().then(() => log.push(1)); Promise.reject(0).catch(() => log.push(2)); (async () => { await null; log.push(3); })(); Promise.resolve().then(() => print(log.join()));",
    "const e = new Error('m'); print(Object.getOwnPropertyNames(e).join()); try { null.x; } catch (err) { print(err.message, Object.getOwnPropertyNames(err).join()); }",
    "print(JSON.stringify({ b: [1, { d: 1, c: 2 }], a: { 2: 1, 1: 2, x: 0 } }), JSON.stringify(Object.entries({ y: 1, 5: 2, x: 3 })));",
    "const r = /(?<b>b)|(?<a>a)/.exec('a'); print(Object.keys(r.groups).join(), Object.keys(r).join());",
    "const o = {}; for (let i = 0; i < 200; i++) o['k' + (i * 37 % 200)] = i; for (let i = 0; i < 200; i += 3) delete o['k' + i]; print(Object.keys(o).join().length, Object.keys(o).slice(0, 12).join());",
    "var viaVar = 1; let viaLet = 2; function viaFn() {} print(Object.getOwnPropertyDescriptor(globalThis, 'viaVar').configurable, typeof globalThis.viaLet, Object.keys(globalThis).filter(k => k.startsWith('via')).join());",
    "print(typeof g0, typeof g1, typeof viaEval, typeof undefined2, [].push(1), String({}), ({}).zz, ({})[0], Math.max(1, 2), JSON.stringify([1]), (5).toString());",
    "print([..._it()].join()); function* _it() { yield* [1, 2]; } print(String(new TypeError('x')), /a/.exec('a') !== null, new Map().set(1, 2).size, 'x'.valueOf());",
    "function tag(s) { return s; } const a = tag`hello ${1} world`; print(JSON.stringify(a), JSON.stringify(a.raw), Object.getPrototypeOf(a) === Array.prototype, a instanceof Array, a.poisoned, Object.isFrozen(a));",
    "function tag(s) { return s; } function site() { return tag`x${0}y\\n`; } const s1 = site(), s2 = site(); print(s1 === s2, s1.raw[1], s1[1].length, tag`x${0}y\\n` === s1, Object.isFrozen(s1.raw));",
    "const ks = []; for (let i = 0; i < 16; i++) ks.push({ id: i }); const items = []; for (let r = 0; r < 3; r++) for (const k of ks) items.push(k); const m = Map.groupBy(items, x => x); print([...m.keys()].map(k => k.id).join(), [...m.values()].map(v => v.length).join());",
    "const g = Object.groupBy(['pear', 'apple', 'fig', 'kiwi', 'plum', 'avocado'], w => w[0]); print(Object.keys(g).join(), JSON.stringify(g)); const m = Map.groupBy(['pear', 'apple', 'fig', 'kiwi'], w => w[0]); print([...m.keys()].join());",
    "const syms = []; for (let i = 0; i < 12; i++) syms.push(Symbol('s' + i)); const m = Map.groupBy(syms.concat(syms), x => x); print([...m.keys()].map(k => k.description).join());",
    "const os = []; for (let i = 0; i < 20; i++) os.push({ i }); const s = new Set(os); const t = new Set(os.slice(5, 15).reverse()); const show = x => [...x].map(o => o.i).join(); print(show(s.union(t)), '|', show(s.intersection(t)), '|', show(t.difference(new Set(os.slice(0, 8)))), '|', show(s.symmetricDifference(t)));",
    "const os = []; for (let i = 0; i < 20; i++) os.push({ i }); const m = new Map(os.map(o => [o, o.i])); for (let i = 0; i < 20; i += 3) m.delete(os[i]); for (let i = 0; i < 20; i += 6) m.set(os[i], -i); print([...m.values()].join()); const wm = new WeakMap(os.map(o => [o, o.i])); print(os.filter(o => wm.has(o)).length);",
    "const fns = []; for (let i = 0; i < 10; i++) fns.push(function () { return i; }); const m = new Map(); fns.forEach(f => m.set(f, f())); print([...m.values()].join(), [...new Set(fns.concat(fns))].length); print(Object.entries(Object.fromEntries(fns.map((f, i) => ['k' + (9 - i), i]))).join());",
    "const arr = []; for (let i = 0; i < 30; i++) arr.push({ k: i % 4, i }); print(arr.toSorted((a, b) => a.k - b.k).map(x => x.i).join()); print(Array.from(new Set(arr.map(x => x.k))).join(), [...new Map(arr.map(x => [x.k, x.i]))].join());",
    "const p = new Proxy({ b: 1, a: 2, 1: 3 }, {}); print(Reflect.ownKeys(p).join(), JSON.stringify(p)); const o = Object.create({ z: 1 }, { y: { value: 1, enumerable: true }, x: { value: 2, enumerable: true } }); const out = []; for (const k in o) out.push(k); print(out.join());",
    "print(new Intl_or_none()); function Intl_or_none() { return 1; }",
    "const d = Object.getOwnPropertyDescriptors(class { get a() { return 1; } set a(v) {} static b = 2; }.prototype); print(Object.keys(d).join(), typeof d.a.get);",
]

CROSS_REALM = [
    # (script in realm 1, script in realm 2, expected output of realm 2)
    ("__share('arr', [1, 2]); __share('f', function () { return []; }); __share('ctor', Array); __share('err', function () { null.x; });"
     "__share('sym', Symbol.for('k')); __share('proto', Object.prototype); __share('gen', function* () { yield 1; });",
     "const a = __shared('arr'), f = __shared('f'), C = __shared('ctor');"
     "print(Array.isArray(a), a instanceof Array, Object.getPrototypeOf(a) === Array.prototype, Object.getPrototypeOf(a) === C.prototype);"
     "print(Object.getPrototypeOf(f()) === C.prototype, Object.getPrototypeOf(f) === Function.prototype, C !== Array, new C(3).length);"
     "try { __shared('err')(); } catch (e) { print(e instanceof TypeError, e.constructor.name, Object.getPrototypeOf(Object.getPrototypeOf(e)) !== Error.prototype); }"
     "print(__shared('sym') === Symbol.for('k'), __shared('proto') !== Object.prototype, Object.getPrototypeOf(__shared('gen')()) !== Object.getPrototypeOf((function* () {})()));"
     "print(a.map(x => x * 2) instanceof Array, Array.prototype.concat.call(a, [3]) instanceof Array, Array.from(a) instanceof Array, Reflect.construct(C, [], Object) instanceof Object);",
     ["true false false true", "true false true 3", "false TypeError true", "true true true", "false true true true"]),
    ("Object.prototype.leak = 'L'; Array.prototype.push = () => 'P'; __share('o', { a: 1 }); __share('bound', [].push.bind([]));",
     "const o = __shared('o'); print(o.leak, ({}).leak, o.a, __shared('bound')(), [].push(1), 'leak' in {}, Object.keys(o).join());",
     ["L undefined 1 P 1 false a"]),
]


def run(ck):
    ck.trusted_base += [
        "translate/statics.py (text-level scan of core/*/src for `static` items; fail-closed on items it cannot read) and the committed "
        "classification check/props/c20_statics.json — the REASONS recorded there are human judgement, the theorem only checks that none is missing",
        "the realm model states what isolation means; that boa's realms implement it is decided by the correspondence and the differential only",
        "process-level variation is what the OS and the allocator give (ASLR, per-process hash seeds, --pad); not every address layout is explored",
    ]
    rc, out, err = lib.sh([sys.executable, os.path.join(lib.ROOT, "translate", "statics.py")])
    ck.oblige("translate:core/*/src statics->Gen/Statics.lean", "translator", rc == 0, None if rc == 0 else (out + err)[-800:])
    inventory = json.loads(out) if rc == 0 else []
    unclassified = [i["id"] for i in inventory if i.get("class", 0) == 0]
    ck.prove("BoaVerif.C20.Theorems", driver="drv-c20")
    bins = ck.build_harness(["c20"])
    r = lib.rng(ck.seed)
    quick = ck.tier == "quick"

    def engine(batch, pad=None, env=None):
        """batch: list of (id, header-rest, source) run in ONE process"""
        src = []
        for cid, hdr, body in batch:
            src.append("//// %s %s" % (cid, hdr))
            src.append(body)
        args = ["--pad", str(pad)] if pad else []
        rc, out, err = ck.run_bin(bins["c20"], args=args, input="\n".join(src) + "\n", env=env)
        res = {}
        for l in out.split("\n"):
            if l.startswith("{"):
                d = json.loads(l)
                res[d["id"]] = d
        return rc, res, err

    # ---- (i) key order: model (three storages + specification) == engine
    hist = [gen_history(r) for _ in range(500 if quick else 8000)]
    reqs = ["keys " + " ".join("%s %s" % (op, key_tok(k)) for op, k in h) for h in hist]
    model = ck.driver("drv-c20", reqs)
    batch = [("k%d" % i, "ctx=%d drop=1" % (i + 10), history_js(h, r)) for i, h in enumerate(hist)]
    rc, res, err = engine(batch)
    bad = aux_bad = 0
    for i, (h, m) in enumerate(zip(hist, model)):
        parts = dict(p.split("=", 1) for p in m.split()) if "=" in m else {}
        if len(set(parts.values())) != 1 or len(parts) != 4:
            bad += 1
            ck.model_drift({"input": reqs[i], "model": m, "implementation": "-", "note": "the model's storages / specification disagree (theorem ownKeys_storage_independent)"})
            continue
        want = parts["spec"]
        d = res.get("k%d" % i)
        if d is None or len(d["out"]) != 2:
            ck.fail_input({"site": "key-order-harness", "input": batch[i][2], "expected": want, "actual": d and (d["out"], d["completion"])})
            bad += 1
            continue
        if d["out"][0] != want:
            bad += 1
            ck.fail_input({"site": "own-property-keys-order", "input": batch[i][2], "expected": want, "actual": d["out"][0], "oracle": "Lean specKeys (ECMA-262 10.1.11.1)"})
        if d["out"][1] != ",".join(["true"] * 8):
            aux_bad += 1
            ck.fail_input({"site": "derived-key-orders", "input": batch[i][2], "expected": "every derived enumeration consistent with Reflect.ownKeys", "actual": d["out"][1]})
    ck.oblige("correspondence:Reflect.ownKeys == specKeys == ownKeys under three storages on %d operation histories" % len(hist), "correspondence",
              bad == 0 and aux_bad == 0, "%d/%d disagreements" % (bad, aux_bad) if bad or aux_bad else None)

    # ---- (ii) realm slots: model world == engine realms / contexts
    SLOTS = ["globalThis.g%d" % i for i in range(3)] + ["Array.prototype.sx", "Object.prototype.sy", "Math.sz", "String.prototype.sw", "Function.prototype.sq", "globalThis.Array.sa", "JSON.sj"]
    PLACES = ["ctx=1 realm=0", "ctx=1 realm=1", "ctx=2 realm=0", "ctx=1 realm=2", "ctx=2 realm=1"]
    ncase = 60 if quick else 800
    mreq, ebatch, expect_ix = [], [], []
    for c in range(ncase):
        mreq.append("reset")
        nsteps = 3 + r() % 8
        for s in range(nsteps):
            rl = r() % len(PLACES)
            ops, js = [], []
            for _ in range(1 + r() % 6):
                k = r() % 4
                a, b = r() % len(SLOTS), r() % len(SLOTS)
                if k == 0:
                    v = r() % 200 - 100
                    ops.append("set %d %d" % (a, v))
                    js.append("%s = %d;" % (SLOTS[a], v))
                elif k == 1:
                    ops.append("get %d" % a)
                    js.append("print(%s ?? 0);" % SLOTS[a])
                elif k == 2:
                    ops.append("copy %d %d" % (a, b))
                    js.append("%s = (%s ?? 0);" % (SLOTS[a], SLOTS[b]))
                else:
                    ops.append("add %d %d" % (a, b))
                    js.append("%s = (%s ?? 0) + (%s ?? 0);" % (SLOTS[a], SLOTS[a], SLOTS[b]))
            mreq.append("realm %d %s" % (rl, " ".join(ops)))
            ctxpart, realmpart = PLACES[rl].split()
            ebatch.append(("w%d.%d" % (c, s), "ctx=%d %s%s" % (int(ctxpart[4:]) + 100 * (c + 1), realmpart, ""), "\n".join(js)))
            expect_ix.append(len(mreq) - 1)
    mans = ck.driver("drv-c20", mreq)
    rc, res, err = engine(ebatch)
    wbad = 0
    for (cid, _, js), ix in zip(ebatch, expect_ix):
        want = [] if mans[ix] == "-" else mans[ix].split(",")
        d = res.get(cid)
        if d is None or d["out"] != want:
            wbad += 1
            if wbad <= 6:
                ck.fail_input({"site": "realm-slots", "input": js, "id": cid, "expected": want, "actual": d and d["out"], "oracle": "Lean world model (runIn)"})
    ck.oblige("correspondence:realm/contexts slots == Lean world model on %d multi-realm histories (%d scripts)" % (ncase, len(ebatch)), "correspondence",
              wbad == 0, "%d scripts differ" % wbad if wbad else None)

    # ---- (iii) cross-realm identity facts
    xb = 0
    batch = []
    for i, (a, b, want) in enumerate(CROSS_REALM):
        batch.append(("x%d.a" % i, "ctx=%d realm=1" % (i + 1), a))
        batch.append(("x%d.b" % i, "ctx=%d realm=2" % (i + 1), b))
    rc, res, err = engine(batch)
    for i, (a, b, want) in enumerate(CROSS_REALM):
        d = res.get("x%d.b" % i)
        if d is None or d["out"] != want:
            xb += 1
            ck.fail_input({"site": "cross-realm-intrinsics", "input": a + "\n//// other realm\n" + b, "expected": want, "actual": d and (d["out"], d["completion"])})
    ck.oblige("differential:objects passed across realms keep their own realm's intrinsics (%d scenarios)" % len(CROSS_REALM), "differential", xb == 0,
              "%d scenarios differ" % xb if xb else None)

    # ---- (iv) determinism and isolation: the same program under different histories
    progs = list(ORDER_PROGS)
    for _ in range(60 if quick else 1500):
        progs.append(jsgen.gen_program(r, 3 + r() % 2))
    for h in hist[:40 if quick else 400]:
        progs.append(history_js(h, r))
    # A: alone, one process per chunk; B: after histories in other contexts / realms, same process; C: other process, padded heap
    alone = [("p%d" % i, "ctx=%d drop=1" % (i + 1), p) for i, p in enumerate(progs)]
    rc, base, err = engine(alone)
    hostile = []
    for hi, h in enumerate(HISTORIES):
        hostile.append(("h%d" % hi, "ctx=9000", h))          # one long-lived hostile context
        hostile.append(("hr%d" % hi, "ctx=9001 realm=%d budget=4000000000" % (hi + 1), h))   # hostile realms of the context the programs share
    after_ctx = list(hostile) + [("p%d" % i, "ctx=%d drop=1" % (i + 1), p) for i, p in enumerate(progs)]
    rc2, r_ctx, err2 = engine(after_ctx)
    # the instruction budget of the harness is per CONTEXT: sibling realms share it, so the programs are spread over several
    # contexts, each with its own set of hostile realms
    GROUP = 60
    after_realm = list(hostile)
    for gi in range(0, len(progs), GROUP):
        cid = 9001 + gi // GROUP
        if gi:
            for hi, h in enumerate(HISTORIES):
                after_realm.append(("hr%d.%d" % (hi, cid), "ctx=%d realm=%d budget=4000000000" % (cid, hi + 1), h))
        for i in range(gi, min(gi + GROUP, len(progs))):
            after_realm.append(("p%d" % i, "ctx=%d realm=%d" % (cid, 100 + i), progs[i]))
    rc3, r_realm, err3 = engine(after_realm)
    rc4, r_pad, err4 = engine(list(reversed(alone)), pad=3_000_017, env={"MALLOC_PERTURB_": "165", "BOA_VERIF_NOISE": "x" * 1000})
    nd = iso_c = iso_r = budget_skips = 0
    for i, p in enumerate(progs):
        k = "p%d" % i
        b = base.get(k)
        if b is None:
            ck.fail_input({"site": "c20-harness", "input": p, "expected": "a result", "actual": "rc=%s %s" % (rc, err[-200:])})
            continue
        if "budget" in b["completion"] or "NoInstructions" in b["completion"]:
            continue
        for name, other, site in (("padded heap / other process / reverse order", r_pad, "nondeterministic-trace"),
                                  ("after hostile histories in other contexts", r_ctx, "context-isolation"),
                                  ("in a fresh realm of a context with hostile realms", r_realm, "realm-isolation")):
            o = other.get(k)
            if o is not None and "NoInstructionsRemain" in o["completion"]:
                budget_skips += 1       # the harness's per-context instruction budget ran out (sibling realms share it): not a trace difference
                continue
            if o is None or (o["out"], o["completion"], o["jobs"]) != (b["out"], b["completion"], b["jobs"]):
                if site == "nondeterministic-trace":
                    nd += 1
                elif site == "context-isolation":
                    iso_c += 1
                else:
                    iso_r += 1
                ck.fail_input({"site": site, "input": p, "history": name, "expected": {"out": b["out"], "completion": b["completion"]},
                               "actual": o and {"out": o["out"], "completion": o["completion"]}})
    for hi in range(len(HISTORIES)):
        for rs in (r_ctx, r_realm):
            for key in ("h%d" % hi, "hr%d" % hi):
                d = rs.get(key)
                if d is None or d["completion"].startswith("panic"):
                    ck.fail_input({"site": "hostile-history-crashed", "input": HISTORIES[hi], "expected": "the history runs", "actual": d and d["completion"]})
    ck.oblige("differential:trace(P) identical across processes, heap padding and evaluation order (%d programs)" % len(progs), "differential", nd == 0,
              "%d programs differ" % nd if nd else None)
    ck.oblige("differential:trace(P | hostile histories in other contexts) == trace(P) (%d programs, %d histories)" % (len(progs), len(HISTORIES)), "differential",
              iso_c == 0, "%d programs differ" % iso_c if iso_c else None)
    ck.oblige("differential:trace(P in a fresh realm | hostile sibling realms) == trace(P) (%d programs)" % len(progs), "differential", iso_r == 0,
              "%d programs differ" % iso_r if iso_r else None)
    ck.coverage.update({"key_histories": len(hist), "realm_histories": ncase, "programs": len(progs), "hostile_histories": len(HISTORIES),
                        "skipped_budget_exhausted": budget_skips, "statics": len(inventory), "statics_unclassified": unclassified,
                        "statics_by_class": {str(c): sum(1 for i in inventory if i.get("class") == c) for c in range(8)}})
    ck.finish()
