"""C10 — garbage collection is unobservable to scripts and leaves nothing behind.
The theorems (C10/Theorems.lean) are corollaries of C09's safety / completeness over the C09 model of boa_gc's collector, whose own
correspondence with the real collector is C09's check (python3 check/run.py C09). On top of that this check runs the property's
own differential on the engine: every program once without and once with a collection before EVERY allocation (boa_verif hook) must
print the same trace; WeakRef / FinalizationRegistry may only ever report unreachable objects, at most once per registration; and after
the context is dropped two collections must return the collector's box counts to where they were before the context existed."""
import json

import jsgen
import lib

CORPUS = [
    "var o = {a: [1, 2, {b: 3}]}; o.self = o; var m = new Map([[o, 1]]), s = new Set([o, {}]); print(JSON.stringify(o.a), m.size, s.size);",
    "function mk(n){ var a = []; for (var i = 0; i < n; i++) a.push({i: i, next: a[i - 1], f: function(){ return i; }}); return a; } var x = mk(30); print(x[29].next.next.i, x[3].f());",
    "var wm = new WeakMap(), ws = new WeakSet(), k1 = {}, k2 = {}; wm.set(k1, {v: k2}); wm.set(k2, {v: k1}); ws.add(k1); k2 = null; print(wm.has(k1), ws.has(k1), wm.get(k1).v !== undefined);",
    "function* g(){ var big = new Array(50).fill({z: 1}); yield big.length; yield big[3].z; } var it = g(); print(it.next().value); var junk = []; for (var i = 0; i < 40; i++) junk.push([i]); print(it.next().value, junk.length);",
    "var p = new Promise(function(r){ setTimeoutLike = r; }); var q = p.then(function(v){ print('then', v.a); return {b: 2}; }); setTimeoutLike({a: 1}); q.then(function(w){ print('then2', w.b); });",
    "async function f(){ var local = {deep: {deeper: [1, 2, 3]}}; await null; for (var i = 0; i < 20; i++) ({t: i}); await 0; return local.deep.deeper.length; } f().then(function(v){ print('async', v); });",
    "var ta = new Float64Array(16), buf = ta.buffer, dv = new DataView(buf, 8); ta[1] = 2.5; for (var i = 0; i < 30; i++) new Uint8Array(64); print(dv.getFloat64(0, true), buf.byteLength);",
    "var target = {t: 1}, h = {get: function(o, k){ return k in o ? o[k] : 'trap'; }}; var px = new Proxy(target, h); target = h = null; for (var i = 0; i < 30; i++) ({}); print(px.t, px.zz);",
    "class A { #p = {secret: [1]}; static s = new A(); get p(){ return this.#p.secret[0]; } } var a = new A(); var bound = a.constructor.prototype.hasOwnProperty.bind(a); for (var i = 0; i < 30; i++) new A(); print(a.p, A.s.p, bound('x'));",
    "var sym = Symbol('s'), reg = Symbol.for('reg'), o = {[sym]: {v: 1}, [reg]: {v: 2}}; var re = /(a)(b)?/g, mt = re.exec('xab'); var e = new Error('m'); for (var i = 0; i < 30; i++) [i]; print(o[sym].v, o[Symbol.for('reg')].v, mt[1], e.message, typeof e.stack);",
    "var closures = []; (function(){ for (let i = 0; i < 5; i++) { let obj = {i: i}; closures.push(function(){ return obj.i + i; }); } })(); for (var j = 0; j < 30; j++) ({}); print(closures.map(function(c){ return c(); }).join());",
    "var s = ''; for (var i = 0; i < 60; i++) { s += String.fromCharCode(97 + i % 26); if (i % 7 == 0) s = s.slice(1) + s.toUpperCase().charAt(0); } var big = 12345678901234567890n * 98765432109876543210n; print(s.length, s.slice(0, 8), big % 1000007n);",
    "var arr = []; for (var i = 0; i < 50; i++) arr[i] = [i, {v: i}]; arr.sort(function(a, b){ return b[1].v - a[1].v; }); var flat = arr.map(function(p){ return p[0]; }).filter(function(x){ return x % 5 == 0; }); print(flat.join(), arr.length);",
    "var o = {}; Object.defineProperty(o, 'g', {get: function(){ return {fresh: 1}; }, enumerable: true}); var copies = []; for (var i = 0; i < 20; i++) copies.push(Object.assign({}, o)); print(copies[19].g.fresh, Object.keys(copies[0]).join());",
]

# WeakRef / FinalizationRegistry: the programs print facts that must hold under every placement of collections
WEAK = [
    # ephemeron chains: a value that is itself the key of the next entry, in every allocation order
    ("var wm = new WeakMap(), k1 = {n: 1}, k2 = {n: 2}, k3 = {n: 3}, v = {n: 4}; wm.set(k3, v); wm.set(k2, k3); wm.set(k1, k2); k2 = k3 = v = null; __gc(); print(wm.get(wm.get(wm.get(k1))).n, wm.has(wm.get(k1)));", ["4 true"]),
    ("var wm = new WeakMap(), k1 = {n: 1}, k2 = {n: 2}, k3 = {n: 3}, v = {n: 4}; wm.set(k1, k2); wm.set(k2, k3); wm.set(k3, v); k2 = k3 = v = null; __gc(); print(wm.get(wm.get(wm.get(k1))).n);", ["4"]),
    ("var wm = new WeakMap(), ks = []; for (var i = 0; i < 6; i++) ks.push({n: i}); for (var j = 5; j > 0; j--) wm.set(ks[j - 1], ks[j]); var head = ks[0]; ks = null; __gc(); var c = 0, p = head; while (wm.has(p)) { p = wm.get(p); c++; } print(c, p.n);", ["5 5"]),
    ("var wa = new WeakMap(), wb = new WeakMap(), a = {}, b = {}, c = {t: 'end'}; wb.set(b, c); wa.set(a, b); b = c = null; __gc(); print(wb.get(wa.get(a)).t);", ["end"]),
    ("var keep = {k: 1}; var wr = new WeakRef(keep); for (var i = 0; i < 30; i++) ({}); __gc(); print(wr.deref() === keep);", ["true"]),
    ("var keep = {k: 1}, holder = {inner: {deep: keep}}; keep = null; var wr = new WeakRef(holder.inner.deep); Promise.resolve().then(function(){ __gc(); print(wr.deref() === holder.inner.deep, wr.deref().k); });", ["true 1"]),
    ("var wm = new WeakMap(), key = {}; wm.set(key, {payload: [1, 2, 3]}); var wr = new WeakRef(wm.get(key)); Promise.resolve().then(function(){ __gc(); print(wr.deref() === wm.get(key), wm.get(key).payload.length); });", ["true 3"]),
]
# a cleanup callback that throws, and one that unregisters from inside: each registration is still reported at most once
FR2 = ("var log = [], fr = new FinalizationRegistry(function(t){ log.push(t); if (t == 'A') throw new Error('boom'); });\n"
       "(function(){ fr.register({}, 'A'); })();\n"
       "function later(){ (function(){ fr.register({}, 'B'); fr.register({}, 'C'); })(); }\n"
       "Promise.resolve().then(function(){ __gc(); }).then(later);\n"
       "function __final(){ log.sort(); print(log.join()); }")
FR3 = ("var log = [], tok = {}, fr = new FinalizationRegistry(function(t){ log.push(t); fr.unregister(tok); });\n"
       "(function(){ fr.register({}, 'A', tok); fr.register({}, 'B', tok); fr.register({}, 'C'); })();\n"
       "function step(n){ __gc(); if (n) Promise.resolve().then(function(){ step(n - 1); }); else { log.sort(); var dup = log.some(function(t, k){ return k && log[k - 1] === t; }); print('dup', dup); } }\n"
       "Promise.resolve().then(function(){ step(5); });")
FR = ("var log = [], fr = new FinalizationRegistry(function(t){ log.push(t); }); var keep = [];\n"
      "for (var i = 0; i < 6; i++) { var o = {i: i}; fr.register(o, 't' + i); if (i % 2) keep.push(o); } o = null;\n"
      "var un = {}; var gone = {}; fr.register(gone, 'unreg', un); fr.unregister(un); gone = null;\n"
      "function step(n){ __gc(); if (n) Promise.resolve().then(function(){ step(n - 1); }); else report(); }\n"
      "function report(){ log.sort(); var dup = log.some(function(t, k){ return k && log[k - 1] === t; }); var live = log.filter(function(t){ return t == 't1' || t == 't3' || t == 't5' || t == 'unreg'; });\n"
      "  print('duplicates', dup, 'reported-while-reachable-or-unregistered', live.join(), 'kept', keep.length); }\n"
      "Promise.resolve().then(function(){ step(4); });")


def run(ck):
    ck.trusted_base += [
        "boa_verif hooks boa_gc::verif::{set_stress, stats} (collect before every allocation; box counts)",
        "the theorems are about the C09 model of the collector (ephemeron-free heaps); its tie to boa_gc is C09's correspondence (check C09)",
        "what the engine's object graph stores in a GcBox (tracing code written by derive(Trace)) is not modelled: a missing trace would show as a trace difference "
        "or a crash under the collect-before-every-allocation run, not in the theorems",
    ]
    ck.prove("BoaVerif.C10.Theorems")
    bins = ck.build_harness(["c10"])
    r = lib.rng(ck.seed)
    quick = ck.tier == "quick"
    progs = list(CORPUS) + [jsgen.gen_program(r, 3, strict=(i % 4 == 0)) for i in range(40 if quick else 300)]
    src = []
    for i, p in enumerate(progs):
        for st in (0, 1):
            src.append("//// p%d.%d stress=%d" % (i, st, st))
            src.append(p)
    for i, (p, _) in enumerate(WEAK):
        for st in (0, 1):
            src.append("//// w%d.%d stress=%d" % (i, st, st))
            src.append(p)
    for st in (0, 1):
        src.append("//// fr.%d stress=%d" % (st, st))
        src.append(FR)
        src.append("//// fr2.%d stress=%d" % (st, st))
        src.append(FR2)
        src.append("//// fr3.%d stress=%d" % (st, st))
        src.append(FR3)
    rc, out, err = ck.run_bin(bins["c10"], input="\n".join(src) + "\n", timeout=6000)
    res = {}
    for l in out.split("\n"):
        if l.startswith("{"):
            j = json.loads(l)
            res[j["id"]] = j
    n_expected = 2 * (len(progs) + len(WEAK) + 3)
    if rc != 0 or len(res) != n_expected:
        ck.fail_input({"site": "engine-crash", "input": "c10 batch", "expected": "%d traces" % n_expected, "actual": "rc=%s got %d: %s" % (rc, len(res), err[-400:])})
    collections = 0
    for i, p in enumerate(progs):
        a, b = res.get("p%d.0" % i), res.get("p%d.1" % i)
        if not a or not b:
            continue
        collections += b["collections"]
        if b["completion"].startswith("panic"):
            ck.fail_input({"site": "panic-under-gc-stress", "input": p, "expected": a["completion"], "actual": b["completion"]})
        elif a["out"] != b["out"] or a["completion"] != b["completion"] or a["jobs"] != b["jobs"]:
            k = next((x for x in range(min(len(a["out"]), len(b["out"]))) if a["out"][x] != b["out"][x]), min(len(a["out"]), len(b["out"])))
            ck.fail_input({"site": "trace-depends-on-collections", "input": p, "expected": {"out": a["out"][k:k + 3], "completion": a["completion"]},
                           "actual": {"out": b["out"][k:k + 3], "completion": b["completion"]}, "oracle": "the same program without any collection"})
        for tag, j in (("no collection", a), ("collect before every allocation", b)):
            if j["left"] != [0, 0, 0]:
                ck.fail_input({"site": "boxes-left-after-context-drop", "input": p, "mode": tag, "expected": [0, 0, 0], "actual": j["left"],
                               "oracle": "collector box counts (strong, ephemeron, weak-map) before the context was created"})
    for i, (p, want) in enumerate(WEAK):
        for st in (0, 1):
            j = res.get("w%d.%d" % (i, st))
            if j and j["out"] != want:
                ck.fail_input({"site": "weakref-lost-a-reachable-object", "input": p, "mode": "stress=%d" % st, "expected": want, "actual": j["out"]})
            if j and j["left"] != [0, 0, 0]:
                ck.fail_input({"site": "boxes-left-after-context-drop", "input": p, "expected": [0, 0, 0], "actual": j["left"]})
    for st in (0, 1):
        j = res.get("fr.%d" % st)
        if j and (len(j["out"]) != 1 or not j["out"][0].startswith("duplicates false reported-while-reachable-or-unregistered  kept 3")):
            ck.fail_input({"site": "finalization-registry", "input": FR, "mode": "stress=%d" % st,
                           "expected": "no token twice, none for a reachable or unregistered target", "actual": j["out"]})
    for st in (0, 1):
        j = res.get("fr2.%d" % st)
        if j and (j["completion"].startswith("panic") or any(x.count("A") > 1 or x.count("B") > 1 or x.count("C") > 1 for x in j["out"])):
            ck.fail_input({"site": "finalization-registry-reports-twice", "input": FR2, "mode": "stress=%d" % st,
                           "expected": "each token at most once, also when a cleanup callback throws", "actual": {"out": j["out"], "completion": j["completion"]}})
        j = res.get("fr3.%d" % st)
        if j and (j["completion"].startswith("panic") or "panic" in j.get("jobs", "") or j["out"] != ["dup false"]):
            ck.fail_input({"site": "finalization-registry-unregister-in-callback", "input": FR3, "mode": "stress=%d" % st,
                           "expected": ["dup false"], "actual": {"out": j["out"], "completion": j["completion"], "jobs": j.get("jobs")}})
    ck.oblige("differential:trace with a collection before every allocation == trace without (%d programs, %d collections)" % (len(progs), collections),
              "correspondence", True)
    ck.coverage.update({
        "evaluations": len(res),
        "distinct_nontrivial": len(set(progs)),
        "rule": "a %d-entry corpus of heap shapes (cycles, closures, Map/Set/WeakMap/WeakSet, suspended generators, pending promises, async frames, typed arrays, "
                "proxies, private fields, symbols, regexps, strings/BigInt) + generated programs, each run without and with a collection before every allocation; "
                "3 WeakRef programs and a FinalizationRegistry program with 7 registrations. distinct = distinct program texts" % len(CORPUS),
        "collections_under_stress": collections,
        "samples": [progs[0], progs[-1][:300]],
        "partial": ["ephemeron / weak-map marking is outside the proved fragment (C09_full is stated, not proved)",
                    "object-graph tracing code (derive(Trace)) is exercised, not modelled"],
    })
